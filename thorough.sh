#!/bin/bash
# thorough tier: same rules on the default build plus the windows and 386 build variants
set -u
VERIF="$(cd "$(dirname "$0")" && pwd)"
exec "$VERIF/bin/conduitlint" -repo "${VERIF_REPO:-/repo}" -verif "$VERIF" -prop "$1" -tier thorough
