#!/bin/bash
# verify_seed.sh <outdir e.g. /tmp/wt/out/C02/m1> <worktree>
# Confirms a seeded change: patch applies, tree builds, tests of touched pkgs (+ importers listed) pass with patch,
# demo fails with patch and passes without. Writes <outdir>/VERIFY.log and prints a one-line verdict.
set -u
OUT="$1"; WT="$2"
export GOFLAGS=-mod=mod GOPROXY=off
LOG="$OUT/VERIFY.log"; : > "$LOG"
cd "$WT" || exit 2
git checkout -q -- . && git clean -fdq
BASE=$(git -C /repo rev-parse HEAD)
git checkout -q --detach "$BASE"
if ! git apply --check "$OUT/patch.diff" 2>>"$LOG"; then
  # made against the pinned snapshot; a later fix: commit touched the same lines
  BASE=$(git -C /repo rev-list --max-parents=0 HEAD | tail -1)
  git checkout -q --detach "$BASE"
  if ! git apply --check "$OUT/patch.diff" 2>>"$LOG"; then echo "$OUT: PATCH-DOES-NOT-APPLY"; exit 1; fi
fi
echo "base commit $BASE" >>"$LOG"
# packages touched by the patch
PKGS=$(grep '^+++ b/' "$OUT/patch.diff" | sed 's#^+++ b/##' | xargs -n1 dirname | sort -u | sed 's#^#./#')
demo_files=$(ls "$OUT"/*_test.go 2>/dev/null)
demo_pkgs=""
place_demo() {
  for f in $demo_files; do
    # find target dir from DEMO.md: first path-looking token containing the file name, else package clause heuristic
    base=$(basename "$f")
    tgt=$(cat "$OUT/DEMO.md" "$OUT/meta.json" 2>/dev/null | grep -oE "(pkg|cmd|tests)/[A-Za-z0-9_/.-]*/$base" | head -1)
    if [ -z "$tgt" ]; then
      d=$(cat "$OUT/DEMO.md" "$OUT/meta.json" 2>/dev/null | grep -oE "\./(pkg|cmd|tests)/[A-Za-z0-9_/.-]*" | head -1); d=${d%/}
      if [ -z "$d" ]; then d=$(grep -oE "(pkg|cmd|tests)/[A-Za-z0-9_/-]*" "$OUT/DEMO.md" | head -1); fi
      tgt="${d#./}/$base"
    fi
    case "$tgt" in /*|"") echo "bad target '$tgt' for $f" >>"$LOG"; continue;; esac
    [ -d "$(dirname "$tgt")" ] || { echo "target dir missing: $tgt" >>"$LOG"; continue; }
    mkdir -p "$(dirname "$tgt")"; cp "$f" "$tgt"; echo "placed $f -> $tgt" >>"$LOG"
    demo_pkgs="$demo_pkgs ./$(dirname "$tgt")"
  done
}
run_demo() {
  rc=0
  for p in $(echo $demo_pkgs | tr ' ' '\n' | sort -u); do
    o=$(go test -p 4 -count=1 -run 'Demo|C[0-9][0-9][rR][0-9]' "$p" 2>&1); r=$?; echo "$o" >>"$LOG"
    [ $r -ne 0 ] && rc=1
    echo "$o" | grep -q "no tests to run" && { echo "NO DEMO TEST RAN in $p" >>"$LOG"; rc=3; }
  done
  return $rc
}
# 1. unpatched: demo passes
place_demo
run_demo; case $? in 0) A=pass;; 3) A=NOT-RUN;; *) A=FAIL;; esac
# 2. patched: build, existing tests, demo fails
git apply "$OUT/patch.diff"
if go build -p 4 ./... >>"$LOG" 2>&1 && go vet -p 4 $PKGS >>"$LOG" 2>&1; then B=builds; else B=BUILD-FAIL; fi
run_demo; case $? in 0) C=PASS-WITH-PATCH;; 3) C=NOT-RUN;; *) C=fails-with-patch;; esac
# existing tests: remove demo first
for f in $demo_files; do find . -name "$(basename $f)" -not -path './.git/*' -delete; done
IMPORTERS=""
for p in $PKGS; do
  ip="github.com/conduitio/conduit/${p#./}"
  IMPORTERS="$IMPORTERS $(grep -rl --include=*.go "\"$ip\"" pkg cmd *.go 2>/dev/null | xargs -r -n1 dirname | sort -u | sed 's#^#./#' | tr '\n' ' ')"
done
ALL=$(echo $PKGS $IMPORTERS | tr ' ' '\n' | sort -u | tr '\n' ' ')
if go test -p 4 -count=1 $ALL >>"$LOG" 2>&1; then D=suite-pass; else D=SUITE-FAIL; fi
git checkout -q -- . && git clean -fdq
echo "$OUT: base=${BASE:0:7} unpatched-demo=$A patched=$B demo=$C existing=$D pkgs=[$(echo $ALL | wc -w)]"
