#!/bin/bash
# neutral_matrix.sh <dir with n*.diff> : applies each behaviour-preserving patch to /repo, runs ALL properties (dry run, no evidence), reverts.
# Any VIOLATION/UNDECIDED/UNRESOLVED line is a false alarm to be triaged.
REPO=${REPO:-/repo}; cd $REPO || exit 2
if [ -n "$(git status --porcelain)" ]; then echo "/repo is dirty, refusing"; exit 2; fi
for p in "$1"/n*.diff; do
  if ! git apply "$p" 2>/dev/null; then echo "$(basename $p): DOES-NOT-APPLY"; continue; fi
  out=$(${LINT:-/verif/bin/conduitlint} -repo $REPO -verif ${VERIFDIR:-/verif} -prop ALL 2>&1)
  git checkout -q -- . ; git clean -fdq
  bad=$(echo "$out" | grep -E "^\s+(VIOLATION|UNDECIDED|UNRESOLVED)" | sed 's/^ *//' | cut -c1-220)
  if [ -z "$bad" ]; then echo "$(basename $p): silent"; else echo "$(basename $p): ALARM"; echo "$bad" | sed 's/^/    /'; fi
done
