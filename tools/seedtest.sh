#!/bin/bash
# seedtest.sh <patch.diff> <ID...> : apply the seeded change to /repo, run the named checks, undo it.
set -u
P="$1"; shift
cd /repo || exit 2
if [ -n "$(git status --porcelain)" ]; then echo "/repo is dirty, refusing"; exit 2; fi
git apply "$P" || { echo "patch does not apply"; exit 2; }
trap 'git -C /repo checkout -q -- . ' EXIT
for id in "$@"; do
  out=$(/verif/check "$id" quick 2>&1); rc=$?
  echo "== $id exit=$rc"
  echo "$out" | grep -E "VIOLATION|UNDECIDED|UNRESOLVED" | head -8
done
