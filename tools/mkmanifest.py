#!/usr/bin/env python3
"""Regenerates /verif/MANIFEST.json from claims.json (kept next to this script)."""
import json, os
here = os.path.dirname(os.path.abspath(__file__))
verif = os.path.dirname(here)
claims = json.load(open(os.path.join(here, "claims.json")))
props = [json.loads(l)["id"] for l in open(os.path.join(verif, "properties.jsonl"))]
baseline = json.load(open("/root/.vp/BASELINE.json"))["cmd"] if os.path.exists("/root/.vp/BASELINE.json") else ""
def extra_rules(pid, text):
    """Names the armed rules (from the last evidence file) so the claim always matches what runs."""
    ev = os.path.join(verif, "evidence", pid + ".json")
    if not os.path.exists(ev):
        return ""
    try:
        rules = json.load(open(ev))["coverage"]["rules"]
    except Exception:
        return ""
    return " Armed rules (instances on the reference tree): " + "; ".join(f"{r['rule']} [{r['instances']}] {r['what'].split(':')[0][:90]}" for r in rules) + "."

checks, na = [], []
for pid in props:
    c = claims.get(pid)
    if not c or c.get("na"):
        na.append({"property_id": pid, "reason": (c or {}).get("na", "no sound static rule built yet for this property (see DESIGN.md §5)")})
        continue
    checks.append({
        "property_id": pid,
        "quick_cmd": f"./check {pid} quick",
        "thorough_cmd": f"./check {pid} thorough",
        "evidence_file": f"/verif/evidence/{pid}.json",
        "replay_cmd_template": f"./check {pid} --explain {{path}}",
        "engine": "conduitlint",
        "level_claimed": {"category": "other", "text": c["text"] + extra_rules(pid, c["text"]), "design_ref": c.get("design_ref", f"DESIGN.md §5 {pid} and §10")},
        "level_note": c["note"],
        "technique": c["technique"],
    })
m = {
    "version": 1,
    "setup_cmd": "./check --build && ./bin/conduitlint -warm",
    "hooks": {
        "guard": "verif",
        "enable": "n/a: the checks are static analyses of the unmodified working tree; no hook or instrumentation exists in /repo",
        "baseline_off_cmd": baseline,
        "source_commits": [],
        "add_only": True,
    },
    "engines": [{"name": "conduitlint", "path": "/verif/lint", "serves_properties": [c["property_id"] for c in checks],
                 "kind_free_text": "repository-specific static analyser (go/packages + go/types + go/ssa, x/tools v0.50.0, go1.26.8): closed-world who-may-call/who-may-write tables, dominance / must-pass-through and all-exits path rules on SSA, lockset dataflow, exhaustiveness and constant-table evaluation"}],
    "checks": checks,
    "notes": "Static analysis only: no code of /repo is executed by any check. Every check decides named structural clauses that are necessary conditions of its property (level 'other'); evidence lists the rules, the obligations found in the current tree and what is not decided. Genuine defects found are in known-findings.json (fixed entries name the fix: commit).",
    "not_applicable": na,
}
json.dump(m, open(os.path.join(verif, "MANIFEST.json"), "w"), indent=1)
print("checks:", [c["property_id"] for c in checks], "na:", [n["property_id"] for n in na])
