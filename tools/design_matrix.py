#!/usr/bin/env python3
# Puts /verif/seeded/MATRIX.md into DESIGN.md §13 (between the markers) with summary counts.
import re
p='/verif/DESIGN.md'
s=open(p).read()
m=open('/verif/seeded/MATRIX.md').read().strip()
rows=[l for l in m.split('\n')[2:] if l.startswith('|')]
own=sum(1 for l in rows if '| detected |' in l)
other=sum(1 for l in rows if 'other property' in l)
miss=[l.split('|')[1].strip() for l in rows if 'NOT DETECTED' in l]
na=[l.split('|')[1].strip() for l in rows if 'DOES-NOT-APPLY' in l]
summary=f"\n{len(rows)} seeded changes: {own} reported by a rule of their own property, {other} only by a rule of another property, {len(miss)} not reported ({', '.join(miss) or '-'})" + (f", {len(na)} whose patch no longer applies ({', '.join(na)})" if na else "") + ".\n"
a=s.index('<!-- MATRIX-BEGIN -->')+len('<!-- MATRIX-BEGIN -->')
b=s.index('<!-- MATRIX-END -->')
s=s[:a]+"\n\n"+m+"\n"+summary+"\n"+s[b:]
open(p,'w').write(s)
print(summary)
