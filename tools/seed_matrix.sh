#!/bin/bash
# Runs every seeded change under /verif/seeded against ALL properties' quick rules (dry run: no evidence written).
# Writes /verif/seeded/MATRIX.md. The tree ($REPO, default /repo) must be clean; each patch is applied and reverted.
REPO=${REPO:-/repo}
cd /verif
out=${OUT:-seeded/MATRIX.md}
# OUT=<file> with a list of seeded/<id> directories as arguments evaluates a part (rows only, no header)
if [ $# -gt 0 ]; then : > $out; else
echo "| seeded change | property | own check | own rule(s) firing | other properties' rules firing |" > $out
echo "|---|---|---|---|---|" >> $out
fi
if [ -n "$(git -C $REPO status --porcelain)" ]; then echo "$REPO is dirty, refusing"; exit 2; fi
if [ $# -gt 0 ]; then dirs="$@"; else dirs=$(ls -d seeded/C*-m*); fi
for d in $dirs; do
  prop=$(python3 -c "import json;print(json.load(open('$d/meta.json'))['property'])")
  patch=$(python3 -c "import json;print(json.load(open('$d/meta.json'))['patch'])")
  if ! git -C $REPO apply /verif/$d/$patch 2>/dev/null; then
    echo "| $(basename $d) | $prop | PATCH-DOES-NOT-APPLY | | |" >> $out; echo "$(basename $d) PATCH-DOES-NOT-APPLY"; continue
  fi
  res=$(${LINT:-/verif/bin/conduitlint} -repo $REPO -verif ${VERIFDIR:-/verif} -prop ALL 2>&1)
  git -C $REPO checkout -q -- . ; git -C $REPO clean -fdq
  all=$(echo "$res" | grep -oE "^\s+(VIOLATION|UNDECIDED|UNRESOLVED) C[0-9]+\.R[0-9]+" | awk '{print $2}' | sort -u)
  own=$(echo "$all" | grep "^$prop\." | tr '\n' ' ' | xargs)
  oth=$(echo "$all" | grep -v "^$prop\." | tr '\n' ' ' | xargs)
  if [ -n "$own" ]; then v="detected"; elif [ -n "$oth" ]; then v="detected (other property)"; else v="NOT DETECTED"; fi
  echo "| $(basename $d) | $prop | $v | $own | $oth |" >> $out
  echo "$(basename $d) $v $own / $oth"
done
