#!/bin/bash
# Runs every seeded change under /verif/seeded against its property's quick check (and any extra ids given in meta "also").
# Writes /verif/seeded/MATRIX.md. /repo must be clean; each patch is applied and reverted.
cd /verif
out=seeded/MATRIX.md
echo "| seeded change | property | own check | detecting rule(s) |" > $out
echo "|---|---|---|---|" >> $out
for d in seeded/C*-m*; do
  prop=$(python3 -c "import json;print(json.load(open('$d/meta.json'))['property'])")
  patch=$(python3 -c "import json;print(json.load(open('$d/meta.json'))['patch'])")
  res=$(./tools/seedtest.sh /verif/$d/$patch $prop 2>&1)
  rc=$(echo "$res" | grep -o "exit=[0-9]*" | head -1)
  rules=$(echo "$res" | grep -oE "(VIOLATION|UNDECIDED|UNRESOLVED) C[0-9]+\.R[0-9]+" | awk '{print $2}' | sort -u | tr '\n' ' ')
  if echo "$res" | grep -q "does not apply"; then rc="PATCH-DOES-NOT-APPLY"; fi
  echo "| $(basename $d) | $prop | $rc | $rules |" >> $out
  echo "$(basename $d) $rc $rules"
done
