#!/usr/bin/env python3
# Regenerates the "Rules per property" table of DESIGN.md §10 from /verif/evidence/*.json.
import json,glob,re,sys
out=[]
for f in sorted(glob.glob('/verif/evidence/C[0-9][0-9].json')):
    d=json.load(open(f)); cov=d['coverage']
    out.append(f"**{d['property_id']}** — {cov['obligations']} obligations on the reference tree ({cov['distinct_nontrivial']} needing a path/dataflow argument)\n")
    for r in cov['rules']:
        out.append(f"* `{r['rule']}` ({r['instances']} inst., min {r['min_instances']}) {r['what']}")
    out.append("")
table="\n".join(out)
p='/verif/DESIGN.md'
s=open(p).read()
a=s.index("instance count below which the check fails):")+len("instance count below which the check fails):")
b=s.index("---------------------------------------------------------------------------\n\n## 11. Build log")
s=s[:a]+"\n\n"+table+"\n"+s[b:]
open(p,'w').write(s)
print("rules:",sum(1 for l in out if l.startswith('* ')))
