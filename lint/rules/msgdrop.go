package rules

import (
	"fmt"
	"go/token"
	"go/types"

	"conduitlint/kit"

	"golang.org/x/tools/go/ssa"
)

// msgNotDropped: in the v1 stream package, a node that has received a message
// hands it on, acks it or nacks it on every path before it exits or receives
// the next one. A message that is simply forgotten stays open for ever: the
// source node's deferred wait for open messages never returns, so a stop (or a
// force stop) never completes, and the record is neither delivered nor
// dead-lettered.
func msgNotDropped(c *Ctx, r string) {
	p := c.W.Pkg(pStream)
	msgT := c.Type(r, pStream, "Message")
	if p == nil || msgT == nil {
		return
	}
	sp := c.W.SSA[p.Types]
	ackM := c.Fn(r, pStream, "(*Message).Ack")
	nackM := c.Fn(r, pStream, "(*Message).Nack")
	isMsgPtr := func(t types.Type) bool {
		pt, ok := t.(*types.Pointer)
		return ok && types.Identical(pt.Elem(), msgT)
	}
	isMsgChan := func(t types.Type) bool {
		ch, ok := t.Underlying().(*types.Chan)
		return ok && isMsgPtr(ch.Elem())
	}
	n := 0
	for _, fn := range c.W.AllFuncs(sp) {
		root := fn
		for root.Parent() != nil {
			root = root.Parent()
		}
		type source struct {
			at    ssa.Instruction // AllExits starts after this instruction ...
			edges []kit.Edge      // ... or at these edges (select arms)
			msg   ssa.Value
			ok    ssa.Value
			what  string
		}
		var srcs []source
		extract := func(tuple ssa.Value, idx int) ssa.Value {
			refs := tuple.Referrers()
			if refs == nil {
				return nil
			}
			for _, rr := range *refs {
				if ex, ok := rr.(*ssa.Extract); ok && ex.Index == idx {
					return ex
				}
			}
			return nil
		}
		for _, b := range fn.Blocks {
			for _, in := range b.Instrs {
				switch x := in.(type) {
				case *ssa.UnOp:
					if x.Op == token.ARROW && isMsgChan(x.X.Type()) {
						if x.CommaOk {
							srcs = append(srcs, source{at: x, msg: extract(x, 0), ok: extract(x, 1), what: "receive"})
						} else {
							srcs = append(srcs, source{at: x, msg: x, what: "receive"})
						}
					}
				case *ssa.Select:
					k := 0
					for i, st := range x.States {
						if st.Dir != types.RecvOnly {
							continue
						}
						if isMsgChan(st.Chan.Type()) {
							srcs = append(srcs, source{edges: kit.SelectArmEdges(x, i), at: x, msg: extract(x, 2+k), ok: extract(x, 1), what: "select receive"})
						}
						k++
					}
				case *ssa.Call:
					res := x.Call.Signature().Results()
					if res.Len() == 2 && isMsgPtr(res.At(0).Type()) && x.Call.StaticCallee() == nil && !x.Call.IsInvoke() {
						// a trigger function value: msg, err := trigger()
						srcs = append(srcs, source{at: x, msg: extract(x, 0), what: "trigger()"})
					}
				}
			}
		}
		for i, s := range srcs {
			if s.msg == nil {
				continue // the received value is discarded by the source text: nothing to hand on
			}
			if refs := s.msg.Referrers(); refs == nil || len(*refs) == 0 {
				continue // `case _, ok := <-ch`: the value is deliberately not used
			}
			// aliases of the message value
			alias := map[ssa.Value]bool{s.msg: true}
			for changed := true; changed; {
				changed = false
				for _, b := range fn.Blocks {
					for _, in := range b.Instrs {
						switch x := in.(type) {
						case *ssa.Phi:
							if !alias[x] {
								for _, e := range x.Edges {
									if alias[e] {
										alias[x] = true
										changed = true
									}
								}
							}
						case *ssa.ChangeType:
							if alias[x.X] && !alias[x] {
								alias[x] = true
								changed = true
							}
						case *ssa.MakeInterface:
							if alias[x.X] && !alias[x] {
								alias[x] = true
								changed = true
							}
						}
					}
				}
			}
			g := kit.NewGates()
			for _, b := range fn.Blocks {
				for _, in := range b.Instrs {
					switch x := in.(type) {
					case *ssa.Send:
						if alias[x.X] {
							g.AddInstr(x, "sent on")
						}
					case *ssa.Select:
						for si, st := range x.States {
							if st.Dir == types.SendOnly && alias[st.Send] {
								g.AddEdges(kit.SelectArmEdges(x, si), "sent on")
							}
						}
					case *ssa.Store:
						if alias[x.Val] {
							g.AddInstr(x, "stored")
						}
					case *ssa.MapUpdate:
						if alias[x.Value] {
							g.AddInstr(x, "stored")
						}
					case *ssa.Return:
						for _, rv := range x.Results {
							if alias[rv] {
								g.AddInstr(x, "returned to the caller")
							}
						}
					case *ssa.MakeClosure:
						for _, bv := range x.Bindings {
							if alias[bv] {
								g.AddInstr(x, "captured by a function literal")
							}
						}
					case ssa.CallInstruction:
						cc := x.Common()
						for ai, a := range cc.Args {
							if !alias[a] {
								continue
							}
							callee := kit.CalleeOf(cc)
							if ai == 0 && callee != nil && callee.Type().(*types.Signature).Recv() != nil && isMsgPtr(callee.Type().(*types.Signature).Recv().Type()) {
								// a method of Message: only Ack and Nack settle it
								if callee == ackM || callee == nackM {
									g.AddInstr(x, "acked/nacked")
								}
								continue
							}
							g.AddInstr(x, "handed to "+fmt.Sprint(cc.Value.Name()))
						}
					}
				}
			}
			for a := range alias {
				g.AddEdges(kit.NilEdges(a, true), "no message")
			}
			// a control message (created by the node itself to stop its own loop) is not a record
			if ctl := c.W.LookupFunc(pStream, "(*Message).ControlMessageType"); ctl != nil {
				for _, call := range kit.CallsTo(fn, Set(ctl)) {
					if len(call.Common().Args) == 1 && alias[call.Common().Args[0]] && call.Value() != nil {
						cv := call.Value()
						g.AddEdges(kit.CmpEdges(fn, func(b *ssa.BinOp) (bool, bool) {
							_, isK := b.Y.(*ssa.Const)
							if b.X == cv && isK {
								switch b.Op {
								case token.EQL:
									return true, true
								case token.NEQ:
									return true, false
								}
							}
							return false, false
						}), "control message")
					}
				}
			}
			if s.ok != nil {
				g.AddEdges(kit.CondEdges(s.ok, false), "channel closed")
			}
			if call, isCall := s.at.(*ssa.Call); isCall {
				// msg, err := trigger(): a trigger that reports an error hands out no message
				// (base.Trigger's closures return (nil, err))
				g.AddEdges(kit.FailEdges(call), "trigger failed: no message")
			}
			spec := kit.ExitSpec{Gates: g, AlsoExits: map[ssa.Instruction]bool{s.at: true}}
			ok := true
			if len(s.edges) > 0 {
				for _, e := range s.edges {
					if pass, _ := kit.AllExitsFromEdge(e, false, spec); !pass {
						ok = false
					}
				}
			} else if pass, _ := kit.AllExits(s.at, spec); !pass {
				ok = false
			}
			n++
			key := fmt.Sprintf("%s: %s #%d is handed on, acked or nacked on every path", kit.FuncKey(root), s.what, i+1)
			c.R.Check(ok, r, key, c.Pos(posOf(s.at)), "ok", "a path leaves "+kit.FuncKey(fn)+" (or loops to the next receive) after a message was received without sending it on, acking it or nacking it: the message stays open for ever, the source's wait for open messages never returns and a (force) stop never completes", true)
		}
	}
	if n == 0 {
		c.R.Fail(r, "stream nodes: message receives", "", "no receive of a *Message found in the stream package")
	}
}
