package rules

import (
	"go/ast"
	"go/constant"
	"go/token"
	"go/types"
	"strings"

	"conduitlint/kit"

	"golang.org/x/tools/go/packages"
	"golang.org/x/tools/go/ssa"
)

const pProvCfg = "pkg/provisioning/config"

func init() {
	register(&Property{
		ID:          "C15",
		Run:         runC15,
		Explanation: "Decides the structural clauses of a converging, idempotent, atomic import: (R1) field coverage — every field of config.Pipeline/Connector/Processor/DLQ is produced by the exporter, applied by the create action, applied by the update action or classified immutable (⇒ delete+create), and described by the differ; (R2) no action iterates an instance's live reference list while removing from it; (R3) on a failed action exactly the executed prefix actions[:failed+1] is reversed and rolled back, delete actions are the exact inverse of create actions, and the order-sensitive reference lists are compared position by position; (R4) importPipeline is reached only through the public Import, start-up provisioning and transactionalImport, the latter committing only after a successful import with a deferred discard; (R5) a connector is replaced (delete+create, losing its position) only when a field outside the mutable class differs, and no update path writes Instance.State. Rules added later (after independent seeded changes and defect hunts) are not all enumerated here: every armed rule is listed with its description, kind and instance count under coverage.rules.",
		NotDecided:  []string{"convergence over all pairs of configurations (needs execution)", "semantics of cmp.Equal and of the services the actions call"},
		Assumptions: []string{"cmpopts.IgnoreFields ignores exactly the named fields"},
	})
}

func c15StateWriters(c *Ctx) {
	r := c.R.Rule("R6", "K2 (part of C02.R6) an update never rewrites the position: connector.Instance.State has a closed writer set (Source.Ack, SetState, the store decoders) — a config or plugin update through the import leaves it alone", 5)
	stateF := c.Field(r, pConn, "Instance", "State")
	stateWriterTable(c, r, stateF)
}

func runC15(c *Ctx) {
	c15R1(c)
	c15R2(c)
	c15R3(c)
	c15R4(c)
	c15R5(c)
	c15StateWriters(c)
	c14R6As(c, c.R.Rule("R7", "K6 (= C14.R6) a rename is reversible: pipeline.Service.Update frees the OLD name (read before the config is replaced) and reserves the new one — otherwise importing A → B → A, or rolling back a failed renaming import, is refused", 2))
	c15R8(c)
	c15R10(c)
	c15R11(c)
	c15R12(c)
	c15R13(c)
	c15R14(c)
	rollbackSnapshotAs(c, c.R.Rule("R9", "K6/K3 (= C13.R10) a failed live apply leaves the old configuration: the config the in-place rollback re-imports is a snapshot exported before the desired config was committed", 3))
}

// c15R8: the exported config is a snapshot, not a view of the live instances.
func c15R8(c *Ctx) {
	r := c.R.Rule("R8", "K6 export is a copy: the *ToConfig exporters never put the address of a live instance's field into the exported config (the old config an update action keeps for its rollback must not change when the instance is updated)", 4)
	n := 0
	for _, name := range []string{"(*Service).pipelineToConfig", "(*Service).dlqToConfig", "(*Service).connectorToConfig", "(*Service).processorToConfig"} {
		fn := c.SSA(r, pProv, name)
		if fn == nil {
			continue
		}
		n++
		bad := ""
		for _, b := range fn.Blocks {
			for _, in := range b.Instrs {
				fa, ok := in.(*ssa.FieldAddr)
				if !ok {
					continue
				}
				if !liveRoot(fa.X, 0) {
					continue // a field of a local copy (a by-value parameter, a local struct)
				}
				refs := fa.Referrers()
				if refs == nil {
					continue
				}
				for _, rr := range *refs {
					switch y := rr.(type) {
					case *ssa.UnOp, *ssa.FieldAddr, *ssa.IndexAddr:
					case *ssa.Store:
						if y.Val == ssa.Value(fa) {
							bad = c.Pos(fa.Pos())
						}
					default:
						bad = c.Pos(fa.Pos())
					}
				}
			}
		}
		c.R.Check(bad == "", r, name+": no address of a live field escapes into the config", c.Pos(fn.Pos()), "ok", name+" stores the address of a field of the live instance in the exported config ("+bad+"): the 'old config' an import action saved for its rollback silently changes when the action updates the instance, so a failed import restores the NEW values", true)
	}
	if n == 0 {
		c.R.Fail(r, "provisioning exporters", "", "no *ToConfig exporter found")
	}
}

// selectorsOn returns the field names selected, inside fd, on expressions of struct type T.
func selectorsOn(p *packages.Package, fd *ast.FuncDecl, T types.Type) map[string]bool {
	out := map[string]bool{}
	if fd == nil {
		return out
	}
	ast.Inspect(fd, func(n ast.Node) bool {
		se, ok := n.(*ast.SelectorExpr)
		if !ok {
			return true
		}
		tv, ok := p.TypesInfo.Types[se.X]
		if !ok || tv.Type == nil {
			return true
		}
		if types.Identical(derefT(tv.Type), T) {
			out[se.Sel.Name] = true
		}
		return true
	})
	return out
}

// selectorsOnDeep is selectorsOn over fd and the functions of the same package it
// calls statically (bounded depth): a field applied by a helper of the action is applied.
func selectorsOnDeep(p *packages.Package, fd *ast.FuncDecl, T types.Type, depth int) map[string]bool {
	out := selectorsOn(p, fd, T)
	if fd == nil || depth <= 0 {
		return out
	}
	decls := map[*types.Func]*ast.FuncDecl{}
	for _, f := range p.Syntax {
		for _, d := range f.Decls {
			if d2, ok := d.(*ast.FuncDecl); ok {
				if o, ok := p.TypesInfo.Defs[d2.Name].(*types.Func); ok {
					decls[o] = d2
				}
			}
		}
	}
	seen := map[*ast.FuncDecl]bool{fd: true}
	ast.Inspect(fd, func(n ast.Node) bool {
		ce, ok := n.(*ast.CallExpr)
		if !ok {
			return true
		}
		var id *ast.Ident
		switch f := ce.Fun.(type) {
		case *ast.Ident:
			id = f
		case *ast.SelectorExpr:
			id = f.Sel
		}
		if id == nil {
			return true
		}
		if o, ok := p.TypesInfo.Uses[id].(*types.Func); ok {
			if d := decls[o]; d != nil && !seen[d] {
				seen[d] = true
				for k := range selectorsOnDeep(p, d, T, depth-1) {
					out[k] = true
				}
			}
		}
		return true
	})
	return out
}

func litKeysOfType(p *packages.Package, fd *ast.FuncDecl, T types.Type) map[string]bool {
	out := map[string]bool{}
	for _, cl := range litsOfType(p, fd, T) {
		for _, el := range cl.Elts {
			if kv, ok := el.(*ast.KeyValueExpr); ok {
				if id, ok := kv.Key.(*ast.Ident); ok {
					out[id.Name] = true
				}
			}
		}
	}
	return out
}

func stringSliceVar(c *Ctx, rel, name string) map[string]bool {
	out := map[string]bool{}
	p := c.W.Pkg(rel)
	if p == nil {
		return out
	}
	for _, f := range p.Syntax {
		for _, d := range f.Decls {
			gd, ok := d.(*ast.GenDecl)
			if !ok || gd.Tok != token.VAR {
				continue
			}
			for _, sp := range gd.Specs {
				vs := sp.(*ast.ValueSpec)
				for i, n := range vs.Names {
					if n.Name != name || i >= len(vs.Values) {
						continue
					}
					if cl, ok := vs.Values[i].(*ast.CompositeLit); ok {
						for _, el := range cl.Elts {
							if tv := p.TypesInfo.Types[el]; tv.Value != nil && tv.Value.Kind() == constant.String {
								out[constant.StringVal(tv.Value)] = true
							}
						}
					}
				}
			}
		}
	}
	return out
}

func c15R1(c *Ctx) {
	r := c.R.Rule("R1", "K8 field coverage exporter / create / update-or-immutable / differ for config.Pipeline, Connector, Processor and DLQ", 40)
	p := c.W.Pkg(pProv)
	if p == nil {
		c.R.Unresolved(r, pProv)
		return
	}
	type spec struct {
		typ       string
		exporter  string
		create    [2]string // recv, method
		update    [2]string
		differ    string
		immutable map[string]bool
		// fields handled elsewhere, with the reason
		elsewhere map[string]string
	}
	connImm := stringSliceVar(c, pProvCfg, "ConnectorImmutableFields")
	specs := []spec{
		{"Pipeline", "pipelineToConfig", [2]string{"createPipelineAction", "Do"}, [2]string{"updatePipelineAction", "update"}, "diffPipelineFields", nil,
			map[string]string{"Status": "run state, applied by the provisioning service after the import (not a stored setting)", "ID": "identity"}},
		{"Connector", "connectorToConfig", [2]string{"createConnectorAction", "Do"}, [2]string{"updateConnectorAction", "update"}, "diffConnectorFields", connImm,
			map[string]string{"ID": "identity"}},
		{"Processor", "processorToConfig", [2]string{"createProcessorAction", "Do"}, [2]string{"updateProcessorAction", "update"}, "diffProcessorFields", nil,
			map[string]string{"ID": "identity"}},
		{"DLQ", "dlqToConfig", [2]string{"createPipelineAction", "Do"}, [2]string{"updatePipelineAction", "update"}, "diffPipelineFields", nil, nil},
	}
	for si := range specs {
		if specs[si].typ == "Processor" {
			specs[si].immutable = processorRecreateFields(c, r)
		}
	}
	for _, sp := range specs {
		T := c.Type(r, pProvCfg, sp.typ)
		if T == nil {
			continue
		}
		st := T.Underlying().(*types.Struct)
		exp := findDecl(p, "Service", sp.exporter)
		cre := findDecl(p, sp.create[0], sp.create[1])
		upd := findDecl(p, sp.update[0], sp.update[1])
		dif := findDecl(p, "", sp.differ)
		for _, t := range []struct {
			name string
			fd   *ast.FuncDecl
		}{{sp.exporter, exp}, {sp.create[0] + "." + sp.create[1], cre}, {sp.update[0] + "." + sp.update[1], upd}, {sp.differ, dif}} {
			if t.fd == nil {
				c.R.Unresolved(r, pProv+"."+t.name)
			}
		}
		if exp == nil || cre == nil || upd == nil || dif == nil {
			continue
		}
		exported := litKeysOfType(p, exp, T)
		created := selectorsOnDeep(p, cre, T, 2)
		updated := selectorsOnDeep(p, upd, T, 2)
		differed := selectorsOnDeep(p, dif, T, 2)
		for i := 0; i < st.NumFields(); i++ {
			f := st.Field(i).Name()
			key := "config." + sp.typ + "." + f
			c.R.Check(exported[f], r, key+" is exported by "+sp.exporter, c.Pos(exp.Pos()), "set in the exported literal", "field "+key+" is not produced by "+sp.exporter+": the stored state never compares equal to a config that uses it, so every plan reports a change and re-importing is never a no-op", false)
			if why, ok := sp.elsewhere[f]; ok {
				c.R.Pass(r, key+" handled elsewhere", "", why, false)
				continue
			}
			c.R.Check(created[f], r, key+" is applied on create", c.Pos(cre.Pos()), "read by "+sp.create[0]+"."+sp.create[1], "field "+key+" is not read by "+sp.create[0]+"."+sp.create[1]+": a newly imported "+strings.ToLower(sp.typ)+" silently ignores it", false)
			okUpd := updated[f] || sp.immutable[f]
			c.R.Check(okUpd, r, key+" is applied on update (or forces delete+create)", c.Pos(upd.Pos()), "read by the update action / immutable class", "field "+key+" is neither applied by "+sp.update[0]+"."+sp.update[1]+" nor classified immutable: a change of only this field is planned as an update, 'succeeds', and is never stored — the import does not converge", false)
			if sp.typ != "DLQ" && !sp.immutable[f] { // an immutable-field change is a delete+create, never described as an update
				c.R.Check(differed[f], r, key+" is described by "+sp.differ, c.Pos(dif.Pos()), "compared by the differ", "field "+key+" is not compared by "+sp.differ+": a change of it is invisible in the plan an operator approves", false)
			}
		}
	}
}

func c15R2(c *Ctx) {
	r := c.R.Rule("R2", "K14 alias iteration: no provisioning action ranges over an instance's live ProcessorIDs/ConnectorIDs while calling Remove… on that instance", 3)
	p := c.W.Pkg(pProv)
	if p == nil {
		return
	}
	sp := c.W.SSA[p.Types]
	n := 0
	var all []*ssa.Function
	for _, m := range sp.Members {
		switch x := m.(type) {
		case *ssa.Function:
			all = append(all, kit.WithAnon(x)...)
		case *ssa.Type:
			for _, T := range []types.Type{x.Type(), types.NewPointer(x.Type())} {
				ms := c.W.Prog.MethodSets.MethodSet(T)
				for i := 0; i < ms.Len(); i++ {
					if f := c.W.Prog.MethodValue(ms.At(i)); f != nil && f.Pkg == sp && f.Synthetic == "" {
						all = append(all, kit.WithAnon(f)...)
					}
				}
			}
		}
	}
	seen := map[*ssa.Function]bool{}
	for _, fn := range all {
		if seen[fn] {
			continue
		}
		seen[fn] = true
		var removes []ssa.Instruction
		for _, b := range fn.Blocks {
			for _, in := range b.Instrs {
				if ci, ok := in.(ssa.CallInstruction); ok && ci.Common().IsInvoke() && strings.HasPrefix(ci.Common().Method.Name(), "Remove") {
					removes = append(removes, in)
				}
			}
		}
		if len(removes) == 0 {
			continue
		}
		n++
		bad := false
		var at ssa.Instruction
		for _, b := range fn.Blocks {
			for _, in := range b.Instrs {
				ia, ok := in.(*ssa.IndexAddr)
				if !ok {
					continue
				}
				base, f := kit.FieldBase(ia.X)
				if f == nil || (f.Name() != "ProcessorIDs" && f.Name() != "ConnectorIDs") {
					continue
				}
				if pt, ok := base.Type().Underlying().(*types.Pointer); !ok || !strings.HasSuffix(pt.Elem().String(), ".Instance") {
					continue
				}
				for _, rm := range removes {
					if kit.Reaches(ia, rm, nil) && kit.Reaches(rm, ia, nil) {
						bad = true
						at = ia
					}
				}
			}
		}
		pos := c.Pos(fn.Pos())
		if at != nil {
			pos = c.Pos(posOf(at))
		}
		c.R.Check(!bad, r, kit.FuncKey(fn)+": removes references while iterating a copy", pos, "iterates a copy (or does not iterate the live list)", kit.FuncKey(fn)+" ranges over the instance's live reference slice while Remove… shrinks that same backing array: with three or more entries one is skipped and a later removal fails ('ID not found')", true)
	}
	c.R.Check(n >= 2, r, "actions that remove references found", "", "ok", "fewer Remove… callers found in pkg/provisioning than on the reference tree", false)
}

func c15R3(c *Ctx) {
	r := c.R.Rule("R3", "K3 rollback: exactly actions[:failed+1] is reversed and then rolled back; delete actions invert create actions; ordered reference lists are compared position by position", 10)
	fn := c.SSA(r, pProv, "(*Service).importPipeline")
	if fn != nil {
		exec := Set(c.Fn(r, pProv, "(*Service).executeActions"))
		rev := Set(c.Fn(r, pProv, "reverseActions"))
		rb := Set(c.Fn(r, pProv, "(*Service).rollbackActions"))
		build := Set(c.Fn(r, pProv, "(actionsBuilder).Build"))
		var actions, failed ssa.Value
		for _, b := range kit.CallsTo(fn, build) {
			actions = b.Value()
		}
		execs := kit.CallsTo(fn, exec)
		for _, e := range execs {
			failed = kit.ResultN(e, 0)
			a := e.Common().Args
			c.R.Check(a[len(a)-1] == actions, r, "importPipeline: executes the built action list", c.Pos(e.Pos()), "ok", "executeActions does not receive the action list that was built", true)
		}
		revs := kit.CallsTo(fn, rev)
		rbs := kit.CallsTo(fn, rb)
		c.R.Check(len(revs) == 1 && len(rbs) == 1 && len(execs) == 1, r, "importPipeline: one execute, one reverse, one rollback", c.Pos(fn.Pos()), "ok", "importPipeline no longer has exactly one executeActions / reverseActions / rollbackActions call", true)
		if len(revs) == 1 && len(rbs) == 1 && failed != nil {
			ra := revs[0].Common().Args[0]
			ba := rbs[0].Common().Args[len(rbs[0].Common().Args)-1]
			sl, isSl := ra.(*ssa.Slice)
			okPrefix := false
			if isSl && sl.X == actions && sl.Low == nil {
				if add, ok := sl.High.(*ssa.BinOp); ok && add.Op == token.ADD && add.X == failed && kit.IsIntConst(add.Y, 1) {
					okPrefix = true
				}
			}
			c.R.Check(okPrefix, r, "importPipeline: the reversed slice is the executed prefix actions[:failed+1]", c.Pos(revs[0].Pos()), "ok", "reverseActions is applied to something other than actions[:failedIndex+1] (e.g. the whole list before slicing): the actions that did run are not the ones rolled back and a failed import leaves a half-applied config", true)
			c.R.Check(ra == ba, r, "importPipeline: the rolled-back slice is the reversed prefix", c.Pos(rbs[0].Pos()), "same slice", "rollbackActions receives a different slice than the one that was reversed", true)
			c.Dominated(r, "importPipeline: reversed before rolling back", asInstrs(rbs), kit.NewGates().AddInstr(revs[0], ""), "reverseActions(prefix)")
			gFail := kit.NewGates()
			for _, e := range execs {
				gFail.AddEdges(kit.FailEdges(e), "")
			}
			c.Dominated(r, "importPipeline: rollback only when an action failed", asInstrs(rbs), gFail, "the executeActions failure edge")
			// the original error is returned
		}
	}
	if fn := c.SSA(r, pProv, "reverseActions"); fn != nil {
		// swaps actions[i], actions[j] with i++ / j--
		swaps := 0
		for _, b := range fn.Blocks {
			for _, in := range b.Instrs {
				if st, ok := in.(*ssa.Store); ok {
					if _, ok := st.Addr.(*ssa.IndexAddr); ok {
						swaps++
					}
				}
			}
		}
		c.R.Check(swaps == 2, r, "reverseActions swaps in place", c.Pos(fn.Pos()), "2 element stores", "reverseActions no longer swaps elements pairwise", true)
	}
	// delete = inverse of create
	for _, k := range []string{"Pipeline", "Connector", "Processor"} {
		for _, m := range [][2]string{{"Do", "Rollback"}, {"Rollback", "Do"}} {
			fn := c.SSA(r, pProv, "(delete"+k+"Action)."+m[0])
			inv := c.Fn(r, pProv, "(create"+k+"Action)."+m[1])
			if fn == nil || inv == nil {
				continue
			}
			c.R.Check(len(kit.CallsTo(fn, Set(inv))) == 1, r, "delete"+k+"Action."+m[0]+" = create"+k+"Action."+m[1], c.Pos(fn.Pos()), "exact inverse", "delete"+k+"Action."+m[0]+" no longer delegates to create"+k+"Action."+m[1]+": rolling back a delete would not recreate what was deleted", true)
		}
	}
	// order-sensitive comparisons
	for _, name := range []string{"(updatePipelineAction).isEqualConnectors", "(updatePipelineAction).isEqualProcessors", "(updateConnectorAction).isEqual"} {
		fn := c.SSA(r, pProv, name)
		if fn == nil {
			continue
		}
		ok := false
		for _, b := range fn.Blocks {
			for _, in := range b.Instrs {
				cmp, isB := in.(*ssa.BinOp)
				if !isB || (cmp.Op != token.NEQ && cmp.Op != token.EQL) {
					continue
				}
				ix := func(v ssa.Value) ssa.Value {
					u, ok := v.(*ssa.UnOp)
					if !ok {
						return nil
					}
					switch a := u.X.(type) {
					case *ssa.IndexAddr:
						return a.Index
					case *ssa.FieldAddr:
						if ia, ok := a.X.(*ssa.IndexAddr); ok {
							return ia.Index
						}
					}
					return nil
				}
				i1, i2 := ix(cmp.X), ix(cmp.Y)
				if i1 != nil && i1 == i2 {
					ok = true
				}
			}
		}
		c.R.Check(ok, r, name+": compares the ordered lists position by position", c.Pos(fn.Pos()), "ids[i] vs list[i].ID", name+" no longer compares element i with element i: a pure reordering of references is treated as 'equal' and the stored order never converges to the config", true)
	}
}

func c15R4(c *Ctx) {
	r := c.R.Rule("R4", "K1/K3 transactional import: importPipeline's callers are tabled; transactionalImport commits only after the import succeeded and discards by defer", 6)
	imp := c.Fn(r, pProv, "(*Service).importPipeline")
	c.WhoMayRef(r, "Service.importPipeline", Set(imp), []string{pProv + ".(*Service).Import", pProv + ".(*Service).provisionPipeline", pProv + ".(*Service).transactionalImport"})
	for _, name := range []string{"(*Service).transactionalImport", "(*Service).provisionPipeline"} {
		fn := c.SSA(r, pProv, name)
		if fn == nil {
			continue
		}
		commit := c.W.ExtMethod("github.com/conduitio/conduit-commons/database", "Transaction", "Commit")
		discard := c.W.ExtMethod("github.com/conduitio/conduit-commons/database", "Transaction", "Discard")
		var newTx []ssa.CallInstruction
		for _, b := range fn.Blocks {
			for _, in := range b.Instrs {
				if ci, ok := in.(ssa.CallInstruction); ok && ci.Common().IsInvoke() && ci.Common().Method.Name() == "NewTransaction" {
					newTx = append(newTx, ci)
				}
			}
		}
		imports := kit.CallsTo(fn, Set(imp))
		commits := kit.CallsTo(fn, Set(commit))
		c.R.Check(len(newTx) == 1 && len(imports) == 1 && len(commits) >= 1, r, name+": transaction around the import", c.Pos(fn.Pos()), "ok", name+" no longer wraps importPipeline in one store transaction", true)
		c.Dominated(r, name+": import runs inside the transaction", asInstrs(imports), okGates(newTx, ""), "the NewTransaction success edge")
		c.Dominated(r, name+": commit only after the import succeeded", asInstrs(commits), okGates(imports, ""), "the importPipeline success edge")
		// the import uses the transaction's context
		for _, ic := range imports {
			for _, tx := range newTx {
				ctx := kit.ResultN(tx, 1)
				a := ic.Common().Args
				c.R.Check(len(a) >= 2 && (a[1] == ctx || kit.IsVar(a[1], ctx)), r, name+": the import runs with the transaction's context", c.Pos(ic.Pos()), "ok", "importPipeline is called with a context that does not carry the transaction: its writes are not part of the transaction", true)
			}
		}
		hasDiscard := false
		for _, b := range fn.Blocks {
			for _, in := range b.Instrs {
				if d, ok := in.(*ssa.Defer); ok && kit.CalleeOf(&d.Call) == discard {
					hasDiscard = true
				}
			}
		}
		c.R.Check(hasDiscard, r, name+": deferred Discard", c.Pos(fn.Pos()), "defer txn.Discard()", name+" does not discard the transaction by defer", true)
	}
}

func c15R5(c *Ctx) {
	r := c.R.Rule("R5", "K3 state retention: a connector is replaced only when a field outside ConnectorMutableFields differs; update paths never write Instance.State", 3)
	p := c.W.Pkg(pProv)
	if p == nil {
		return
	}
	fd := findDecl(p, "actionsBuilder", "prepareConnectorActions")
	if fd == nil {
		c.R.Unresolved(r, pProv+".(actionsBuilder).prepareConnectorActions")
		return
	}
	// IgnoreFields(config.Connector{}, config.ConnectorMutableFields...) guards the update branch
	hasIgnore := false
	ast.Inspect(fd, func(n ast.Node) bool {
		call, ok := n.(*ast.CallExpr)
		if !ok {
			return true
		}
		if se, ok := call.Fun.(*ast.SelectorExpr); ok && se.Sel.Name == "IgnoreFields" && len(call.Args) == 2 && call.Ellipsis.IsValid() {
			if s2, ok := call.Args[1].(*ast.SelectorExpr); ok && s2.Sel.Name == "ConnectorMutableFields" {
				hasIgnore = true
			}
		}
		return true
	})
	c.R.Check(hasIgnore, r, "prepareConnectorActions: update-vs-replace decided by ConnectorMutableFields", c.Pos(fd.Pos()), "cmpopts.IgnoreFields(config.Connector{}, config.ConnectorMutableFields...)", "prepareConnectorActions no longer decides update-vs-replace by ignoring exactly the mutable field class: a mutable change could delete and recreate the connector and lose its position", false)
	// mutable ∪ immutable ∪ {ID} covers every field of config.Connector
	T := c.Type(r, pProvCfg, "Connector")
	if T != nil {
		mut := stringSliceVar(c, pProvCfg, "ConnectorMutableFields")
		imm := stringSliceVar(c, pProvCfg, "ConnectorImmutableFields")
		st := T.Underlying().(*types.Struct)
		for i := 0; i < st.NumFields(); i++ {
			f := st.Field(i).Name()
			ok := mut[f] || imm[f] || f == "ID"
			both := mut[f] && imm[f]
			c.R.Check(ok && !both, r, "config.Connector."+f+" is classified mutable xor immutable", c.Pos(st.Field(i).Pos()), "classified", "config.Connector."+f+" is not classified (or classified twice) in ConnectorMutableFields / ConnectorImmutableFields", false)
		}
	}
	// update actions never reach SetState
	setState := c.Fam(c.Fn(r, pConn, "(*Service).SetState"))
	for _, rf := range c.W.Refs(setState) {
		if rf.Pkg == pProv || strings.HasPrefix(rf.Pkg, pProv+"/") {
			c.R.Fail(r, "provisioning calls connector SetState in "+rf.Where, c.Pos(rf.Pos), "the provisioning package writes a connector's stored position")
		}
	}
	c.R.Pass(r, "provisioning never writes a connector's position", "", "no SetState reference in pkg/provisioning", false)
}

// liveRoot reports whether the address expression v is rooted in memory the
// caller owns: reached from a pointer parameter (possibly through pointer
// fields), as opposed to a local copy (a by-value parameter spilled to a cell,
// a local struct).
func liveRoot(v ssa.Value, depth int) bool {
	if depth > 8 {
		return false
	}
	switch x := v.(type) {
	case *ssa.Parameter:
		_, isPtr := x.Type().Underlying().(*types.Pointer)
		return isPtr
	case *ssa.FieldAddr:
		return liveRoot(x.X, depth+1)
	case *ssa.IndexAddr:
		return liveRoot(x.X, depth+1)
	case *ssa.UnOp:
		if x.Op != token.MUL {
			return false
		}
		if a, ok := x.X.(*ssa.Alloc); ok {
			// a pointer parameter spilled into a cell
			for _, u := range kit.CellUses(a) {
				if st, ok := u.Instr.(*ssa.Store); ok && st.Addr == ssa.Value(a) {
					if p, ok := st.Val.(*ssa.Parameter); ok {
						return liveRoot(p, depth+1)
					}
				}
			}
			return false
		}
		return liveRoot(x.X, depth+1)
	case *ssa.FreeVar:
		if b := kit.ResolveFreeVar(x); b != nil {
			return liveRoot(b, depth+1)
		}
	}
	return false
}

// c15R10: the action builder looks at every entity of both configs. buildForOldConfig / buildForNewConfig walk the
// connectors and, nested, their processors; a shortcut that leaves a loop early or skips the nested loop (or a lookup)
// for some elements produces a plan that "succeeds" while an old processor is never deleted / a new one never created:
// the stored entities do not equal the configuration.
func c15R10(c *Ctx) {
	r := c.R.Rule("R10", "K4 the diff looks at every entity: in actionsBuilder.buildForOldConfig / buildForNewConfig no loop over connectors or processors is left early, and every iteration reaches the nested processor loop and each find…ByID lookup of its body (no shortcut skips the comparison for some elements)", 10)
	finds := Set(c.Fn(r, pProv, "(actionsBuilder).findProcessorByID"), c.Fn(r, pProv, "(actionsBuilder).findConnectorByID"))
	for _, name := range []string{"(actionsBuilder).buildForOldConfig", "(actionsBuilder).buildForNewConfig"} {
		fn := c.SSA(r, pProv, name)
		if fn == nil {
			continue
		}
		loops := kit.Loops(fn)
		c.R.Check(len(loops) >= 3, r, name+": loops over connectors, their processors and the pipeline's processors", c.Pos(fn.Pos()), "found", "fewer than three loops found", true)
		for _, l := range loops {
			at := c.Pos(posOfBlock(l.Header))
			ee := l.EarlyExits()
			c.R.Check(len(ee) == 0, r, name+": loop is not left early", at, "only the loop condition ends it", "a loop over the configuration's entities can be left before all elements were looked at (break/return in its body): the remaining entities get no create/update/delete action, the import 'succeeds' without converging", true)
			for _, o := range loops {
				if o.Header != l.Header && l.Blocks[o.Header] {
					c.R.Check(l.EveryIterationPasses(o.Header), r, name+": every iteration reaches the nested loop", at, "ok", "an iteration of the connector loop can skip the nested loop over the connector's processors: a processor that was removed from (or added to) a kept connector gets no action — it stays in the processor service and the store (or is never created) although the import succeeds and a re-plan is empty", true)
				}
			}
			for _, call := range kit.CallsTo(fn, finds) {
				if l.Direct(call, loops) {
					c.R.Check(l.EveryIterationPasses(call.Block()), r, name+": every iteration performs the lookup", c.Pos(call.Pos()), "ok", "an iteration can skip the lookup of its element in the other configuration: the element is neither compared nor deleted/created", true)
				}
			}
		}
	}
}

func posOfBlock(b *ssa.BasicBlock) token.Pos {
	for _, in := range b.Instrs {
		if in.Pos() != token.NoPos {
			return in.Pos()
		}
	}
	for _, s := range b.Succs {
		for _, in := range s.Instrs {
			if in.Pos() != token.NoPos {
				return in.Pos()
			}
		}
	}
	return b.Parent().Pos()
}

// stateWriterTable: the closed writer set of connector.Instance.State. The one writer outside pkg/connector is the
// rollback of a failed connector delete (F25), which may only put the deleted connector's own State back.
func stateWriterTable(c *Ctx, r string, stateF *types.Var) {
	c.WhoMayWrite(r, "connector.Instance.State", stateF, []string{
		pConn + ".(*Source).Ack", pConn + ".(*Service).SetState", pConn + ".(*Store).decode", pConn + ".(*Store).migratePre041", pConn + ".(*Store).PrepareSet",
		pOrch + ".(*ConnectorOrchestrator).Delete", // rollback closure: restored.State = conn.State (checked below and by C14.R8)
	}, nil)
	if fn := c.SSA(r, pOrch, "(*ConnectorOrchestrator).Delete"); fn != nil && stateF != nil {
		for _, lit := range kit.WithAnon(fn) {
			for _, st := range kit.FieldStores(lit, stateF) {
				c.R.Check(lit != fn && kit.IsFieldLoad(kit.Unwrap(st.Val), stateF), r, "ConnectorOrchestrator.Delete: the only State it writes is the deleted connector's own, in a rollback closure", c.Pos(st.Pos()), "restored.State = conn.State", "ConnectorOrchestrator.Delete writes a connector position that is not the State of the instance it deleted", true)
			}
		}
	}
}

// processorRecreateFields: the config.Processor fields whose change makes prepareProcessorActions plan a delete+create
// instead of an update (the processor counterpart of ConnectorImmutableFields): `oldConfig.F != newConfig.F` guards a
// return that builds both a deleteProcessorAction and a createProcessorAction.
func processorRecreateFields(c *Ctx, r string) map[string]bool {
	out := map[string]bool{}
	fn := c.SSA(r, pProv, "(actionsBuilder).prepareProcessorActions")
	T := c.W.LookupType(pProvCfg, "Processor")
	if fn == nil || T == nil {
		return out
	}
	st := T.Underlying().(*types.Struct)
	for i := 0; i < st.NumFields(); i++ {
		f := st.Field(i)
		edges := kit.CmpEdges(fn, func(b *ssa.BinOp) (bool, bool) {
			if kit.IsFieldLoad(b.X, f) && kit.IsFieldLoad(b.Y, f) {
				switch b.Op {
				case token.NEQ:
					return true, true
				case token.EQL:
					return true, false
				}
			}
			return false, false
		})
		for _, e := range edges {
			del, cre := false, false
			for _, b := range fn.Blocks {
				if !(b == e.To || e.To.Dominates(b)) {
					continue
				}
				for _, in := range b.Instrs {
					if mi, ok := in.(*ssa.MakeInterface); ok {
						switch {
						case strings.HasSuffix(mi.X.Type().String(), ".deleteProcessorAction"):
							del = true
						case strings.HasSuffix(mi.X.Type().String(), ".createProcessorAction"):
							cre = true
						}
					}
				}
			}
			if del && cre && len(e.To.Preds) == 1 {
				out[f.Name()] = true
			}
		}
	}
	return out
}

// c15R11: F33. The API document decoder produces empty non-nil lists/maps where Export produces nil; the differ must
// not treat that as a change, or re-applying an identical document is never a no-op (on a running pipeline it is
// refused as unauthorised, or drains and restarts it for nothing).
func c15R11(c *Ctx) {
	r := c.R.Rule("R11", "K6 an empty list is a missing list: every cmp.Equal by which the actions builder decides whether an entity changed is given cmpopts.EquateEmpty()", 3)
	eq, _ := c.W.ExtObj("github.com/google/go-cmp/cmp", "Equal").(*types.Func)
	ee, _ := c.W.ExtObj("github.com/google/go-cmp/cmp/cmpopts", "EquateEmpty").(*types.Func)
	if eq == nil || ee == nil {
		c.R.Unresolved(r, "cmp.Equal / cmpopts.EquateEmpty")
		return
	}
	for _, name := range []string{"(actionsBuilder).preparePipelineActions", "(actionsBuilder).prepareConnectorActions", "(actionsBuilder).prepareProcessorActions"} {
		fn := c.SSA(r, pProv, name)
		if fn == nil {
			continue
		}
		calls := kit.CallsTo(fn, Set(eq))
		c.R.Check(len(calls) >= 1, r, name+": compares old and new config", c.Pos(fn.Pos()), "cmp.Equal", "no cmp.Equal call found", true)
		for _, call := range calls {
			a := call.Common().Args
			// the "nothing changed" decision: its true edge returns no action
			noAction := false
			for _, e := range kit.CondEdges(call.Value(), true) {
				for _, ret := range kit.Returns(fn) {
					if (ret.Block() == e.To || e.To.Dominates(ret.Block())) && kit.RetNil(ret, 0) {
						noAction = true
					}
				}
			}
			if !noAction {
				continue
			}
			has := len(a) == 3 && kit.DerivesFrom(a[2], func(x ssa.Value) bool {
				cl, ok := x.(*ssa.Call)
				return ok && kit.CalleeOf(cl.Common()) == ee
			})
			c.R.Check(has, r, name+": the comparison equates empty and nil", c.Pos(call.Pos()), "cmpopts.EquateEmpty()", "cmp.Equal is called without cmpopts.EquateEmpty(): a configuration with an empty (non-nil) processor list or settings map — what the API document decoder produces — never equals the exported state (nil), so re-applying an unchanged document plans pipeline/connector updates for ever", true)
		}
	}
}

// c15R12: F34 (known finding). importPipeline changes the services' in-memory state while it writes through the
// transaction; when it succeeded its own action rollback never runs, and a failing Commit only discards the store
// side. transactionalImport has to compensate on the commit's failure edge (re-import the previous configuration,
// reload the services, …) before it returns the error.
func c15R12(c *Ctx) {
	r := c.R.Rule("R12", "K4 a failed commit is a failed import: behind the failure edge of txn.Commit in transactionalImport the in-memory configuration is restored (a compensating call into the provisioning service) before the error is returned", 1)
	fn := c.SSA(r, pProv, "(*Service).transactionalImport")
	commit := c.W.ExtMethod("github.com/conduitio/conduit-commons/database", "Transaction", "Commit")
	if fn == nil || commit == nil {
		c.R.Unresolved(r, "transactionalImport / Transaction.Commit")
		return
	}
	calls := kit.CallsTo(fn, c.Fam(commit))
	if len(calls) == 0 {
		c.R.Fail(r, "transactionalImport: commits the transaction", c.Pos(fn.Pos()), "no txn.Commit call found")
		return
	}
	for _, call := range calls {
		compensated := false
		for _, e := range kit.FailEdges(call) {
			for _, b := range fn.Blocks {
				if !(b == e.To || e.To.Dominates(b)) {
					continue
				}
				for _, in := range b.Instrs {
					if ci, ok := in.(ssa.CallInstruction); ok {
						if f := ci.Common().StaticCallee(); f != nil && f.Pkg == fn.Pkg && f.Signature.Recv() != nil {
							compensated = true
						}
					}
				}
			}
		}
		c.R.Check(compensated, r, "transactionalImport: a failed commit restores the in-memory configuration", c.Pos(call.Pos()), "compensated", "behind the failure edge of txn.Commit transactionalImport only returns the error: importPipeline has already changed the pipeline/connector/processor services in memory, the deferred Discard undoes the store only — the failed apply leaves Export/Plan/the next Start on a configuration that was never stored (a retry is a no-op, a restart silently reverts)", true)
	}
}

// c15R13: F71 (known finding). "If an import fails, the previous configuration is fully retained": an import that had
// already deleted a connector (it is gone from the new config, or an immutable field changed) and fails later rolls the
// delete back by re-creating the connector through Create — without its State (position) and timestamps. The retained
// pipeline restarts its source from scratch. The provisioning sibling of F25.
func c15R13(c *Ctx) {
	r := c.R.Rule("R13", "K8 a rolled-back connector delete keeps the position: deleteConnectorAction.Rollback (or what it calls) puts the deleted instance's State back on the re-created connector", 1)
	fn := c.SSA(r, pProv, "(deleteConnectorAction).Rollback")
	stateF := c.Field(r, pConn, "Instance", "State")
	if fn == nil || stateF == nil {
		return
	}
	restored := false
	seen := map[*ssa.Function]bool{}
	var walk func(f *ssa.Function, depth int)
	walk = func(f *ssa.Function, depth int) {
		if f == nil || seen[f] || depth < 0 || len(f.Blocks) == 0 {
			return
		}
		seen[f] = true
		if len(kit.FieldStores(f, stateF)) > 0 {
			restored = true
		}
		for _, b := range f.Blocks {
			for _, in := range b.Instrs {
				if ci, ok := in.(ssa.CallInstruction); ok {
					if h := ci.Common().StaticCallee(); h != nil && h.Pkg == fn.Pkg {
						walk(h, depth-1)
					}
				}
			}
		}
	}
	walk(fn, 2)
	c.R.Check(restored, r, "deleteConnectorAction.Rollback: the deleted connector's State is restored", c.Pos(fn.Pos()), "State put back", "deleteConnectorAction.Rollback re-creates the connector through createConnectorAction.Do → ConnectorService.Create, which builds a new instance: State (the source position / destination positions), LastActiveConfig and the timestamps of the deleted connector are gone although the import failed and 'retained' the previous configuration — the pipeline restarts its source from scratch", true)
}

// c15R14: F86/F87 — the entry points above the provisioning service must hand it what start-up provisioning would.
//
//	F86  deploy/apply over a live server: ParseSinglePipeline returns an ENRICHED config (ids `p:src`); the server's
//	     handler enriches the document again and Enrich is not idempotent — the ids became `p:p:src`, so re-deploying an
//	     unchanged file planned the deletion and re-creation of every connector and processor (positions discarded). The
//	     wire document carries the ids with the enrich prefix removed.
//	F87  the --dev watcher applied a file that defines the same pipeline id twice (start-up provisioning skips such ids,
//	     `pipelines validate` rejects the file): every save applied both documents, never a no-op.
func c15R14(c *Ctx) {
	r := c.R.Rule("R14", "K6 entry points agree with start-up provisioning: the remote deploy document's connector/processor Id fields are computed (enrich prefix stripped), never the bare enriched config id; the dev watcher's parseFile passes its pipelines through a duplicate-id filter that reports provisioning.ErrDuplicatedPipelineID", 4)
	const pDeploy = "cmd/conduit/internal/deploy"
	const pDev = "pkg/conduit/dev"
	if p := c.W.Pkg(pDeploy); p != nil {
		n := 0
		for _, fn := range c.W.AllFuncs(c.W.SSA[p.Types]) {
			for _, b := range fn.Blocks {
				for _, in := range b.Instrs {
					st, ok := in.(*ssa.Store)
					if !ok {
						continue
					}
					fa, ok := st.Addr.(*ssa.FieldAddr)
					if !ok {
						continue
					}
					f := kit.FieldOf(fa)
					tn := fa.X.Type().String()
					if f == nil || f.Name() != "Id" || !(strings.Contains(tn, "PipelineDocument_Connector") || strings.Contains(tn, "PipelineDocument_Processor")) {
						continue
					}
					n++
					_, isCall := kit.Unwrap(st.Val).(*ssa.Call)
					c.R.Check(isCall, r, kit.FuncKey(fn)+": the wire id of a connector/processor has the enrich prefix removed", c.Pos(st.Pos()), "computed id", "the remote deploy document carries the already enriched id (`<pipeline>:<connector>`): the server's handler runs config.Enrich again, which is not idempotent — the ids become `<pipeline>:<pipeline>:<connector>`, re-deploying an unchanged file plans the deletion and re-creation of every connector and processor, and applying that plan discards the stored positions", true)
				}
			}
		}
		c.R.Check(n >= 2, r, "deploy: PipelineDocument connector/processor ids", "", "found", "the Id assignments of the remote deploy document were not found", true)
	} else {
		c.R.Unresolved(r, pDeploy)
	}
	dupErr := c.W.LookupObj(pProv, "ErrDuplicatedPipelineID")
	if fn := c.SSA(r, pDev, "(*Watcher).parseFile"); fn != nil && dupErr != nil {
		found := false
		seen := map[*ssa.Function]bool{}
		var walk func(f *ssa.Function, d int)
		walk = func(f *ssa.Function, d int) {
			if f == nil || seen[f] || d < 0 {
				return
			}
			seen[f] = true
			for _, b := range f.Blocks {
				for _, in := range b.Instrs {
					for _, op := range in.Operands(nil) {
						if g, ok := (*op).(*ssa.Global); ok && g.Object() == dupErr {
							found = true
						}
					}
					if ci, ok := in.(ssa.CallInstruction); ok {
						if h := ci.Common().StaticCallee(); h != nil && h.Pkg == fn.Pkg {
							walk(h, d-1)
						}
					}
				}
			}
		}
		walk(fn, 2)
		c.R.Check(found, r, "dev watcher: duplicated pipeline ids in a file are refused", c.Pos(fn.Pos()), "ErrDuplicatedPipelineID reported", "the dev watcher's parseFile validates each document on its own and applies every one of them with allowRestartOnRunning=true: a file that defines the same pipeline id twice (start-up provisioning skips it, `pipelines validate` rejects it) is applied twice per save, the second document over the first, never a no-op and with no error shown", true)
	}
}
