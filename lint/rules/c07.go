package rules

import (
	"go/token"
	"go/types"
	"math"

	"conduitlint/kit"

	"golang.org/x/tools/go/ssa"
)

func init() {
	register(&Property{
		ID:          "C07",
		Run:         runC07,
		Explanation: "Decides the structural clauses of 'DLQ exactly once or stop': (R8 = C01.R8) the source ack of a nacked record is dominated by the DLQ write's success edge and covers exactly the stored prefix; (R2) the v1 DLQ handler latches itself broken whenever building or writing the DLQ record fails (the deferred latch reads the very variable those errors are assigned to) and serves acks/nacks only while running; (R3) status handlers of a message run inside the once-guard only; (R4) in both engines a nack the window refuses is returned as a fatal error when the DLQ is enabled (threshold>0), a v2 DLQ write failure is fatal, and the window is consulted under the DLQ mutex before any write; (R5) both DLQ record builders carry the original record, the nack error and the failing component; (R6) DLQ settings are range-checked before they are stored. Rules added later (after independent seeded changes and defect hunts) are not all enumerated here: every armed rule is listed with its description, kind and instance count under coverage.rules.",
		NotDecided:  []string{"the ring-buffer arithmetic of dlqWindow and v1/v2 decision parity over outcome sequences (run-time values)", "source order of DLQ writes beyond C04", "a nil nack reason supplied by in-process callers (the plugin boundary is covered by C09.R7)"},
		Assumptions: []string{"sync.Once runs its function at most once"},
	})
}

func runC07(c *Ctx) {
	c01R8(c)
	c07R2(c)
	c07R3(c)
	c07R4(c)
	c07R5(c)
	c07R6(c)
	c07R11(c)
	c04R3As(c, c.R.Rule("R12", "K5/K2/K3 (= C04.R3) a failed DLQ hand-off blocks the fan-out cursor: multiAckNacker.released advances only after the parent Ack/Nack for that position succeeded, under m.mu, never past a non-terminal position", 30))
	c01R2As(c, c.R.Rule("R13", "K3 (= C01.R2) the v1 DLQ write needs evidence of success: DLQDestination.Write returns nil only for exactly one ack whose position equals the written record's and that carries no error", 5))
	c08R9As(c, c.R.Rule("R9", "K6 (= C08.R9) the error lands on the record that was rejected: with filtered records present, Batch.setFlagNoErr/setFlagWithErr address recordStatuses only through the active-index map, entry by entry", 4))
	c07R15(c)
	c08R15As(c, c.R.Rule("R14", "K3 (= C08.R15) a destination's rejection reaches the record it was issued for: nacking a piece of a split run never re-activates a filtered sibling, so the active indices of a later ack response still address the records that were written (a rejected record is dead-lettered, not acked)", 1))
	c01R1As(c, c.R.Rule("R10", "K1 (= C01.R1) closed ack entry points: Worker.Ack (which also credits the DLQ window) is reached only from the tabled ack-forwarding functions — never from the nack path, which would count a dead-lettered record as a nack and an ack", 13))
}

func c07R2(c *Ctx) {
	r := c.R.Rule("R2", "K3/K7 v1 broken latch: the deferred latch of DLQHandlerNode.Nack reads the variable that receives the dlqRecord and Handler.Write errors, every later return returns that variable, the write happens under the handler mutex, and Ack/Nack act only while the node is running", 7)
	fn := c.SSA(r, pStream, "(*DLQHandlerNode).Nack")
	if fn == nil {
		return
	}
	broken := c.W.LookupObj(pStream, "dlqHandlerNodeStateBroken")
	running := c.W.LookupObj(pStream, "nodeStateRunning")
	write := c.Fam(c.Fn(r, pStream, "DLQHandler.Write"))
	mkRec := Set(c.Fn(r, pStream, "(*DLQHandlerNode).dlqRecord"))
	// the latch: a deferred closure that calls state.Set(broken) under err != nil
	var latch *ssa.Defer
	var cell ssa.Value
	for _, b := range fn.Blocks {
		for _, in := range b.Instrs {
			d, ok := in.(*ssa.Defer)
			if !ok {
				continue
			}
			cl := closureOf(d)
			if cl == nil {
				continue
			}
			for _, bb := range cl.Blocks {
				for _, i2 := range bb.Instrs {
					call, ok := i2.(*ssa.Call)
					if !ok || len(call.Call.Args) < 2 || !isGlobalLoad(call.Call.Args[len(call.Call.Args)-1], broken) {
						continue
					}
					latch = d
					// gate: err != nil where err is a captured cell
					for _, b3 := range cl.Blocks {
						for _, i3 := range b3.Instrs {
							if u, ok := i3.(*ssa.UnOp); ok && u.Op == token.MUL && isErrorType(u.Type()) {
								if fv, ok := u.X.(*ssa.FreeVar); ok {
									g := kit.NewGates().AddEdges(kit.NilEdges(u, false), "err != nil")
									c.Dominated(r, "DLQHandlerNode.Nack: latch set exactly when the nack failed", []ssa.Instruction{call}, g, "the err != nil edge")
									cell = resolveFreeVar(fv)
								}
							}
						}
					}
				}
			}
		}
	}
	if latch == nil || cell == nil {
		c.R.Fail(r, "DLQHandlerNode.Nack: broken latch", c.Pos(fn.Pos()), "no deferred function that sets the broken state when the nack failed")
		return
	}
	// K7: the errors of dlqRecord and Handler.Write are stored into the cell the latch reads
	for _, call := range append(kit.CallsTo(fn, write), kit.CallsTo(fn, mkRec)...) {
		e := kit.ErrResult(call)
		ok := e != nil && kit.FlowsTo(e, func(in ssa.Instruction, x ssa.Value) bool {
			st, isSt := in.(*ssa.Store)
			return isSt && st.Addr == cell && st.Val == x
		})
		c.R.Check(ok, r, "DLQHandlerNode.Nack: "+kit.CalleeOf(call.Common()).Name()+" error reaches the latch", c.Pos(call.Pos()), "assigned to the latched variable", "the error of "+kit.CalleeOf(call.Common()).Name()+" is assigned to a variable the deferred latch does not read (shadowed err): a failed DLQ write would not break the handler and later records would still be dead-lettered/acked", true)
	}
	// the write happens with the latch armed
	g := kit.NewGates().AddInstr(latch, "defer latch")
	c.Dominated(r, "DLQHandlerNode.Nack: DLQ write happens with the latch armed", asInstrs(kit.CallsTo(fn, write)), g, "the deferred latch registration")
	// every return after the latch returns the latched variable or nil after a successful write
	// (a `return someOtherErr` would bypass the latch)
	for _, ret := range kit.Returns(fn) {
		if !kit.InstrDominates(latch, ret) {
			continue
		}
		v := ret.Results[len(ret.Results)-1]
		ok := false
		if u, isU := v.(*ssa.UnOp); isU && u.Op == token.MUL {
			// load of the result spill; find what was stored
			rv := kit.RetVal(ret, len(ret.Results)-1)
			if kit.IsNilConst(rv) {
				ok = true
			}
			if l, isL := rv.(*ssa.UnOp); isL && l.X == cell {
				ok = true
			}
		}
		if kit.IsNilConst(v) {
			ok = true
		}
		if !ok {
			// `if err != nil { return wrap(err) }`: the return lies behind the
			// non-nil edge of a test of the latched variable and the variable is
			// not reassigned in between, so the latch still fires
			g := kit.NewGates()
			var edges []kit.Edge
			for _, u := range kit.CellUses(cell) {
				if l, isL := u.Instr.(*ssa.UnOp); isL && l.Op == token.MUL && l.Parent() == fn {
					es := kit.NilEdges(l, false)
					edges = append(edges, es...)
					g.AddEdges(es, "latched err != nil")
				}
			}
			if !g.Empty() {
				if pass, _ := kit.MustPass(ret, g); pass {
					ok = true
					for _, u := range kit.CellUses(cell) {
						st, isSt := u.Instr.(*ssa.Store)
						if !isSt || st.Parent() != fn {
							continue
						}
						for _, e := range edges {
							if kit.EdgeReaches(e, st, nil) && kit.Reaches(st, ret, nil) {
								ok = false
							}
						}
					}
				}
			}
		}
		c.R.Check(ok, r, "DLQHandlerNode.Nack: returns the latched error", c.Pos(posOf(ret)), "return err / nil / a wrap of err behind err != nil", "a return after the latch registration returns an error while the latched variable may be nil: that failure would not break the handler", true)
	}
	// the DLQ write is a paired Write-then-Ack exchange on one connector stream: it happens under the
	// handler's mutex, so the nacks of two sources cannot interleave and read each other's ack
	{
		ls := kit.Locksets(fn, c.W.StdLockSpec(), nil)
		for _, call := range kit.CallsTo(fn, write) {
			c.R.Check(containsLock(ls[call], "recv.m"), r, "DLQHandlerNode.Nack: Handler.Write under the handler mutex", c.Pos(call.Pos()), "held "+ls[call], "Handler.Write runs without DLQHandlerNode.m held: with several sources sharing the DLQ, two nacks interleave on the connector stream, each reads the other's ack and both fail although both records were stored — the records are dead-lettered again after the restart", true)
		}
	}
	// running gate for Ack and Nack
	watch := c.W.LookupObj(pStream, "nodeStateRunning")
	_ = watch
	for _, m := range []string{"(*DLQHandlerNode).Nack", "(*DLQHandlerNode).Ack"} {
		f := c.SSA(r, pStream, m)
		if f == nil {
			continue
		}
		win := c.Field(r, pStream, "DLQHandlerNode", "window")
		var uses []ssa.Instruction
		for _, l := range kit.FieldLoads(f, win) {
			if in, ok := l.(ssa.Instruction); ok {
				uses = append(uses, in)
			}
		}
		gRun := kit.NewGates().AddEdges(kit.CmpEdges(f, func(b *ssa.BinOp) (bool, bool) {
			if isGlobalLoad(b.Y, running) || isGlobalLoad(b.X, running) {
				switch b.Op {
				case token.EQL:
					return true, true
				case token.NEQ:
					return true, false
				}
			}
			return false, false
		}), "state == running")
		c.Dominated(r, m+": window consulted only while running", uses, gRun, "the state == nodeStateRunning edge")
	}
}

func c07R3(c *Ctx) {
	r := c.R.Rule("R3", "K1 exactly once: Message status handlers are notified only from inside the ackNackOnce guard of Message.Ack / Message.Nack", 3)
	notify := c.Fn(r, pStream, "(*Message).notifyStatusHandlers")
	onceDo := c.W.ExtMethod("sync", "Once", "Do")
	if notify == nil || onceDo == nil {
		return
	}
	c.WhoMayRef(r, "Message.notifyStatusHandlers", Set(notify), []string{pStream + ".(*Message).Ack", pStream + ".(*Message).Nack"})
	for _, m := range []string{"(*Message).Ack", "(*Message).Nack"} {
		fn := c.SSA(r, pStream, m)
		if fn == nil {
			continue
		}
		// not called directly in the method body, only in a literal that is the argument of Once.Do
		direct := len(kit.CallsTo(fn, Set(notify)))
		inOnce := false
		for _, call := range kit.CallsTo(fn, Set(onceDo)) {
			for _, a := range call.Common().Args {
				if mc, ok := a.(*ssa.MakeClosure); ok && len(kit.CallsTo(mc.Fn.(*ssa.Function), Set(notify))) > 0 {
					inOnce = true
				}
			}
		}
		c.R.Check(direct == 0 && inOnce, r, m+": handlers notified under ackNackOnce", c.Pos(fn.Pos()), "inside Once.Do", m+" notifies the status handlers outside the once-guard: a second ack/nack of the same message would write it to the DLQ or ack it to the source again", true)
	}
}

func c07R4(c *Ctx) {
	c07R4As(c, c.R.Rule("R4", "K3 threshold → fatal: a nack refused by the window returns a fatal error when the threshold is > 0 (both engines), a v2 DLQ write failure is fatal, the window is consulted under the mutex before the write", 8))
}

func c07R4As(c *Ctx, r string) {
	fatal := c.Fn(r, pCerrors, "FatalError")
	isFatalRet := func(ret *ssa.Return) bool {
		v := kit.RetVal(ret, len(ret.Results)-1)
		call, ok := v.(*ssa.Call)
		return ok && kit.CalleeOf(call.Common()) == fatal
	}
	// v1
	if fn := c.SSA(r, pStream, "(*DLQHandlerNode).Nack"); fn != nil {
		winNack := Set(c.Fn(r, pStream, "(*dlqWindow).Nack"))
		thrF := c.Field(r, pStream, "DLQHandlerNode", "WindowNackThreshold")
		write := c.Fam(c.Fn(r, pStream, "DLQHandler.Write"))
		calls := kit.CallsTo(fn, winNack)
		if len(calls) != 1 {
			c.R.Fail(r, "v1 DLQHandlerNode.Nack: window.Nack", c.Pos(fn.Pos()), "expected one window.Nack call")
		}
		for _, wc := range calls {
			// DLQ write only on the accepted edge
			c.Dominated(r, "v1 DLQHandlerNode.Nack: DLQ write only when the window accepted the nack", asInstrs(kit.CallsTo(fn, write)), kit.NewGates().AddEdges(kit.CondEdges(wc.Value(), true), ""), "the window.Nack()==true edge")
			// refused ∧ threshold>0 ⇒ every return is FatalError(...)
			for _, refused := range kit.CondEdges(wc.Value(), false) {
				// the test may sit in Nack itself or in a same-package helper whose result Nack returns on the refused path
				type site struct {
					f    *ssa.Function
					from *kit.Edge
				}
				sites := []site{{fn, &refused}}
				for _, ret := range kit.Returns(fn) {
					if !kit.EdgeReaches(refused, ret, nil) {
						continue
					}
					if call, ok := kit.RetVal(ret, len(ret.Results)-1).(*ssa.Call); ok {
						if h := call.Call.StaticCallee(); h != nil && h.Pkg == fn.Pkg && len(h.Blocks) > 0 {
							sites = append(sites, site{h, nil})
						}
					}
				}
				found := false
				for _, st := range sites {
					thrEdges := kit.IntRangeEdges(st.f, func(x ssa.Value) bool { return kit.IsFieldLoad(x, thrF) }, 1, math.MaxInt64)
					for _, te := range thrEdges {
						if st.from != nil && !kit.EdgeReaches(*st.from, te.From.Instrs[len(te.From.Instrs)-1], nil) && st.from.To != te.From {
							continue
						}
						found = true
						okAll := true
						for _, ret := range kit.Returns(st.f) {
							if kit.EdgeReaches(te, ret, nil) && !isFatalRet(ret) {
								okAll = false
							}
						}
						c.R.Check(okAll, r, "v1 DLQHandlerNode.Nack: threshold exceeded returns a fatal error", c.Pos(st.f.Pos()), "cerrors.FatalError(...)", "the nack-threshold-exceeded branch no longer returns cerrors.FatalError(...): the pipeline would be restarted automatically instead of degraded", true)
					}
				}
				c.R.Check(found, r, "v1 DLQHandlerNode.Nack: threshold test on the refused path", c.Pos(fn.Pos()), "ok", "no WindowNackThreshold > 0 test on the refused path", true)
			}
		}
		spec := c.W.StdLockSpec()
		ls := kit.Locksets(fn, spec, nil)
		for _, wc := range calls {
			c.R.Check(containsLock(ls[wc], "recv.m"), r, "v1 DLQHandlerNode.Nack: window consulted under n.m", c.Pos(wc.Pos()), "held "+ls[wc], "window.Nack is called without n.m", true)
		}
	}
	// v2
	if fn := c.SSA(r, pFunnel, "(*DLQ).Nack"); fn != nil {
		winNack := Set(c.Fn(r, pFunnel, "(*dlqWindow).Nack"))
		thrF := c.Field(r, pFunnel, "DLQ", "windowNackThreshold")
		send := Set(c.Fn(r, pFunnel, "(*DLQ).sendToDLQ"))
		calls := kit.CallsTo(fn, winNack)
		spec := c.W.StdLockSpec()
		ls := kit.Locksets(fn, spec, nil)
		for _, wc := range calls {
			c.R.Check(containsLock(ls[wc], "recv.m"), r, "v2 DLQ.Nack: window consulted under d.m", c.Pos(wc.Pos()), "held "+ls[wc], "window.Nack is called without d.m", true)
		}
		// write failure ⇒ fatal
		for _, sc := range kit.CallsTo(fn, send) {
			for _, fe := range kit.FailEdges(sc) {
				okAll := true
				n := 0
				for _, ret := range kit.Returns(fn) {
					if kit.EdgeReaches(fe, ret, kit.NewGates().AddEdges(kit.OKEdges(sc), "")) {
						// only returns in the failure arm itself (before merging back)
						if ret.Block() == fe.To || fe.To.Dominates(ret.Block()) {
							n++
							if !isFatalRet(ret) {
								okAll = false
							}
						}
					}
				}
				c.R.Check(okAll && n > 0, r, "v2 DLQ.Nack: a DLQ write failure is fatal", c.Pos(sc.Pos()), "cerrors.FatalError(err)", "a failed DLQ write is no longer returned as cerrors.FatalError: the pipeline would restart in a loop and the record would be dead-lettered again and again", true)
			}
			// sendToDLQ gets at most the accepted prefix: dominated by nacked > 0
		}
		// threshold>0 on the partially refused path ⇒ fatal
		thrEdges := kit.IntRangeEdges(fn, func(x ssa.Value) bool { return kit.IsFieldLoad(x, thrF) }, 1, math.MaxInt64)
		c.R.Check(len(thrEdges) > 0, r, "v2 DLQ.Nack: threshold test", c.Pos(fn.Pos()), "ok", "no windowNackThreshold > 0 test", true)
		for _, te := range thrEdges {
			okAll := true
			for _, ret := range kit.Returns(fn) {
				if (ret.Block() == te.To || te.To.Dominates(ret.Block())) && !isFatalRet(ret) {
					okAll = false
				}
			}
			c.R.Check(okAll, r, "v2 DLQ.Nack: threshold exceeded returns a fatal error", c.Pos(fn.Pos()), "cerrors.FatalError(...)", "the nack-threshold-exceeded branch no longer returns cerrors.FatalError(...)", true)
		}
	}
}

func c07R5(c *Ctx) {
	r := c.R.Rule("R5", "K8 DLQ record content: both dlqRecord builders put the original record into Payload.After and set the nack error and the failing component id", 6)
	setErr := c.W.ExtMethod("github.com/conduitio/conduit-commons/opencdc", "Metadata", "SetConduitDLQNackError")
	setNode := c.W.ExtMethod("github.com/conduitio/conduit-commons/opencdc", "Metadata", "SetConduitDLQNackNodeID")
	if setErr == nil || setNode == nil {
		c.R.Unresolved(r, "opencdc.Metadata.SetConduitDLQNack{Error,NodeID}")
		return
	}
	for _, t := range [][2]string{{pStream, "(*DLQHandlerNode).dlqRecord"}, {pFunnel, "(*DLQ).dlqRecord"}} {
		fn := c.SSA(r, t[0], t[1])
		if fn == nil {
			continue
		}
		c.R.Check(len(kit.CallsTo(fn, Set(setErr))) == 1, r, t[1]+": carries the nack error", c.Pos(fn.Pos()), "SetConduitDLQNackError", t[1]+" no longer records the nack error in the DLQ record", true)
		c.R.Check(len(kit.CallsTo(fn, Set(setNode))) == 1, r, t[1]+": carries the failing component", c.Pos(fn.Pos()), "SetConduitDLQNackNodeID", t[1]+" no longer records the failing component in the DLQ record", true)
		// the component id is the one handed in
		for _, call := range kit.CallsTo(fn, Set(setNode)) {
			a := call.Common().Args
			ok := len(a) == 2 && kit.DerivesFrom(a[1], func(v ssa.Value) bool {
				if _, isParam := v.(*ssa.Parameter); isParam {
					return true // the task id / nack metadata handed in by the caller
				}
				return kit.DerivesFromPath(v, "NodeID")
			})
			c.R.Check(ok, r, t[1]+": component id comes from the nack", c.Pos(call.Pos()), "ok", "the failing component recorded in the DLQ record is not the one passed with the nack", true)
		}
		// Payload.After derives from the failed record's Map()
		afterF := c.W.ExtField("github.com/conduitio/conduit-commons/opencdc", "Change", "After")
		okAfter := false
		for _, st := range kit.FieldStores(fn, afterF) {
			if kit.DerivesFrom(st.Val, func(v ssa.Value) bool {
				call, ok := v.(*ssa.Call)
				return ok && kit.CalleeOf(call.Common()) != nil && kit.CalleeOf(call.Common()).Name() == "Map"
			}) {
				okAfter = true
			}
		}
		c.R.Check(okAfter, r, t[1]+": carries the original record", c.Pos(fn.Pos()), "Payload.After = record.Map()", t[1]+" no longer stores the failed record in Payload.After", true)
	}
}

func c07R6(c *Ctx) {
	c07R6As(c, c.R.Rule("R6", "K3 DLQ config validity: pipeline.Service.UpdateDLQ stores the settings only after refusing negative values and a window that is not larger than the threshold", 3))
}

func c07R6As(c *Ctx, r string) {
	fn := c.SSA(r, pPipe, "(*Service).UpdateDLQ")
	if fn == nil {
		return
	}
	dlqF := c.Field(r, pPipe, "Instance", "DLQ")
	stores := storesToField(fn, dlqF, nil)
	if len(stores) == 0 {
		c.R.Fail(r, "UpdateDLQ: DLQ stored", c.Pos(fn.Pos()), "no store of the DLQ settings found")
		return
	}
	field := func(v ssa.Value, name string) bool {
		_, f := kit.FieldBase(v)
		return f != nil && f.Name() == name
	}
	for _, name := range []string{"WindowSize", "WindowNackThreshold"} {
		g := kit.NewGates().AddEdges(kit.IntRangeEdges(fn, func(x ssa.Value) bool { return field(x, name) }, 0, math.MaxInt64), name+" >= 0")
		c.Dominated(r, "UpdateDLQ: negative "+name+" refused before storing", stores, g, "the "+name+" >= 0 edge")
	}
	g := kit.NewGates().AddEdges(kit.CmpEdges(fn, func(b *ssa.BinOp) (bool, bool) {
		if field(b.X, "WindowSize") && field(b.Y, "WindowNackThreshold") {
			switch b.Op {
			case token.LEQ:
				return true, false
			case token.GTR:
				return true, true
			}
		}
		return false, false
	}), "WindowSize > WindowNackThreshold")
	g.AddEdges(kit.IntRangeEdges(fn, func(x ssa.Value) bool { return field(x, "WindowSize") }, math.MinInt64, 0), "WindowSize == 0 (window disabled)")
	c.Dominated(r, "UpdateDLQ: threshold must be lower than a non-zero window", stores, g, "WindowSize > WindowNackThreshold (or WindowSize == 0)")
	_ = types.Typ
}

// c07R11: every record outcome reaches the nack window of the v1 DLQ handler.
func c07R11(c *Ctx) {
	r := c.R.Rule("R11", "K4 v1 window sees every outcome: in DLQHandlerNode.Ack every exit has credited the window, except the not-running and watch-failed exits (no message — filtered or not — is skipped; the v2 engine counts filtered records as acks too)", 1)
	fn := c.SSA(r, pStream, "(*DLQHandlerNode).Ack")
	winF := c.Field(r, pStream, "DLQHandlerNode", "window")
	running := c.W.LookupObj(pStream, "nodeStateRunning")
	ack := c.Fn(r, pStream, "(*dlqWindow).Ack")
	if fn == nil || winF == nil || ack == nil {
		return
	}
	g := kit.NewGates()
	for _, call := range kit.CallsTo(fn, Set(ack)) {
		g.AddInstr(call, "window.Ack()")
	}
	edges := kit.CmpEdges(fn, func(b *ssa.BinOp) (bool, bool) {
		if isGlobalLoad(b.Y, running) || isGlobalLoad(b.X, running) {
			switch b.Op {
			case token.EQL:
				return true, true
			case token.NEQ:
				return true, false
			}
		}
		return false, false
	})
	if g.Empty() || len(edges) == 0 {
		c.R.Fail(r, "DLQHandlerNode.Ack: window credit", c.Pos(fn.Pos()), "window.Ack() or the state==running test not found")
		return
	}
	// every exit of the function has credited the window, except the exits for "not running" and
	// "message context cancelled" (the state watch failed)
	notRunning := kit.CmpEdges(fn, func(b *ssa.BinOp) (bool, bool) {
		if isGlobalLoad(b.Y, running) || isGlobalLoad(b.X, running) {
			switch b.Op {
			case token.EQL:
				return true, false
			case token.NEQ:
				return true, true
			}
		}
		return false, false
	})
	g.AddEdges(notRunning, "state != running")
	for _, b := range fn.Blocks {
		for _, in := range b.Instrs {
			if call, ok := in.(*ssa.Call); ok && call.Call.Method == nil {
				if f := kit.CalleeOf(call.Common()); f != nil && f.Name() == "Watch" {
					g.AddEdges(kit.FailEdges(call), "state watch failed")
				}
			}
		}
	}
	ok, _ := kit.AllExitsFromEdge(kit.Edge{To: fn.Blocks[0]}, false, kit.ExitSpec{Gates: g})
	c.R.Check(ok, r, "DLQHandlerNode.Ack: every acked message credits the window while the node runs", c.Pos(fn.Pos()), "ok", "an exit of DLQHandlerNode.Ack behind the running test skips window.Ack() (e.g. for filtered messages): older nacks are then never pushed out of the window and a rejection the window rule permits stops the pipeline — and the two engines no longer decide alike", true)
}

// c07R15: F67. Behind a v1 fan-out every destination acks its own clone; a clone's ack handler waits for the original
// to be acked or nacked by whoever decides it. When a sibling destination nacked the message and the DLQ absorbed the
// nack (window permits, record stored, source acked), the rejection was TOLERATED: the pipeline goes on. The handler
// therefore answers with the outcome of that nack (Message.Nack is idempotent and returns the deciding call's result),
// never with an error of its own — otherwise every tolerated rejection stops a multi-destination pipeline and the two
// engines decide the same outcome sequence differently.
func c07R15(c *Ctx) {
	r := c.R.Rule("R15", "K3 v1 fan-out: a tolerated rejection does not stop the sibling destinations: in FanoutNode.Run the clone ack handler's return on the <-msg.Nacked() arm is the result of Message.Nack (the deciding nack's outcome), not a freshly constructed error", 1)
	fn := c.SSA(r, pStream, "(*FanoutNode).Run")
	nacked := c.Fn(r, pStream, "(*Message).Nacked")
	nack := c.Fn(r, pStream, "(*Message).Nack")
	if fn == nil || nacked == nil || nack == nil {
		return
	}
	n := 0
	for _, lit := range kit.WithAnon(fn) {
		for _, sel := range kit.Selects(lit) {
			for i, st := range sel.States {
				if st.Dir != types.RecvOnly {
					continue
				}
				cl, ok := st.Chan.(*ssa.Call)
				if !ok || kit.CalleeOf(cl.Common()) != nacked {
					continue
				}
				// returns behind this arm
				for _, e := range kit.SelectArmEdges(sel, i) {
					for _, ret := range kit.Returns(lit) {
						if !(ret.Block() == e.To || e.To.Dominates(ret.Block())) || len(ret.Results) == 0 {
							continue
						}
						if !types.Identical(ret.Results[len(ret.Results)-1].Type(), types.Universe.Lookup("error").Type()) {
							continue
						}
						n++
						v := kit.RetVal(ret, len(ret.Results)-1)
						call, isCall := v.(*ssa.Call)
						c.R.Check(isCall && kit.CalleeOf(call.Common()) == nack, r, "FanoutNode.Run: the clone's ack reports the outcome of the nack that decided the message", c.Pos(posOf(ret)), "msg.Nack(…) result", "the ack handler of a fan-out clone answers a sibling destination's nack with an error of its own ('message was nacked by another node'): the sibling's acker node fails and the pipeline is torn down although the DLQ window tolerated the rejection, stored the record and acked it to the source — with more than one destination the nack window is meaningless, and the arch-v2 engine keeps running for the same outcome sequence", true)
					}
				}
			}
		}
	}
	c.R.Check(n >= 1, r, "FanoutNode.Run: <-msg.Nacked() arm of the clone ack handler", c.Pos(fn.Pos()), "found", "the clone ack handler's Nacked arm was not found", true)
}
