package rules

import (
	"go/ast"
	"go/token"
	"go/types"
	"sort"
	"strings"

	"conduitlint/kit"

	"golang.org/x/tools/go/ssa"
)

const pSDK = "github.com/conduitio/conduit-processor-sdk"

func init() {
	register(&Property{
		ID:          "C08",
		Run:         runC08,
		Explanation: "Decides the structural clauses of exact record accounting: (R1) the parallel arrays of funnel.Batch stay aligned — whoever re-assigns one re-assigns all, every constructor sets them together, sub-batches and clones never alias the parent's backing arrays; (R2) index-shifting marks (Filter/SplitRecord/Nack/SetRecords/Retry) are applied end→start (descending induction variable); (R4 = C04.R4) the tainted loop's span is captured before any task can grow the sub-batch; (R5) the v1 processor node forwards a record only on the position-unchanged edge; (R6) every type switch over the sealed ProcessedRecord interface covers all its implementors and nil or refuses in default; (R7 = C01.R7) split runs are withheld until complete; (R8) every position slice that reaches Source.Ack in v2 comes from originalBatch() and the split run is keyed on Batch.positions. Rules added later (after independent seeded changes and defect hunts) are not all enumerated here: every armed rule is listed with its description, kind and instance count under coverage.rules.",
		NotDecided:  []string{"the index arithmetic itself (activeRecordIndices, findTo, SetRecords, setFlag*) — run-time values", "what a later stage does to an already filtered record beyond the flag bookkeeping"},
		Assumptions: []string{"slices.Clone/Clip and three-index slices cap capacity as documented"},
	})
}

func runC08(c *Ctx) {
	c08Lockstep(c, c.R.Rule("R1", "K10 lockstep + clip: Batch.{records,recordStatuses,positions,runs} are re-assigned together, constructed together, and never shared with the parent at full capacity", 8))
	c08R2(c)
	c04R4(c)
	c08R5(c)
	c08R6(c)
	c01R7(c)
	c08R8(c)
	c08R9(c)
	c08R10(c)
	c08R11(c)
	c08R12(c)
	c09R1As(c, c.R.Rule("R13", "K13 (= C09.R1) short and long processor replies: at each Process call boundary both directions of a length mismatch are diverted (padded / refused) before the reply is used positionally — a short reply is aligned before the end-to-start marking, not patched afterwards", 6))
	c08R16As(c, c.R.Rule("R16", "K3 a conditional processor's reply is always merged back: in RunnableProcessor.Process every return lies behind the `cond == nil` edge or behind the merge decision (`len(passthrough) == len(records)`) — no reply shape (surplus results) returns the plugin's or a substitute result list without re-inserting the records that did not match the condition, which would attach results to the wrong records", 1))
	c08R15As(c, c.R.Rule("R15", "K3 marking a record never changes which records are active: in Batch.setFlagWithErr the split-run propagation overwrites a piece's flag only behind the `Flag != RecordFlagFilter` edge — otherwise a later active index of the same call sequence (the next destination ack response) resolves to the wrong record", 1))
	c01R5As(c, c.R.Rule("R14", "K3 (= C01.R5) a group is settled in place only when it really has nothing left to process: Worker.doTaskAttempt hands a (sub-)batch to acker.Ack only when no task follows or THAT batch has no active records", 2))
}

// c08R12: the split ledger's member count follows "one live member replaced by len(recs)".
func c08R12(c *Ctx) {
	c08R12As(c, c.R.Rule("R12", "K9 split ledger arithmetic: Batch.SplitRecord creates a run with total 1 (the member being replaced) and adds exactly len(recs)-1 per split — the count complete() compares terminalCount with", 2))
}

func c08R12As(c *Ctx, r string) {
	fn := c.SSA(r, pFunnel, "(*Batch).SplitRecord")
	totalF := c.Field(r, pFunnel, "splitRun", "total")
	if fn == nil || totalF == nil {
		return
	}
	nInit, nInc := 0, 0
	for _, st := range kit.FieldStores(fn, totalF) {
		switch v := st.Val.(type) {
		case *ssa.Const:
			nInit++
			c.R.Check(kit.IsIntConst(v, 1), r, "SplitRecord: a new run starts with one member", c.Pos(st.Pos()), "total: 1", "a new split run does not start with total 1", true)
		case *ssa.BinOp:
			nInc++
			// total + (len(recs) - 1)  or  (total + len(recs)) - 1
			ok := false
			isTotal := func(x ssa.Value) bool { return kit.IsFieldLoad(x, totalF) }
			isLen := func(x ssa.Value) bool { return kit.IsLenOf(x, nil) }
			isLenM1 := func(x ssa.Value) bool {
				b, ok := x.(*ssa.BinOp)
				return ok && b.Op == token.SUB && isLen(b.X) && kit.IsIntConst(b.Y, 1)
			}
			if v.Op == token.ADD && ((isTotal(v.X) && isLenM1(v.Y)) || (isTotal(v.Y) && isLenM1(v.X))) {
				ok = true
			}
			if v.Op == token.SUB && kit.IsIntConst(v.Y, 1) {
				if a, isA := v.X.(*ssa.BinOp); isA && a.Op == token.ADD && ((isTotal(a.X) && isLen(a.Y)) || (isTotal(a.Y) && isLen(a.X))) {
					ok = true
				}
			}
			c.R.Check(ok, r, "SplitRecord: a split adds len(recs)-1 members", c.Pos(st.Pos()), "total += len(recs)-1", "the run's member count is not advanced by len(recs)-1: after a piece is split again terminalCount can never equal total, so the original position is never acked nor dead-lettered (or is released early)", true)
		default:
			c.R.Undecided(r, "SplitRecord: update of splitRun.total", c.Pos(st.Pos()), "unrecognised update of the run's member count")
		}
	}
	// the literal form: &splitRun{..., total: 1}
	if nInit == 0 {
		c.R.Fail(r, "SplitRecord: new run initial total", c.Pos(fn.Pos()), "no initialisation of splitRun.total found (a new run must start with one member)")
	}
	if nInc == 0 {
		c.R.Fail(r, "SplitRecord: member count update", c.Pos(fn.Pos()), "no update of splitRun.total found")
	}
}

// c08R11: a filtered message stays filtered across the fan-out (F21).
func c08R11(c *Ctx) {
	c08R11As(c, c.R.Rule("R11", "K8/K3 v1 filtered stays filtered: Message.Clone carries every Message field that DestinationNode.Run reads to decide on the write, and Destination.Write happens only on the !msg.filtered edge", 3))
}

func c08R11As(c *Ctx, r string) {
	msgT := c.Type(r, pStream, "Message")
	clone := c.SSA(r, pStream, "(*Message).Clone")
	run := c.SSA(r, pStream, "(*DestinationNode).Run")
	filteredF := c.Field(r, pStream, "Message", "filtered")
	if msgT == nil || clone == nil || run == nil || filteredF == nil {
		return
	}
	st, ok := msgT.Underlying().(*types.Struct)
	if !ok {
		return
	}
	read := map[*types.Var]bool{filteredF: true}
	for i := 0; i < st.NumFields(); i++ {
		f := st.Field(i)
		if len(kit.FieldLoads(run, f)) > 0 {
			read[f] = true
		}
	}
	for i := 0; i < st.NumFields(); i++ {
		f := st.Field(i)
		if !read[f] {
			continue
		}
		c.R.Check(len(kit.FieldStores(clone, f)) > 0, r, "Message.Clone carries "+f.Name(), c.Pos(clone.Pos()), "set", "Message.Clone does not copy Message."+f.Name()+", which DestinationNode.Run reads: behind a multi-destination fan-out every branch sees the zero value (a filtered record is written by every destination)", false)
	}
	g := kit.NewGates()
	for _, l := range kit.FieldLoads(run, filteredF) {
		g.AddEdges(kit.CondEdges(l, false), "!msg.filtered")
	}
	c.Dominated(r, "DestinationNode.Run: writes only unfiltered messages", asInstrs(kit.CallsTo(run, c.Fam(c.Fn(r, pStream, "Destination.Write")))), g, "the !msg.filtered edge")
}

// c08R10: a condition error takes the slot of the record it belongs to.
func c08R10(c *Ctx) {
	r := c.R.Rule("R10", "K3 condition error stays with its record: in RunnableProcessor.Process no record is evaluated after a condition evaluation failed (the single error result appended after the kept/passthrough prefix then sits at the failing record's index)", 2)
	fn := c.SSA(r, pProc, "(*RunnableProcessor).Process")
	if fn == nil {
		return
	}
	evals := kit.CallsTo(fn, Set(c.Fn(r, pProc, "(*processorCondition).Evaluate")))
	if len(evals) == 0 {
		c.R.Fail(r, "RunnableProcessor.Process: condition evaluation", c.Pos(fn.Pos()), "no cond.Evaluate call found")
		return
	}
	nErr := 0
	for _, b := range fn.Blocks {
		for _, in := range b.Instrs {
			if mi, ok := in.(*ssa.MakeInterface); ok && strings.HasSuffix(mi.X.Type().String(), "ErrorRecord") {
				nErr++
			}
		}
	}
	for _, ev := range evals {
		fe := kit.FailEdges(ev)
		c.R.Check(len(fe) > 0, r, "RunnableProcessor.Process: condition error is tested", c.Pos(ev.Pos()), "ok", "the error of cond.Evaluate is not tested", true)
		bad := false
		for _, e := range fe {
			for _, ev2 := range evals {
				if kit.EdgeReaches(e, ev2, nil) {
					bad = true
				}
			}
		}
		c.R.Check(!bad, r, "RunnableProcessor.Process: evaluation stops at the first condition error", c.Pos(ev.Pos()), "no Evaluate reachable from the failure edge", "after a failed condition evaluation later records are still evaluated: the single error result appended at the end no longer sits at the failing record's index, so another record receives the error and the failing one is acked", true)
	}
}

func c08Lockstep(c *Ctx, r string) {
	p := c.W.Pkg(pFunnel)
	if p == nil {
		c.R.Unresolved(r, pFunnel)
		return
	}
	names := []string{"records", "recordStatuses", "positions", "runs"}
	fields := map[string]*types.Var{}
	for _, n := range names {
		fields[n] = c.Field(r, pFunnel, "Batch", n)
	}
	batchT := c.Type(r, pFunnel, "Batch")
	if batchT == nil {
		return
	}
	// (a) whole-field assignments
	byFn := map[string]map[string]bool{}
	for n, f := range fields {
		for _, w := range c.W.FieldWrites(f) {
			if w.Kind != "assign" {
				continue
			}
			if byFn[w.Where] == nil {
				byFn[w.Where] = map[string]bool{}
			}
			byFn[w.Where][n] = true
		}
	}
	var fns []string
	for k := range byFn {
		fns = append(fns, k)
	}
	sort.Strings(fns)
	for _, fn := range fns {
		set := byFn[fn]
		// a function that only (re)creates runs lazily is fine; any function assigning records/statuses/positions must assign all four
		if set["records"] || set["recordStatuses"] || set["positions"] {
			ok := set["records"] && set["recordStatuses"] && set["positions"] && set["runs"]
			c.R.Check(ok, r, fn+": re-assigns all parallel arrays together", "", "records, recordStatuses, positions, runs", fn+" re-assigns only "+strings.Join(sortedKeys(set), ",")+" of the parallel arrays: the i-th status/position/run no longer belongs to the i-th record", false)
		}
	}
	if len(fns) == 0 {
		c.R.Fail(r, "Batch: length-changing function", "", "no function re-assigning the parallel arrays found (SplitRecord expected)")
	}
	// (d) composite literals of Batch: records, recordStatuses, positions all or none
	for _, f := range p.Syntax {
		ast.Inspect(f, func(n ast.Node) bool {
			cl, ok := n.(*ast.CompositeLit)
			if !ok {
				return true
			}
			tv, ok := p.TypesInfo.Types[cl]
			if !ok || !types.Identical(derefT(tv.Type), batchT) {
				return true
			}
			has := map[string]bool{}
			for _, el := range cl.Elts {
				if kv, ok := el.(*ast.KeyValueExpr); ok {
					if id, ok := kv.Key.(*ast.Ident); ok {
						has[id.Name] = true
					}
				}
			}
			where := c.W.EnclosingKey(cl.Pos())
			cnt := 0
			for _, n := range names[:3] {
				if has[n] {
					cnt++
				}
			}
			c.R.Check(cnt == 3 || cnt == 0, r, where+": Batch literal sets records/statuses/positions together", c.Pos(cl.Pos()), "aligned", "a Batch literal in "+where+" sets only some of records/recordStatuses/positions", false)
			return true
		})
	}
	// (b) sub: three-index slices
	if sub := c.SSA(r, pFunnel, "(*Batch).sub"); sub != nil {
		for _, n := range names {
			for _, st := range kit.FieldStores(sub, fields[n]) {
				ok := true
				var check func(v ssa.Value) bool
				check = func(v ssa.Value) bool {
					switch x := v.(type) {
					case *ssa.Slice:
						return x.Max != nil
					case *ssa.Phi:
						for _, e := range x.Edges {
							if !check(e) {
								return false
							}
						}
						return true
					case *ssa.Const:
						return x.IsNil()
					case *ssa.Call:
						return true // fresh value from a helper (Clone/Clip/make-like)
					case *ssa.MakeSlice:
						return true
					}
					return false
				}
				ok = check(st.Val)
				c.R.Check(ok, r, "Batch.sub: "+n+" is capacity-clipped", c.Pos(st.Pos()), "b."+n+"[from:to:to]", "Batch.sub shares b."+n+" with spare capacity (two-index slice): an append in the sub-batch (SplitRecord) overwrites the parent's following records", true)
			}
		}
	}
	// (c) clone: nothing is the receiver's own slice
	if cl := c.SSA(r, pFunnel, "(*Batch).clone"); cl != nil {
		for _, n := range names {
			stores := kit.FieldStores(cl, fields[n])
			if len(stores) == 0 {
				c.R.Fail(r, "Batch.clone: "+n, c.Pos(cl.Pos()), "clone does not set "+n)
			}
			for _, st := range stores {
				alias := kit.IsFieldLoad(st.Val, fields[n])
				if s, ok := st.Val.(*ssa.Slice); ok && s.Max == nil && kit.IsFieldLoad(s.X, fields[n]) {
					alias = true
				}
				c.R.Check(!alias, r, "Batch.clone: "+n+" does not alias the original at full capacity", c.Pos(st.Pos()), "fresh/clipped copy", "Batch.clone stores the original's "+n+" slice itself: branches of a fan-out then overwrite each other's entries", true)
			}
		}
		// K8 field coverage: a clone carries every field of the batch (a field left at its zero value —
		// filterCount, tainted — makes the copy disagree with its own records/statuses)
		if st, ok := batchT.Underlying().(*types.Struct); ok {
			for i := 0; i < st.NumFields(); i++ {
				f := st.Field(i)
				c.R.Check(len(kit.FieldStores(cl, f)) > 0, r, "Batch.clone: carries "+f.Name(), c.Pos(cl.Pos()), "set", "Batch.clone does not copy Batch."+f.Name()+": the branches of a fan-out see a batch whose "+f.Name()+" disagrees with its records and statuses", false)
			}
		}
		// splitRecords deep-copied
		srF := c.Field(r, pFunnel, "Batch", "splitRecords")
		for _, st := range kit.FieldStores(cl, srF) {
			c.R.Check(!kit.IsFieldLoad(st.Val, srF), r, "Batch.clone: splitRecords map is copied", c.Pos(st.Pos()), "fresh map", "Batch.clone shares the splitRecords map with the original", true)
		}
	}
}

func c08R2(c *Ctx) {
	r := c.R.Rule("R2", "K3 end→start marking: in ProcessorTask.Do, ProcessorTask.markBatchRecords (MultiRecord arm) and DestinationTask.markBatchRecords, the loops that apply index-shifting marks run with a strictly descending induction variable", 3)
	check := func(fnName, rel string, marks []string, needLoop bool) {
		fn := c.SSA(r, rel, fnName)
		if fn == nil {
			return
		}
		set := kit.FuncSet{}
		for _, m := range marks {
			if f := c.W.LookupFunc(pFunnel, m); f != nil {
				set[f] = true
			}
		}
		found := 0
		for _, call := range kit.CallsTo(fn, set) {
			// in a loop? (reaches itself)
			if !kit.Reaches(call, call, nil) {
				continue
			}
			found++
			// find an induction phi the index argument derives from
			idx := call.Common().Args[len(call.Common().Args)-1]
			for _, a := range call.Common().Args {
				if b, ok := a.Type().Underlying().(*types.Basic); ok && b.Kind() == types.Int {
					idx = a
					break
				}
			}
			desc := false
			asc := false
			kit.DerivesFrom(idx, func(v ssa.Value) bool {
				ph, ok := v.(*ssa.Phi)
				if !ok {
					return false
				}
				for _, e := range ph.Edges {
					if b, ok := e.(*ssa.BinOp); ok && b.X == ssa.Value(ph) && kit.IsIntConst(b.Y, 1) {
						if b.Op == token.SUB {
							desc = true
						}
						if b.Op == token.ADD {
							asc = true
						}
					}
				}
				return false
			})
			// descending loops are lowered as phi[init, i-1]; BinOp ADD through DerivesFrom is not followed, handle `from+i`
			if bo, ok := idx.(*ssa.BinOp); ok && bo.Op == token.ADD {
				for _, side := range []ssa.Value{bo.X, bo.Y} {
					if ph, ok := side.(*ssa.Phi); ok {
						for _, e := range ph.Edges {
							if b, ok := e.(*ssa.BinOp); ok && b.X == ssa.Value(ph) && kit.IsIntConst(b.Y, 1) {
								if b.Op == token.SUB {
									desc = true
								}
								if b.Op == token.ADD {
									asc = true
								}
							}
						}
					}
				}
			}
			c.R.Check(desc && !asc, r, fnName+": "+kit.CalleeOf(call.Common()).Name()+" applied end→start", c.Pos(call.Pos()), "descending index", fnName+" applies "+kit.CalleeOf(call.Common()).Name()+" in a loop whose index does not strictly descend: a mark at index i shifts the not-yet-processed entries above it (#2728/#2729)", true)
		}
		if needLoop && found == 0 {
			c.R.Fail(r, fnName+": marking loop", c.Pos(fn.Pos()), "no marking call inside a loop found (shape changed)")
		}
	}
	check("(*ProcessorTask).Do", pFunnel, []string{"(*ProcessorTask).markBatchRecords"}, true)
	check("(*ProcessorTask).markBatchRecords", pFunnel, []string{"(*Batch).Filter", "(*Batch).SetRecords", "(*Batch).SplitRecord", "(*Batch).Nack", "(*Batch).Retry"}, true)
	check("(*DestinationTask).markBatchRecords", pFunnel, []string{"(*Batch).Nack"}, true)
}

func c08R5(c *Ctx) {
	c08R5As(c, c.R.Rule("R5", "K3 v1 position-change refusal: ProcessorNode.handleSingleRecord replaces the record and sends it on only on the bytes.Equal(processed position, original position) edge", 2))
}

func c08R5As(c *Ctx, r string) {
	fn := c.SSA(r, pStream, "(*ProcessorNode).handleSingleRecord")
	if fn == nil {
		return
	}
	bytesEqual := c.ExtFunc(r, "bytes", "Equal")
	recordF := c.Field(r, pStream, "Message", "Record")
	send := c.Fn(r, pStream, "(*pubSubNodeBase).Send")
	g := kit.NewGates()
	for _, eq := range kit.CallsTo(fn, Set(bytesEqual)) {
		a := eq.Common().Args
		// one side from the rec parameter's Position, the other from msg.Record.Position
		okArgs := len(a) == 2 && (kit.DerivesFromPath(a[0], "Position") && kit.DerivesFromPath(a[1], "Position"))
		if okArgs {
			g.AddEdges(kit.CondEdges(eq.Value(), true), "positions equal")
		}
	}
	stores := storesToField(fn, recordF, nil)
	sends := asInstrs(kit.CallsTo(fn, Set(send)))
	if len(stores) == 0 || len(sends) == 0 {
		c.R.Fail(r, "handleSingleRecord: record replacement and send", c.Pos(fn.Pos()), "store to msg.Record or base.Send not found")
	}
	c.Dominated(r, "handleSingleRecord: msg.Record replaced only when the position is unchanged", stores, g, "the bytes.Equal(rec.Position, msg.Record.Position) edge")
	c.Dominated(r, "handleSingleRecord: forwarded only when the position is unchanged", sends, g, "the bytes.Equal(rec.Position, msg.Record.Position) edge")
}

// sealedMembers lists the named types of the processor SDK that implement ProcessedRecord.
func sealedMembers(c *Ctx, r string) (*types.Interface, []*types.Named) {
	o, ok := c.W.ExtObj(pSDK, "ProcessedRecord").(*types.TypeName)
	if !ok {
		c.R.Unresolved(r, pSDK+".ProcessedRecord")
		return nil, nil
	}
	iface := o.Type().Underlying().(*types.Interface)
	var out []*types.Named
	sc := o.Pkg().Scope()
	for _, n := range sc.Names() {
		tn, ok := sc.Lookup(n).(*types.TypeName)
		if !ok || tn.IsAlias() {
			continue
		}
		nt, ok := tn.Type().(*types.Named)
		if !ok || types.IsInterface(nt) {
			continue
		}
		if types.Implements(nt, iface) {
			out = append(out, nt)
		}
	}
	return iface, out
}

func c08R6(c *Ctx) {
	r := c.R.Rule("R6", "K8 result-kind exhaustiveness: every type switch over sdk.ProcessedRecord covers all implementors of the sealed interface and nil, or its default refuses", 3)
	iface, members := sealedMembers(c, r)
	if iface == nil {
		return
	}
	if len(members) < 4 {
		c.R.Fail(r, "ProcessedRecord implementors", "", "fewer than 4 implementors of the sealed interface found")
	}
	n := 0
	for _, rel := range []string{pStream, pFunnel, pProc} {
		p := c.W.Pkg(rel)
		if p == nil {
			continue
		}
		for _, f := range p.Syntax {
			ast.Inspect(f, func(nd ast.Node) bool {
				ts, ok := nd.(*ast.TypeSwitchStmt)
				if !ok {
					return true
				}
				var subj ast.Expr
				switch a := ts.Assign.(type) {
				case *ast.AssignStmt:
					if ta, ok := a.Rhs[0].(*ast.TypeAssertExpr); ok {
						subj = ta.X
					}
				case *ast.ExprStmt:
					if ta, ok := a.X.(*ast.TypeAssertExpr); ok {
						subj = ta.X
					}
				}
				if subj == nil {
					return true
				}
				st := p.TypesInfo.Types[subj].Type
				if st == nil || !types.Identical(st.Underlying(), iface) {
					return true
				}
				n++
				where := c.W.EnclosingKey(ts.Pos())
				covered := map[string]bool{}
				hasNil, hasDefault := false, false
				defaultRefuses := false
				for _, cl := range ts.Body.List {
					cc := cl.(*ast.CaseClause)
					if cc.List == nil {
						hasDefault = true
						// refuses = body contains a return of a non-nil error / false, or a panic
						ast.Inspect(cc, func(m ast.Node) bool {
							switch x := m.(type) {
							case *ast.ReturnStmt:
								for _, res := range x.Results {
									if id, ok := res.(*ast.Ident); ok && (id.Name == "nil" || id.Name == "true") {
										continue
									}
									defaultRefuses = true
								}
							case *ast.CallExpr:
								if id, ok := x.Fun.(*ast.Ident); ok && id.Name == "panic" {
									defaultRefuses = true
								}
							}
							return true
						})
						continue
					}
					for _, e := range cc.List {
						if tv := p.TypesInfo.Types[e]; tv.IsNil() {
							hasNil = true
						} else if tv.Type != nil {
							covered[tv.Type.String()] = true
						}
					}
				}
				var missing []string
				for _, m := range members {
					if !covered[m.String()] {
						missing = append(missing, m.Obj().Name())
					}
				}
				if !hasNil {
					missing = append(missing, "nil")
				}
				ok2 := len(missing) == 0 || (hasDefault && defaultRefuses)
				c.R.Check(ok2, r, where+": type switch over ProcessedRecord is exhaustive or refuses", c.Pos(ts.Pos()), "all result kinds handled", "the type switch in "+where+" neither handles "+strings.Join(missing, ", ")+" nor refuses in a default arm: such a result is silently treated as processed", false)
				return true
			})
		}
	}
	if n < 3 {
		c.R.Fail(r, "type switches over ProcessedRecord", "", "fewer type switches over sdk.ProcessedRecord found than on the reference tree")
	}
}

func c08R8(c *Ctx) {
	r := c.R.Rule("R8", "K6 ack identity (v2): the positions handed to Source.Ack are originalBatch().positions; originalBatch() is applied at the top of Worker.Ack/Nack and multiAckNacker.Ack/Nack; SplitRecord keys the run on Batch.positions", 7)
	orig := c.Fn(r, pFunnel, "(*Batch).originalBatch")
	positionsF := c.Field(r, pFunnel, "Batch", "positions")
	srcAck := c.Fam(c.Fn(r, pConn, "(*Source).Ack"))
	isOrigPositions := func(v ssa.Value) bool {
		return kit.DerivesFrom(v, func(x ssa.Value) bool {
			if !kit.IsFieldLoad(x, positionsF) {
				return false
			}
			base, _ := kit.FieldBase(x)
			call, ok := base.(*ssa.Call)
			return ok && kit.CalleeOf(call.Common()) == orig
		})
	}
	for _, m := range []string{"(*Worker).Ack", "(*Worker).Nack"} {
		fn := c.SSA(r, pFunnel, m)
		if fn == nil {
			continue
		}
		for _, via := range kit.CallsVia(fn, srcAck, 1) {
			a, call := via.Args, via.Site
			c.R.Check(len(a) == 2 && a[1] != nil && isOrigPositions(a[1]), r, m+": acks originalBatch().positions", c.Pos(call.Pos()), "ok", m+" hands Source.Ack positions that do not come from originalBatch().positions (e.g. a record's own Position, which a processor controls)", true)
		}
	}
	for _, m := range []string{"(*Worker).Ack", "(*Worker).Nack", "(*multiAckNacker).Ack", "(*multiAckNacker).Nack"} {
		fn := c.SSA(r, pFunnel, m)
		if fn == nil {
			continue
		}
		calls := kit.CallsTo(fn, Set(orig))
		ok := len(calls) == 1 && len(fn.Blocks) > 0 && calls[0].Block() == fn.Blocks[0]
		if ok {
			// applied to the batch parameter
			if calls[0].Common().Args[0] != argParam(fn, 1) {
				ok = false
			}
		}
		c.R.Check(ok, r, m+": originalBatch() applied first", c.Pos(fn.Pos()), "ok", m+" does not collapse the batch with originalBatch() on entry", true)
	}
	if sr := c.SSA(r, pFunnel, "(*Batch).SplitRecord"); sr != nil {
		origPosF := c.Field(r, pFunnel, "splitRun", "origPos")
		ok := false
		for _, st := range kit.FieldStores(sr, origPosF) {
			if kit.DerivesFrom(st.Val, func(v ssa.Value) bool { return kit.IsElemLoadOfField(v, positionsF) }) {
				ok = true
			}
		}
		c.R.Check(ok, r, "SplitRecord: run keyed on b.positions[i]", c.Pos(sr.Pos()), "ok", "SplitRecord does not key the split run on Batch.positions[i] (#2730): a processor-controlled record position would decide what is acked", true)
	}
}

func c08R9(c *Ctx) {
	c08R9As(c, c.R.Rule("R9", "K6 filtered records keep their outcome: when a batch holds filtered records, Batch.setFlagNoErr/setFlagWithErr address recordStatuses only through the active-index map (or a split run's physical bounds), never by a raw logical index or span", 4))
}

func c08R9As(c *Ctx, r string) {
	active := c.Fn(r, pFunnel, "(*Batch).activeRecordIndices")
	findSplit := c.Fn(r, pFunnel, "(*Batch).findSplitRecord")
	statusesF := c.Field(r, pFunnel, "Batch", "recordStatuses")
	flagF := c.Field(r, pFunnel, "RecordStatus", "Flag")
	for _, name := range []string{"(*Batch).setFlagNoErr", "(*Batch).setFlagWithErr"} {
		fn := c.SSA(r, pFunnel, name)
		if fn == nil {
			continue
		}
		calls := kit.CallsTo(fn, Set(active))
		if len(calls) != 1 {
			c.R.Fail(r, name+": activeRecordIndices", c.Pos(fn.Pos()), "expected one activeRecordIndices() call")
			continue
		}
		ai := calls[0].Value()
		nonNil := kit.NilEdges(ai, false)
		if len(nonNil) == 0 {
			c.R.Fail(r, name+": activeIndices != nil test", c.Pos(fn.Pos()), "no nil test of the active-index map found")
			continue
		}
		nilE := kit.NilEdges(ai, true)
		nilGates := kit.NewGates().AddEdges(nilE, "activeIndices == nil")
		isNilEdge := func(from, to *ssa.BasicBlock) bool {
			for _, e := range nilE {
				if e.From == from && e.To == to {
					return true
				}
			}
			return false
		}
		isAI := func(v ssa.Value) bool {
			u, ok := v.(*ssa.UnOp)
			if !ok || u.Op != token.MUL {
				return false
			}
			ia, ok := u.X.(*ssa.IndexAddr)
			return ok && ia.X == ai
		}
		fromSplit := func(v ssa.Value) bool {
			return kit.DerivesFrom(v, func(x ssa.Value) bool {
				call, ok := x.(*ssa.Call)
				return ok && kit.CalleeOf(call.Common()) == findSplit
			}) || phiFromSplit(v, findSplit)
		}
		n := 0
		for _, b := range fn.Blocks {
			for _, in := range b.Instrs {
				st, ok := in.(*ssa.Store)
				if !ok || !kit.SameField(kit.FieldOf(st.Addr), flagF) {
					continue
				}
				fa := st.Addr.(*ssa.FieldAddr)
				ia, ok := fa.X.(*ssa.IndexAddr)
				if !ok || !kit.IsFieldLoad(ia.X, statusesF) {
					continue
				}
				if ok, _ := kit.MustPass(st, nilGates); ok {
					continue // only reached when nothing is filtered: logical == physical
				}
				n++
				idx := ia.Index
				good := isAI(idx) || fromSplit(idx)
				if ph, isPhi := idx.(*ssa.Phi); isPhi && !good {
					good = true
					for i, e := range ph.Edges {
						if !isAI(e) && !fromSplit(e) && !isNilEdge(ph.Block().Preds[i], ph.Block()) {
							good = false
						}
					}
				}
				c.R.Check(good, r, name+": status addressed through the active-index map", c.Pos(st.Pos()), "recordStatuses[activeIndices[k]]", name+" writes recordStatuses at an index that is not taken from the active-index map while filtered records exist: a filtered record inside the range gets its outcome overwritten and is processed/written again", true)
			}
		}
		if n == 0 {
			c.R.Fail(r, name+": status stores on the filtered path", c.Pos(fn.Pos()), "no status store found on the activeIndices != nil path")
		}
	}
}

// phiFromSplit: loop variable initialised from a findSplitRecord result.
func phiFromSplit(v ssa.Value, findSplit *types.Func) bool {
	ph, ok := v.(*ssa.Phi)
	if !ok {
		return false
	}
	for _, e := range ph.Edges {
		if ex, ok := e.(*ssa.Extract); ok {
			if call, ok := ex.Tuple.(*ssa.Call); ok && kit.CalleeOf(call.Common()) == findSplit {
				return true
			}
		}
	}
	return false
}

// c08R15As: F27. Batch.Nack/Retry address records by ACTIVE index. The propagation of a nack over the pieces of a
// split run is the only place that writes flags of records it did not resolve through the active-index map; if it
// overwrites a Filter flag the piece re-enters the active set (filterCount stale) and every active index resolved
// afterwards — DestinationTask.Do marks per ack response — is shifted by one.
func c08R15As(c *Ctx, r string) {
	fn := c.SSA(r, pFunnel, "(*Batch).setFlagWithErr")
	flagF := c.Field(r, pFunnel, "RecordStatus", "Flag")
	fcF := c.Field(r, pFunnel, "Batch", "filterCount")
	filt := c.W.LookupObj(pFunnel, "RecordFlagFilter")
	if fn == nil || flagF == nil || fcF == nil || filt == nil {
		c.R.Unresolved(r, "Batch.setFlagWithErr / RecordStatus.Flag / Batch.filterCount / RecordFlagFilter")
		return
	}
	loops := kit.Loops(fn)
	notFiltered := kit.NewGates().AddEdges(kit.CmpEdges(fn, func(b *ssa.BinOp) (bool, bool) {
		if (kit.IsFieldLoad(b.X, flagF) && isConstObj(b.Y, filt)) || (kit.IsFieldLoad(b.Y, flagF) && isConstObj(b.X, filt)) {
			switch b.Op {
			case token.NEQ:
				return true, true
			case token.EQL:
				return true, false
			}
		}
		return false, false
	}), "Flag != RecordFlagFilter")
	n := 0
	for _, st := range kit.FieldStores(fn, flagF) {
		// nested loop = the propagation over [from, to]
		depth := 0
		var inner kit.Loop
		for _, l := range loops {
			if l.Contains(st) {
				depth++
				if inner.Blocks == nil || len(l.Blocks) < len(inner.Blocks) {
					inner = l
				}
			}
		}
		if depth < 2 {
			continue
		}
		n++
		// (adjusting filterCount instead does not help: the piece still re-enters the active set in the middle of a
		// marking sequence and shifts the active indices resolved afterwards)
		_ = inner
		c.Dominated(r, "setFlagWithErr: the split-run propagation leaves filtered pieces filtered", []ssa.Instruction{st}, notFiltered, "the Flag != RecordFlagFilter edge")
	}
	c.R.Check(n >= 1, r, "setFlagWithErr: split-run propagation", c.Pos(fn.Pos()), "found", "no flag store in a nested loop of setFlagWithErr (the propagation over the pieces of a split run) found", true)
}

// c08R16As: F29. With a condition, the plugin sees only the matching records; whatever it answers has to go through
// the merge that puts the non-matching records back at their indices. An early return with an unmerged list (e.g. the
// single "more records than input" error) is applied by both engines to index 0 — a record that may never have been
// handed to the plugin.
func c08R16As(c *Ctx, r string) {
	fn := c.SSA(r, pProc, "(*RunnableProcessor).Process")
	condF := c.Field(r, pProc, "RunnableProcessor", "cond")
	if fn == nil || condF == nil || len(fn.Params) < 3 {
		return
	}
	recs := ssa.Value(fn.Params[2])
	isLenOfRecs := func(v ssa.Value) bool {
		return kit.IsLenOf(v, func(x ssa.Value) bool { return x == recs || kit.IsVar(x, recs) })
	}
	isLen := func(v ssa.Value) bool { return kit.IsLenOf(v, func(ssa.Value) bool { return true }) }
	g := kit.NewGates()
	for _, l := range kit.FieldLoads(fn, condF) {
		g.AddEdges(kit.NilEdges(l, true), "p.cond == nil")
	}
	for _, want := range []bool{true, false} {
		w := want
		g.AddEdges(kit.CmpEdges(fn, func(b *ssa.BinOp) (bool, bool) {
			if (b.Op == token.EQL || b.Op == token.NEQ) && ((isLenOfRecs(b.X) && isLen(b.Y)) || (isLenOfRecs(b.Y) && isLen(b.X))) {
				return true, w
			}
			return false, false
		}), "merge decision len(passthrough)==len(records)")
	}
	var rets []ssa.Instruction
	for _, ret := range kit.Returns(fn) {
		rets = append(rets, ret)
	}
	c.Dominated(r, "RunnableProcessor.Process: every result list of a conditional processor passes the merge", rets, g, "the p.cond == nil edge or the merge decision")
}
