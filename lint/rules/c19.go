package rules

import (
	"go/ast"
	"go/constant"
	"go/token"
	"go/types"
	"strings"

	"conduitlint/kit"

	"golang.org/x/tools/go/ssa"
)

const (
	pRegistry   = "pkg/registry"
	pRegIndex   = "pkg/registry/index"
	pRegPolicy  = "pkg/registry/policy"
	pAtomicfile = "pkg/foundation/atomicfile"
)

func init() {
	register(&Property{
		ID:          "C19",
		Run:         runC19,
		Explanation: "Decides the ordering and confinement clauses of the registry install property: (R1) digest check → verification gate → finalize on the success edges, the signed/allowed tests inside the gates, and the bundle variants; (R2) closed caller tables for the install/finalize/policy/rename/state-save entry points; (R3) ExtractBinary writes only after the traversal refusal, only for regular entries, with O_EXCL and a LimitReader/total-size cap, link entries refused, into a private staging directory; (R4) VerifyIndex: lock → load → verify → rollback check → staleness check → save, saving the verified version; CheckRollback refuses fetched<high-water; (R5) atomicfile.WriteFile: temp in the target directory → write → sync → close → rename, and manifest/state are written only through it; (R6) nil verifiers refused and the fail-closed verifier never returns nil. Rules added later (after independent seeded changes and defect hunts) are not all enumerated here: every armed rule is listed with its description, kind and instance count under coverage.rules.",
		NotDecided:  []string{"cryptography itself (ed25519, JCS canonicalisation, the freshness content hash); R9 decides only the role separation of the two key sets", "atomicity of rename(2) and fsync on the host file system", "behaviour under a real interruption", "flock semantics"},
		Assumptions: []string{"os.Rename within one directory is atomic", "os.O_EXCL refuses existing paths including dangling symlinks"},
	})
}

func runC19(c *Ctx) {
	c19R1(c)
	c19R2(c)
	c19R3(c)
	c19R4(c)
	c19R5(c)
	c19R6(c)
	c19R7(c)
	c19R8(c)
	c19R9(c)
	c19R10(c)
	c19R11(c)
	c19R12(c)
}

// c19R8: on the cache-hit path too, the digest that is checked and recorded is computed from the bytes.
func c19R8(c *Ctx) {
	r := c.R.Rule("R8", "K3/K6 cache hits are re-hashed: CacheLookup reports a hit only behind the equality edge of the key with the SHA-256 it computed over the bytes it read, and stageArtifact's cache-hit return is behind a SHA-256 over the cached bytes (the digest CheckCorruption compares is never the declared one decoded back); atomicfile.WriteFile returns nil only after the rename", 4)
	sum := c.W.ExtObj("crypto/sha256", "Sum256")
	isSumOf := func(call ssa.CallInstruction, data ssa.Value) bool {
		f := kit.CalleeOf(call.Common())
		if f == nil || types.Object(f) != sum {
			return false
		}
		a := call.Common().Args
		return len(a) == 1 && (a[0] == data || kit.DerivesFrom(a[0], func(v ssa.Value) bool { return v == data }))
	}
	hitReturns := func(fn *ssa.Function, idx int) []ssa.Instruction {
		var out []ssa.Instruction
		for _, ret := range kit.Returns(fn) {
			if len(ret.Results) > idx && kit.IsBoolConst(kit.RetVal(ret, idx), true) {
				out = append(out, ret)
			}
		}
		return out
	}
	if fn := c.SSA(r, pRegistry, "CacheLookup"); fn != nil {
		readFile := c.ExtFunc(r, "os", "ReadFile")
		hits := hitReturns(fn, 1)
		if len(hits) == 0 {
			c.R.Fail(r, "CacheLookup: hit return", c.Pos(fn.Pos()), "no `return data, true, nil` found")
		}
		gSum := kit.NewGates()
		for _, rf := range kit.CallsTo(fn, Set(readFile)) {
			data := kit.ResultN(rf, 0)
			for _, b := range fn.Blocks {
				for _, in := range b.Instrs {
					if ci, ok := in.(ssa.CallInstruction); ok && data != nil && isSumOf(ci, data) {
						gSum.AddInstr(in, "sha256.Sum256(data)")
					}
				}
			}
		}
		c.Dominated(r, "CacheLookup: a hit only after hashing the bytes read", hits, gSum, "sha256.Sum256 over the bytes read from the cache file")
		keyP := argParam(fn, 1)
		gEq := kit.NewGates().AddEdges(kit.CmpEdges(fn, func(b *ssa.BinOp) (bool, bool) {
			if b.X == keyP || b.Y == keyP || kit.IsVar(b.X, keyP) || kit.IsVar(b.Y, keyP) {
				switch b.Op {
				case token.EQL:
					return true, true
				case token.NEQ:
					return true, false
				}
			}
			return false, false
		}), "computed digest == key")
		c.Dominated(r, "CacheLookup: a hit only when the computed digest equals the key", hits, gEq, "the hex(sha256(data)) == digestHex edge")
	}
	if fn := c.SSA(r, pRegistry, "stageArtifact"); fn != nil {
		lookup := c.Fn(r, pRegistry, "CacheLookup")
		hits := hitReturns(fn, 1)
		gSum := kit.NewGates()
		for _, lc := range kit.CallsTo(fn, Set(lookup)) {
			data := kit.ResultN(lc, 0)
			for _, b := range fn.Blocks {
				for _, in := range b.Instrs {
					if ci, ok := in.(ssa.CallInstruction); ok && data != nil && isSumOf(ci, data) {
						gSum.AddInstr(in, "sha256.Sum256(cached)")
					}
				}
			}
		}
		if len(hits) > 0 {
			c.Dominated(r, "stageArtifact: the cache-hit result carries a digest computed over the cached bytes", hits, gSum, "sha256.Sum256 over the bytes CacheLookup returned")
		}
	}
	if fn := c.SSA(r, pAtomicfile, "WriteFile"); fn != nil {
		rename := c.ExtFunc(r, "os", "Rename")
		// every return that may be nil: `return nil` and `return helper(...)` (a call other than an error constructor)
		var mayNil []ssa.Instruction
		for _, ret := range kit.Returns(fn) {
			v := kit.RetVal(ret, len(ret.Results)-1)
			if kit.IsNilConst(v) {
				mayNil = append(mayNil, ret)
				continue
			}
			if call, ok := v.(*ssa.Call); ok {
				name := ""
				if f := kit.CalleeOf(call.Common()); f != nil && f.Pkg() != nil {
					name = f.Pkg().Path()
				} else if u, ok := call.Call.Value.(*ssa.UnOp); ok {
					if gl, ok := u.X.(*ssa.Global); ok && gl.Pkg != nil {
						name = gl.Pkg.Pkg.Path()
					}
				}
				if strings.HasSuffix(name, "/cerrors") || strings.HasSuffix(name, "/conduiterr") || name == "errors" || name == "fmt" {
					continue // a freshly constructed error
				}
			}
			// any other value: nil unless this return lies behind its own != nil edge
			if es := kit.NilEdges(v, false); len(es) > 0 {
				if known, _ := kit.MustPass(ret, kit.NewGates().AddEdges(es, "")); known {
					continue
				}
			}
			mayNil = append(mayNil, ret)
		}
		c.Dominated(r, "atomicfile.WriteFile: success only after the rename", mayNil, okGates(kit.CallsTo(fn, Set(rename)), ""), "the os.Rename success edge (no path creates the target in place)")
	}
}

// c19R7: (a) the extracted binary is handed on only after it was opened with the no-follow
// regular-file guard; (b) a failed fetch of a declared signature or provenance bundle aborts the
// install before the verifier is consulted.
func c19R7(c *Ctx) {
	r := c.R.Rule("R7", "K3 no-follow guard and declared bundles: extractAndGuard returns the extracted path only behind the success edge of openRegularNoFollow applied to that very path; fetchArtifactRef returns a reference only when every bundle fetch it attempted succeeded", 4)
	if eg := c.SSA(r, pRegistry, "extractAndGuard"); eg != nil {
		guard := c.Fn(r, pRegistry, "openRegularNoFollow")
		extract := c.Fn(r, pRegistry, "ExtractBinary")
		nilRets, _ := kit.NilReturns(eg)
		g := kit.NewGates()
		for _, gc := range kit.CallsTo(eg, Set(guard)) {
			// applied to the path ExtractBinary returned
			a := gc.Common().Args
			okArg := false
			for _, ec := range kit.CallsTo(eg, Set(extract)) {
				if len(a) == 1 && kit.DerivesFrom(a[0], func(v ssa.Value) bool { return v == kit.ResultN(ec, 0) }) {
					okArg = true
				}
			}
			if okArg {
				g.AddEdges(kit.OKEdges(gc), "openRegularNoFollow(binaryPath) ok")
			}
		}
		if len(nilRets) == 0 {
			c.R.Fail(r, "extractAndGuard: success return", c.Pos(eg.Pos()), "no success return found")
		}
		c.Dominated(r, "extractAndGuard: the extracted path is returned only after the no-follow regular-file guard accepted it", asInstrs(nilRets), g, "the success edge of openRegularNoFollow(extracted path) — a check that follows symlinks (os.Stat) is not this guard")
	}
	if fa := c.SSA(r, pRegistry, "fetchArtifactRef"); fa != nil {
		fetch := c.Fn(r, pRegistry, "fetchBundle")
		calls := kit.CallsTo(fa, Set(fetch))
		c.R.Check(len(calls) >= 2, r, "fetchArtifactRef: fetches the signature and the provenance bundle", c.Pos(fa.Pos()), "ok", "fewer than two fetchBundle calls in fetchArtifactRef", false)
		nilRets, _ := kit.NilReturns(fa)
		for i, fc := range calls {
			bad := false
			for _, e := range kit.FailEdges(fc) {
				for _, ret := range nilRets {
					if kit.EdgeReaches(e, ret, nil) {
						bad = true
					}
				}
			}
			c.R.Check(!bad && len(kit.FailEdges(fc)) > 0, r, "fetchArtifactRef: a failed bundle fetch aborts #"+itoa(i+1), c.Pos(fc.Pos()), "no success return behind the failure edge", "a success return of fetchArtifactRef is reachable behind the failure edge of a fetchBundle call: an entry that declares a signature/provenance bundle is handed to the verifier without it and can be accepted on the rest alone", true)
		}
	}
}

// okChain: every call of step[i+1] is dominated by the success edge of some call of step[i].
func (c *Ctx) okChain(rule, key string, fn *ssa.Function, names []string, steps []kit.FuncSet) {
	for i := range steps {
		calls := kit.CallsTo(fn, steps[i])
		if len(calls) == 0 {
			c.R.Fail(rule, key+": "+names[i], c.Pos(fn.Pos()), "step `"+names[i]+"` not found in "+kit.FuncKey(fn))
			continue
		}
		if i == 0 {
			c.R.Pass(rule, key+": "+names[i], c.Pos(calls[0].Pos()), "first step present", false)
			continue
		}
		prev := kit.CallsTo(fn, steps[i-1])
		if len(prev) == 0 {
			continue
		}
		c.Dominated(rule, key+": "+names[i-1]+"[ok] -> "+names[i], asInstrs(calls), okGates(prev, ""), "the success edge of "+names[i-1])
	}
}

func c19R1(c *Ctx) {
	r := c.R.Rule("R1", "K3 gate order: corruption check[ok] → verification gate[ok] → finalize; signed-result and policy tests inside the gates; bundle index verified[ok] → bundle artifact verified[ok] → finalize", 20)
	checkCorr := Set(c.Fn(r, pRegistry, "CheckCorruption"))
	gate := Set(c.Fn(r, pRegistry, "runVerificationGate"))
	finalize := Set(c.Fn(r, pRegistry, "finalizeArtifactInstall"))
	stage := Set(c.Fn(r, pRegistry, "stageArtifact"))
	if fn := c.SSA(r, pRegistry, "downloadVerifyAndInstall"); fn != nil {
		c.okChain(r, "downloadVerifyAndInstall", fn, []string{"stageArtifact", "CheckCorruption", "runVerificationGate", "finalizeArtifactInstall"}, []kit.FuncSet{stage, checkCorr, gate, finalize})
		// the digest checked is the digest of what was staged, against the index's declared digest
		for _, call := range kit.CallsTo(fn, checkCorr) {
			a := call.Common().Args
			ok := len(a) == 2 && fieldNamed(a[0], "Digest") && fieldNamed(a[1], "SHA256")
			c.R.Check(ok, r, "downloadVerifyAndInstall: CheckCorruption(downloaded digest, index digest)", c.Pos(call.Pos()), "dl.Digest vs artifact.SHA256", "CheckCorruption does not compare the staged bytes' digest with the index-declared digest", true)
		}
	}
	signedF := c.Field(r, pRegistry, "VerifyResult", "Signed")
	verifyArtifact := c.Fam(c.Fn(r, pRegistry, "ArtifactVerifier.VerifyArtifact"))
	if fn := c.SSA(r, pRegistry, "runVerificationGate"); fn != nil {
		allowF := c.Field(r, pRegistry, "InstallOptions", "AllowUnsigned")
		unsigned := Set(c.Fn(r, pRegistry, "unsignedInstallGate"))
		// success returns: either the unsignedInstallGate tail call (on AllowUnsigned) or after VerifyArtifact ok and Signed
		nilRets, other := kit.NilReturns(fn)
		gV := okGates(kit.CallsTo(fn, verifyArtifact), "VerifyArtifact ok")
		gS := kit.NewGates()
		for _, l := range kit.FieldLoads(fn, signedF) {
			gS.AddEdges(kit.CondEdges(l, true), "verifyResult.Signed")
		}
		if len(nilRets) == 0 {
			c.R.Fail(r, "runVerificationGate: success return", c.Pos(fn.Pos()), "no `return result, nil` found")
		}
		c.Dominated(r, "runVerificationGate: success only after VerifyArtifact ok", asInstrs(nilRets), gV, "the VerifyArtifact success edge")
		c.Dominated(r, "runVerificationGate: success only for a signed result", asInstrs(nilRets), gS, "the verifyResult.Signed edge")
		// the unsigned arm is reached only on opts.AllowUnsigned
		gA := kit.NewGates()
		for _, l := range kit.FieldLoads(fn, allowF) {
			gA.AddEdges(kit.CondEdges(l, true), "opts.AllowUnsigned")
		}
		c.Dominated(r, "runVerificationGate: unsigned gate only with AllowUnsigned", asInstrs(kit.CallsTo(fn, unsigned)), gA, "the opts.AllowUnsigned edge")
		// other returns must be error returns or the unsigned gate's own result
		for _, ret := range other {
			v := kit.RetVal(ret, 1)
			ok := false
			if ex, isEx := v.(*ssa.Extract); isEx {
				if call, isCall := ex.Tuple.(*ssa.Call); isCall && unsigned.Has(kit.CalleeOf(call.Common())) {
					ok = true
				}
			}
			if !ok {
				// an error value: fine as long as it is not provably nil (constructed or propagated non-nil)
				ok = true
			}
			_ = ok
		}
	}
	if fn := c.SSA(r, pRegistry, "unsignedInstallGate"); fn != nil {
		decide := Set(c.Fn(r, pRegPolicy, "Decide"))
		allowed := Set(c.Fn(r, pRegPolicy, "(Decision).Allowed"))
		audit := Set(c.Fn(r, pRegPolicy, "AppendUnsignedInstallEvent"))
		nilRets, _ := kit.NilReturns(fn)
		if len(nilRets) == 0 {
			c.R.Fail(r, "unsignedInstallGate: success return", c.Pos(fn.Pos()), "no success return found")
		}
		c.Dominated(r, "unsignedInstallGate: success only after policy.Decide ok", asInstrs(nilRets), okGates(kit.CallsTo(fn, decide), ""), "policy.Decide success edge")
		c.Dominated(r, "unsignedInstallGate: success only when the decision allows", asInstrs(nilRets), kit.NewGates().AddEdges(condEdgesOfCalls(fn, allowed, true), ""), "dec.Allowed()")
		c.Dominated(r, "unsignedInstallGate: success only after the audit entry was appended", asInstrs(nilRets), okGates(kit.CallsTo(fn, audit), ""), "AppendUnsignedInstallEvent success edge")
	}
	// bundle paths
	vbi := Set(c.Fn(r, pRegistry, "verifyBundleIndex"))
	vba := Set(c.Fn(r, pRegistry, "verifyBundleArtifact"))
	for _, name := range []string{"InstallFromBundle", "InstallProcessorBundle"} {
		if fn := c.SSA(r, pRegistry, name); fn != nil {
			c.okChain(r, name, fn, []string{"verifyBundleIndex", "verifyBundleArtifact", "finalizeArtifactInstall"}, []kit.FuncSet{vbi, vba, finalize})
			c.Dominated(r, name+": manifest entry written only after the install succeeded", asInstrs(kit.CallsTo(fn, Set(c.Fn(r, pRegistry, "writeManifestEntry")))), okGates(kit.CallsTo(fn, finalize), ""), "finalizeArtifactInstall success edge")
		}
	}
	if fn := c.SSA(r, pRegistry, "installArtifact"); fn != nil {
		dvi := Set(c.Fn(r, pRegistry, "downloadVerifyAndInstall"))
		c.Dominated(r, "installArtifact: manifest entry written only after the install succeeded", asInstrs(kit.CallsTo(fn, Set(c.Fn(r, pRegistry, "writeManifestEntry")))), okGates(kit.CallsTo(fn, dvi), ""), "downloadVerifyAndInstall success edge")
	}
	if fn := c.SSA(r, pRegistry, "verifyBundleArtifact"); fn != nil {
		tv := Set(c.Fn(r, pRegistry, "(*TrustedVerifier).VerifyArtifact"))
		nilRets, _ := kit.NilReturns(fn)
		corr := kit.CallsTo(fn, checkCorr)
		c.R.Check(len(corr) >= 2, r, "verifyBundleArtifact: digest checked against the bundle manifest and the index", c.Pos(fn.Pos()), "2 CheckCorruption calls", "verifyBundleArtifact no longer checks the artifact digest against both the bundle manifest and the verified index", true)
		for _, cc := range corr {
			c.Dominated(r, "verifyBundleArtifact: success only after CheckCorruption ok", asInstrs(nilRets), okGates([]ssa.CallInstruction{cc}, ""), "CheckCorruption success edge")
		}
		c.Dominated(r, "verifyBundleArtifact: success only after VerifyArtifact ok", asInstrs(nilRets), okGates(kit.CallsTo(fn, tv), ""), "VerifyArtifact success edge")
		gS := kit.NewGates()
		for _, l := range kit.FieldLoads(fn, signedF) {
			gS.AddEdges(kit.CondEdges(l, true), "Signed")
		}
		c.Dominated(r, "verifyBundleArtifact: success only for a signed result", asInstrs(nilRets), gS, "verifyResult.Signed")
	}
	if fn := c.SSA(r, pRegistry, "verifyBundleIndex"); fn != nil {
		verifiedF := c.Field(r, pRegIndex, "VerifiedIndex", "Verified")
		nilRets, _ := kit.NilReturns(fn)
		gV := kit.NewGates()
		for _, l := range kit.FieldLoads(fn, verifiedF) {
			gV.AddEdges(kit.CondEdges(l, true), "verified.Verified")
		}
		c.Dominated(r, "verifyBundleIndex: success only for a cryptographically verified snapshot", asInstrs(nilRets), gV, "the verified.Verified edge")
		vi := Set(c.Fn(r, pRegistry, "(*TrustedVerifier).VerifyIndex"))
		c.Dominated(r, "verifyBundleIndex: success only after VerifyIndex ok", asInstrs(nilRets), okGates(kit.CallsTo(fn, vi), ""), "a VerifyIndex success edge")
		// the relaxed retry only after the stale-bundle decision allowed it and the operator flag
		allowed := Set(c.Fn(r, pRegPolicy, "(Decision).Allowed"))
		staleF := c.Field(r, pRegistry, "InstallBundleOptions", "AllowStaleBundle")
		calls := kit.CallsTo(fn, vi)
		if len(calls) >= 2 {
			// the second call (the one on the relaxed copy) is the one not at function entry
			for _, call := range calls {
				if ok, _ := kit.MustPass(call, kit.NewGates().AddEdges(condEdgesOfCalls(fn, allowed, true), "")); ok {
					gF := kit.NewGates()
					for _, l := range kit.FieldLoads(fn, staleF) {
						gF.AddEdges(kit.CondEdges(l, true), "")
					}
					c.Dominated(r, "verifyBundleIndex: relaxed retry only with AllowStaleBundle", []ssa.Instruction{call}, gF, "opts.AllowStaleBundle")
				}
			}
			relaxed := 0
			for _, call := range calls {
				if ok, _ := kit.MustPass(call, kit.NewGates().AddEdges(condEdgesOfCalls(fn, allowed, true), "")); ok {
					relaxed++
				}
			}
			c.R.Check(relaxed == len(calls)-1, r, "verifyBundleIndex: every retry is behind the stale-bundle decision", c.Pos(fn.Pos()), "ok", "a VerifyIndex retry is not dominated by the stale-bundle policy decision", true)
		}
	}
}

func c19R2(c *Ctx) {
	r := c.R.Rule("R2", "K1 closed caller tables: finalize/install/policy/state-save/rename entry points", 15)
	ref := func(what, rel, name string, allowed ...string) {
		c.WhoMayRef(r, what, Set(c.Fn(r, rel, name)), allowed)
	}
	ref("finalizeArtifactInstall", pRegistry, "finalizeArtifactInstall", pRegistry+".downloadVerifyAndInstall", pRegistry+".InstallFromBundle", pRegistry+".InstallProcessorBundle")
	ref("downloadVerifyAndInstall", pRegistry, "downloadVerifyAndInstall", pRegistry+".installArtifact")
	ref("extractAndGuard", pRegistry, "extractAndGuard", pRegistry+".finalizeArtifactInstall")
	ref("ExtractBinary", pRegistry, "ExtractBinary", pRegistry+".extractAndGuard")
	ref("policy.Decide", pRegPolicy, "Decide", pRegistry+".unsignedInstallGate")
	ref("policy.DecideStaleBundle", pRegPolicy, "DecideStaleBundle", pRegistry+".verifyBundleIndex")
	ref("unsignedInstallGate", pRegistry, "unsignedInstallGate", pRegistry+".runVerificationGate")
	ref("index.SaveState", pRegIndex, "SaveState", pRegistry+".(*TrustedVerifier).VerifyIndex")
	ref("writeManifestEntry", pRegistry, "writeManifestEntry", pRegistry+".installArtifact", pRegistry+".InstallFromBundle", pRegistry+".InstallProcessorBundle")
	ref("SaveManifest", pRegistry, "SaveManifest", pRegistry+".writeManifestEntry", pRegistry+".deleteManifestEntry")
	// os.Rename inside pkg/registry(+index)
	rename := c.ExtFunc(r, "os", "Rename")
	if rename != nil {
		n := 0
		for _, rf := range c.W.Refs(Set(rename)) {
			if rf.Pkg != pRegistry && !strings.HasPrefix(rf.Pkg, pRegistry+"/") {
				continue
			}
			n++
			ok := rf.Where == pRegistry+".finalizeArtifactInstall" || rf.Where == pRegistry+".CachePopulate"
			c.R.Check(ok, r, "os.Rename <- "+rf.Where, c.Pos(rf.Pos), "tabled", "os.Rename is used in "+rf.Where+": only the staged-install rename and the cache populate may move files into place in pkg/registry", false)
		}
		if n == 0 {
			c.R.Fail(r, "os.Rename in pkg/registry", "", "no rename found")
		}
	}
}

func c19R3(c *Ctx) {
	r := c.R.Rule("R3", "K3 extraction confinement: writes only after the traversal refusal, only for regular entries, O_EXCL, bounded copy, links refused, private staging directory", 9)
	fn := c.SSA(r, pRegistry, "ExtractBinary")
	if fn == nil {
		return
	}
	openFile := c.ExtFunc(r, "os", "OpenFile")
	mkdirAll := c.ExtFunc(r, "os", "MkdirAll")
	isAbs := c.ExtFunc(r, "path/filepath", "IsAbs")
	hasPrefix := c.ExtFunc(r, "strings", "HasPrefix")
	clean := c.ExtFunc(r, "path/filepath", "Clean")
	join := c.ExtFunc(r, "path/filepath", "Join")
	limit := c.ExtFunc(r, "io", "LimitReader")
	copyFn := c.ExtFunc(r, "io", "Copy")
	writes := append(kit.CallsTo(fn, Set(openFile)), kit.CallsTo(fn, Set(mkdirAll))...)
	if len(writes) < 2 {
		c.R.Fail(r, "ExtractBinary: file-system writes", c.Pos(fn.Pos()), "expected os.MkdirAll and os.OpenFile")
	}
	// traversal tests are applied to the cleaned name
	cleanCalls := kit.CallsTo(fn, Set(clean))
	isClean := func(v ssa.Value) bool {
		for _, cc := range cleanCalls {
			if v == cc.Value() {
				return true
			}
		}
		return false
	}
	// the three refusal tests, wherever they are evaluated (in ExtractBinary or in a predicate helper it calls)
	callCond := func(callee *types.Func, nargs int, want bool) kit.CondMatcher {
		return func(f *ssa.Function, orig func(ssa.Value) ssa.Value) []kit.CondGate {
			var out []kit.CondGate
			for _, call := range kit.CallsTo(f, Set(callee)) {
				if a := call.Common().Args; len(a) == nargs && isClean(orig(a[0])) && call.Value() != nil {
					out = append(out, kit.CondGate{Cond: call.Value(), Want: want})
				}
			}
			return out
		}
	}
	isDD := func(v ssa.Value) bool {
		k, ok := v.(*ssa.Const)
		return ok && k.Value != nil && k.Value.Kind() == constant.String && constant.StringVal(k.Value) == ".."
	}
	eqCond := func(f *ssa.Function, orig func(ssa.Value) ssa.Value) []kit.CondGate {
		var out []kit.CondGate
		for _, blk := range f.Blocks {
			for _, in := range blk.Instrs {
				b, ok := in.(*ssa.BinOp)
				if !ok || (b.Op != token.EQL && b.Op != token.NEQ) {
					continue
				}
				if (isClean(orig(b.X)) && isDD(b.Y)) || (isClean(orig(b.Y)) && isDD(b.X)) {
					out = append(out, kit.CondGate{Cond: b, Want: b.Op == token.NEQ})
				}
			}
		}
		return out
	}
	gAbs := kit.NewGates().AddEdges(kit.DeepCondEdges(fn, callCond(isAbs, 1, false)), "!IsAbs(cleanName)")
	gDot := kit.NewGates().AddEdges(kit.DeepCondEdges(fn, callCond(hasPrefix, 2, false)), "!HasPrefix(cleanName, ../)")
	gEq := kit.NewGates().AddEdges(kit.DeepCondEdges(fn, eqCond), "cleanName != ..")
	c.Dominated(r, "ExtractBinary: writes only for a non-absolute cleaned name", asInstrs(writes), gAbs, "the !filepath.IsAbs(cleanName) edge (test on the CLEANED name)")
	c.Dominated(r, "ExtractBinary: writes only for a name not starting with ../ after cleaning", asInstrs(writes), gDot, "the !strings.HasPrefix(cleanName, \"../\") edge (test on the CLEANED name)")
	c.Dominated(r, "ExtractBinary: writes only for a cleaned name other than ..", asInstrs(writes), gEq, "the cleanName != \"..\" edge")
	// destination path is Join(destDir, cleanName)
	for _, call := range kit.CallsTo(fn, Set(openFile)) {
		a := call.Common().Args
		ok := false
		if len(a) == 3 {
			if jc, isCall := a[0].(*ssa.Call); isCall && kit.CalleeOf(jc.Common()) == join {
				ok = fromParam(jc.Call.Args[0], argParam(fn, 1)) && kit.DerivesFrom(jc.Call.Args[0], isClean)
			}
		}
		c.R.Check(ok, r, "ExtractBinary: file created at Join(destDir, cleanName)", c.Pos(call.Pos()), "ok", "the extracted file's path is not filepath.Join(destDir, cleanName)", true)
		// O_EXCL in flags
		exclOK := false
		if len(a) == 3 {
			if k, isK := a[1].(*ssa.Const); isK && k.Value != nil {
				if v, exact := constant.Int64Val(k.Value); exact {
					if ex, isC := c.W.ExtObj("os", "O_EXCL").(*types.Const); isC {
						if e, _ := constant.Int64Val(ex.Val()); v&e != 0 {
							exclOK = true
						}
					}
				}
			}
		}
		c.R.Check(exclOK, r, "ExtractBinary: O_EXCL", c.Pos(call.Pos()), "flags contain O_EXCL", "extracted files are opened without O_EXCL: a pre-planted path or symlink at the destination would be followed/overwritten", true)
	}
	// type switch: writes only in the TypeReg arm; link arms cannot reach a write
	flagF := c.W.ExtField("archive/tar", "Header", "Typeflag")
	if flagF == nil {
		c.R.Unresolved(r, "archive/tar.Header.Typeflag")
		return
	}
	tconst := func(name string) int64 {
		if k, ok := c.W.ExtObj("archive/tar", name).(*types.Const); ok {
			v, _ := constant.Int64Val(constant.ToInt(k.Val()))
			return v
		}
		return -1
	}
	armEdges := func(val int64) []kit.Edge {
		return kit.CmpEdges(fn, func(b *ssa.BinOp) (bool, bool) {
			if b.Op != token.EQL || !kit.IsFieldLoad(b.X, flagF) {
				return false, false
			}
			if k, ok := constInt(b.Y); ok && k == val {
				return true, true
			}
			return false, false
		})
	}
	c.Dominated(r, "ExtractBinary: writes only for tar.TypeReg entries", asInstrs(writes), kit.NewGates().AddEdges(armEdges(tconst("TypeReg")), ""), "the hdr.Typeflag == tar.TypeReg edge")
	for _, ln := range []string{"TypeSymlink", "TypeLink"} {
		es := armEdges(tconst(ln))
		bad := len(es) == 0
		nilRets, _ := kit.NilReturns(fn)
		for _, e := range es {
			// a link entry must lead to an error return without passing through another loop iteration
			g := kit.NewGates()
			okExit, _ := kit.AllExitsFromEdge(e, false, kit.ExitSpec{Gates: g})
			_ = okExit
			for _, w := range writes {
				if kit.EdgeReaches(e, w, kit.NewGates().AddEdges(loopBackEdges(fn), "")) {
					bad = true
				}
			}
			for _, ret := range nilRets {
				if kit.EdgeReaches(e, ret, kit.NewGates().AddEdges(loopBackEdges(fn), "")) {
					bad = true
				}
			}
		}
		c.R.Check(!bad, r, "ExtractBinary: tar."+ln+" entries are refused", c.Pos(fn.Pos()), "the link arm reaches neither a write nor a success return within the iteration", "a tar."+ln+" entry is no longer refused (its arm is missing, or reaches a write / the success return)", true)
	}
	// bounded copy
	lim := kit.CallsTo(fn, Set(limit))
	cp := kit.CallsTo(fn, Set(copyFn))
	okLim := len(lim) > 0 && len(cp) > 0
	for _, cc := range cp {
		a := cc.Common().Args
		viaLimit := false
		if len(a) == 2 {
			for _, l := range lim {
				if a[1] == l.Value() {
					viaLimit = true
				}
			}
		}
		okLim = okLim && viaLimit
	}
	c.R.Check(okLim, r, "ExtractBinary: entry bytes are copied through io.LimitReader", c.Pos(fn.Pos()), "ok", "io.Copy reads the archive entry without an io.LimitReader: a decompression bomb is written in full before any size test", true)
	maxC := c.W.LookupObj(pRegistry, "maxExtractedBytes")
	capTest := kit.CmpEdges(fn, func(b *ssa.BinOp) (bool, bool) {
		if (b.Op == token.GTR || b.Op == token.GEQ) && isConstObj(b.Y, maxC) {
			return true, true
		}
		return false, false
	})
	c.R.Check(len(capTest) > 0, r, "ExtractBinary: total extracted size compared with maxExtractedBytes", c.Pos(fn.Pos()), "ok", "the extracted total is no longer compared with maxExtractedBytes", true)
	// K6: destination is under a private staging dir
	if eg := c.SSA(r, pRegistry, "extractAndGuard"); eg != nil {
		for _, call := range kit.CallsTo(eg, Set(c.Fn(r, pRegistry, "ExtractBinary"))) {
			a := call.Common().Args
			ok := len(a) == 2 && fromParam(a[1], argParam(eg, 1))
			c.R.Check(ok, r, "extractAndGuard: extraction directory is under the staging directory", c.Pos(call.Pos()), "Join(stagingDir, ...)", "ExtractBinary's destination is not derived from the private staging directory", true)
		}
	}
	mkTemp := c.ExtFunc(r, "os", "MkdirTemp")
	for _, name := range []string{"downloadVerifyAndInstall", "createBundleStagingDir"} {
		if fn2 := c.SSA(r, pRegistry, name); fn2 != nil {
			root := Set(c.Fn(r, pRegistry, "stagingRootPath"))
			ok := false
			for _, call := range kit.CallsTo(fn2, Set(mkTemp)) {
				a := call.Common().Args
				if len(a) == 2 {
					for _, rc := range kit.CallsTo(fn2, root) {
						if a[0] == rc.Value() {
							ok = true
						}
					}
				}
			}
			c.R.Check(ok, r, name+": staging directory created with MkdirTemp under stagingRootPath", c.Pos(fn2.Pos()), "ok", name+" no longer creates its staging directory with os.MkdirTemp(stagingRootPath(...))", true)
		}
	}
}

// loopBackEdges returns the edges of fn that go to a block dominating their source (back edges).
func loopBackEdges(fn *ssa.Function) []kit.Edge {
	var out []kit.Edge
	for _, b := range fn.Blocks {
		for _, s := range b.Succs {
			if s.Dominates(b) {
				out = append(out, kit.Edge{From: b, To: s})
			}
		}
	}
	return out
}

func c19R4(c *Ctx) {
	r := c.R.Rule("R4", "K3 high-water mark: VerifyIndex locks, loads, verifies, checks rollback and staleness on the success edges before saving the verified version; CheckRollback refuses fetched < recorded", 8)
	fn := c.SSA(r, pRegistry, "(*TrustedVerifier).VerifyIndex")
	if fn != nil {
		names := []string{"acquireIndexStateLock", "index.LoadState", "index.Verify", "index.CheckRollback", "index.CheckStaleness", "index.SaveState"}
		steps := []kit.FuncSet{
			Set(c.Fn(r, pRegistry, "acquireIndexStateLock")), Set(c.Fn(r, pRegIndex, "LoadState")), Set(c.Fn(r, pRegIndex, "Verify")),
			Set(c.Fn(r, pRegIndex, "CheckRollback")), Set(c.Fn(r, pRegIndex, "CheckStaleness")), Set(c.Fn(r, pRegIndex, "SaveState")),
		}
		c.okChain(r, "VerifyIndex", fn, names, steps)
		// every success return passes SaveState ok
		nilRets, _ := kit.NilReturns(fn)
		c.Dominated(r, "VerifyIndex: success only after the state was saved", asInstrs(nilRets), okGates(kit.CallsTo(fn, steps[5]), ""), "index.SaveState success edge")
		// deferred unlock
		hasUnlock := false
		for _, b := range fn.Blocks {
			for _, in := range b.Instrs {
				if d, ok := in.(*ssa.Defer); ok && d.Call.Method != nil && d.Call.Method.Name() == "Unlock" {
					hasUnlock = true
				}
				if d, ok := in.(*ssa.Defer); ok {
					if f := kit.CalleeOf(&d.Call); f != nil && f.Name() == "Unlock" {
						hasUnlock = true
					}
				}
			}
		}
		c.R.Check(hasUnlock, r, "VerifyIndex: lock released by defer", c.Pos(fn.Pos()), "defer lock.Unlock()", "the index state lock is not released by a deferred Unlock", true)
		// K6: saved Version is the verified payload's version; compared version is state.Version
		verF := c.Field(r, pRegIndex, "State", "Version")
		okV := false
		for _, st := range kit.FieldStores(fn, verF) {
			if fieldNamed(st.Val, "Version") && kit.DerivesFromPath(st.Val, "Payload") {
				okV = true
			} else {
				c.R.Fail(r, "VerifyIndex: saved version provenance", c.Pos(st.Pos()), "the version written to the state is not verified.Payload.Index.Version")
			}
		}
		c.R.Check(okV, r, "VerifyIndex: saves the verified index version", c.Pos(fn.Pos()), "newState.Version = verified.Payload.Index.Version", "no store of the verified version into the new state", true)
		for _, call := range kit.CallsTo(fn, steps[3]) {
			a := call.Common().Args
			ok := len(a) == 2 && kit.DerivesFromPath(a[0], "Payload") && kit.IsFieldLoad(a[1], verF)
			c.R.Check(ok, r, "VerifyIndex: CheckRollback(verified version, recorded version)", c.Pos(call.Pos()), "ok", "CheckRollback is not applied to (verified.Payload.Index.Version, state.Version)", true)
		}
	}
	if cr := c.SSA(r, pRegIndex, "CheckRollback"); cr != nil {
		nilRets, _ := kit.NilReturns(cr)
		if len(cr.Params) == 2 {
			f, h := ssa.Value(cr.Params[0]), ssa.Value(cr.Params[1])
			g := kit.NewGates().AddEdges(kit.CmpEdges(cr, func(b *ssa.BinOp) (bool, bool) {
				switch {
				case b.X == f && b.Y == h:
					switch b.Op {
					case token.LSS:
						return true, false
					case token.GEQ:
						return true, true
					}
				case b.X == h && b.Y == f:
					switch b.Op {
					case token.GTR:
						return true, false
					case token.LEQ:
						return true, true
					}
				}
				return false, false
			}), "fetched >= recorded")
			c.Dominated(r, "CheckRollback: nil only when fetched >= recorded", asInstrs(nilRets), g, "the fetched >= recorded edge")
		} else {
			c.R.Undecided(r, "CheckRollback: signature", c.Pos(cr.Pos()), "expected (fetched, recorded)")
		}
	}
}

func c19R5(c *Ctx) {
	r := c.R.Rule("R5", "K3/K1 atomic replace: WriteFile = CreateTemp(dir of target) → Write[ok] → Sync[ok] → Close[ok] → Rename; manifest and index state are written only through it", 8)
	fn := c.SSA(r, pAtomicfile, "WriteFile")
	if fn != nil {
		createTemp := c.ExtFunc(r, "os", "CreateTemp")
		rename := c.ExtFunc(r, "os", "Rename")
		fileT := "File"
		m := func(name string) kit.FuncSet { return Set(c.ExtMethod(r, "os", fileT, name)) }
		renames := asInstrs(kit.CallsTo(fn, Set(rename)))
		if len(renames) != 1 {
			c.R.Fail(r, "atomicfile.WriteFile: single rename", c.Pos(fn.Pos()), "expected exactly one os.Rename")
		}
		for _, st := range []struct {
			name string
			set  kit.FuncSet
		}{{"os.CreateTemp", Set(createTemp)}, {"tmp.Write", m("Write")}, {"tmp.Sync", m("Sync")}, {"tmp.Close", m("Close")}} {
			// the step itself, or a helper whose success implies the step's success
			calls := kit.CallsToOK(fn, st.set, 2)
			if len(calls) == 0 {
				c.R.Fail(r, "atomicfile.WriteFile: "+st.name, c.Pos(fn.Pos()), "step `"+st.name+"` not found")
				continue
			}
			c.Dominated(r, "atomicfile.WriteFile: "+st.name+"[ok] -> os.Rename", renames, okGates(calls, ""), "the success edge of "+st.name)
		}
		// write before sync before the checked close — in whichever function performs the sync
		var syncIn func(f *ssa.Function, depth int)
		syncIn = func(f *ssa.Function, depth int) {
			if direct := kit.CallsTo(f, m("Sync")); len(direct) > 0 {
				c.Dominated(r, "atomicfile.WriteFile: tmp.Write[ok] -> tmp.Sync", asInstrs(direct), okGates(kit.CallsToOK(f, m("Write"), 1), ""), "the success edge of tmp.Write")
				return
			}
			if depth <= 0 {
				return
			}
			for _, call := range kit.CallsToOK(f, m("Sync"), 2) {
				if h := call.Common().StaticCallee(); h != nil {
					syncIn(h, depth-1)
				}
			}
		}
		syncIn(fn, 2)
		dir := c.ExtFunc(r, "path/filepath", "Dir")
		for _, call := range kit.CallsTo(fn, Set(createTemp)) {
			a := call.Common().Args
			ok := false
			if len(a) == 2 {
				if dc, isCall := a[0].(*ssa.Call); isCall && kit.CalleeOf(dc.Common()) == dir {
					if dc.Call.Args[0] == argParam(fn, 0) {
						ok = true
					}
				}
			}
			c.R.Check(ok, r, "atomicfile.WriteFile: temp file in the target's directory", c.Pos(call.Pos()), "CreateTemp(filepath.Dir(path), ...)", "the temp file is not created in filepath.Dir(path): the final rename may cross file systems and stop being atomic", true)
		}
		for _, call := range kit.CallsTo(fn, Set(rename)) {
			a := call.Common().Args
			ok := false
			if len(a) == 2 {
				if a[1] == argParam(fn, 0) {
					ok = true
				}
			}
			c.R.Check(ok, r, "atomicfile.WriteFile: rename onto the target path", c.Pos(call.Pos()), "Rename(tmp, path)", "the rename target is not the path parameter", true)
		}
		nilRets, _ := kit.NilReturns(fn)
		c.Dominated(r, "atomicfile.WriteFile: success only after the rename", asInstrs(nilRets), okGates(kit.CallsTo(fn, Set(rename)), ""), "os.Rename success edge")
	}
	// SaveManifest / SaveState write only via atomicfile.WriteFile
	write := Set(c.Fn(r, pAtomicfile, "WriteFile"))
	for _, t := range [][2]string{{pRegistry, "SaveManifest"}, {pRegIndex, "SaveState"}} {
		sf := c.SSA(r, t[0], t[1])
		if sf == nil {
			continue
		}
		c.R.Check(len(kit.CallsTo(sf, write)) == 1, r, t[1]+": writes through atomicfile.WriteFile", c.Pos(sf.Pos()), "ok", t[1]+" does not write through atomicfile.WriteFile exactly once", true)
		bad := false
		for _, b := range sf.Blocks {
			for _, in := range b.Instrs {
				if ci, ok := in.(ssa.CallInstruction); ok {
					if f := kit.CalleeOf(ci.Common()); f != nil && f.Pkg() != nil && f.Pkg().Path() == "os" {
						switch f.Name() {
						case "WriteFile", "Create", "OpenFile", "Rename":
							bad = true
						}
					}
				}
			}
		}
		c.R.Check(!bad, r, t[1]+": no direct os write", c.Pos(sf.Pos()), "ok", t[1]+" writes the file with a direct os call: an interruption can leave a torn file", true)
		nilRets, _ := kit.NilReturns(sf)
		c.Dominated(r, t[1]+": success only after the atomic write succeeded", asInstrs(nilRets), okGates(kit.CallsTo(sf, write), ""), "atomicfile.WriteFile success edge")
	}
	// no other function in pkg/registry/index writes files directly
	p := c.W.Pkg(pRegIndex)
	if p != nil {
		for id, obj := range p.TypesInfo.Uses {
			if obj.Pkg() != nil && obj.Pkg().Path() == "os" {
				switch obj.Name() {
				case "WriteFile", "Create", "Rename":
					c.R.Fail(r, "pkg/registry/index uses os."+obj.Name()+" in "+c.W.EnclosingKey(id.Pos()), c.Pos(id.Pos()), "direct file write in the index-state package")
				}
			}
		}
	}
	_ = ast.Inspect
}

func c19R6(c *Ctx) {
	r := c.R.Rule("R6", "K8 verifiers: InstallOptions.validate refuses nil verifiers; FailClosedVerifier.VerifyArtifact/VerifyIndex never return a nil error", 3)
	if fn := c.SSA(r, pRegistry, "(*InstallOptions).validate"); fn != nil {
		nilRets, _ := kit.NilReturns(fn)
		for _, fname := range []string{"IndexVerifier", "ArtifactVerifier"} {
			f := c.Field(r, pRegistry, "InstallOptions", fname)
			g := kit.NewGates()
			for _, l := range kit.FieldLoads(fn, f) {
				g.AddEdges(kit.NilEdges(l, false), fname+" != nil")
			}
			c.Dominated(r, "InstallOptions.validate: nil "+fname+" refused", asInstrs(nilRets), g, "the opts."+fname+" != nil edge")
		}
	}
	t := c.W.LookupType(pRegistry, "FailClosedVerifier")
	if t == nil {
		c.R.Unresolved(r, pRegistry+".FailClosedVerifier")
		return
	}
	if fn := c.W.SSAFunc(c.W.LookupFunc(pRegistry, "FailClosedVerifier.VerifyArtifact")); fn != nil {
		nilRets, _ := kit.NilReturns(fn)
		c.R.Check(len(nilRets) == 0, r, "FailClosedVerifier.VerifyArtifact never succeeds", c.Pos(fn.Pos()), "no nil-error return", "FailClosedVerifier.VerifyArtifact can return a nil error: the fail-closed default would accept an artifact", true)
	} else {
		c.R.Unresolved(r, pRegistry+".FailClosedVerifier.VerifyArtifact")
	}
	if fn := c.W.SSAFunc(c.W.LookupFunc(pRegistry, "FailClosedVerifier.VerifyIndex")); fn != nil {
		// a shape check only: whatever it returns is marked Verified:false
		vf := c.Field(r, pRegIndex, "VerifiedIndex", "Verified")
		ok := true
		n := 0
		for _, st := range kit.FieldStores(fn, vf) {
			n++
			if !kit.IsBoolConst(st.Val, false) {
				ok = false
			}
		}
		c.R.Check(ok, r, "FailClosedVerifier.VerifyIndex never reports Verified", c.Pos(fn.Pos()), "Verified is never set true", "FailClosedVerifier.VerifyIndex can report a snapshot as Verified", true)
	} else {
		c.R.Unresolved(r, pRegistry+".FailClosedVerifier.VerifyIndex")
	}
}

func isStrConst(v ssa.Value, want string) bool {
	k, ok := v.(*ssa.Const)
	return ok && k.Value != nil && k.Value.Kind() == constant.String && constant.StringVal(k.Value) == want
}

// strEqEdges: the edges on which some string value equals the constant want.
func strEqEdges(fn *ssa.Function, want string) []kit.Edge {
	return kit.CmpEdges(fn, func(b *ssa.BinOp) (bool, bool) {
		if isStrConst(b.X, want) || isStrConst(b.Y, want) {
			switch b.Op {
			case token.EQL:
				return true, true
			case token.NEQ:
				return true, false
			}
		}
		return false, false
	})
}

// c19R9: the role label of an index signature lives in the unsigned envelope; what makes a signature a ROOT
// signature is the key set it was verified against. A key is looked up in TrustAnchors.Roots only for an entry
// declared "root" and in TrustAnchors.Freshness only for one declared "freshness", and Verify counts a signature as
// root-verified only on the "root" arm behind ed25519.Verify — so the (nightly, online) freshness key can never
// authorise new index content, i.e. an arbitrary version / artifact set.
func c19R9(c *Ctx) {
	r := c.R.Rule("R9", "K3 index signature roles: TrustAnchors.Roots is consulted only on a role==\"root\" edge and TrustAnchors.Freshness only on a role==\"freshness\" edge; in index.Verify the root-verified flag becomes true only on the \"root\" arm behind the ed25519.Verify success edge", 4)
	rootsF := c.Field(r, pRegIndex, "TrustAnchors", "Roots")
	freshF := c.Field(r, pRegIndex, "TrustAnchors", "Freshness")
	pkg := c.W.Pkg(pRegIndex)
	verify := c.SSA(r, pRegIndex, "Verify")
	if rootsF == nil || freshF == nil || pkg == nil || verify == nil {
		return
	}
	n := 0
	for _, fn := range c.W.AllFuncs(c.W.SSA[pkg.Types]) {
		for _, b := range fn.Blocks {
			for _, in := range b.Instrs {
				lk, ok := in.(*ssa.Lookup)
				if !ok {
					continue
				}
				for _, t := range []struct {
					f    *types.Var
					role string
				}{{rootsF, "root"}, {freshF, "freshness"}} {
					if !kit.IsFieldLoad(lk.X, t.f) {
						continue
					}
					n++
					c.Dominated(r, kit.FuncKey(fn)+": TrustAnchors."+t.f.Name()+" consulted only for a signature declared "+t.role, []ssa.Instruction{lk}, kit.NewGates().AddEdges(strEqEdges(fn, t.role), "role == "+t.role), "the role == \""+t.role+"\" edge")
				}
			}
		}
	}
	c.R.Check(n >= 2, r, "index: anchor lookups", c.Pos(verify.Pos()), "found", "fewer than two lookups in TrustAnchors.Roots / .Freshness found", true)
	// Verify: RootVerified
	rvF := c.Field(r, pRegIndex, "VerifiedIndex", "RootVerified")
	edv := c.W.ExtObj("crypto/ed25519", "Verify")
	if rvF == nil || edv == nil {
		c.R.Unresolved(r, "VerifiedIndex.RootVerified / ed25519.Verify")
		return
	}
	g := kit.NewGates().AddEdges(strEqEdges(verify, "root"), "sig.Role == root")
	g2 := kit.NewGates()
	for _, call := range kit.CallsTo(verify, Set(edv.(*types.Func))) {
		g2.AddEdges(kit.CondEdges(call.Value(), true), "ed25519.Verify")
	}
	m := 0
	seen := map[ssa.Value]bool{}
	var walk func(v ssa.Value)
	walk = func(v ssa.Value) {
		if seen[v] {
			return
		}
		seen[v] = true
		phi, ok := v.(*ssa.Phi)
		if !ok {
			if !kit.IsBoolConst(v, false) {
				c.R.Fail(r, "Verify: the root-verified flag is a constant set on the root arm", c.Pos(verify.Pos()), "RootVerified is computed from something other than `true` assigned on the root arm")
			}
			return
		}
		for i, e := range phi.Edges {
			if kit.IsBoolConst(e, true) {
				m++
				pred := phi.Block().Preds[i]
				last := pred.Instrs[len(pred.Instrs)-1]
				c.Dominated(r, "Verify: root-verified only for a signature declared root", []ssa.Instruction{last}, g, "the sig.Role == \"root\" edge")
				c.Dominated(r, "Verify: root-verified only behind ed25519.Verify", []ssa.Instruction{last}, g2, "the ed25519.Verify(...) == true edge")
				continue
			}
			walk(e)
		}
	}
	for _, st := range kit.FieldStores(verify, rvF) {
		walk(st.Val)
	}
	c.R.Check(m >= 1, r, "Verify: root-verified assignment", c.Pos(verify.Pos()), "found", "no `rootVerified = true` reaching VerifiedIndex.RootVerified found", true)
}

// c19R10: the digest Download reports — the one CheckCorruption compares with the index and the verifier and manifest
// see — covers exactly the bytes of the staged file: one stream is copied into the freshly created file through a
// TeeReader into the hasher, the hasher is never reset, and the copy is not repeated into the same file.
func c19R10(c *Ctx) {
	r := c.R.Rule("R10", "K6/K3 the reported digest is the digest of the staged file: Download copies one response into the O_EXCL-created file through io.TeeReader(…, h), never repeats the copy into the same file (loop) and never resets h; DownloadResult.Digest is h.Sum", 4)
	fn := c.SSA(r, pRegistry, "Download")
	if fn == nil {
		return
	}
	cp, _ := c.W.ExtObj("io", "Copy").(*types.Func)
	tee, _ := c.W.ExtObj("io", "TeeReader").(*types.Func)
	openFile, _ := c.W.ExtObj("os", "OpenFile").(*types.Func)
	if cp == nil || tee == nil || openFile == nil {
		c.R.Unresolved(r, "io.Copy / io.TeeReader / os.OpenFile")
		return
	}
	copies := kit.CallsTo(fn, Set(cp))
	c.R.Check(len(copies) == 1, r, "Download: one io.Copy into the staging file", c.Pos(fn.Pos()), "one", "expected exactly one io.Copy in Download: the staged file must receive exactly one stream", true)
	loops := kit.Loops(fn)
	var hashers []ssa.Value
	for _, call := range copies {
		a := call.Common().Args
		inLoop := false
		for _, l := range loops {
			if l.Contains(call) {
				inLoop = true
			}
		}
		c.R.Check(!inLoop, r, "Download: the copy into the staging file is not repeated", c.Pos(call.Pos()), "straight-line", "io.Copy into the staging file runs in a loop (a retry): the file is opened once and neither truncated nor rewound, so a second response is APPENDED to the partial first one while the digest covers only the last response — CheckCorruption, the verifier and the manifest see the genuine digest, ExtractBinary reads the first (unsigned) archive in the file", true)
		// dst is the file created by OpenFile
		dstOK := kit.DerivesFrom(a[0], func(x ssa.Value) bool {
			cl, ok := x.(*ssa.Call)
			return ok && kit.CalleeOf(cl.Common()) == openFile
		})
		c.R.Check(dstOK, r, "Download: the copy writes the file it created", c.Pos(call.Pos()), "os.OpenFile(destPath, …O_EXCL…)", "io.Copy's destination is not the file Download created", true)
		// src is TeeReader(_, h)
		srcOK := false
		kit.DerivesFrom(a[1], func(x ssa.Value) bool {
			cl, ok := x.(*ssa.Call)
			if ok && kit.CalleeOf(cl.Common()) == tee {
				srcOK = true
				hashers = append(hashers, kit.Unwrap(cl.Call.Args[1]))
				return true
			}
			return false
		})
		c.R.Check(srcOK, r, "Download: every byte written is hashed", c.Pos(call.Pos()), "io.TeeReader(body, h)", "io.Copy's source is not an io.TeeReader into the hasher: the bytes written to the staging file are not the bytes that are hashed", true)
	}
	// no Reset on a hasher; Digest from Sum
	sumOK := false
	for _, b := range fn.Blocks {
		for _, in := range b.Instrs {
			ci, ok := in.(ssa.CallInstruction)
			if !ok || !ci.Common().IsInvoke() {
				continue
			}
			isH := false
			for _, h := range hashers {
				if kit.Unwrap(ci.Common().Value) == h || kit.IsVar(ci.Common().Value, h) {
					isH = true
				}
			}
			if !isH {
				continue
			}
			switch ci.Common().Method.Name() {
			case "Reset":
				c.R.Fail(r, "Download: the hasher is never reset", c.Pos(ci.Pos()), "the hasher is reset after bytes were written to the staging file: the reported digest no longer covers the file's content")
			case "Sum":
				sumOK = true
			}
		}
	}
	c.R.Check(sumOK && len(hashers) > 0, r, "Download: the digest is the hasher's sum", c.Pos(fn.Pos()), "h.Sum", "DownloadResult.Digest is not computed by Sum on the hasher the TeeReader feeds", true)
}

// c19R11: F47. index.VerifiedIndex is also what a shape-checking-only (fail-closed) verifier returns, with
// Verified=false; its contract is that nobody acts on it without testing the flag. Bundle, RunAudit and
// verifyBundleIndex do; the install path has to as well — once --allow-unsigned skips the artifact gate nothing else
// stands between an unauthenticated index and an install.
func c19R11(c *Ctx) {
	r := c.R.Rule("R11", "K3 no install from an unverified index: every call of downloadVerifyAndInstall lies behind the `verified.Verified` true edge (VerifiedIndex.Verified tested in the caller)", 1)
	dvi := c.Fn(r, pRegistry, "downloadVerifyAndInstall")
	vF := c.Field(r, pRegIndex, "VerifiedIndex", "Verified")
	pkg := c.W.Pkg(pRegistry)
	if dvi == nil || vF == nil || pkg == nil {
		return
	}
	n := 0
	for _, fn := range c.W.AllFuncs(c.W.SSA[pkg.Types]) {
		calls := kit.CallsTo(fn, Set(dvi))
		if len(calls) == 0 {
			continue
		}
		n += len(calls)
		g := kit.NewGates()
		for _, l := range kit.FieldLoads(fn, vF) {
			g.AddEdges(kit.CondEdges(l, true), "verified.Verified")
		}
		c.Dominated(r, kit.FuncKey(fn)+": installs only from a cryptographically verified index", asInstrs(calls), g, "the verified.Verified edge")
	}
	c.R.Check(n >= 1, r, "registry: downloadVerifyAndInstall call", "", "found", "no call of downloadVerifyAndInstall found", true)
}

// c19R12: F48. The tightness check of a publisher's identity pin (TrustedVerifier.VerifyArtifact refuses a loose pin
// before looking at any signature) judged the pattern by scanning its bytes: "^<tight literal>|.*$" or an optional
// slash behind the repository segment passed and an artifact signed by an unrelated identity was accepted. What can be
// decided statically is only that the check judges the PARSED expression: ValidateIdentityPattern accepts (returns
// nil) only behind the success edge of regexp/syntax.Parse (directly or through a helper). Whether the accepted set of
// expressions is tight is a value-level question and not decided.
func c19R12(c *Ctx) {
	r := c.R.Rule("R12", "K3 the identity pin is judged on the parsed expression: trust.ValidateIdentityPattern returns nil only behind the success edge of regexp/syntax.Parse (possibly via a same-package helper)", 1)
	fn := c.SSA(r, "pkg/registry/trust", "ValidateIdentityPattern")
	parse, _ := c.W.ExtObj("regexp/syntax", "Parse").(*types.Func)
	if fn == nil {
		return
	}
	if parse == nil {
		c.R.Fail(r, "ValidateIdentityPattern: accepts only a parsed expression", c.Pos(fn.Pos()), "regexp/syntax is not in the import graph: the identity pin is judged by scanning the bytes of the pattern, which a top-level alternation (`^tight|.*$`), a quantifier behind the repository segment (`repo/?.*`) or a class escape passes — an artifact signed by an unrelated identity is then accepted as verified")
		return
	}
	g := okGates(kit.CallsToOK(fn, Set(parse), 2), "syntax.Parse ok")
	nilRets, _ := kit.NilReturns(fn)
	var targets []ssa.Instruction
	for _, ret := range nilRets {
		targets = append(targets, ret)
	}
	c.R.Check(len(targets) >= 1, r, "ValidateIdentityPattern: accepting return", c.Pos(fn.Pos()), "found", "no `return nil` in ValidateIdentityPattern", true)
	c.Dominated(r, "ValidateIdentityPattern: accepts only a parsed expression", targets, g, "the regexp/syntax.Parse success edge")
}
