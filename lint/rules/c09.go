package rules

import (
	"go/ast"
	"go/token"
	"go/types"
	"strings"

	"conduitlint/kit"

	"golang.org/x/tools/go/packages"
	"golang.org/x/tools/go/ssa"
)

const pBuiltinConn = "pkg/plugin/connector/builtin"

func init() {
	register(&Property{
		ID:          "C09",
		Run:         runC09,
		Explanation: "Decides the structural clauses that keep plugin reply shapes from crashing or wedging the engine: (R1) at every processor call boundary both 'more results than records' and 'fewer results than records' are diverted (refused or padded) before any positional use of the reply; (R2) the v1 destination acker indexes an ack batch only on an edge where that batch is known non-empty; (R3 = C08.R6) unknown / nil result kinds are refused; (R4) the retry recursion is entered only below the stall and attempt bounds, both of which return fatal coded errors; (R5) every call into a built-in connector implementation goes through the panic sandbox (tabled exception: the detached Run loop), whose goroutine recovers and answers on every path; (R6) the reconfigure hand-off answers exactly once on a buffered channel and the deferred-ack escalation never blocks without a cancellation arm; (R7) error records crossing the standalone plugin boundary are built with a non-nil error. Rules added later (after independent seeded changes and defect hunts) are not all enumerated here: every armed rule is listed with its description, kind and instance count under coverage.rules.",
		NotDecided:  []string{"index arithmetic over plugin-controlled values in general", "hangs in general (liveness)", "panics inside a built-in connector's own detached Run loop"},
		Assumptions: []string{"a deferred recover() in the same goroutine catches every panic of the sandboxed call"},
	})
}

func runC09(c *Ctx) {
	c09R1(c)
	c09R2(c)
	c08R6(c)
	c09R4(c)
	c09R5(c)
	c09R6(c)
	c09R7(c)
	c09R8(c)
	c08R5As(c, c.R.Rule("R9", "K3 (= C08.R5) v1: a processor reply that changes the record position — to anything, including an empty one — is refused: the record is replaced and sent on only on the bytes.Equal(processed position, original position) edge", 2))
	c09R10(c)
	c01R7As(c, c.R.Rule("R12", "K3 (= C01.R7) a source read of zero records acks nothing: runAckNacker.vote reaches the parent only from inside the per-record walk, so Source.Ack (which indexes the last position) never sees an empty slice", 3))
	c09R13(c)
	c01R4As(c, c.R.Rule("R11", "K3 (= C01.R4) v2: a destination (or DLQ) that answers with fewer acks than records written — empty ack responses — never makes DestinationTask.Do return nil: the pass fails instead of acking unconfirmed records", 4))
	c08R16As(c, c.R.Rule("R14", "K3 (= C08.R16) no reply shape of a conditional processor misattributes results: every return of RunnableProcessor.Process lies behind the `cond == nil` edge or the merge decision, so surplus results never yield an unmerged list that the engines apply to a record the plugin never saw", 1))
	c09R15(c)
	c09R16(c)
	c09R17(c)
	c09R18(c)
	c09R19(c)
	c09R20(c)
}

// c09R10: only the source task's read may end a pass quietly.
func c09R10(c *Ctx) {
	c09R10As(c, c.R.Rule("R10", "K3 v2 graceful-read classification: in Worker.doTaskAttempt a task error is turned into the (possibly nil) context error only for the first task of the chain (the source read) — a destination or processor error wrapping context.Canceled is still an error", 1))
}

func c09R10As(c *Ctx, r string) {
	fn := c.SSA(r, pFunnel, "(*Worker).doTaskAttempt")
	isFirst := c.Fn(r, pFunnel, "(*TaskNode).IsFirst")
	ctxErr := c.W.ExtMethod("context", "Context", "Err")
	if fn == nil || isFirst == nil || ctxErr == nil {
		return
	}
	g := kit.NewGates().AddEdges(condEdgesOfCalls(fn, Set(isFirst), true), "taskNode.IsFirst()")
	var rets []ssa.Instruction
	for _, ret := range kit.Returns(fn) {
		v := kit.RetVal(ret, len(ret.Results)-1)
		if call, ok := v.(*ssa.Call); ok && call.Call.IsInvoke() && call.Call.Method.Name() == "Err" && strings.HasSuffix(call.Call.Value.Type().String(), "context.Context") {
			rets = append(rets, ret)
		}
	}
	if len(rets) == 0 {
		c.R.Fail(r, "doTaskAttempt: graceful-read return", c.Pos(fn.Pos()), "no `return ctx.Err()` found")
		return
	}
	c.Dominated(r, "doTaskAttempt: `return ctx.Err()` only for the first task", rets, g, "the taskNode.IsFirst() edge")
}

// c09R8: whatever a standalone (WASM) processor module answers, the engine side
// that waits for the answer is woken.
func c09R8(c *Ctx) {
	r := c.R.Rule("R8", "K4 a reply always reaches the waiter: every exit of hostModuleInstance.commandResponse has delivered a result (the decoded response or the decode error) on commandResponses, the channel executeCommand waits on", 2)
	const rel = "pkg/plugin/processor/standalone"
	fn := c.SSA(r, rel, "(*hostModuleInstance).commandResponse")
	chF := c.Field(r, rel, "hostModuleInstance", "commandResponses")
	if fn == nil || chF == nil {
		return
	}
	g := kit.NewGates()
	for _, b := range fn.Blocks {
		for _, in := range b.Instrs {
			switch x := in.(type) {
			case *ssa.Send:
				if kit.IsFieldLoad(x.Chan, chF) {
					g.AddInstr(x, "commandResponses <- …")
				}
			case *ssa.Select:
				for i, st := range x.States {
					if st.Dir == types.SendOnly && kit.IsFieldLoad(st.Chan, chF) {
						g.AddEdges(kit.SelectArmEdges(x, i), "commandResponses <- …")
					}
				}
			}
		}
	}
	c.R.Check(!g.Empty(), r, "commandResponse: delivers on commandResponses", c.Pos(fn.Pos()), "ok", "commandResponse no longer sends on commandResponses", false)
	if g.Empty() || len(fn.Blocks) == 0 {
		return
	}
	ok, _ := kit.AllExitsFromEdge(kit.Edge{From: nil, To: fn.Blocks[0]}, false, kit.ExitSpec{Gates: g})
	c.R.Check(ok, r, "commandResponse: every exit has delivered a result to the waiting engine side", c.Pos(fn.Pos()), "ok", "an exit of commandResponse (e.g. the undecodable-response path) returns without sending anything on commandResponses: executeCommand, and with it Process/Open/Configure/Teardown of the processor, waits for ever — the record is neither acked nor nacked and the pipeline hangs", true)
}

// twoSided checks that every target is dominated (a) by an edge/instruction
// establishing len(out) <= len(in) and (b) by one establishing len(out) >=
// len(in) (a comparison edge, or the padding append).
func twoSided(c *Ctx, r, key string, fn *ssa.Function, call ssa.CallInstruction, targets []ssa.Instruction) {
	out, in := call.Value(), call.Common().Args[1]
	isLenIn := func(v ssa.Value) bool { return kit.IsLenOf(v, func(x ssa.Value) bool { return x == in }) }
	// the reply, or the reply merged with a replacement list of exactly len(in) entries
	var isOut func(x ssa.Value, d int) bool
	isOut = func(x ssa.Value, d int) bool {
		if x == ssa.Value(out) {
			return true
		}
		phi, ok := x.(*ssa.Phi)
		if !ok || d > 3 {
			return false
		}
		hasOut := false
		for _, e := range phi.Edges {
			switch {
			case isOut(e, d+1):
				hasOut = true
			default:
				y := e
				if sl, ok := y.(*ssa.Slice); ok {
					y = sl.X
				}
				ms, ok := y.(*ssa.MakeSlice)
				if !ok || !isLenIn(ms.Len) {
					return false
				}
			}
		}
		return hasOut
	}
	isLenOut := func(v ssa.Value) bool { return kit.IsLenOf(v, func(x ssa.Value) bool { return isOut(x, 0) }) }
	notMore := kit.NewGates().AddEdges(kit.CmpEdges(fn, func(b *ssa.BinOp) (bool, bool) {
		switch {
		case isLenOut(b.X) && isLenIn(b.Y):
			switch b.Op {
			case token.GTR:
				return true, false
			case token.LEQ, token.EQL:
				return true, true
			case token.NEQ:
				return true, false
			}
		case isLenIn(b.X) && isLenOut(b.Y):
			switch b.Op {
			case token.LSS:
				return true, false
			case token.GEQ, token.EQL:
				return true, true
			case token.NEQ:
				return true, false
			}
		}
		return false, false
	}), "len(out) <= len(in)")
	notFewer := kit.NewGates().AddEdges(kit.CmpEdges(fn, func(b *ssa.BinOp) (bool, bool) {
		switch {
		case isLenOut(b.X) && isLenIn(b.Y):
			switch b.Op {
			case token.LSS:
				return true, false
			case token.GEQ, token.EQL:
				return true, true
			case token.NEQ:
				return true, false
			}
		case isLenIn(b.X) && isLenOut(b.Y):
			switch b.Op {
			case token.GTR:
				return true, false
			case token.LEQ, token.EQL:
				return true, true
			case token.NEQ:
				return true, false
			}
		}
		return false, false
	}), "len(out) >= len(in)")
	// replacement: out = make([]T, len(in)) — the reply is discarded for a list with one entry per record given
	// (F29: the surplus cannot be attributed, every record that was handed to the plugin gets the error)
	for _, b := range fn.Blocks {
		for _, ins := range b.Instrs {
			if ms, ok := ins.(*ssa.MakeSlice); ok && isLenIn(ms.Len) {
				// it must take out's place: some phi merges it with the reply
				replaces := false
				if refs := ms.Referrers(); refs != nil {
					for _, u := range *refs {
						if sl, ok := u.(*ssa.Slice); ok {
							if r2 := sl.Referrers(); r2 != nil {
								for _, u2 := range *r2 {
									if phi, ok := u2.(*ssa.Phi); ok {
										for _, e := range phi.Edges {
											if e == out {
												replaces = true
											}
										}
									}
								}
							}
						}
						if phi, ok := u.(*ssa.Phi); ok {
							for _, e := range phi.Edges {
								if e == out {
									replaces = true
								}
							}
						}
					}
				}
				if replaces {
					notMore.AddInstr(ms, "reply replaced by len(in) entries")
				}
			}
		}
	}
	// padding: out = append(out, make([]T, len(in)-len(out))...)
	for _, b := range fn.Blocks {
		for _, ins := range b.Instrs {
			call, ok := ins.(*ssa.Call)
			if !ok {
				continue
			}
			bi, ok := call.Call.Value.(*ssa.Builtin)
			if !ok || bi.Name() != "append" || len(call.Call.Args) != 2 || !isOut(call.Call.Args[0], 0) {
				continue
			}
			if ms, ok := call.Call.Args[1].(*ssa.MakeSlice); ok {
				if sub, ok := ms.Len.(*ssa.BinOp); ok && sub.Op == token.SUB && isLenIn(sub.X) && isLenOut(sub.Y) {
					notFewer.AddInstr(call, "padding to len(in)")
				}
			}
		}
	}
	if len(targets) == 0 {
		c.R.Fail(r, key+": positional use of the reply", c.Pos(fn.Pos()), "the code that consumes the reply positionally was not found")
	}
	for _, t := range targets {
		ok, path := kit.PassesBetween(call, t, notMore)
		c.R.Check(ok, r, key+": surplus results diverted before positional use", c.Pos(posOf(t)), "every path from the plugin call crosses len(results) <= len(records given)",
			"a path from the plugin call reaches the positional use of its reply without any test diverting MORE results than records given (blocks "+fmtInts(path)+"): the surplus indexes past the batch", true)
		ok, path = kit.PassesBetween(call, t, notFewer)
		c.R.Check(ok, r, key+": missing results diverted or padded before positional use", c.Pos(posOf(t)), "every path from the plugin call crosses len(results) >= len(records given) or the padding append",
			"a path from the plugin call reaches the positional use of its reply without diverting or padding FEWER results than records given (blocks "+fmtInts(path)+")", true)
	}
}

func c09R1(c *Ctx) {
	c09R1As(c, c.R.Rule("R1", "K13 processor reply length: at each Process call boundary both directions of a length mismatch are diverted before the reply is used positionally", 6))
}

func c09R1As(c *Ctx, r string) {
	procProcess := c.W.ExtMethod(pSDK, "Processor", "Process")
	if procProcess == nil {
		c.R.Unresolved(r, pSDK+".Processor.Process")
		return
	}
	plugin := func(fn *ssa.Function) []ssa.CallInstruction {
		var out []ssa.CallInstruction
		for _, b := range fn.Blocks {
			for _, in := range b.Instrs {
				ci, ok := in.(ssa.CallInstruction)
				if !ok || !ci.Common().IsInvoke() || ci.Common().Method.Name() != "Process" {
					continue
				}
				sig := ci.Common().Method.Type().(*types.Signature)
				if sig.Results().Len() == 1 && strings.HasSuffix(sig.Results().At(0).Type().String(), "ProcessedRecord") {
					out = append(out, ci)
				}
			}
		}
		return out
	}
	// v1 node
	if fn := c.SSA(r, pStream, "(*ProcessorNode).Run"); fn != nil {
		calls := plugin(fn)
		if len(calls) != 1 {
			c.R.Fail(r, "ProcessorNode.Run: Process call", c.Pos(fn.Pos()), "expected one Process call")
		}
		h := Set(c.Fn(r, pStream, "(*ProcessorNode).handleProcessedRecord"))
		for _, pc := range calls {
			twoSided(c, r, "v1 ProcessorNode.Run", fn, pc, asInstrs(kit.CallsTo(fn, h)))
		}
	}
	// v2 task
	if fn := c.SSA(r, pFunnel, "(*ProcessorTask).Do"); fn != nil {
		calls := plugin(fn)
		if len(calls) != 1 {
			c.R.Fail(r, "ProcessorTask.Do: Process call", c.Pos(fn.Pos()), "expected one Process call")
		}
		m := Set(c.Fn(r, pFunnel, "(*ProcessorTask).markBatchRecords"))
		for _, pc := range calls {
			twoSided(c, r, "v2 ProcessorTask.Do", fn, pc, asInstrs(kit.CallsTo(fn, m)))
		}
	}
	// RunnableProcessor: the conditional merge
	if fn := c.SSA(r, pProc, "(*RunnableProcessor).Process"); fn != nil {
		calls := plugin(fn)
		// the call on the kept records is the one whose argument is not the `records` parameter
		var merge []ssa.Instruction
		for _, b := range fn.Blocks {
			for _, in := range b.Instrs {
				if ms, ok := in.(*ssa.MakeSlice); ok && strings.HasSuffix(ms.Type().String(), "ProcessedRecord") {
					if add, ok := ms.Len.(*ssa.BinOp); ok && add.Op == token.ADD {
						merge = append(merge, ms) // tmp := make([]ProcessedRecord, len(outRecs)+len(passthrough))
					}
				}
			}
		}
		n := 0
		for _, pc := range calls {
			if pc.Common().Args[1] == argParam(fn, 1) {
				continue
			}
			n++
			if len(merge) == 0 {
				c.R.Fail(r, "RunnableProcessor.Process: passthrough merge", c.Pos(fn.Pos()), "the merge of plugin results with passthrough records was not found (shape changed)")
				continue
			}
			twoSided(c, r, "RunnableProcessor.Process (condition)", fn, pc, merge)
		}
		if n == 0 {
			c.R.Fail(r, "RunnableProcessor.Process: conditional Process call", c.Pos(fn.Pos()), "no Process call on the kept records found")
		}
	}
}

func c09R2(c *Ctx) {
	c09R2As(c, c.R.Rule("R2", "K13 destination acks (v1): DestinationAckerNode.worker indexes acks[0] only on an edge where that ack batch is known to be non-empty", 1))
}

func c09R2As(c *Ctx, r string) {
	fn := c.SSA(r, pStream, "(*DestinationAckerNode).worker")
	if fn == nil {
		return
	}
	n := 0
	for _, b := range fn.Blocks {
		for _, in := range b.Instrs {
			ia, ok := in.(*ssa.IndexAddr)
			if !ok || !strings.HasSuffix(ia.X.Type().String(), "DestinationAck") || !kit.IsIntConst(ia.Index, 0) {
				continue
			}
			n++
			// values that can flow into the indexed slice
			srcs := map[ssa.Value]bool{}
			var collect func(v ssa.Value, d int)
			collect = func(v ssa.Value, d int) {
				if srcs[v] || d > 6 {
					return
				}
				srcs[v] = true
				if ph, ok := v.(*ssa.Phi); ok {
					for _, e := range ph.Edges {
						collect(e, d+1)
					}
				}
			}
			collect(ia.X, 0)
			// per source value: the index must be dominated, on the paths where that value is current, by a non-empty edge for it.
			// Encoded as: gates = for every source value v, edges where len(v) != 0.
			g := kit.NewGates().AddEdges(kit.LenEdges(fn, func(x ssa.Value) bool { return srcs[x] }, 1, -1), "len(acks) != 0")
			// a freshly fetched batch (an Extract of the Destination.Ack call) must itself be tested: remove gates that tested only an older value on paths through the fetch
			fetchOK := true
			for v := range srcs {
				ex, isEx := v.(*ssa.Extract)
				if !isEx {
					continue
				}
				if _, isCall := ex.Tuple.(*ssa.Call); !isCall {
					continue
				}
				// every path from the fetch to the index passes a len(v)!=0 edge for THIS value
				gv := kit.NewGates().AddEdges(kit.LenEdges(fn, func(x ssa.Value) bool { return x == v }, 1, -1), "")
				if kit.Reaches(ex, ia, gv) {
					fetchOK = false
				}
			}
			ok1, _ := kit.MustPass(ia, g)
			c.R.Check(ok1 && fetchOK, r, "DestinationAckerNode.worker: acks[0] only on a non-empty ack batch", c.Pos(ia.Pos()), "guarded", "acks[0] is evaluated on a path where the ack batch just fetched from the destination was never tested for emptiness: an empty ack response panics the process", true)
		}
	}
	if n == 0 {
		c.R.Fail(r, "DestinationAckerNode.worker: acks[0]", c.Pos(fn.Pos()), "no acks[0] index found (shape changed)")
	}
	// fetched-but-unmatched acks are never discarded: the buffer is reset to nil only at function entry, never inside a loop
	// (a destination may confirm several records in one response; dropping the rest makes the next Ack() wait forever)
	np := 0
	for _, b := range fn.Blocks {
		for _, in := range b.Instrs {
			ph, ok := in.(*ssa.Phi)
			if !ok || !strings.HasSuffix(ph.Type().String(), "DestinationAck") {
				continue
			}
			for i, e := range ph.Edges {
				if !kit.IsNilConst(e) {
					continue
				}
				np++
				pred := b.Preds[i]
				c.R.Check(!blockInLoop(pred), r, "DestinationAckerNode.worker: leftover acks survive idle periods", c.Pos(posOf(ph)), "the ack buffer is only initialised at function entry",
					"the buffer of fetched-but-unmatched acks is reset inside a loop (declared per iteration): leftover acks of a batched response are dropped when the worker goes idle, and the next Destination.Ack call blocks forever", true)
			}
		}
	}
	if np == 0 {
		c.R.Undecided(r, "DestinationAckerNode.worker: ack buffer", c.Pos(fn.Pos()), "the loop-carried ack buffer was not found")
	}
}

// blockInLoop reports whether b lies on a cycle of the control-flow graph.
func blockInLoop(b *ssa.BasicBlock) bool {
	seen := map[*ssa.BasicBlock]bool{}
	work := append([]*ssa.BasicBlock{}, b.Succs...)
	for len(work) > 0 {
		x := work[0]
		work = work[1:]
		if x == b {
			return true
		}
		if seen[x] {
			continue
		}
		seen[x] = true
		work = append(work, x.Succs...)
	}
	return false
}

func c09R4(c *Ctx) {
	r := c.R.Rule("R4", "K3 bounded retry: the RecordFlagRetry recursion is reached only below the stall bound and the attempt bound; exceeding either returns a fatal error", 4)
	fn := c.SSA(r, pFunnel, "(*Worker).doTaskAttempt")
	if fn == nil {
		return
	}
	attempt := Set(c.Fn(r, pFunnel, "(*Worker).doTaskAttempt"))
	maxStall := c.W.LookupObj(pFunnel, "maxRetryStall")
	maxAttempts := c.W.LookupObj(pFunnel, "maxRetryAttempts")
	fatal := c.Fn(r, pCerrors, "FatalError")
	if maxStall == nil || maxAttempts == nil {
		c.R.Unresolved(r, pFunnel+".maxRetryStall/maxRetryAttempts")
		return
	}
	rec := kit.CallsTo(fn, attempt)
	if len(rec) == 0 {
		c.R.Fail(r, "doTaskAttempt: retry recursion", c.Pos(fn.Pos()), "no recursive call found")
		return
	}
	var stallTrue, stallFalse, attTrue, attFalse []kit.Edge
	for _, b := range fn.Blocks {
		for _, in := range b.Instrs {
			cmp, ok := in.(*ssa.BinOp)
			if !ok {
				continue
			}
			switch {
			case cmp.Op == token.GEQ && isGlobalLoad(cmp.Y, maxStall):
				stallTrue = append(stallTrue, kit.CondEdges(cmp, true)...)
				stallFalse = append(stallFalse, kit.CondEdges(cmp, false)...)
			case cmp.Op == token.GTR && isGlobalLoad(cmp.Y, maxAttempts):
				attTrue = append(attTrue, kit.CondEdges(cmp, true)...)
				attFalse = append(attFalse, kit.CondEdges(cmp, false)...)
			}
		}
	}
	c.Dominated(r, "doTaskAttempt: recursion only below the attempt bound", asInstrs(rec), kit.NewGates().AddEdges(attFalse, ""), "the count <= maxRetryAttempts edge")
	// the stall test only exists on the retry!=nil path: recursion must not be reachable from its true edge
	okStall := len(stallTrue) > 0
	for _, e := range stallTrue {
		for _, rc := range rec {
			if kit.EdgeReaches(e, rc, kit.NewGates().AddEdges(loopBackEdges(fn), "")) {
				okStall = false
			}
		}
	}
	c.R.Check(okStall, r, "doTaskAttempt: a stalled retry chain never recurses", c.Pos(fn.Pos()), "stall >= maxRetryStall cannot reach the recursion", "the stall >= maxRetryStall edge is missing or can reach the recursive call", true)
	// both bound edges lead to a FatalError return
	for name, edges := range map[string][]kit.Edge{"stall bound": stallTrue, "attempt bound": attTrue} {
		ok := len(edges) > 0
		for _, e := range edges {
			g := kit.NewGates()
			for _, fc := range kit.CallsTo(fn, Set(fatal)) {
				g.AddInstr(fc, "cerrors.FatalError")
			}
			all, _ := kit.AllExitsFromEdge(e, false, kit.ExitSpec{Gates: g})
			// defers in doTaskAttempt: the release() defer is not a gate; treat RunDefers as neutral
			if !all {
				ok = false
			}
		}
		c.R.Check(ok, r, "doTaskAttempt: exceeding the "+name+" returns a fatal error", c.Pos(fn.Pos()), "every exit from the bound edge passes cerrors.FatalError", "exceeding the "+name+" no longer returns through cerrors.FatalError: the pipeline would restart and loop on the same batch", true)
	}
}

func c09R5(c *Ctx) {
	r := c.R.Rule("R5", "K1/K4 sandbox coverage: every use of a built-in connector implementation's methods goes through runSandbox (tabled: the detached Run loop); the sandbox goroutine recovers and answers on every path", 18)
	p := c.W.Pkg(pBuiltinConn)
	if p == nil {
		c.R.Unresolved(r, pBuiltinConn)
		return
	}
	info := p.TypesInfo
	n := 0
	for _, f := range p.Syntax {
		// parent map for call-argument detection
		ast.Inspect(f, func(nd ast.Node) bool {
			call, ok := nd.(*ast.CallExpr)
			if !ok {
				return true
			}
			// direct call on impl: x.impl.M(...)
			if se, ok := call.Fun.(*ast.SelectorExpr); ok {
				if inner, ok := se.X.(*ast.SelectorExpr); ok && inner.Sel.Name == "impl" {
					n++
					where := c.W.EnclosingKey(call.Pos())
					okRun := se.Sel.Name == "Run"
					c.R.Check(okRun, r, "direct impl."+se.Sel.Name+" call in "+where, c.Pos(call.Pos()), "tabled: detached streaming loop (a panic there is not a reply shape)", "impl."+se.Sel.Name+" is called directly in "+where+" instead of through runSandbox: a panic in the built-in connector crashes the engine", false)
				}
			}
			// method values impl.M passed as first argument of runSandbox
			if id, ok := call.Fun.(*ast.Ident); ok && strings.HasPrefix(id.Name, "runSandbox") && len(call.Args) > 0 {
				if se, ok := call.Args[0].(*ast.SelectorExpr); ok {
					if inner, ok := se.X.(*ast.SelectorExpr); ok && inner.Sel.Name == "impl" {
						n++
						c.R.Pass(r, "sandboxed impl."+se.Sel.Name+" in "+c.W.EnclosingKey(call.Pos()), c.Pos(call.Pos()), "through runSandbox", false)
					}
				}
			}
			return true
		})
		// any other method value of impl (not an argument of runSandbox) is a leak
		ast.Inspect(f, func(nd ast.Node) bool {
			se, ok := nd.(*ast.SelectorExpr)
			if !ok {
				return true
			}
			inner, ok := se.X.(*ast.SelectorExpr)
			if !ok || inner.Sel.Name != "impl" {
				return true
			}
			if _, isFunc := info.Uses[se.Sel].(*types.Func); !isFunc {
				return true
			}
			// classify by context: either callee of a call, or arg0 of runSandbox
			okCtx := false
			ast.Inspect(f, func(m ast.Node) bool {
				call, ok := m.(*ast.CallExpr)
				if !ok {
					return true
				}
				if call.Fun == ast.Expr(se) {
					okCtx = true
				}
				if id, ok := call.Fun.(*ast.Ident); ok && strings.HasPrefix(id.Name, "runSandbox") && len(call.Args) > 0 && call.Args[0] == ast.Expr(se) {
					okCtx = true
				}
				return true
			})
			if !okCtx {
				c.R.Fail(r, "impl."+se.Sel.Name+" escapes the sandbox in "+c.W.EnclosingKey(se.Pos()), c.Pos(se.Pos()), "a method value of the built-in implementation is used outside runSandbox")
			}
			return true
		})
	}
	if n < 10 {
		c.R.Fail(r, "built-in adapter calls", "", "fewer impl calls found than on the reference tree")
	}
	// sandbox shape: the goroutine has a deferred recover that answers
	sb := c.W.LookupObj(pBuiltinConn, "runSandbox")
	if sb == nil {
		c.R.Unresolved(r, pBuiltinConn+".runSandbox")
		return
	}
	fd := findDecl(p, "", "runSandbox")
	hasRecover, recoverAnswers, goCount := false, false, 0
	ast.Inspect(fd, func(nd ast.Node) bool {
		if g, ok := nd.(*ast.GoStmt); ok {
			goCount++
			ast.Inspect(g, func(m ast.Node) bool {
				d, ok := m.(*ast.DeferStmt)
				if !ok {
					return true
				}
				ast.Inspect(d, func(k ast.Node) bool {
					if call, ok := k.(*ast.CallExpr); ok {
						if id, ok := call.Fun.(*ast.Ident); ok {
							if id.Name == "recover" {
								hasRecover = true
							}
							if id.Name == "returnResponse" && hasRecover {
								recoverAnswers = true
							}
						}
					}
					return true
				})
				return true
			})
		}
		return true
	})
	c.R.Check(goCount == 1 && hasRecover && recoverAnswers, r, "runSandbox: the sandboxed call runs in a goroutine with a deferred recover that answers", c.Pos(fd.Pos()), "ok", "runSandbox no longer recovers a panic of the built-in connector and turns it into the returned error", false)
}

func c09R6(c *Ctx) {
	r := c.R.Rule("R6", "K4 no wedge on hand-offs: applyPendingSwap answers a claimed request exactly once on a buffered channel; the deferred-ack escalation has a cancellation arm; deliverOneAck does not escalate while tearing down", 4)
	if fn := c.SSA(r, pStream, "(*ProcessorNode).applyPendingSwap"); fn != nil {
		var sends []ssa.Instruction
		for _, b := range fn.Blocks {
			for _, in := range b.Instrs {
				if s, ok := in.(*ssa.Send); ok && kit.DerivesFromPath(s.Chan, "done") {
					sends = append(sends, s)
				}
			}
		}
		c.R.Check(len(sends) >= 1, r, "applyPendingSwap: answers on p.done", c.Pos(fn.Pos()), "ok", "applyPendingSwap no longer answers the claimed request", true)
		// exactly once: no path from one send to another send
		once := true
		for _, a := range sends {
			for _, b := range sends {
				if kit.Reaches(a, b, nil) {
					once = false
				}
			}
		}
		c.R.Check(once, r, "applyPendingSwap: at most one answer per claim", c.Pos(fn.Pos()), "ok", "two sends on p.done can follow each other: the second blocks the node's Run goroutine forever (buffer of one)", true)
		// every exit after the claim (p != nil edge) passes a send
		pendF := c.Field(r, pStream, "ProcessorNode", "pending")
		g := kit.NewGates()
		for _, s := range sends {
			g.AddInstr(s, "p.done <- err")
		}
		claimed := false
		for _, l := range kit.FieldLoads(fn, pendF) {
			for _, e := range kit.NilEdges(l, false) {
				claimed = true
				ok, exit := kit.AllExitsFromEdge(e, false, kit.ExitSpec{Gates: g})
				c.R.Check(ok, r, "applyPendingSwap: a claimed request is always answered", c.Pos(fn.Pos()), "every exit after the claim passes the send", "a path leaves applyPendingSwap after claiming a request without answering it (exit "+fmtInts(exit)+"): Reconfigure waits forever", true)
			}
		}
		if !claimed {
			c.R.Undecided(r, "applyPendingSwap: claim edge", c.Pos(fn.Pos()), "no `pending != nil` edge found")
		}
	}
	if fn := c.SSA(r, pStream, "(*ProcessorNode).Reconfigure"); fn != nil {
		// done channel is created with capacity >= 1
		ok := false
		for _, b := range fn.Blocks {
			for _, in := range b.Instrs {
				if mc, isMC := in.(*ssa.MakeChan); isMC && isErrChan(mc.Type()) {
					if k, isK := constInt(mc.Size); isK && k >= 1 {
						ok = true
					}
				}
			}
		}
		c.R.Check(ok, r, "Reconfigure: done channel is buffered", c.Pos(fn.Pos()), "make(chan error, 1)", "the reconfigure result channel is unbuffered: applyPendingSwap would block on a caller that already gave up", true)
	}
	if fn := c.SSA(r, pConn, "(*Source).escalateDeferredAckFailure"); fn != nil {
		errsF := c.Field(r, pConn, "Source", "errs")
		ctxF := c.Field(r, pConn, "Source", "streamCtx")
		okAll := true
		for _, b := range fn.Blocks {
			for _, in := range b.Instrs {
				if s, isSend := in.(*ssa.Send); isSend && kit.IsFieldLoad(s.Chan, errsF) {
					// a bare send is allowed only on the streamCtx == nil edge
					g := kit.NewGates()
					for _, l := range kit.FieldLoads(fn, ctxF) {
						g.AddEdges(kit.NilEdges(l, true), "")
					}
					if ok, _ := kit.MustPass(s, g); !ok {
						okAll = false
					}
				}
			}
		}
		hasSel := false
		for _, sel := range kit.Selects(fn) {
			send, done := false, false
			for _, st := range sel.States {
				if st.Dir == types.SendOnly && kit.IsFieldLoad(st.Chan, errsF) {
					send = true
				}
				if st.Dir == types.RecvOnly {
					done = true
				}
			}
			if send && done {
				hasSel = true
			}
		}
		c.R.Check(okAll && hasSel, r, "escalateDeferredAckFailure: escalation cannot block past teardown", c.Pos(fn.Pos()), "select { errs <- err; <-streamCtx.Done() }", "the escalation sends on errs without a cancellation arm: once the node stopped reading, the delivery goroutine hangs and Teardown never joins it", true)
	}
}

func isErrChan(t types.Type) bool {
	ch, ok := t.Underlying().(*types.Chan)
	return ok && isErrorType(ch.Elem())
}

func c09R7(c *Ctx) {
	r := c.R.Rule("R7", "K16 reply-carried errors: every sdk.ErrorRecord built at the standalone plugin boundary carries an error that is non-nil by construction", 2)
	p := c.W.Pkg("pkg/plugin/processor/standalone")
	if p == nil {
		c.R.Unresolved(r, "pkg/plugin/processor/standalone")
		return
	}
	n := 0
	for _, f := range p.Syntax {
		ast.Inspect(f, func(nd ast.Node) bool {
			cl, ok := nd.(*ast.CompositeLit)
			if !ok {
				return true
			}
			tv, ok := p.TypesInfo.Types[cl]
			if !ok || tv.Type == nil || !strings.HasSuffix(tv.Type.String(), "conduit-processor-sdk.ErrorRecord") {
				return true
			}
			where := c.W.EnclosingKey(cl.Pos())
			// zero-value literals used only as the first result of an error return are not replies
			n++
			var val ast.Expr
			for _, el := range cl.Elts {
				if kv, ok := el.(*ast.KeyValueExpr); ok {
					if id, ok := kv.Key.(*ast.Ident); ok && id.Name == "Error" {
						val = kv.Value
					}
				}
			}
			ok2 := false
			if val != nil {
				switch v := ast.Unparen(val).(type) {
				case *ast.CallExpr:
					ok2 = true // constructor / conversion call result
				case *ast.Ident:
					// an error variable: the literal must sit where that variable is known non-nil
					ok2 = nonNilAt(p, v, cl)
				}
			}
			if val == nil && returnedWithError(p.Syntax, cl) {
				c.R.Pass(r, "ErrorRecord{} beside a non-nil error return in "+where, c.Pos(cl.Pos()), "placeholder result of a failing conversion", false)
				return true
			}
			c.R.Check(ok2, r, "ErrorRecord built with a non-nil error in "+where, c.Pos(cl.Pos()), "Error: <constructed>", "an sdk.ErrorRecord is produced at the plugin boundary in "+where+" without an error that is non-nil by construction: the engines use ErrorRecord.Error as the nack reason and a nil reason turns the refusal into a success", false)
			return true
		})
	}
	if n == 0 {
		c.R.Fail(r, "ErrorRecord construction at the plugin boundary", "", "no ErrorRecord literal found in the standalone adapter")
	}
}

// returnedWithError reports whether cl is the first result of a return
// statement whose last result is not the nil identifier.
func returnedWithError(files []*ast.File, cl *ast.CompositeLit) bool {
	found := false
	for _, f := range files {
		if cl.Pos() < f.Pos() || cl.Pos() >= f.End() {
			continue
		}
		ast.Inspect(f, func(n ast.Node) bool {
			rs, ok := n.(*ast.ReturnStmt)
			if !ok || len(rs.Results) < 2 {
				return true
			}
			if rs.Results[0] == ast.Expr(cl) {
				if id, ok := rs.Results[len(rs.Results)-1].(*ast.Ident); !ok || id.Name != "nil" {
					found = true
				}
			}
			return true
		})
	}
	return found
}

// isGlobalLoad reports whether v is a load of the package-level variable obj
// (or a constant equal to obj when obj is a constant).
func isGlobalLoad(v ssa.Value, obj types.Object) bool {
	if isConstObj(v, obj) {
		return true
	}
	u, ok := v.(*ssa.UnOp)
	if !ok || u.Op != token.MUL {
		return false
	}
	g, ok := u.X.(*ssa.Global)
	return ok && g.Object() == obj
}

// nonNilAt reports whether identifier id (an error variable) is known non-nil
// at the literal: the literal is inside the body of an enclosing
// `if id != nil` statement, or id was defined by a constructor call
// (id := fmt.Errorf/cerrors.New/...) in the same block.
func nonNilAt(p *packages.Package, id *ast.Ident, at ast.Node) bool {
	obj := p.TypesInfo.Uses[id]
	if obj == nil {
		return false
	}
	res := false
	for _, f := range p.Syntax {
		if at.Pos() < f.Pos() || at.Pos() >= f.End() {
			continue
		}
		ast.Inspect(f, func(n ast.Node) bool {
			switch x := n.(type) {
			case *ast.IfStmt:
				if x.Body.Pos() <= at.Pos() && at.End() <= x.Body.End() {
					if be, ok := x.Cond.(*ast.BinaryExpr); ok && be.Op == token.NEQ {
						if l, ok := be.X.(*ast.Ident); ok && p.TypesInfo.Uses[l] == obj {
							if r, ok := be.Y.(*ast.Ident); ok && r.Name == "nil" {
								res = true
							}
						}
					}
				}
			case *ast.AssignStmt:
				if x.Tok == token.DEFINE && len(x.Lhs) == 1 && len(x.Rhs) == 1 && x.End() <= at.Pos() {
					if l, ok := x.Lhs[0].(*ast.Ident); ok && p.TypesInfo.Defs[l] == obj {
						if call, ok := x.Rhs[0].(*ast.CallExpr); ok {
							name := types.ExprString(call.Fun)
							if strings.HasSuffix(name, "Errorf") || strings.HasSuffix(name, ".New") {
								res = true
							}
						}
					}
				}
			}
			return true
		})
	}
	return res
}

// c09R13: the two-message reply protocol of the builtin plugin sandbox.
func c09R13(c *Ctx) {
	r := c.R.Rule("R13", "K4 builtin sandbox reply pairing: once returnResponse has delivered the response, every exit has also delivered the error by an unconditional send (runSandbox receives the second value with a bare `<-c`; a send that can be abandoned on ctx.Done leaves that receive blocked for ever)", 1)
	const rel = "pkg/plugin/connector/builtin"
	fn := c.SSA(r, rel, "returnResponse")
	if fn == nil {
		return
	}
	var chanP ssa.Value
	for _, p := range fn.Params {
		if _, ok := p.Type().Underlying().(*types.Chan); ok {
			chanP = p
		}
	}
	if chanP == nil {
		c.R.Undecided(r, "returnResponse: reply channel", c.Pos(fn.Pos()), "no channel parameter")
		return
	}
	g := kit.NewGates()
	for _, b := range fn.Blocks {
		for _, in := range b.Instrs {
			if s, ok := in.(*ssa.Send); ok && (s.Chan == chanP || kit.IsVar(s.Chan, chanP)) {
				g.AddInstr(s, "c <- err")
			}
		}
	}
	n := 0
	ok := true
	for _, sel := range kit.Selects(fn) {
		for i, st := range sel.States {
			if st.Dir == types.SendOnly && (st.Chan == chanP || kit.IsVar(st.Chan, chanP)) {
				for _, e := range kit.SelectArmEdges(sel, i) {
					n++
					if pass, _ := kit.AllExitsFromEdge(e, false, kit.ExitSpec{Gates: g}); !pass || g.Empty() {
						ok = false
					}
				}
			}
		}
	}
	c.R.Check(ok && n > 0, r, "returnResponse: the error follows the response unconditionally", c.Pos(fn.Pos()), "plain send after the response arm", "after the response was delivered, returnResponse can return without an unconditional send of the error (or no response arm was found): the caller's second, bare receive never completes and the engine goroutine that called the builtin connector hangs", true)
}

func errorRecordErrField(c *Ctx) *types.Var {
	return c.W.ExtField("github.com/conduitio/conduit-processor-sdk", "ErrorRecord", "Error")
}

// c09R15: F61/F62. An in-process (builtin) processor is a plugin too. Its sdk.ErrorRecord may carry a nil Error; the nil
// nack reason reads as "no failure" further down — with the DLQ disabled the record is dropped and acked (v1) or skipped
// by the cumulative ack (v2), with it enabled the DLQ record builder dereferences nil and the process panics. Both
// engines substitute a reason at the point where the reply is turned into a nack.
func c09R15(c *Ctx) {
	r := c.R.Rule("R15", "K3/K6 a nil ErrorRecord.Error never becomes the nack reason (both engines): where ProcessorNode.handleProcessedRecord / ProcessorTask.markBatchRecords take the reason from sdk.ErrorRecord.Error, the nil case is tested and replaced by a constructed error", 2)
	errF := errorRecordErrField(c)
	if errF == nil {
		c.R.Unresolved(r, "conduit-processor-sdk.ErrorRecord.Error")
		return
	}
	for _, t := range []struct{ rel, name string }{{pStream, "(*ProcessorNode).handleProcessedRecord"}, {pFunnel, "(*ProcessorTask).markBatchRecords"}} {
		fn := c.SSA(r, t.rel, t.name)
		if fn == nil {
			continue
		}
		var loads []ssa.Value
		for _, b := range fn.Blocks {
			for _, in := range b.Instrs {
				if v, ok := in.(ssa.Value); ok {
					if _, f := kit.FieldBase(v); f != nil && kit.SameField(f, errF) {
						loads = append(loads, v)
					}
					if fl, ok := in.(*ssa.Field); ok && kit.SameField(kit.FieldOf(fl), errF) {
						loads = append(loads, fl)
					}
				}
			}
		}
		if len(loads) == 0 {
			c.R.Fail(r, t.name+": reads ErrorRecord.Error", c.Pos(fn.Pos()), "no read of sdk.ErrorRecord.Error found")
			continue
		}
		tested := false
		// the value tested may be the field read itself or the slot it was just stored into (errs[i])
		cands := append([]ssa.Value{}, loads...)
		for _, b := range fn.Blocks {
			for _, in := range b.Instrs {
				if u, ok := in.(*ssa.UnOp); ok && u.Op == token.MUL && u.Type().String() == "error" {
					if ia, ok := u.X.(*ssa.IndexAddr); ok {
						if refs := ia.Referrers(); refs != nil {
							for _, rf := range *refs {
								if st, ok := rf.(*ssa.Store); ok {
									for _, l := range loads {
										if kit.Unwrap(st.Val) == l {
											cands = append(cands, u)
										}
									}
								}
							}
						}
						// a different IndexAddr instruction of the same slot
						for _, l := range loads {
							_ = l
						}
						cands = append(cands, u)
					}
				}
			}
		}
		for _, l := range cands {
			for _, e := range kit.NilEdges(l, true) {
				// behind the nil edge a constructed error is produced (a call in the region)
				for _, b := range fn.Blocks {
					if !(b == e.To || e.To.Dominates(b)) {
						continue
					}
					for _, in := range b.Instrs {
						if cl, ok := in.(*ssa.Call); ok && kit.ErrIndexOfCall(cl) >= 0 || func() bool { cl, ok := in.(*ssa.Call); return ok && cl.Type().String() == "error" }() {
							tested = true
						}
					}
				}
			}
		}
		c.R.Check(tested, r, t.name+": a nil ErrorRecord.Error is replaced before it becomes the nack reason", c.Pos(fn.Pos()), "nil case tested", "the nack reason is taken from sdk.ErrorRecord.Error without testing it for nil: an error record without an error (a builtin processor's bug) nacks with a nil reason — with the DLQ disabled the failed record is dropped and acked to the source (v1) or skipped for good by the cumulative ack (v2), with the DLQ enabled dlqRecord dereferences the nil reason and the process panics", true)
	}
}

// c09R16: F63. A source record with an EMPTY position must not look like "the stop position": before any stop was
// requested stopPosition is nil and bytes.Equal(nil, empty) is true — the node returned stop.reason (nil) and ended
// silently, dropping every later record. The post-send comparison only counts once a stop was requested.
func c09R16(c *Ctx) {
	r := c.R.Rule("R16", "K3 an empty record position is not the stop position: in SourceNode.Run every return of n.stop.reason lies behind the stop control message (directly, or through a flag that is set only there)", 2)
	fn := c.SSA(r, pStream, "(*SourceNode).Run")
	cmt := c.Fn(r, pStream, "(*Message).ControlMessageType")
	if fn == nil || cmt == nil {
		return
	}
	g := kit.NewGates()
	for _, call := range kit.CallsTo(fn, Set(cmt)) {
		v := call.Value()
		g.AddEdges(kit.CmpEdges(fn, func(b *ssa.BinOp) (bool, bool) {
			if b.X == ssa.Value(v) || b.Y == ssa.Value(v) {
				switch b.Op {
				case token.EQL:
					return true, true
				case token.NEQ:
					return true, false
				}
			}
			return false, false
		}), "ControlMessageType() == stop")
	}
	// a bool flag (loop phi) whose only `true` comes from behind those edges
	for _, b := range fn.Blocks {
		for _, in := range b.Instrs {
			phi, ok := in.(*ssa.Phi)
			if !ok || !types.Identical(phi.Type().Underlying(), types.Typ[types.Bool]) {
				continue
			}
			okFlag, hasTrue := true, false
			for i, e := range phi.Edges {
				if kit.IsBoolConst(e, true) {
					hasTrue = true
					pred := phi.Block().Preds[i]
					if pass, _ := kit.MustPass(pred.Instrs[len(pred.Instrs)-1], g); !pass {
						okFlag = false
					}
				}
			}
			if okFlag && hasTrue {
				g.AddEdges(kit.CondEdges(phi, true), "stopRequested")
			}
		}
	}
	n := 0
	for _, ret := range kit.Returns(fn) {
		v := kit.RetVal(ret, 0)
		if !fieldNamed(v, "reason") {
			continue
		}
		n++
		c.Dominated(r, "SourceNode.Run: stops with stop.reason only after a stop was requested", []ssa.Instruction{ret}, g, "the stop control message (or the flag set there)")
	}
	c.R.Check(n >= 2, r, "SourceNode.Run: returns of stop.reason", c.Pos(fn.Pos()), "found", "fewer than two returns of n.stop.reason found", true)
}

// c09R17: F65. In the arch-v2 engine "position == nil" marks the tail pieces of a split record; a source record that
// itself has an empty position makes Batch.SplitRecord panic in the worker as soon as a processor splits it (and could
// never be acked anyway). SourceTask.Do refuses such a batch before any task sees it.
func c09R17(c *Ctx) {
	r := c.R.Rule("R17", "K3 v2: no record with an empty position enters the task graph: SourceTask.Do returns a fatal error behind the len(record.Position) == 0 edge, before the batch is filled", 1)
	fn := c.SSA(r, pFunnel, "(*SourceTask).Do")
	fatal := c.Fn(r, pCerrors, "FatalError")
	if fn == nil || fatal == nil {
		return
	}
	refuses := func(f *ssa.Function) bool {
		for _, e := range kit.LenEdges(f, func(v ssa.Value) bool { return fieldNamed(v, "Position") }, 0, 0) {
			for _, ret := range kit.Returns(f) {
				if !(ret.Block() == e.To || e.To.Dominates(ret.Block())) {
					continue
				}
				if cl, ok := kit.RetVal(ret, len(ret.Results)-1).(*ssa.Call); ok && kit.CalleeOf(cl.Common()) == fatal {
					return true
				}
			}
		}
		return false
	}
	found := refuses(fn)
	if !found {
		// the check may live in a helper whose error Do returns as is
		for _, b := range fn.Blocks {
			for _, in := range b.Instrs {
				call, ok := in.(*ssa.Call)
				if !ok {
					continue
				}
				h := call.Call.StaticCallee()
				if h == nil || h.Pkg != fn.Pkg || kit.ErrIndexOfCall(call) < 0 || !refuses(h) {
					continue
				}
				// propagated: every exit behind the helper's failure edge returns a non-nil error
				for _, e := range kit.FailEdges(call) {
					okp := true
					for _, ret := range kit.Returns(fn) {
						if (ret.Block() == e.To || e.To.Dominates(ret.Block())) && kit.RetNil(ret, 0) {
							okp = false
						}
					}
					if okp {
						found = true
					}
				}
			}
		}
	}
	c.R.Check(found, r, "SourceTask.Do: an empty record position is refused with a fatal error", c.Pos(fn.Pos()), "FatalError behind len(Position)==0", "SourceTask.Do hands records with an empty position on: Batch uses a nil position to mark the tail pieces of a split record, so a fan-out processor splitting such a record makes Batch.SplitRecord panic in the worker goroutine (the process dies) — before the CodeEmptySourcePosition guards in Worker.Ack/Nack are ever reached", true)
}

// c09R18: F64. Every call into a builtin connector runs inside the panic sandbox — except Run, which was started in a
// bare goroutine: a panic in a builtin connector's Run loop took the whole process down. The goroutine now calls Run
// through a recovering wrapper.
func c09R18(c *Ctx) {
	r := c.R.Rule("R18", "K4 a panic in a builtin connector's Run does not crash the engine: in the builtin source/destination adapters no goroutine invokes impl.Run directly without a deferred recover (the call goes through a wrapper that has one)", 2)
	const pBuiltin = "pkg/plugin/connector/builtin"
	p := c.W.Pkg(pBuiltin)
	if p == nil {
		c.R.Unresolved(r, pBuiltin)
		return
	}
	hasRecover := func(f *ssa.Function) bool {
		for _, b := range f.Blocks {
			for _, in := range b.Instrs {
				d, ok := in.(*ssa.Defer)
				if !ok {
					continue
				}
				if cl := closureOf(d); cl != nil {
					for _, cb := range cl.Blocks {
						for _, ci := range cb.Instrs {
							if call, ok := ci.(*ssa.Call); ok {
								if bi, ok := call.Call.Value.(*ssa.Builtin); ok && bi.Name() == "recover" {
									return true
								}
							}
						}
					}
				}
			}
		}
		return false
	}
	for _, name := range []string{"(*sourcePluginAdapter).Run", "(*destinationPluginAdapter).Run"} {
		fn := c.SSA(r, pBuiltin, name)
		if fn == nil {
			continue
		}
		okAll, seen := true, false
		for _, lit := range kit.WithAnon(fn) {
			for _, b := range lit.Blocks {
				for _, in := range b.Instrs {
					ci, ok := in.(ssa.CallInstruction)
					if !ok {
						continue
					}
					// direct invoke of impl.Run
					if ci.Common().IsInvoke() && ci.Common().Method.Name() == "Run" && fieldNamed(ci.Common().Value, "impl") {
						seen = true
						if !hasRecover(lit) {
							okAll = false
						}
					}
					// impl.Run handed to a wrapper as a bound method value
					for _, a := range ci.Common().Args {
						if mc, ok := a.(*ssa.MakeClosure); ok && strings.HasSuffix(mc.Fn.Name(), "Run$bound") {
							seen = true
							h := ci.Common().StaticCallee()
							if h == nil || !hasRecover(h) {
								okAll = false
							}
						}
					}
				}
			}
		}
		c.R.Check(seen && okAll, r, name+": impl.Run runs under a recover", c.Pos(fn.Pos()), "sandboxed", "the builtin adapter starts impl.Run in a goroutine without a deferred recover: a panic in a builtin connector's Run loop is a goroutine panic nobody can recover — the whole Conduit process dies, all pipelines with it", true)
	}
}

// boolPhiSetBehind: a bool loop/merge phi whose every `true` incoming edge lies behind one of the gates.
func boolFlagsSetBehind(fn *ssa.Function, g *kit.Gates) []*ssa.Phi {
	var phis []*ssa.Phi
	for _, b := range fn.Blocks {
		for _, in := range b.Instrs {
			if phi, ok := in.(*ssa.Phi); ok && types.Identical(phi.Type().Underlying(), types.Typ[types.Bool]) {
				phis = append(phis, phi)
			}
		}
	}
	// greatest fixpoint: start from all bool phis, drop those with an edge that is neither false, a gated true,
	// nor another candidate; keep only those that (transitively) have a gated true
	cand := map[*ssa.Phi]bool{}
	for _, p := range phis {
		cand[p] = true
	}
	for changed := true; changed; {
		changed = false
		for _, phi := range phis {
			if !cand[phi] {
				continue
			}
			for i, e := range phi.Edges {
				ok := false
				switch {
				case kit.IsBoolConst(e, false):
					ok = true
				case kit.IsBoolConst(e, true):
					pred := phi.Block().Preds[i]
					ok, _ = kit.MustPass(pred.Instrs[len(pred.Instrs)-1], g)
				default:
					if q, isPhi := e.(*ssa.Phi); isPhi && cand[q] {
						ok = true
					}
				}
				if !ok {
					cand[phi] = false
					changed = true
					break
				}
			}
		}
	}
	hasTrue := map[*ssa.Phi]bool{}
	for changed := true; changed; {
		changed = false
		for _, phi := range phis {
			if !cand[phi] || hasTrue[phi] {
				continue
			}
			for _, e := range phi.Edges {
				if kit.IsBoolConst(e, true) {
					hasTrue[phi] = true
				}
				if q, isPhi := e.(*ssa.Phi); isPhi && hasTrue[q] {
					hasTrue[phi] = true
				}
			}
			if hasTrue[phi] {
				changed = true
			}
		}
	}
	var out []*ssa.Phi
	for _, phi := range phis {
		if cand[phi] && hasTrue[phi] {
			out = append(out, phi)
		}
	}
	return out
}

// ctxErrNonNil: the edges on which ctx.Err() != nil for some context value in fn.
func ctxErrNonNil(c *Ctx, fn *ssa.Function) []kit.Edge {
	var out []kit.Edge
	for _, b := range fn.Blocks {
		for _, in := range b.Instrs {
			if call, ok := in.(*ssa.Call); ok && call.Call.IsInvoke() && call.Call.Method.Name() == "Err" && strings.HasSuffix(call.Call.Value.Type().String(), "context.Context") {
				out = append(out, kit.NilEdges(call, false)...)
			}
		}
	}
	return out
}

// c09R19: F68/F69. A source read that fails with context.Canceled is the engine's own graceful shutdown only when the
// engine cancelled something. A standalone plugin whose stream ends with a Canceled status (the protocol client maps
// the message "context canceled" to the sentinel), or a builtin connector whose Run returns a wrapped Canceled, hands
// the same error with a LIVE node context: v1's fetcher goroutine dropped it and SourceNode.Run blocked for ever, v2's
// worker returned nil for it and re-read the dead stream in a hot loop.
func c09R19(c *Ctx) {
	r := c.R.Rule("R19", "K3 a Canceled read error is swallowed only when the engine cancelled (both engines): in pubNodeBase.Trigger's fetcher a return without forwarding the error lies behind ctx.Err() != nil; in Worker.doTaskAttempt the graceful `return ctx.Err()` for a Canceled error lies behind ctx.Err() != nil or w.stop.Load()", 2)
	isFn := c.W.LookupObj(pCerrors, "Is")
	// v1: closures of Trigger that call the message fetcher
	if fn := c.SSA(r, pStream, "(*pubNodeBase).Trigger"); fn != nil {
		n := 0
		for _, lit := range kit.WithAnon(fn) {
			if lit == fn {
				continue
			}
			// the fetcher loop: a closure with a Send on an error channel behind a failed fetch
			var sends []ssa.Instruction
			for _, b := range lit.Blocks {
				for _, in := range b.Instrs {
					switch x := in.(type) {
					case *ssa.Send:
						if x.X.Type().String() == "error" {
							sends = append(sends, in)
						}
					case *ssa.Select:
						for _, st := range x.States {
							if st.Dir == types.SendOnly && st.Send != nil && st.Send.Type().String() == "error" {
								sends = append(sends, in)
							}
						}
					}
				}
			}
			if len(sends) == 0 {
				continue
			}
			// is this the fetcher (calls a func value returning ([]*Message, error))?
			fetch := false
			for _, b := range lit.Blocks {
				for _, in := range b.Instrs {
					if call, ok := in.(*ssa.Call); ok && call.Call.StaticCallee() == nil && !call.Call.IsInvoke() && kit.ErrIndexOfCall(call) == 1 {
						fetch = true
					}
				}
			}
			if !fetch {
				continue
			}
			n++
			g := kit.NewGates().AddEdges(ctxErrNonNil(c, lit), "ctx.Err() != nil")
			for _, sd := range sends {
				g.AddInstr(sd, "error forwarded")
			}
			// every return behind a failed fetch has forwarded the error or saw the cancelled context
			okAll := true
			for _, b := range lit.Blocks {
				for _, in := range b.Instrs {
					call, ok := in.(*ssa.Call)
					if !ok || call.Call.StaticCallee() != nil || call.Call.IsInvoke() || kit.ErrIndexOfCall(call) != 1 {
						continue
					}
					for _, e := range kit.FailEdges(call) {
						if pass, _ := kit.AllExitsFromEdge(e, false, kit.ExitSpec{Gates: g}); !pass {
							okAll = false
						}
					}
				}
			}
			c.R.Check(okAll, r, "v1 Trigger fetcher: a failed fetch is dropped only when the node context is cancelled", c.Pos(lit.Pos()), "forwarded or ctx.Err() != nil", "the fetcher goroutine of pubNodeBase.Trigger returns behind a failed fetch without forwarding the error and without having seen ctx.Err() != nil: a context.Canceled that stems from the plugin (its stream ended with a Canceled status) is dropped while the node context is alive — nobody learns about it, SourceNode.Run blocks in trigger() for ever, the pipeline stays 'running' and reads nothing", true)
		}
		c.R.Check(n >= 1, r, "v1 Trigger: fetcher goroutine", c.Pos(fn.Pos()), "found", "the fetcher goroutine of pubNodeBase.Trigger was not recognised", true)
	}
	// v2
	if fn := c.SSA(r, pFunnel, "(*Worker).doTaskAttempt"); fn != nil {
		stopF := c.Field(r, pFunnel, "Worker", "stop")
		g := kit.NewGates().AddEdges(ctxErrNonNil(c, fn), "ctx.Err() != nil")
		if stopF != nil {
			for _, ld := range atomicCalls(fn, stopF, "Load") {
				g.AddEdges(kit.CondEdges(ld.Value(), true), "w.stop.Load()")
			}
		}
		_ = isFn
		n := 0
		for _, ret := range kit.Returns(fn) {
			v := kit.RetVal(ret, 0)
			call, ok := v.(*ssa.Call)
			if !ok || !call.Call.IsInvoke() || call.Call.Method.Name() != "Err" {
				continue
			}
			n++
			c.Dominated(r, "v2 doTaskAttempt: a read error counts as a graceful stop only when the engine stopped something", []ssa.Instruction{ret}, g, "the ctx.Err() != nil or w.stop.Load() edge")
		}
		c.R.Check(n >= 1, r, "v2 doTaskAttempt: graceful return", c.Pos(fn.Pos()), "found", "no `return ctx.Err()` found in doTaskAttempt", true)
	}
}

// c09R20: F77. The WASM module handles commands strictly one after the other and delivers each response through the
// unbuffered commandResponses channel. When executeCommand gives up on ctx.Done() nobody receives the late response:
// the module blocks in command_response for ever and never fetches another command — the next command, at the latest
// Teardown (the arch-v2 engine tears down with context.Background()), hangs. The abandoned response has to be drained.
func c09R20(c *Ctx) {
	r := c.R.Rule("R20", "K4 an abandoned command does not wedge the module: behind the ctx.Done() arm of wasmProcessor.executeCommand's wait, a receiver for the late response is started (a goroutine / call that receives from commandResponses) before the function returns", 1)
	const pStandalone = "pkg/plugin/processor/standalone"
	fn := c.SSA(r, pStandalone, "(*wasmProcessor).executeCommand")
	chF := c.Field(r, pStandalone, "wasmProcessor", "commandResponses")
	if fn == nil || chF == nil {
		return
	}
	receives := func(f *ssa.Function) bool {
		for _, b := range f.Blocks {
			for _, in := range b.Instrs {
				switch x := in.(type) {
				case *ssa.UnOp:
					if x.Op == token.ARROW && kit.IsFieldLoad(x.X, chF) {
						return true
					}
				case *ssa.Select:
					for _, st := range x.States {
						if st.Dir == types.RecvOnly && kit.IsFieldLoad(st.Chan, chF) {
							return true
						}
					}
				}
			}
		}
		return false
	}
	n := 0
	for _, sel := range kit.Selects(fn) {
		for i, st := range sel.States {
			cl, ok := st.Chan.(*ssa.Call)
			if st.Dir != types.RecvOnly || !ok || !cl.Call.IsInvoke() || cl.Call.Method.Name() != "Done" {
				continue
			}
			// only the wait for the response (a select that also receives from commandResponses)
			waits := false
			for _, s2 := range sel.States {
				if s2.Dir == types.RecvOnly && kit.IsFieldLoad(s2.Chan, chF) {
					waits = true
				}
			}
			if !waits {
				continue
			}
			n++
			g := kit.NewGates()
			for _, b := range fn.Blocks {
				for _, in := range b.Instrs {
					switch x := in.(type) {
					case *ssa.Go:
						if f := x.Call.StaticCallee(); f != nil && receives(f) {
							g.AddInstr(x, "go drain")
						}
						if mc, ok := x.Call.Value.(*ssa.MakeClosure); ok && receives(mc.Fn.(*ssa.Function)) {
							g.AddInstr(x, "go drain")
						}
					case *ssa.Call:
						if f := x.Call.StaticCallee(); f != nil && f.Pkg == fn.Pkg && receives(f) {
							g.AddInstr(x, "drain")
						}
					}
				}
			}
			ok2 := !g.Empty()
			for _, e := range kit.SelectArmEdges(sel, i) {
				if pass, _ := kit.AllExitsFromEdge(e, false, kit.ExitSpec{Gates: g}); !pass {
					ok2 = false
				}
			}
			c.R.Check(ok2, r, "executeCommand: the response to an abandoned command is drained", c.Pos(sel.Pos()), "drain started on the ctx.Done() arm", "executeCommand returns on ctx.Done() while the module still owes the response and nobody will receive it: the module blocks for ever in command_response and never fetches another command, so the next command — at the latest Teardown, which the arch-v2 engine calls with context.Background() — never returns and the pipeline stays 'running' after a force stop", true)
		}
	}
	c.R.Check(n >= 1, r, "executeCommand: the wait for the response", c.Pos(fn.Pos()), "found", "the select waiting for the command response was not found", true)
}
