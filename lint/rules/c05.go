package rules

import (
	"go/types"
	"sort"
	"strings"

	"conduitlint/kit"

	"golang.org/x/tools/go/ssa"
)

func init() {
	register(&Property{
		ID:          "C05",
		Run:         runC05,
		Explanation: "Decides the structural clauses that keep per-source order towards every destination: (R1) the v1 fan-out joins all branch senders of a message before it takes the next one; (R2) the parallel node hands every job to the in-order coordinator in the node's own goroutine on the very select arm that dispatched it, the coordinator waits for each job before forwarding, and it is the only user of the node's Send; (R3) the set of channel sends of *Message in the stream package is closed and every send inside a goroutine literal is one of the tabled, joined ones; (R4) a shared destination subtree is entered under its mutex (held across the whole pass, poison checked after the lock and set before the unlock) and doTaskAttempt is only re-entered by itself; (R5) the v2 tainted loop is sequential with a pre-captured span and status mutations in it touch only the current sub-batch; (R6) sub-batches/clones never alias the parent's slices; (R7) the write entry points of a destination have a closed caller set. Rules added later (after independent seeded changes and defect hunts) are not all enumerated here: every armed rule is listed with its description, kind and instance count under coverage.rules.",
		NotDecided:  []string{"channel scheduling and fan-in merge fairness", "actual run-time orders", "that a destination plugin writes in call order"},
		Assumptions: []string{"Go channels are FIFO", "sync.WaitGroup / sync.Mutex semantics", "conc pool Wait joins all Go calls"},
	})
}

func runC05(c *Ctx) {
	c05R1(c)
	c05R2(c)
	c05R3(c)
	c05R4(c)
	c05R5(c)
	c08Lockstep(c, c.R.Rule("R6", "K10 aligned parallel arrays: Batch.sub/clone never alias the parent's slices and every batch constructor keeps records/statuses/positions aligned (shared with C08.R1)", 8))
	c05R7(c)
	c05R12(c)
	c08R9As(c, c.R.Rule("R8", "K6 (= C08.R9) a filtered record stays absent: with filtered records present, Batch.setFlagNoErr/setFlagWithErr address recordStatuses only through the active-index map, entry by entry (a span marked Retry/Ack never overwrites a filtered slot)", 4))
	c08R11As(c, c.R.Rule("R10", "K8/K3 (= C08.R11) v1: a filtered record stays absent behind a fan-out — Message.Clone carries every Message field DestinationNode.Run reads to decide on the write, and Destination.Write happens only on the !msg.filtered edge", 3))
	c01R4As(c, c.R.Rule("R9", "K3 (= C01.R4) no silent re-write: DestinationTask.Do returns nil only when every written position was confirmed (it never converts a partially confirmed write into a retry of records already handed to Write)", 4))
	c09R1As(c, c.R.Rule("R11", "K13 (= C09.R1) results stay aligned with their records: at each Process call boundary both directions of a length mismatch are diverted (refused / replaced / padded) before the reply is used positionally — a truncated or shifted reply would write a record twice or after a later one", 6))
}

func c05R1(c *Ctx) {
	r := c.R.Rule("R1", "K11 v1 fan-out join: every branch sender goroutine of a message is joined (wg.Wait) on every path before the next receive from the input or the return; wg.Add(len(n.out)) precedes the spawns", 3)
	run := c.SSA(r, pStream, "(*FanoutNode).Run")
	if run == nil {
		return
	}
	wgWait := c.ExtMethod(r, "sync", "WaitGroup", "Wait")
	wgAdd := c.ExtMethod(r, "sync", "WaitGroup", "Add")
	outF := c.Field(r, pStream, "FanoutNode", "out")
	inF := c.Field(r, pStream, "FanoutNode", "in")
	var gos []ssa.Instruction
	for _, in := range kit.Instrs(run, func(in ssa.Instruction) bool { _, ok := in.(*ssa.Go); return ok }) {
		gos = append(gos, in)
	}
	if len(gos) == 0 {
		c.R.Fail(r, "FanoutNode.Run: branch goroutines", c.Pos(run.Pos()), "no branch sender goroutine found")
		return
	}
	waits := kit.CallsTo(run, Set(wgWait))
	g := kit.NewGates()
	for _, w := range waits {
		g.AddInstr(w, "wg.Wait()")
	}
	// targets: selects receiving from n.in, and returns
	var targets []ssa.Instruction
	for _, sel := range kit.Selects(run) {
		for _, st := range sel.States {
			if st.Dir == types.RecvOnly && kit.IsFieldLoad(st.Chan, inF) {
				targets = append(targets, sel)
			}
		}
	}
	for _, ret := range kit.Returns(run) {
		targets = append(targets, ret)
	}
	for _, gi := range gos {
		bad := ""
		for _, t := range targets {
			if kit.Reaches(gi, t, g) {
				bad = c.Pos(posOf(t))
			}
		}
		c.R.Check(bad == "" && len(waits) > 0, r, "FanoutNode.Run: branch senders joined before the next message", c.Pos(posOf(gi)), "every path to the next receive/return passes wg.Wait()", "a path from the branch-sender spawn reaches the next receive or a return ("+bad+") without wg.Wait(): senders of consecutive messages race on the same branch channel and a destination can see records out of order", true)
	}
	// Add(len(n.out)) dominates the spawns
	gAdd := kit.NewGates()
	for _, a := range kit.CallsTo(run, Set(wgAdd)) {
		args := a.Common().Args
		if len(args) == 2 && kit.IsLenOf(args[1], func(v ssa.Value) bool { return kit.IsFieldLoad(v, outF) }) {
			gAdd.AddInstr(a, "wg.Add(len(n.out))")
		}
	}
	c.Dominated(r, "FanoutNode.Run: wg.Add(len(n.out)) before the spawns", gos, gAdd, "wg.Add(len(n.out))")
	// one goroutine per branch: the go statement is inside a range over n.out (its body receives the loop index)
	for _, gi := range gos {
		gg := gi.(*ssa.Go)
		c.R.Check(len(gg.Call.Args) == 1, r, "FanoutNode.Run: one sender per branch index", c.Pos(posOf(gi)), "go func(i int)", "the branch sender no longer receives its branch index", false)
	}
}

func c05R2(c *Ctx) {
	r := c.R.Rule("R2", "K3/K1 v1 parallel node: the job is queued for the in-order coordinator in Run's own goroutine on the select arm that dispatched it; the coordinator waits for the job before it forwards; the node's Send is used only as the coordinator's send", 7)
	run := c.SSA(r, pStream, "(*ParallelNode).Run")
	if run != nil {
		// find make chan locals: workerJobs (unbuffered) and coordinatorJobs (buffered with n.Workers)
		var sends []*ssa.Send
		for _, b := range run.Blocks {
			for _, in := range b.Instrs {
				if s, ok := in.(*ssa.Send); ok {
					sends = append(sends, s)
				}
			}
		}
		var selSend *ssa.Select
		var selIdx int
		for _, sel := range kit.Selects(run) {
			for i, st := range sel.States {
				if st.Dir == types.SendOnly && strings.HasSuffix(st.Chan.Type().String(), "parallelNodeJob") {
					selSend, selIdx = sel, i
				}
			}
		}
		if selSend == nil || len(sends) != 1 {
			c.R.Fail(r, "ParallelNode.Run: dispatch shape", c.Pos(run.Pos()), "expected a select dispatching the job to workerJobs and exactly one plain send to coordinatorJobs in Run itself")
		} else {
			s := sends[0]
			c.R.Check(s.X == selSend.States[selIdx].Send, r, "ParallelNode.Run: the same job goes to the worker and to the coordinator", c.Pos(s.Pos()), "same value", "the value queued for the coordinator is not the job dispatched to the workers", true)
			c.Dominated(r, "ParallelNode.Run: coordinator queue filled on the dispatch arm", []ssa.Instruction{s}, kit.NewGates().AddEdges(kit.SelectArmEdges(selSend, selIdx), ""), "the `workerJobs <- job` select arm")
			c.R.Check(s.Chan != selSend.States[selIdx].Chan, r, "ParallelNode.Run: distinct worker and coordinator queues", c.Pos(s.Pos()), "ok", "worker and coordinator share a queue", false)
		}
		// no send to the coordinator queue from a goroutine literal
		for _, lit := range kit.WithAnon(run)[1:] {
			for _, b := range lit.Blocks {
				for _, in := range b.Instrs {
					if s, ok := in.(*ssa.Send); ok && strings.HasSuffix(s.Chan.Type().String(), "parallelNodeJob") {
						c.R.Fail(r, "ParallelNode.Run: job queued from a goroutine", c.Pos(s.Pos()), "a job is queued from a function literal instead of Run's own goroutine: coordinator order no longer equals receive order")
					}
				}
			}
		}
	}
	if co := c.SSA(r, pStream, "(*parallelNodeCoordinator).Run"); co != nil {
		wait := c.Fn(r, pStream, "(parallelNodeJob).Wait")
		sendF := c.Field(r, pStream, "parallelNodeCoordinator", "send")
		fwd := callsOfFieldFunc(co, sendF)
		if len(fwd) == 0 {
			c.R.Fail(r, "coordinator.Run: forward call", c.Pos(co.Pos()), "no c.send call found")
		}
		g := kit.NewGates()
		for _, w := range kit.CallsTo(co, Set(wait)) {
			g.AddInstr(w, "job.Wait()")
		}
		c.Dominated(r, "coordinator.Run: job.Wait() before forwarding", fwd, g, "job.Wait()")
		// the wait is inside the loop: no path from a forward back to a forward without passing a wait
		for _, f := range fwd {
			for _, f2 := range fwd {
				c.R.Check(!kit.Reaches(f, f2, g), r, "coordinator.Run: every forwarded job was waited for", c.Pos(posOf(f)), "a wait separates consecutive forwards", "two forwards can follow each other without a job.Wait() in between", true)
			}
		}
		nGo := len(kit.Instrs(co, func(in ssa.Instruction) bool { _, ok := in.(*ssa.Go); return ok }))
		c.R.Check(nGo == 0, r, "coordinator.Run: forwards in its own goroutine", c.Pos(co.Pos()), "no go statement", "the coordinator forwards from additional goroutines", true)
		c.WhoMayRef(r, "parallelNodeCoordinator.send (field calls)", kit.FuncSet{}, nil)
	}
	// n.base.Send as a method value only in ParallelNode.Run
	send := c.Fn(r, pStream, "(*pubSubNodeBase).Send")
	if send != nil {
		n := 0
		for _, ref := range c.W.Refs(Set(send)) {
			if ref.Kind != "value" {
				continue
			}
			n++
			c.R.Check(ref.Where == pStream+".(*ParallelNode).Run", r, "pubSubNodeBase.Send taken as a value in "+ref.Where, c.Pos(ref.Pos), "the coordinator's send", "the node Send method is taken as a function value in "+ref.Where+": a second sender on a node's output would interleave with the ordered one", false)
		}
		c.R.Check(n == 1, r, "ParallelNode.Run hands its Send to the coordinator", "", "1 method value", "expected exactly one method-value use of pubSubNodeBase.Send", false)
	}
	// the parallel node never calls base.Send itself
	if run != nil && send != nil {
		c.R.Check(len(kit.CallsToDeep(run, Set(send))) == 0, r, "ParallelNode.Run: only the coordinator sends downstream", c.Pos(run.Pos()), "no direct Send", "ParallelNode.Run sends downstream itself, bypassing the in-order coordinator", true)
	}
}

func c05R3(c *Ctx) {
	r := c.R.Rule("R3", "K1 closed send table: every channel send of *stream.Message in the stream package is a tabled site; sends inside goroutine literals are only the joined fan-out sender and the single fetcher", 7)
	p := c.W.Pkg(pStream)
	if p == nil {
		c.R.Unresolved(r, pStream)
		return
	}
	sp := c.W.SSA[p.Types]
	msgT := c.Type(r, pStream, "Message")
	if msgT == nil {
		return
	}
	isMsgChan := func(t types.Type) bool {
		ch, ok := t.Underlying().(*types.Chan)
		if !ok {
			return false
		}
		pt, ok := ch.Elem().(*types.Pointer)
		return ok && types.Identical(pt.Elem(), msgT)
	}
	table := map[string]string{
		"(*" + pStream + ".nodeBase).Send":                    "the node output send",
		"(*" + pStream + ".FaninNode).Run":                    "fan-in merge output",
		"(*" + pStream + ".FanoutNode).Run":                   "per-branch sender goroutine (joined, C05.R1)",
		"(*" + pStream + ".FanoutNode).select1":               "single-branch shortcut",
		"(*" + pStream + ".pubNodeBase).Trigger":              "the sync.Once-started fetcher goroutine feeding msgChan",
		"(*" + pStream + ".pubNodeBase).InjectControlMessage": "control message injection",
		"(*" + pStream + ".parallelNodeWorker).runForwarder":  "hands the job's message to the wrapped worker node",
	}
	found := map[string]int{}
	var all []*ssa.Function
	for _, m := range sp.Members {
		if f, ok := m.(*ssa.Function); ok {
			all = append(all, kit.WithAnon(f)...)
		}
		if t, ok := m.(*ssa.Type); ok {
			for _, T := range []types.Type{t.Type(), types.NewPointer(t.Type())} {
				ms := c.W.Prog.MethodSets.MethodSet(T)
				for i := 0; i < ms.Len(); i++ {
					if f := c.W.Prog.MethodValue(ms.At(i)); f != nil && f.Pkg == sp && f.Synthetic == "" {
						all = append(all, kit.WithAnon(f)...)
					}
				}
			}
		}
	}
	seenFn := map[*ssa.Function]bool{}
	for _, f := range all {
		if seenFn[f] {
			continue
		}
		seenFn[f] = true
		root := f
		for root.Parent() != nil {
			root = root.Parent()
		}
		key := kit.FuncKey(root) // closures are attributed to their declared function (closure numbering is not stable)
		for _, b := range f.Blocks {
			for _, in := range b.Instrs {
				hit := false
				switch x := in.(type) {
				case *ssa.Send:
					hit = isMsgChan(x.Chan.Type())
				case *ssa.Select:
					for _, st := range x.States {
						if st.Dir == types.SendOnly && isMsgChan(st.Chan.Type()) {
							hit = true
						}
					}
				}
				if !hit {
					continue
				}
				found[key]++
				why, ok := table[key]
				c.R.Check(ok, r, "send of *Message in "+key, c.Pos(posOf(in)), why, "a new channel send of *Message in "+key+": every sender on a node channel must be one of the tabled, order-preserving sites", false)
			}
		}
	}
	var missing []string
	for k := range table {
		if found[k] == 0 {
			missing = append(missing, k)
		}
	}
	sort.Strings(missing)
	for _, k := range missing {
		c.R.Fail(r, "tabled send site "+k+" present", "", "the tabled send site "+k+" no longer exists; the table must be re-confirmed")
	}
}

func c05R4(c *Ctx) {
	c05SharedDest(c, c.R.Rule("R4", "K4/K3 v2 shared-destination serialisation: doTask enters a shared subtree under sharedMu (deferred unlock), checks the poison flag after the lock and sets it before returning an error; doTaskAttempt is entered only from doTask and itself", 6))
}

func c05SharedDest(c *Ctx, r string) {
	fn := c.SSA(r, pFunnel, "(*Worker).doTask")
	attempt := c.Fn(r, pFunnel, "(*Worker).doTaskAttempt")
	c.WhoMayRef(r, "Worker.doTaskAttempt", Set(attempt), []string{pFunnel + ".(*Worker).doTask", pFunnel + ".(*Worker).doTaskAttempt"})
	if fn == nil {
		return
	}
	sharedF := c.Field(r, pFunnel, "TaskNode", "sharedBoundary")
	poisonF := c.Field(r, pFunnel, "TaskNode", "poisoned")
	spec := c.W.StdLockSpec()
	ls := kit.Locksets(fn, spec, nil)
	calls := kit.CallsTo(fn, Set(attempt))
	if len(calls) != 1 {
		c.R.Fail(r, "doTask: single doTaskAttempt call", c.Pos(fn.Pos()), "expected exactly one doTaskAttempt call")
	}
	// on the sharedBoundary edge the lock is held at the call: check via a path argument — every path from the sharedBoundary==true edge to the call passes Lock and never Unlock
	gShared := kit.NewGates()
	for _, l := range kit.FieldLoads(fn, sharedF) {
		gShared.AddEdges(kit.CondEdges(l, false), "!sharedBoundary")
	}
	lockM := c.ExtMethod(r, "sync", "Mutex", "Lock")
	unlockM := c.ExtMethod(r, "sync", "Mutex", "Unlock")
	var locks []ssa.Instruction
	for _, l := range kit.CallsTo(fn, Set(lockM)) {
		if strings.HasSuffix(kit.LockPathOfCall(l.Common()), ".sharedMu") {
			locks = append(locks, l)
			gShared.AddInstr(l, "sharedMu.Lock()")
		}
	}
	c.R.Check(len(locks) == 1, r, "doTask: sharedMu.Lock present", c.Pos(fn.Pos()), "ok", "doTask no longer locks sharedMu", true)
	c.Dominated(r, "doTask: a shared subtree is entered only under sharedMu", asInstrs(calls), gShared, "sharedMu.Lock() (or the !sharedBoundary edge)")
	// unlock only by defer (held across the whole pass)
	direct := 0
	deferred := 0
	for _, b := range fn.Blocks {
		for _, in := range b.Instrs {
			switch x := in.(type) {
			case *ssa.Call:
				if kit.CalleeOf(x.Common()) == unlockM {
					direct++
				}
			case *ssa.Defer:
				if kit.CalleeOf(x.Common()) == unlockM && strings.HasSuffix(kit.LockPathOfCall(x.Common()), ".sharedMu") {
					deferred++
				}
			}
		}
	}
	c.R.Check(deferred == 1 && direct == 0, r, "doTask: sharedMu released only by defer", c.Pos(fn.Pos()), "held across the whole pass including retries and fan-out", "sharedMu is released before doTask returns (or not by defer): another worker's batch can enter the shared destination mid-pass", true)
	_ = ls
	// poison: Load after Lock, Store(true) on the error edge
	load := c.W.ExtMethod("sync/atomic", "Bool", "Load")
	store := c.W.ExtMethod("sync/atomic", "Bool", "Store")
	gLock := kit.NewGates()
	for _, l := range locks {
		gLock.AddInstr(l, "")
	}
	var loads, stores []ssa.Instruction
	for _, call := range kit.CallsTo(fn, Set(load)) {
		if kit.SameField(kit.FieldOf(call.Common().Args[0]), poisonF) {
			loads = append(loads, call)
		}
	}
	for _, call := range kit.CallsTo(fn, Set(store)) {
		if kit.SameField(kit.FieldOf(call.Common().Args[0]), poisonF) && kit.IsBoolConst(call.Common().Args[1], true) {
			stores = append(stores, call)
		}
	}
	c.R.Check(len(loads) == 1 && len(stores) == 1, r, "doTask: poison flag checked and set", c.Pos(fn.Pos()), "ok", "the poisoned flag is no longer both checked on entry and set on error", true)
	c.Dominated(r, "doTask: poison checked after acquiring sharedMu", loads, gLock, "sharedMu.Lock()")
	// the poisoned load dominates the attempt (refusal on true)
	gNotPoisoned := kit.NewGates().AddEdges(gSharedFalse(fn, sharedF), "")
	for _, l := range loads {
		gNotPoisoned.AddEdges(kit.CondEdges(l.(ssa.Value), false), "!poisoned")
	}
	c.Dominated(r, "doTask: a poisoned shared subtree is refused", asInstrs(calls), gNotPoisoned, "the !poisoned edge")
	// every error return of a shared pass sets the flag: return with err != nil && sharedBoundary passes the store
	for _, call := range calls {
		e := kit.ErrResult(call)
		if e == nil {
			continue
		}
		gStore := kit.NewGates()
		for _, s := range stores {
			gStore.AddInstr(s, "")
		}
		gStore.AddEdges(kit.NilEdges(e, true), "err==nil")
		gStore.AddEdges(gSharedFalse(fn, sharedF), "")
		ok, _ := kit.AllExits(call, kit.ExitSpec{Gates: gStore})
		c.R.Check(ok, r, "doTask: any error from a shared pass poisons the subtree before the unlock", c.Pos(call.Pos()), "all exits with err!=nil pass poisoned.Store(true)", "an error can leave doTask from a shared subtree without setting the poison flag: the next worker reads this worker's leftover acks", true)
	}
}

func gSharedFalse(fn *ssa.Function, sharedF *types.Var) []kit.Edge {
	var out []kit.Edge
	for _, l := range kit.FieldLoads(fn, sharedF) {
		out = append(out, kit.CondEdges(l, false)...)
	}
	return out
}

func c05R5(c *Ctx) {
	// the sequential loop / span / join clauses are C04.R4's, evaluated here as well
	c04R4(c)
	r := c.R.Rule("R5", "K6 v2 status mutations in the tainted loop touch only the current sub-batch; the retry arm re-enters the same task with that sub-batch", 2)
	fn := c.SSA(r, pFunnel, "(*Worker).doTaskAttempt")
	if fn == nil {
		return
	}
	sub := c.Fn(r, pFunnel, "(*Worker).subBatchByFlag")
	var sbs []ssa.Value
	for _, sc := range kit.CallsTo(fn, Set(sub)) {
		sbs = append(sbs, sc.Value())
	}
	isSB := func(v ssa.Value) bool {
		for _, s := range sbs {
			if v == s {
				return true
			}
		}
		return false
	}
	n := 0
	for _, m := range []string{"Ack", "Nack", "Retry", "Filter", "SetRecords", "SplitRecord"} {
		f := c.W.LookupFunc(pFunnel, "(*Batch)."+m)
		if f == nil {
			continue
		}
		for _, call := range kit.CallsTo(fn, Set(f)) {
			n++
			c.R.Check(isSB(call.Common().Args[0]), r, "doTaskAttempt: Batch."+m+" applied to the current sub-batch", c.Pos(call.Pos()), "receiver is the sub-batch", "doTaskAttempt calls Batch."+m+" on a batch other than the current sub-batch (e.g. the parent): statuses of records outside the group are rewritten and the retried records keep a stale flag", true)
		}
	}
	if n == 0 {
		c.R.Fail(r, "doTaskAttempt: status reset of the retry group", c.Pos(fn.Pos()), "the retry arm no longer resets the sub-batch statuses")
	}
	// recursive call: same taskNode parameter, the sub-batch
	attempt := c.Fn(r, pFunnel, "(*Worker).doTaskAttempt")
	taskNodeP := paramOfNamed(fn, "TaskNode")
	for _, call := range kit.CallsTo(fn, Set(attempt)) {
		a := call.Common().Args // w, ctx, taskNode, b, acker, retry
		ok := len(a) == 6 && a[2] == taskNodeP && isSB(a[3])
		c.R.Check(ok, r, "doTaskAttempt: retry re-enters the same task with the sub-batch", c.Pos(call.Pos()), "doTaskAttempt(ctx, taskNode, subBatch, …)", "the retry recursion does not pass the same task node and the current sub-batch", true)
	}
}

func c05R7(c *Ctx) {
	r := c.R.Rule("R7", "K1 destination write entry points: Destination.Write is called only by the v1 destination node, the DLQ destination and the v2 DestinationTask", 3)
	c.WhoMayRef(r, "Destination.Write", c.Fam(c.Fn(r, pConn, "(*Destination).Write")), []string{
		pStream + ".(*DestinationNode).Run", pLife + ".(*DLQDestination).Write", pFunnel + ".(*DestinationTask).Do",
	})
	// DestinationTask.Do writes once per call
	if fn := c.SSA(r, pFunnel, "(*DestinationTask).Do"); fn != nil {
		w := kit.CallsTo(fn, c.Fam(c.Fn(r, pConn, "(*Destination).Write")))
		c.R.Check(len(w) == 1, r, "DestinationTask.Do: one Write per batch", c.Pos(fn.Pos()), "1", "DestinationTask.Do does not call Write exactly once", true)
		if len(w) == 1 {
			// not inside a loop: no path from the write back to itself
			c.R.Check(!kit.Reaches(w[0], w[0], nil), r, "DestinationTask.Do: Write is not in a loop", c.Pos(w[0].Pos()), "ok", "the destination Write sits in a loop", true)
		}
	}
}
