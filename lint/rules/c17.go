package rules

import (
	"fmt"
	"go/ast"
	"go/constant"
	"go/token"
	"go/types"
	"reflect"
	"strings"

	"conduitlint/kit"

	"golang.org/x/tools/go/packages"
	"golang.org/x/tools/go/ssa"
)

func init() {
	register(&Property{
		ID:          "C17",
		Run:         runC17,
		Explanation: "Decides the structural clauses without which a stored entity cannot come back unchanged: (R1) the copy that connector.Store.PrepareSet persists mentions every exported field of connector.Instance (and of its nested Config), and the processor/pipeline stores encode the instance itself; (R2) the pipeline's unexported status travels through encodableInstance in both directions; (R3) the typed re-decode of connector state covers every connector.Type and refuses unknown ones; (R4) no exported field of a stored struct is hidden from JSON, no unexported field other than the tabled ones exists in stored structs, and the three store key prefixes are distinct constants used by writer and reader alike; (R5) the status a stored Running pipeline is rewritten to at start-up is the one both engines restart. Rules added later (after independent seeded changes and defect hunts) are not all enumerated here: every armed rule is listed with its description, kind and instance count under coverage.rules.",
		NotDecided:  []string{"byte-exact JSON/base64 round trip of arbitrary values (third-party encoder, run-time values)", "older stored formats beyond the presence of the pre-0.4.1 migration's field coverage", "empty-vs-nil distinctions"},
		Assumptions: []string{"encoding/json encodes every exported, untagged field and decodes it back into the same field"},
	})
}

func runC17(c *Ctx) {
	c17R1(c)
	c17R2(c)
	c17R3(c)
	c17R4(c)
	c17R5(c)
	c17R6(c)
	c17R8(c)
	c17R9(c)
	c17R10(c)
	c17R11(c)
	c17R12(c)
	c17R13(c)
	livePersisted(c, c.R.Rule("R7", "K8 what is persisted is the live instance: a pipeline/connector/processor service method that fetched an instance hands that very instance to store.Set, or a copy that sets every exported field", 10))
}

// c17R6: one pipeline that cannot be resumed does not keep the others stopped.
func c17R6(c *Ctx) {
	r := c.R.Rule("R6", "K3 every stored pipeline is considered at boot: in both lifecycle services' Init no return lies behind the failure edge of the per-pipeline Start (the loop goes on to the remaining pipelines)", 2)
	for _, rel := range []string{pLife, pLife2} {
		fn := c.SSA(r, rel, "(*Service).Init")
		start := c.Fn(r, rel, "(*Service).Start")
		if fn == nil || start == nil {
			continue
		}
		calls := kit.CallsTo(fn, Set(start))
		if len(calls) == 0 {
			c.R.Fail(r, rel+".Init: resumes pipelines", c.Pos(fn.Pos()), "no Start call in Init")
			continue
		}
		for _, call := range calls {
			bad := false
			for _, e := range kit.FailEdges(call) {
				for _, ret := range kit.Returns(fn) {
					if ret.Block() == e.To || e.To.Dominates(ret.Block()) {
						bad = true
					}
				}
			}
			c.R.Check(!bad, r, rel+".Init: a failed Start does not end the resume loop", c.Pos(call.Pos()), "ok", "Init returns from inside the failure branch of a pipeline's Start: the pipelines after it in the (random) iteration order are never resumed, and the caller only logs Init's error", true)
		}
	}
}

// litKeys returns the keys of the first composite literal of type T inside function decl.
func litsOfType(p *packages.Package, fd *ast.FuncDecl, T types.Type) []*ast.CompositeLit {
	var out []*ast.CompositeLit
	ast.Inspect(fd, func(n ast.Node) bool {
		cl, ok := n.(*ast.CompositeLit)
		if !ok {
			return true
		}
		tv, ok := p.TypesInfo.Types[cl]
		if ok && types.Identical(derefT(tv.Type), T) {
			out = append(out, cl)
		}
		return true
	})
	return out
}

func derefT(t types.Type) types.Type {
	if p, ok := t.(*types.Pointer); ok {
		return p.Elem()
	}
	return t
}

func findDecl(p *packages.Package, recv, name string) *ast.FuncDecl {
	for _, f := range p.Syntax {
		for _, d := range f.Decls {
			fd, ok := d.(*ast.FuncDecl)
			if !ok || fd.Name.Name != name {
				continue
			}
			if recv == "" && fd.Recv == nil {
				return fd
			}
			if recv != "" && fd.Recv != nil && len(fd.Recv.List) == 1 {
				if strings.TrimPrefix(strings.Trim(types.ExprString(fd.Recv.List[0].Type), "()"), "*") == recv {
					return fd
				}
			}
		}
	}
	return nil
}

func c17R1(c *Ctx) {
	r := c.R.Rule("R1", "K8 copy coverage: the Instance literal persisted by connector.Store.PrepareSet sets every exported field of connector.Instance and of its Config from the instance being stored; processor and pipeline stores encode the instance itself", 14)
	p := c.W.Pkg(pConn)
	instT := c.Type(r, pConn, "Instance")
	cfgT := c.Type(r, pConn, "Config")
	if p == nil || instT == nil || cfgT == nil {
		return
	}
	fd := findDecl(p, "Store", "PrepareSet")
	if fd == nil {
		c.R.Unresolved(r, pConn+".(*Store).PrepareSet")
		return
	}
	for _, T := range []*types.Named{instT, cfgT} {
		lits := litsOfType(p, fd, T)
		if len(lits) == 0 {
			c.R.Fail(r, "PrepareSet: "+T.Obj().Name()+" literal", c.Pos(fd.Pos()), "no "+T.Obj().Name()+" literal found in PrepareSet (shape changed)")
			continue
		}
		cl := lits[0]
		keys := map[string]ast.Expr{}
		for _, el := range cl.Elts {
			if kv, ok := el.(*ast.KeyValueExpr); ok {
				if id, ok := kv.Key.(*ast.Ident); ok {
					keys[id.Name] = kv.Value
				}
			}
		}
		st := T.Underlying().(*types.Struct)
		for i := 0; i < st.NumFields(); i++ {
			f := st.Field(i)
			if !f.Exported() {
				continue
			}
			if nt, isN := f.Type().(*types.Named); isN && nt.Obj().Pkg() != nil && nt.Obj().Pkg().Path() == "sync" {
				continue // locks are not state
			}
			v, ok := keys[f.Name()]
			good := ok
			if ok && (T == cfgT || f.Name() != "Config") {
				// the value must be computed from the stored instance's own field of that name (a defensive copy of it is fine)
				good = false
				ast.Inspect(v, func(n ast.Node) bool {
					if se, isSel := n.(*ast.SelectorExpr); isSel && se.Sel.Name == f.Name() {
						good = true
					}
					return true
				})
			}
			c.R.Check(good, r, "PrepareSet persists "+T.Obj().Name()+"."+f.Name(), c.Pos(cl.Pos()), "copied from the stored instance", "the copy persisted by PrepareSet does not carry "+T.Obj().Name()+"."+f.Name()+" (from the instance's own field): the field is silently not stored and comes back zero after restart", false)
		}
	}
	// PrepareSet's closure encodes the copy; Set goes through PrepareSet
	if fn := c.SSA(r, pConn, "(*Store).Set"); fn != nil {
		c.R.Check(len(kit.CallsTo(fn, Set(c.Fn(r, pConn, "(*Store).PrepareSet")))) == 1, r, "connector.Store.Set goes through PrepareSet", c.Pos(fn.Pos()), "ok", "connector.Store.Set no longer stores through PrepareSet", true)
	}
	// processor / pipeline stores encode the instance pointer itself
	for _, rel := range []string{pProc, pPipe} {
		fn := c.SSA(r, rel, "(*Store).encode")
		if fn == nil {
			continue
		}
		ok := false
		var param ssa.Value
		for _, prm := range fn.Params {
			if _, isPtr := prm.Type().(*types.Pointer); isPtr && strings.HasSuffix(prm.Type().String(), ".Instance") {
				param = prm
			}
		}
		for _, b := range fn.Blocks {
			for _, in := range b.Instrs {
				call, isCall := in.(*ssa.Call)
				if !isCall {
					continue
				}
				f := kit.CalleeOf(call.Common())
				if f == nil || f.Name() != "Encode" && f.Name() != "Marshal" {
					continue
				}
				for _, a := range call.Call.Args {
					if kit.DerivesFrom(a, func(v ssa.Value) bool { return v == param }) {
						ok = true
					}
				}
			}
		}
		c.R.Check(ok, r, rel+".Store.encode encodes the instance it was given", c.Pos(fn.Pos()), "ok", rel+".Store.encode does not encode (a value derived from) its instance parameter", true)
	}
}

func c17R2(c *Ctx) {
	r := c.R.Rule("R2", "K8/K3 unexported persistent state: pipeline.encodableInstance embeds *Instance and carries Status; encode fills it from GetStatus, decode applies it with SetStatus", 4)
	enc := c.Type(r, pPipe, "encodableInstance")
	if enc != nil {
		st := enc.Underlying().(*types.Struct)
		hasEmb, hasStatus := false, false
		for i := 0; i < st.NumFields(); i++ {
			f := st.Field(i)
			if f.Embedded() && strings.HasSuffix(f.Type().String(), ".Instance") {
				hasEmb = true
			}
			if f.Name() == "Status" && f.Exported() {
				hasStatus = true
			}
		}
		c.R.Check(hasEmb && hasStatus, r, "encodableInstance = {*Instance; Status}", c.Pos(enc.Obj().Pos()), "ok", "encodableInstance no longer embeds *Instance and an exported Status", false)
	}
	statusF := c.Field(r, pPipe, "encodableInstance", "Status")
	if fn := c.SSA(r, pPipe, "(*Store).encode"); fn != nil {
		get := c.Fn(r, pPipe, "(*Instance).GetStatus")
		ok := false
		for _, st := range kit.FieldStores(fn, statusF) {
			if call, isCall := st.Val.(*ssa.Call); isCall && kit.CalleeOf(call.Common()) == get {
				ok = true
			}
		}
		c.R.Check(ok, r, "pipeline.Store.encode: Status = instance.GetStatus()", c.Pos(fn.Pos()), "ok", "pipeline.Store.encode does not store the instance's status: every pipeline comes back with the zero status after restart", true)
	}
	if fn := c.SSA(r, pPipe, "(*Store).decode"); fn != nil {
		set := c.Fn(r, pPipe, "(*Instance).SetStatus")
		ok := false
		for _, call := range kit.CallsTo(fn, Set(set)) {
			a := call.Common().Args
			if len(a) == 2 && kit.IsFieldLoad(a[1], statusF) {
				ok = true
			}
		}
		c.R.Check(ok, r, "pipeline.Store.decode: SetStatus(decoded Status)", c.Pos(fn.Pos()), "ok", "pipeline.Store.decode does not apply the decoded status to the instance", true)
		// the returned instance is the decoded embedded instance
	}
	// Instance's only unexported state fields are the tabled ones
	inst := c.Type(r, pPipe, "Instance")
	if inst != nil {
		st := inst.Underlying().(*types.Struct)
		tabled := map[string]string{"status": "persisted through encodableInstance.Status", "statusLock": "lock, not state"}
		for i := 0; i < st.NumFields(); i++ {
			f := st.Field(i)
			if f.Exported() {
				continue
			}
			_, ok := tabled[f.Name()]
			c.R.Check(ok, r, "pipeline.Instance unexported field "+f.Name()+" is accounted for", c.Pos(f.Pos()), "tabled", "pipeline.Instance has an unexported field ("+f.Name()+") that encoding/json will not store and that no encodable view carries", false)
		}
	}
}

func c17R3(c *Ctx) {
	r := c.R.Rule("R3", "K8 typed re-decode: connector.Store.decode's switch covers every connector.Type constant and refuses in default; the state types are the ones the connectors store", 3)
	p := c.W.Pkg(pConn)
	typeT := c.Type(r, pConn, "Type")
	if p == nil || typeT == nil {
		return
	}
	fd := findDecl(p, "Store", "decode")
	if fd == nil {
		c.R.Unresolved(r, pConn+".(*Store).decode")
		return
	}
	// all constants of Type
	var members []*types.Const
	sc := p.Types.Scope()
	for _, n := range sc.Names() {
		if k, ok := sc.Lookup(n).(*types.Const); ok && types.Identical(k.Type(), typeT) {
			members = append(members, k)
		}
	}
	var sw *ast.SwitchStmt
	ast.Inspect(fd, func(n ast.Node) bool {
		if s, ok := n.(*ast.SwitchStmt); ok && s.Tag != nil {
			if tv := p.TypesInfo.Types[s.Tag]; tv.Type != nil && types.Identical(tv.Type, typeT) {
				sw = s
			}
		}
		return true
	})
	if sw == nil {
		// the switch may have been moved into an unexported helper that decode calls
		ast.Inspect(fd, func(n ast.Node) bool {
			call, ok := n.(*ast.CallExpr)
			if !ok || sw != nil {
				return true
			}
			var id *ast.Ident
			switch f := call.Fun.(type) {
			case *ast.Ident:
				id = f
			case *ast.SelectorExpr:
				id = f.Sel
			}
			if id == nil {
				return true
			}
			fobj, _ := p.TypesInfo.Uses[id].(*types.Func)
			if fobj == nil || fobj.Pkg() != p.Types || fobj.Exported() {
				return true
			}
			for _, file := range p.Syntax {
				for _, d := range file.Decls {
					hd, ok := d.(*ast.FuncDecl)
					if !ok || p.TypesInfo.Defs[hd.Name] != types.Object(fobj) {
						continue
					}
					ast.Inspect(hd, func(n2 ast.Node) bool {
						if s2, ok := n2.(*ast.SwitchStmt); ok && s2.Tag != nil {
							if tv := p.TypesInfo.Types[s2.Tag]; tv.Type != nil && types.Identical(tv.Type, typeT) {
								sw = s2
							}
						}
						return true
					})
				}
			}
			return true
		})
	}
	if sw == nil {
		c.R.Fail(r, "decode: switch over connector.Type", c.Pos(fd.Pos()), "no switch over the connector type found in decode")
		return
	}
	covered := map[string]bool{}
	hasDefaultRefusal := false
	stateTypes := map[string]string{}
	for _, cl := range sw.Body.List {
		cc := cl.(*ast.CaseClause)
		if cc.List == nil {
			// default must return a non-nil error
			for _, s := range cc.Body {
				if rs, ok := s.(*ast.ReturnStmt); ok && len(rs.Results) >= 1 {
					if id, ok := rs.Results[len(rs.Results)-1].(*ast.Ident); !ok || id.Name != "nil" {
						hasDefaultRefusal = true
					}
				}
			}
			continue
		}
		for _, e := range cc.List {
			if tv := p.TypesInfo.Types[e]; tv.Value != nil {
				covered[tv.Value.ExactString()] = true
				// the state variable type declared in this arm
				ast.Inspect(cc, func(n ast.Node) bool {
					if vs, ok := n.(*ast.ValueSpec); ok && vs.Type != nil {
						stateTypes[types.ExprString(e)] = types.ExprString(vs.Type)
					}
					return true
				})
			}
		}
	}
	for _, m := range members {
		c.R.Check(covered[m.Val().ExactString()], r, "decode handles connector type "+m.Name(), c.Pos(sw.Pos()), "case present", "connector.Store.decode has no arm for "+m.Name()+": a stored connector of that type cannot be loaded", false)
	}
	c.R.Check(hasDefaultRefusal, r, "decode refuses unknown connector types", c.Pos(sw.Pos()), "default returns an error", "the default arm of decode's type switch does not refuse", false)
	want := map[string]string{"TypeSource": "SourceState", "TypeDestination": "DestinationState"}
	for k, v := range want {
		c.R.Check(stateTypes[k] == v, r, "decode re-decodes "+k+" state as "+v, c.Pos(sw.Pos()), "ok", "the "+k+" arm does not re-decode the state as "+v+" (found "+stateTypes[k]+")", false)
	}
}

func c17R4(c *Ctx) {
	r := c.R.Rule("R4", "K9 nothing hidden from the encoder: no exported field of a stored struct (transitively, in-repo types) carries json:\"-\" or a renaming/omitempty tag that the reader does not share; store key prefixes are distinct and used by writer and reader", 20)
	roots := [][2]string{{pConn, "Instance"}, {pPipe, "Instance"}, {pProc, "Instance"}, {pConn, "SourceState"}, {pConn, "DestinationState"}}
	seen := map[*types.Named]bool{}
	var visit func(n *types.Named, path string)
	visit = func(n *types.Named, path string) {
		if n == nil || seen[n] {
			return
		}
		seen[n] = true
		st, ok := n.Underlying().(*types.Struct)
		if !ok {
			return
		}
		for i := 0; i < st.NumFields(); i++ {
			f := st.Field(i)
			tag := reflect.StructTag(st.Tag(i)).Get("json")
			name := path + "." + f.Name()
			if f.Exported() {
				hidden := tag == "-"
				c.R.Check(!hidden, r, "stored field "+name+" reaches the encoder", c.Pos(f.Pos()), "tag="+tag, "stored field "+name+" is tagged json:\"-\": it silently stops being stored", false)
				if strings.Contains(tag, "omitempty") {
					c.R.Note("stored field " + name + " uses omitempty: empty and absent are indistinguishable after a round trip")
				}
			}
			// recurse into in-repo struct types
			ft := f.Type()
			for {
				switch x := ft.(type) {
				case *types.Pointer:
					ft = x.Elem()
					continue
				case *types.Slice:
					ft = x.Elem()
					continue
				case *types.Map:
					ft = x.Elem()
					continue
				}
				break
			}
			if nn, ok := ft.(*types.Named); ok && nn.Obj().Pkg() != nil && strings.HasPrefix(nn.Obj().Pkg().Path(), kit.Module) {
				visit(nn, name)
			}
		}
	}
	for _, rt := range roots {
		if n := c.Type(r, rt[0], rt[1]); n != nil {
			visit(n, kit.RelPkg(n.Obj().Pkg().Path())+"."+rt[1])
		}
	}
	// store key prefixes
	vals := map[string]string{}
	for _, rel := range []string{pConn, pPipe, pProc} {
		k, ok := c.W.LookupObj(rel, "storeKeyPrefix").(*types.Const)
		if !ok {
			c.R.Unresolved(r, rel+".storeKeyPrefix")
			continue
		}
		v := constant.StringVal(k.Val())
		if prev, dup := vals[v]; dup {
			c.R.Fail(r, "store key prefix of "+rel+" distinct", c.Pos(k.Pos()), "the key prefix "+v+" is shared with "+prev+": entities of two kinds collide in the store")
		} else {
			c.R.Pass(r, "store key prefix of "+rel+" distinct", c.Pos(k.Pos()), v, false)
		}
		vals[v] = rel
		// used by addKeyPrefix and trimKeyPrefix only (writer and reader go through these)
		p := c.W.Pkg(rel)
		users := map[string]bool{}
		for id, obj := range p.TypesInfo.Uses {
			if obj == types.Object(k) {
				users[c.W.EnclosingKey(id.Pos())] = true
			}
		}
		want := rel + ".(*Store).addKeyPrefix"
		c.R.Check(users[want], r, rel+": keys are built by addKeyPrefix", c.Pos(k.Pos()), fmt.Sprint(sortedKeys(users)), "storeKeyPrefix is not used by "+want, false)
		// every db.Set/Get/GetKeys key in the Store comes from addKeyPrefix
		addKP := c.Fn(r, rel, "(*Store).addKeyPrefix")
		for _, m := range []string{"Set", "Get", "GetAll", "Delete", "PrepareSet"} {
			fn := c.W.SSAFunc(c.W.LookupFunc(rel, "(*Store)."+m))
			if fn == nil {
				continue
			}
			for _, f2 := range kit.WithAnon(fn) {
				for _, b := range f2.Blocks {
					for _, in := range b.Instrs {
						call, ok := in.(*ssa.Call)
						if !ok || !call.Call.IsInvoke() {
							continue
						}
						switch call.Call.Method.Name() {
						case "Set", "Get", "GetKeys":
						default:
							continue
						}
						if len(call.Call.Args) < 2 {
							continue
						}
						key := call.Call.Args[1]
						if m == "GetAll" && call.Call.Method.Name() == "Get" {
							continue // iterates keys returned by GetKeys(prefix)
						}
						ok2 := kit.DerivesFrom(key, func(v ssa.Value) bool {
							cc, isCall := v.(*ssa.Call)
							return isCall && kit.CalleeOf(cc.Common()) == addKP
						})
						c.R.Check(ok2, r, rel+".Store."+m+": db."+call.Call.Method.Name()+" key built by addKeyPrefix", c.Pos(call.Pos()), "ok", "a store access in "+rel+".Store."+m+" uses a key that does not come from addKeyPrefix: writer and reader can disagree on the key", true)
					}
				}
			}
		}
	}
	_ = token.NoPos
}

func c17R5(c *Ctx) {
	r := c.R.Rule("R5", "K9 resume agreement: the status pipeline.Service.Init rewrites a stored Running pipeline to is the status both lifecycle Init functions restart", 3)
	running := c.W.LookupObj(pPipe, "StatusRunning")
	sysStopped := c.W.LookupObj(pPipe, "StatusSystemStopped")
	if running == nil || sysStopped == nil {
		c.R.Unresolved(r, pPipe+".StatusRunning/StatusSystemStopped")
		return
	}
	if fn := c.SSA(r, pPipe, "(*Service).Init"); fn != nil {
		get := c.Fn(r, pPipe, "(*Instance).GetStatus")
		set := c.Fn(r, pPipe, "(*Instance).SetStatus")
		// the live statuses: Running, and Recovering — a pipeline parked in its recovery back-off (up to minutes) when
		// the process dies or the shutdown wait expires is stored as Recovering; nothing restarts it unless it is
		// found again as SystemStopped (F37)
		recovering := c.W.LookupObj(pPipe, "StatusRecovering")
		g := kit.NewGates()
		perStatus := map[string][]kit.Edge{}
		for _, call := range kit.CallsTo(fn, Set(get)) {
			v := call.Value()
			for name, obj := range map[string]types.Object{"StatusRunning": running, "StatusRecovering": recovering} {
				o := obj
				es := kit.CmpEdges(fn, func(b *ssa.BinOp) (bool, bool) {
					if o != nil && ((kit.IsVar(b.X, v) && isConstObj(b.Y, o)) || (kit.IsVar(b.Y, v) && isConstObj(b.X, o))) {
						switch b.Op {
						case token.EQL:
							return true, true
						case token.NEQ:
							return true, false
						}
					}
					return false, false
				})
				g.AddEdges(es, "")
				perStatus[name] = append(perStatus[name], es...)
			}
		}
		n := 0
		for _, call := range kit.CallsTo(fn, Set(set)) {
			a := call.Common().Args
			if len(a) == 2 && isConstObj(a[1], sysStopped) {
				n++
				c.Dominated(r, "pipeline.Init: Running -> SystemStopped", []ssa.Instruction{call}, g, "the GetStatus()==StatusRunning / StatusRecovering edge")
				for _, name := range []string{"StatusRunning", "StatusRecovering"} {
					reach := false
					for _, e := range perStatus[name] {
						if kit.EdgeReaches(e, call, nil) {
							reach = true
						}
					}
					c.R.Check(reach, r, "pipeline.Init: a stored "+name+" pipeline is rewritten to SystemStopped", c.Pos(call.Pos()), "ok", "pipeline.Service.Init does not convert a stored "+name+" status to SystemStopped: both lifecycle Init functions (and provisioning) resume SystemStopped pipelines only, so a pipeline that was live when the server went away — running, or waiting in its recovery back-off — is never started again and stays '"+strings.ToLower(strings.TrimPrefix(name, "Status"))+"' for ever", true)
				}
			} else {
				c.R.Fail(r, "pipeline.Init: status rewrite target", c.Pos(call.Pos()), "pipeline.Service.Init rewrites a status to something other than StatusSystemStopped")
			}
		}
		if n == 0 {
			c.R.Fail(r, "pipeline.Init: Running -> SystemStopped", c.Pos(fn.Pos()), "pipeline.Service.Init no longer converts a stored Running status to SystemStopped: a pipeline that was running at the crash is not found again as one to resume")
		}
	}
	// what is loaded is what is served: the services' Init functions do not rewrite exported fields of loaded instances
	for _, rel := range []string{pPipe, pConn, pProc} {
		inst := c.Type(r, rel, "Instance")
		if inst == nil {
			continue
		}
		var fields []*types.Var
		var collect func(n *types.Named, depth int)
		collect = func(n *types.Named, depth int) {
			st, ok := n.Underlying().(*types.Struct)
			if !ok || depth > 2 {
				return
			}
			for i := 0; i < st.NumFields(); i++ {
				f := st.Field(i)
				if !f.Exported() {
					continue
				}
				fields = append(fields, f)
				if nn, ok := f.Type().(*types.Named); ok && nn.Obj().Pkg() != nil && nn.Obj().Pkg().Path() == inst.Obj().Pkg().Path() {
					collect(nn, depth+1)
				}
			}
		}
		collect(inst, 0)
		bad := 0
		for _, f := range fields {
			for _, w := range c.W.FieldWrites(f) {
				if w.Where == rel+".(*Service).Init" && w.Kind != "lit" && !strings.HasPrefix(w.Kind, "call:") {
					bad++
					c.R.Fail(r, rel+".Service.Init rewrites loaded field "+f.Name(), c.Pos(w.Pos), rel+".Service.Init modifies "+f.Name()+" of an instance it just loaded from the store: what a restarted server serves (and later writes back) differs from what was stored")
				}
			}
		}
		if bad == 0 {
			c.R.Pass(r, rel+".Service.Init does not rewrite loaded instances", "", fmt.Sprintf("%d exported fields checked", len(fields)), false)
		}
	}
	for _, rel := range []string{pLife, pLife2} {
		fn := c.SSA(r, rel, "(*Service).Init")
		if fn == nil {
			continue
		}
		get := c.Fn(r, pPipe, "(*Instance).GetStatus")
		start := c.Fn(r, rel, "(*Service).Start")
		g := kit.NewGates()
		for _, call := range kit.CallsTo(fn, Set(get)) {
			v := call.Value()
			g.AddEdges(kit.CmpEdges(fn, func(b *ssa.BinOp) (bool, bool) {
				if b.Op == token.EQL && b.X == ssa.Value(v) && isConstObj(b.Y, sysStopped) {
					return true, true
				}
				return false, false
			}), "")
		}
		starts := kit.CallsToDeep(fn, Set(start))
		if len(starts) == 0 {
			c.R.Fail(r, rel+".Init: Start", c.Pos(fn.Pos()), "no Start call found in Init")
		}
		c.Dominated(r, rel+".Init restarts exactly the SystemStopped pipelines", asInstrs(starts), g, "the GetStatus()==StatusSystemStopped edge")
	}
}

// c17R8: a record is decoded into a fresh value.
func c17R8(c *Ctx) {
	r := c.R.Rule("R8", "K6 no leakage between stored records: in the stores' decode/migration code an Unmarshal inside a loop writes into a value allocated inside that loop (json.Unmarshal into a reused struct merges maps and keeps fields the next record does not mention)", 1)
	inLoop := func(in ssa.Instruction) bool {
		b := in.Block()
		seen := map[*ssa.BasicBlock]bool{}
		work := append([]*ssa.BasicBlock{}, b.Succs...)
		for len(work) > 0 {
			x := work[0]
			work = work[1:]
			if x == b {
				return true
			}
			if seen[x] {
				continue
			}
			seen[x] = true
			work = append(work, x.Succs...)
		}
		return false
	}
	n := 0
	for _, rel := range []string{pConn, pPipe, pProc} {
		p := c.W.Pkg(rel)
		if p == nil {
			continue
		}
		sp := c.W.SSA[p.Types]
		for _, fn := range c.W.AllFuncs(sp) {
			pos := c.W.Fset.Position(fn.Pos())
			if !strings.HasSuffix(pos.Filename, "/store.go") {
				continue
			}
			for _, b := range fn.Blocks {
				for _, in := range b.Instrs {
					call, ok := in.(*ssa.Call)
					if !ok {
						continue
					}
					f := kit.CalleeOf(call.Common())
					if f == nil || f.Name() != "Unmarshal" || len(call.Call.Args) != 2 || !inLoop(call) {
						continue
					}
					n++
					tgt := kit.Unwrap(call.Call.Args[1])
					a, isAlloc := tgt.(*ssa.Alloc)
					ok2 := isAlloc && inLoop(a)
					c.R.Check(ok2, r, kit.FuncKey(fn)+": decodes each record into a fresh value", c.Pos(call.Pos()), "target allocated inside the loop", kit.FuncKey(fn)+" unmarshals inside a loop into a value declared outside it: settings maps merge across records and a record that lacks a key inherits the previous record's value (state, processor references) — and the migrated result is written back for good", true)
				}
			}
		}
	}
	if n == 0 {
		c.R.Fail(r, "store decoders with a per-record loop", "", "no Unmarshal inside a loop found in the store files (migratePre041 expected)")
	}
}

// c17R9: F57 (known finding). provisioning.Service.Init deletes every pipeline that is tagged as provisioned by a
// configuration file and is not found in the pipelines directory. transactionalImport — the import behind the
// ApplyPipeline API call, the deploy tool and `pipelines apply` — tags everything it imports ProvisionTypeConfig, so a
// pipeline applied through the API is deleted, with its connectors and positions, by the next server start. The tag
// has to come from the caller (Service.Import does that for programmatic imports, #1274).
func c17R9(c *Ctx) {
	r := c.R.Rule("R9", "K6 an applied pipeline survives the next start: the provision type transactionalImport hands to importPipeline comes from its caller (an API apply is not tagged as file-provisioned, which start-up provisioning deletes when the file is absent)", 1)
	fn := c.SSA(r, pProv, "(*Service).transactionalImport")
	imp := c.Fn(r, pProv, "(*Service).importPipeline")
	cfgType := c.W.LookupObj(pPipe, "ProvisionTypeConfig")
	if fn == nil || imp == nil || cfgType == nil {
		return
	}
	calls := kit.CallsTo(fn, Set(imp))
	if len(calls) == 0 {
		c.R.Fail(r, "transactionalImport: importPipeline call", c.Pos(fn.Pos()), "no importPipeline call found")
		return
	}
	for _, call := range calls {
		a := call.Common().Args
		fixed := isConstObj(a[len(a)-1], cfgType)
		c.R.Check(!fixed, r, "transactionalImport: the provision type is chosen by the caller", c.Pos(call.Pos()), "parameter", "transactionalImport imports with the constant pipeline.ProvisionTypeConfig although it is reached from the ApplyPipeline API call (PipelineAPIv1.ApplyPipeline → ApplyPlanLive): the applied pipeline counts as file-provisioned, and provisioning.Service.Init → deleteOldPipelines removes every such pipeline that is not in the pipelines directory — after the next start the pipeline, its connectors and their positions are gone", true)
	}
}

// c17R10: F70/F72. Start-up provisioning deletes every file-provisioned pipeline whose id is not found in the files —
// with its connectors and their positions. (a) A file that fails to PARSE does not contribute its ids, so the stored
// pipeline it defines would be taken for removed: nothing is deleted in a start in which a file failed to parse.
// (b) The duplicated-id clean-up removes config entries by index; indexes computed once are valid for ONE removal —
// removing per duplicated id inside the loop panics on the start-up path or drops the wrong pipelines.
func c17R10(c *Ctx) {
	r := c.R.Rule("R10", "K3 what start-up provisioning deletes: provisioning.Service.Init calls deleteOldPipelines only behind the no-file-failed-to-parse edge (a flag set on parsePipelineConfigFile's failure edge), and removes duplicate config entries by index outside the loop over the duplicated ids", 3)
	fn := c.SSA(r, pProv, "(*Service).Init")
	del := c.Fn(r, pProv, "(*Service).deleteOldPipelines")
	parse := c.Fn(r, pProv, "(*Service).parsePipelineConfigFile")
	delIdx := c.Fn(r, pProv, "(*Service).deleteIndexes")
	dup := c.Fn(r, pProv, "(*Service).findDuplicateIDs")
	if fn == nil || del == nil || parse == nil || delIdx == nil || dup == nil {
		return
	}
	gFail := kit.NewGates()
	for _, pc := range kit.CallsTo(fn, Set(parse)) {
		gFail.AddEdges(kit.FailEdges(pc), "parse failed")
	}
	g := kit.NewGates()
	for _, phi := range boolFlagsSetBehind(fn, gFail) {
		g.AddEdges(kit.CondEdges(phi, false), "!parseFailed")
	}
	c.Dominated(r, "provisioning.Init: stored pipelines are deleted only when every file parsed", asInstrs(kit.CallsTo(fn, Set(del))), g, "the !parseFailed edge")
	// duplicates: the loop ranging over findDuplicateIDs' result contains no deleteIndexes on the config list
	loops := kit.Loops(fn)
	for _, dc := range kit.CallsTo(fn, Set(dup)) {
		_ = dc
	}
	inLoop := false
	var at ssa.Instruction
	for _, call := range kit.CallsTo(fn, Set(delIdx)) {
		for _, l := range loops {
			if !l.Contains(call) {
				continue
			}
			// is this the loop over the duplicated ids (a map range over findDuplicateIDs' result)?
			for b := range l.Blocks {
				for _, in := range b.Instrs {
					if nx, ok := in.(*ssa.Next); ok {
						if rg, ok := nx.Iter.(*ssa.Range); ok {
							if cl, ok := rg.X.(*ssa.Call); ok && kit.CalleeOf(cl.Common()) == dup {
								inLoop, at = true, call
							}
						}
					}
				}
			}
		}
	}
	pos := c.Pos(fn.Pos())
	if at != nil {
		pos = c.Pos(at.Pos())
	}
	c.R.Check(!inLoop, r, "provisioning.Init: duplicate entries are removed in one go", pos, "outside the loop", "Init removes the duplicated config entries inside the loop over the duplicated ids: the indexes findDuplicateIDs computed refer to the list before any removal, so with two different duplicated ids the second removal uses stale indexes — a slice-bounds panic on the start-up path or, depending on map order, the valid pipeline dropped and a stored copy of it deleted with its positions", true)
	c.R.Check(len(kit.CallsTo(fn, Set(delIdx))) >= 1, r, "provisioning.Init: deleteIndexes call", c.Pos(fn.Pos()), "found", "no deleteIndexes call in Init", true)
}

// c17R11: F75 (known finding). The sqlite driver's GetKeys returns group_concat(key) and splits on commas. Pipeline and
// connector ids are restricted to [A-Za-z0-9-_:.], processor ids are not validated at all: a processor id containing a
// comma (`mask,upper`, accepted from a config file) is stored fine and comes back as two keys that do not exist —
// processor.Service.Init fails and the server does not start.
func c17R11(c *Ctx) {
	r := c.R.Rule("R11", "K3 every stored key can be listed again: processor.Service.Create validates the processor id (the character set pipeline and connector ids are restricted to) before it persists", 1)
	fn := c.SSA(r, pProc, "(*Service).Create")
	set := c.Fn(r, pProc, "(*Store).Set")
	if fn == nil || set == nil {
		return
	}
	var idParam ssa.Value
	for _, prm := range fn.Params {
		if prm.Name() == "id" {
			idParam = prm
		}
	}
	validated := false
	for _, b := range fn.Blocks {
		for _, in := range b.Instrs {
			ci, ok := in.(ssa.CallInstruction)
			if !ok {
				continue
			}
			h := ci.Common().StaticCallee()
			if h == nil || kit.ErrIndexOfCall(ci) < 0 && !strings.Contains(strings.ToLower(h.Name()), "valid") {
				continue
			}
			for _, a := range ci.Common().Args {
				if idParam != nil && (a == idParam || kit.IsVar(a, idParam)) && strings.Contains(strings.ToLower(h.Name()), "valid") {
					validated = true
				}
			}
		}
	}
	c.R.Check(validated, r, "processor.Service.Create: the processor id is validated", c.Pos(fn.Pos()), "validated", "processor.Service.Create accepts any id (pipeline and connector ids are restricted to [A-Za-z0-9-_:.]): an id with a comma, e.g. `mask,upper` from a config file, is stored as the key `processor:instance:pl:mask,upper`; the sqlite driver's GetKeys (group_concat, split on commas) returns it as two keys that do not exist, processor.Service.Init fails and the server cannot start any more", true)
}

// c17R12: what a restart loads is what the service served: in the pipeline/connector/processor services no exported field
// of the instance is assigned behind the SUCCESS edge of the store.Set that persisted it (a field set after the write —
// e.g. the error message of a status change — is in memory but not in the store: after a restart a degraded pipeline has
// lost its error, or shows a stale one).
func c17R12(c *Ctx) {
	r := c.R.Rule("R12", "K3 nothing is changed after it was persisted: in pipeline/connector/processor service methods no exported field of the live instance is assigned behind the success edge of store.Set", 12)
	for _, rel := range []string{pPipe, pConn, pProc} {
		p := c.W.Pkg(rel)
		set := c.Fn(r, rel, "(*Store).Set")
		inst := c.W.LookupType(rel, "Instance")
		if p == nil || set == nil || inst == nil {
			continue
		}
		st := inst.Underlying().(*types.Struct)
		for _, fn := range c.W.AllFuncs(c.W.SSA[p.Types]) {
			if fn.Parent() != nil || fn.Signature.Recv() == nil {
				continue
			}
			if n, ok := derefNamed(fn.Signature.Recv().Type()); !ok || n.Obj().Name() != "Service" {
				continue
			}
			sets := kit.CallsTo(fn, Set(set))
			if len(sets) == 0 {
				continue
			}
			late := false
			var at token.Pos = fn.Pos()
			for _, sc := range sets {
				for _, e := range kit.OKEdges(sc) {
					for i := 0; i < st.NumFields(); i++ {
						f := st.Field(i)
						if !f.Exported() || f.Embedded() {
							continue
						}
						for _, fs := range kit.FieldStores(fn, f) {
							if fs.Block() == e.To || e.To.Dominates(fs.Block()) {
								late = true
								at = fs.Pos()
							}
						}
					}
				}
			}
			c.R.Check(!late, r, kit.FuncKey(fn)+": no instance field is assigned after the persist succeeded", c.Pos(at), "none", "an exported field of the live instance is assigned behind the success edge of store.Set: the stored document lacks it — memory is right until the next restart, which loads the old value (for UpdateStatus: a degraded pipeline comes back without its error, or with a stale one)", true)
		}
	}
}

// c17R13: the copy PrepareSet persists carries the instance's values as they
// are: no path replaces a reference-typed field (map, slice, pointer,
// interface) by the nil constant unless the instance's own value is nil there.
// An empty-but-present settings map stored as null is read back as "never
// configured" (LastActiveConfig.Settings == nil is the engine's marker for a
// connector that was never started).
func c17R13(c *Ctx) {
	r := c.R.Rule("R13", "K6 the stored copy keeps nil-ness: no value stored into the Instance/Config copy of connector.Store.PrepareSet (directly, through a phi, or through the result of a same-module helper applied to the instance's field) is the nil constant on a path where the instance's value was not tested to be nil", 3)
	fn := c.SSA(r, pConn, "(*Store).PrepareSet")
	instT := c.Type(r, pConn, "Instance")
	cfgT := c.Type(r, pConn, "Config")
	if fn == nil || instT == nil || cfgT == nil {
		return
	}
	var inst *ssa.Parameter
	for _, p := range fn.Params {
		if pt, ok := p.Type().(*types.Pointer); ok && types.Identical(pt.Elem(), instT) {
			inst = p
		}
	}
	if inst == nil {
		c.R.Unresolved(r, "PrepareSet: *Instance parameter")
		return
	}
	rootedAt := func(v ssa.Value, root ssa.Value) bool {
		for i := 0; i < 12 && v != nil; i++ {
			if v == root {
				return true
			}
			switch x := v.(type) {
			case *ssa.UnOp:
				if x.Op != token.MUL {
					return false
				}
				v = x.X
			case *ssa.FieldAddr:
				v = x.X
			case *ssa.Field:
				v = x.X
			default:
				return false
			}
		}
		return false
	}
	isRefType := func(t types.Type) bool {
		switch t.Underlying().(type) {
		case *types.Map, *types.Slice, *types.Pointer, *types.Interface:
			return true
		}
		return false
	}
	copyRoot := func(addr ssa.Value) bool {
		for i := 0; i < 6 && addr != nil; i++ {
			switch x := addr.(type) {
			case *ssa.FieldAddr:
				addr = x.X
			case *ssa.Alloc:
				et := x.Type().(*types.Pointer).Elem()
				return types.Identical(et, instT) || types.Identical(et, cfgT)
			default:
				return false
			}
		}
		return false
	}
	// check reports the places where v may be the nil constant although no
	// value accepted by src was tested nil on the way.
	type bad struct {
		at  ssa.Instruction
		why string
	}
	var check func(f *ssa.Function, v ssa.Value, src func(ssa.Value) bool, depth int, seen map[ssa.Value]bool) []bad
	nilGates := func(f *ssa.Function, src func(ssa.Value) bool) *kit.Gates {
		g := kit.NewGates()
		for _, p := range f.Params {
			if src(p) {
				g.AddEdges(kit.NilEdges(p, true), "")
			}
		}
		for _, b := range f.Blocks {
			for _, in := range b.Instrs {
				if v, ok := in.(ssa.Value); ok && src(v) {
					g.AddEdges(kit.NilEdges(v, true), "")
				}
			}
		}
		return g
	}
	check = func(f *ssa.Function, v ssa.Value, src func(ssa.Value) bool, depth int, seen map[ssa.Value]bool) []bad {
		if v == nil || seen[v] || depth > 3 {
			return nil
		}
		seen[v] = true
		var out []bad
		switch x := v.(type) {
		case *ssa.Phi:
			g := nilGates(f, src)
			for i, e := range x.Edges {
				pred := x.Block().Preds[i]
				if kit.IsNilConst(e) {
					if g.Edges[kit.Edge{From: pred, To: x.Block()}] {
						continue
					}
					term := pred.Instrs[len(pred.Instrs)-1]
					if ok, _ := kit.MustPass(term, g); !ok {
						out = append(out, bad{term, "the nil constant is merged in from block " + fmt.Sprint(pred.Index) + " of " + kit.FuncKey(f)})
					}
					continue
				}
				out = append(out, check(f, e, src, depth, seen)...)
			}
		case *ssa.ChangeType:
			out = append(out, check(f, x.X, src, depth, seen)...)
		case *ssa.MakeInterface:
			out = append(out, check(f, x.X, src, depth, seen)...)
		case *ssa.Call:
			callee := x.Call.StaticCallee()
			if callee == nil || len(callee.Blocks) == 0 || callee.Signature.Results().Len() != 1 || callee.Pkg == nil || !strings.HasPrefix(callee.Pkg.Pkg.Path(), kit.Module) {
				return nil
			}
			idx := -1
			for i, a := range x.Call.Args {
				if src(a) {
					idx = i
				}
			}
			if idx < 0 || idx >= len(callee.Params) {
				return nil
			}
			param := callee.Params[idx]
			psrc := func(y ssa.Value) bool { return y == param }
			g := nilGates(callee, psrc)
			for _, ret := range kit.Returns(callee) {
				rv := kit.RetVal(ret, 0)
				if kit.IsNilConst(rv) {
					if ok, _ := kit.MustPass(ret, g); !ok {
						out = append(out, bad{ret, kit.FuncKey(callee) + " returns the nil constant on a path where its argument was not tested to be nil"})
					}
					continue
				}
				out = append(out, check(callee, rv, psrc, depth+1, seen)...)
			}
		}
		return out
	}
	n := 0
	for _, b := range fn.Blocks {
		for _, in := range b.Instrs {
			st, ok := in.(*ssa.Store)
			if !ok || !copyRoot(st.Addr) || !isRefType(st.Val.Type()) {
				continue
			}
			fa, _ := st.Addr.(*ssa.FieldAddr)
			name := "?"
			if fa != nil {
				if s, ok := fa.X.Type().(*types.Pointer).Elem().Underlying().(*types.Struct); ok {
					name = s.Field(fa.Field).Name()
				}
			}
			n++
			vt := st.Val.Type()
			src := func(y ssa.Value) bool { return types.Identical(y.Type(), vt) && y != inst && rootedAt(y, inst) }
			bads := check(fn, st.Val, src, 0, map[ssa.Value]bool{})
			key := "PrepareSet stores " + name
			if len(bads) == 0 {
				c.R.Pass(r, key, c.Pos(posOf(st)), "never replaced by the nil constant", true)
				continue
			}
			for _, bd := range bads {
				c.R.Fail(r, key, c.Pos(posOf(bd.at)), bd.why+": an empty but present "+name+" is persisted as null and read back as nil after a restart")
			}
		}
	}
	if n == 0 {
		c.R.Fail(r, "PrepareSet: stores into the persisted copy", c.Pos(fn.Pos()), "no store of a reference-typed field into an Instance/Config copy found (shape changed)")
	}
}
