package rules

import (
	"go/token"
	"go/types"
	"strings"

	"conduitlint/kit"

	"golang.org/x/tools/go/ssa"
)

// Rules that came out of the fifth hunt round (H28–H31).
//
// A processor is reserved (Instance.running) and its plugin dispensed when the pipeline is BUILT
// (processor.Service.MakeRunnableProcessor), not when it is opened. "Once a run has ended its connectors and processors
// are released so the pipeline can be started again" therefore needs, for a start that fails, a release of every
// processor that was built — also the ones that were never opened.

// releaseSet: what counts as releasing a built processor — a Teardown of the runnable processor (through whatever
// interface the engine holds it by) or funnel.ProcessorTask.Close (which is that Teardown).
func processorReleaseSet(c *Ctx, r string) kit.FuncSet {
	set := kit.FuncSet{}
	if td := c.Fn(r, pProc, "(*RunnableProcessor).Teardown"); td != nil {
		for f := range c.Fam(td) {
			set[f] = true
		}
	}
	if cl := c.Fn(r, pFunnel, "(*ProcessorTask).Close"); cl != nil {
		set[cl] = true
	}
	return set
}

// reachesStatic: f (or a function literal of f, or an in-module function it calls statically, to depth d) calls a
// function of set. Interface dispatch is not followed: Worker.Close closing its opened tasks through Task.Close is not
// a release of the unopened ones.
func reachesStatic(f *ssa.Function, set kit.FuncSet, d int, seen map[*ssa.Function]bool) bool {
	if f == nil || seen[f] || d < 0 || len(f.Blocks) == 0 {
		return false
	}
	seen[f] = true
	for _, g := range kit.WithAnon(f) {
		for _, b := range g.Blocks {
			for _, in := range b.Instrs {
				ci, ok := in.(ssa.CallInstruction)
				if !ok {
					continue
				}
				if set.Has(kit.CalleeOf(ci.Common())) {
					return true
				}
				if h := ci.Common().StaticCallee(); h != nil && h.Pkg != nil && strings.HasPrefix(h.Pkg.Pkg.Path(), kit.Module) {
					if reachesStatic(h, set, d-1, seen) {
						return true
					}
				}
			}
		}
	}
	return false
}

// releasedBehind: some call in a block at or below one of the edges releases a processor.
func releasedBehind(fn *ssa.Function, edges []kit.Edge, set kit.FuncSet) bool {
	for _, e := range edges {
		for _, b := range fn.Blocks {
			if !(b == e.To || e.To.Dominates(b)) {
				continue
			}
			for _, in := range b.Instrs {
				ci, ok := in.(ssa.CallInstruction)
				if !ok {
					continue
				}
				if set.Has(kit.CalleeOf(ci.Common())) {
					return true
				}
				if h := ci.Common().StaticCallee(); h != nil && reachesStatic(h, set, 3, map[*ssa.Function]bool{}) {
					return true
				}
			}
		}
	}
	return false
}

// c11R18 (F89): arch-v2 — a start that fails while OPENING releases the processors that were built but not opened.
func c11R18(c *Ctx) {
	r := c.R.Rule("R18", "K4 a failed start releases what was built (arch-v2, open phase): behind the failure edge of Task.Open in Worker.Open and Sink.Open, and behind the failure edges of Sink.Open and Worker.Open in runPipeline, the processors of the tasks that were never opened are torn down (a static call chain to ProcessorTask.Close / RunnableProcessor.Teardown) — they were reserved as running when the pipeline was built", 4)
	set := processorReleaseSet(c, r)
	taskOpen := c.W.LookupFunc(pFunnel, "Task.Open")
	if taskOpen == nil {
		c.R.Unresolved(r, pFunnel+".Task.Open")
		return
	}
	for _, name := range []string{"(*Worker).Open", "(*Sink).Open"} {
		fn := c.SSA(r, pFunnel, name)
		if fn == nil {
			continue
		}
		// the loop over the tasks may be a range-over-func: its body is a function literal
		n := 0
		for _, g := range kit.WithAnon(fn) {
			for _, call := range kit.CallsTo(g, c.Fam(taskOpen)) {
				n++
				c.R.Check(releasedBehind(g, kit.FailEdges(call), set), r, "funnel."+name+": a failed task Open releases the processors behind it", c.Pos(call.Pos()), "released",
					"behind the failure edge of task.Open the tasks that were not opened yet are dropped as they are: a ProcessorTask reserved its processor (running=true) and dispensed its plugin when it was built, so Update/Delete and every later Start are refused with \"processor already running\" until Conduit restarts", true)
			}
		}
		if n == 0 {
			c.R.Fail(r, "funnel."+name+": opens its tasks", c.Pos(fn.Pos()), "no Task.Open call found (shape changed)")
		}
	}
	if fn := c.SSA(r, pLife2, "(*Service).runPipeline"); fn != nil {
		for _, tgt := range []string{"(*Sink).Open", "(*Worker).Open"} {
			f := c.Fn(r, pFunnel, tgt)
			if f == nil {
				continue
			}
			calls := kit.CallsTo(fn, Set(f))
			if len(calls) == 0 {
				c.R.Fail(r, "v2 runPipeline: calls "+tgt, c.Pos(fn.Pos()), "no call found (shape changed)")
				continue
			}
			for _, call := range calls {
				c.R.Check(releasedBehind(fn, kit.FailEdges(call), set), r, "v2 runPipeline: a failed "+tgt+" releases the workers that were never opened", c.Pos(call.Pos()), "released",
					"behind the failure edge of "+tgt+" runPipeline closes what was opened and returns: the processors of the workers that were not opened yet stay reserved (\"processor already running\") until Conduit restarts", true)
			}
		}
	}
}

// c11R19 (F90, known finding): a start that fails while BUILDING releases the processors it already reserved.
func c11R19(c *Ctx) {
	r := c.R.Rule("R19", "K4 a failed start releases what was built (build phase, both engines): the function that assembles the run (v1 buildNodes, v2 buildRunnablePipeline) tears down, on an error return, the processors it has already made runnable, and every MakeRunnableProcessor result of the build helpers is appended to the list that is torn down", 4)
	set := processorReleaseSet(c, r)
	for _, t := range []struct{ eng, rel, name string }{{"v1", pLife, "(*Service).buildNodes"}, {"v2", pLife2, "(*Service).buildRunnablePipeline"}} {
		fn := c.SSA(r, t.rel, t.name)
		if fn == nil {
			continue
		}
		ei := kit.ErrIndex(fn)
		released := false
		for _, ret := range kit.Returns(fn) {
			if ei < 0 || kit.RetNil(ret, ei) {
				continue
			}
			// a release on the way to this error return: in a block that dominates it
			for _, b := range fn.Blocks {
				if !(b == ret.Block() || b.Dominates(ret.Block())) {
					continue
				}
				for _, in := range b.Instrs {
					ci, ok := in.(ssa.CallInstruction)
					if !ok {
						continue
					}
					if _, isDefer := in.(*ssa.Defer); isDefer {
						continue
					}
					if set.Has(kit.CalleeOf(ci.Common())) {
						released = true
					} else if h := ci.Common().StaticCallee(); h != nil && h.Signature.Results().Len() == 0 && reachesStatic(h, set, 3, map[*ssa.Function]bool{}) {
						released = true
					}
				}
			}
		}
		// or a deferred release that looks at the error
		for _, b := range fn.Blocks {
			for _, in := range b.Instrs {
				if d, ok := in.(*ssa.Defer); ok {
					if h := d.Call.StaticCallee(); h != nil && reachesStatic(h, set, 3, map[*ssa.Function]bool{}) {
						released = true
					}
					if mc, ok := d.Call.Value.(*ssa.MakeClosure); ok {
						if h, ok := mc.Fn.(*ssa.Function); ok && reachesStatic(h, set, 3, map[*ssa.Function]bool{}) {
							released = true
						}
					}
				}
			}
		}
		// … and every processor made runnable during the build is registered for that release: the result of each
		// MakeRunnableProcessor call in the package's build* helpers flows into an append (the collector)
		if mk := c.W.LookupFunc(t.rel, "ProcessorService.MakeRunnableProcessor"); mk != nil && released {
			p := c.W.Pkg(t.rel)
			for _, g := range c.W.AllFuncs(c.W.SSA[p.Types]) {
				root := g
				for root.Parent() != nil {
					root = root.Parent()
				}
				if !strings.HasPrefix(root.Name(), "build") {
					continue
				}
				for _, call := range kit.CallsTo(g, c.Fam(mk)) {
					v := kit.ResultN(call, 0)
					collected := v != nil && kit.FlowsTo(v, func(in ssa.Instruction, _ ssa.Value) bool {
						cl, ok := in.(*ssa.Call)
						if !ok {
							return false
						}
						b, ok := cl.Call.Value.(*ssa.Builtin)
						return ok && b.Name() == "append"
					})
					c.R.Check(collected, r, t.eng+" "+root.Name()+": the processor made runnable is registered for the release", c.Pos(call.Pos()), "appended to the collector",
						"the runnable processor returned by MakeRunnableProcessor in "+root.Name()+" is not added to the list the build tears down when it fails: that processor stays reserved (\"processor already running\") after a failed start", false)
				}
			}
		}
		c.R.Check(released, r, t.eng+" "+strings.TrimPrefix(t.name, "(*Service).")+": a failed build releases the processors already reserved", c.Pos(fn.Pos()), "released",
			"no error return of "+t.name+" tears down the processors built before the failing step: MakeRunnableProcessor reserved them (running=true) and dispensed their plugins, so after e.g. \"can't build pipeline without any destination connectors\" Update/Delete of the processor and every later Start are refused with \"processor already running\" until Conduit restarts", true)
	}
}

// c12R12 (F91/F92, known findings): a stop that was accepted for the dead run while the recovery was already
// restarting the pipeline is applied to the run the restart publishes.
func c12R12As(c *Ctx, r string) {
	for _, t := range []struct{ eng, rel string }{{"v1", pLife}, {"v2", pLife2}} {
		fn := c.SSA(r, t.rel, "(*Service).StartWithBackoff")
		start := c.Fn(r, t.rel, "(*Service).Start")
		rpT := c.Type(r, t.rel, "runnablePipeline")
		if fn == nil || start == nil || rpT == nil {
			continue
		}
		st, _ := rpT.Underlying().(*types.Struct)
		var flags []*types.Var
		for i := 0; st != nil && i < st.NumFields(); i++ {
			if nt, ok := st.Field(i).Type().(*types.Named); ok && nt.Obj().Pkg() != nil && nt.Obj().Pkg().Path() == "sync/atomic" && nt.Obj().Name() == "Bool" {
				flags = append(flags, st.Field(i))
			}
		}
		calls := kit.CallsTo(fn, Set(start))
		if len(calls) == 0 {
			c.R.Fail(r, t.eng+" StartWithBackoff: restarts through Start", c.Pos(fn.Pos()), "no Start call found (shape changed)")
			continue
		}
		for _, call := range calls {
			rechecked := false
			for _, e := range kit.OKEdges(call) {
				for _, f := range flags {
					for _, l := range flagReadCalls(fn, f) {
						if l.Block() == e.To || e.To.Dominates(l.Block()) {
							rechecked = true
						}
					}
				}
			}
			c.R.Check(rechecked, r, t.eng+" StartWithBackoff: a stop accepted during the restart reaches the new run", c.Pos(call.Pos()), "stop marker re-read after Start returned",
				"StartWithBackoff reads the dead run's stop marker only BEFORE it calls Start; until Start publishes the new run, Stop still resolves the pipeline to the dead run, marks it, kills a tomb that is already dead and returns nil — the accepted (force) stop is lost and the restarted pipeline keeps running", true)
		}
	}
}

// c05R12: the dichotomic search in Batch.SetRecords (findTo) is only correct for a predicate that is monotone over the
// range: true up to some index, false after it. The contiguity predicate is anchored at the chunk start — it relates
// activeIndices[idx] and idx to the fixed start. A neighbour-relative test (activeIndices[idx] vs activeIndices[idx-1])
// is local: it is true again behind a gap, so the bisection can pick a chunk that spans a filtered record and the
// records behind it land one slot off (seeded C05-m3). The structural clause: the function literal handed to findTo
// indexes slices only with its own parameter, never with parameter±k.
func c05R12(c *Ctx) {
	r := c.R.Rule("R12", "K6 the predicate of the dichotomic search is anchored, not neighbour-relative: every function literal handed to Batch.findTo indexes only with its own index parameter (an element at parameter±k makes the predicate local, and bisection needs it monotone over the range)", 1)
	findTo := c.Fn(r, pFunnel, "(*Batch).findTo")
	if findTo == nil {
		return
	}
	n := 0
	fp := c.W.Pkg(pFunnel)
	if fp == nil || c.W.SSA[fp.Types] == nil {
		c.R.Unresolved(r, pFunnel)
		return
	}
	for _, fn := range c.W.AllFuncs(c.W.SSA[fp.Types]) {
		for _, call := range kit.CallsTo(fn, Set(findTo)) {
			for _, a := range call.Common().Args {
				mc, ok := a.(*ssa.MakeClosure)
				if !ok {
					continue
				}
				lit, ok := mc.Fn.(*ssa.Function)
				if !ok || len(lit.Params) != 1 {
					continue
				}
				param := lit.Params[0]
				var rel func(v ssa.Value, d int) int // 0 unrelated, 1 the parameter itself, 2 computed from it
				rel = func(v ssa.Value, d int) int {
					if v == nil || d > 8 {
						return 0
					}
					if v == ssa.Value(param) {
						return 1
					}
					switch x := v.(type) {
					case *ssa.Convert:
						return rel(x.X, d+1)
					case *ssa.ChangeType:
						return rel(x.X, d+1)
					case *ssa.BinOp:
						if rel(x.X, d+1) > 0 || rel(x.Y, d+1) > 0 {
							return 2
						}
					case *ssa.UnOp:
						if rel(x.X, d+1) > 0 {
							return 2
						}
					case *ssa.Phi:
						for _, e := range x.Edges {
							if rel(e, d+1) > 0 {
								return 2
							}
						}
					}
					return 0
				}
				for _, b := range lit.Blocks {
					for _, in := range b.Instrs {
						var idx ssa.Value
						switch x := in.(type) {
						case *ssa.IndexAddr:
							idx = x.Index
						case *ssa.Index:
							idx = x.Index
						case *ssa.Lookup:
							idx = x.Index
						default:
							continue
						}
						k := rel(idx, 0)
						if k == 0 {
							continue
						}
						n++
						c.R.Check(k == 1, r, kit.FuncKey(fn)+": findTo predicate indexes with its own parameter", c.Pos(posOf(in)), "anchored", "the predicate handed to findTo reads an element at an index computed from its parameter (a neighbour, parameter±k): such a test is true again behind a gap, findTo's bisection requires a predicate that is monotone over the range — a chunk can span a filtered record and the records behind it are written one slot off", false)
					}
				}
			}
		}
	}
	if n == 0 {
		c.R.Fail(r, "findTo predicates", c.Pos(findTo.Pos()), "no function literal handed to Batch.findTo indexes with its parameter (shape changed)")
	}
}

// c13R13 (seeded R6e-m2): across a live reconfigure the old and the new runnable share the *Instance; its running flag
// must stay set while either of them runs. The flag is therefore released only where a runnable is torn down for good
// (RunnableProcessor.Teardown) and where MakeRunnableProcessor gives up — not by a failed Open of the new runnable.
func c13R13(c *Ctx) {
	r := c.R.Rule("R13", "K2 closed writer table of the processor's running reservation: Instance.running is set/cleared (Store, Swap, CompareAndSwap) only in processor.Service.MakeRunnableProcessor and RunnableProcessor.Teardown — a failed Open of a swap's new runnable must not release the instance the old runnable still runs (Update/Delete would be accepted under the live node)", 3)
	f := c.Field(r, pProc, "Instance", "running")
	p := c.W.Pkg(pProc)
	if f == nil || p == nil || c.W.SSA[p.Types] == nil {
		return
	}
	allowedFn := map[*ssa.Function]bool{}
	for _, name := range []string{"(*Service).MakeRunnableProcessor", "(*RunnableProcessor).Teardown"} {
		if g := c.SSA(r, pProc, name); g != nil {
			allowedFn[g] = true
		}
	}
	all := c.W.AllFuncs(c.W.SSA[p.Types])
	// an unexported helper that is only ever called, and only by tabled writers
	helperOfAllowed := func(h *ssa.Function) bool {
		if h.Object() == nil || h.Object().Exported() {
			return false
		}
		callers := 0
		for _, g := range all {
			for _, b := range g.Blocks {
				for _, in := range b.Instrs {
					for _, op := range in.Operands(nil) {
						if *op == ssa.Value(h) {
							ci, isCall := in.(ssa.CallInstruction)
							rg := g
							for rg.Parent() != nil {
								rg = rg.Parent()
							}
							if !isCall || ci.Common().StaticCallee() != h || !allowedFn[rg] {
								return false
							}
							callers++
						}
					}
				}
			}
		}
		return callers > 0
	}
	n := 0
	for _, fn := range all {
		root := fn
		for root.Parent() != nil {
			root = root.Parent()
		}
		for _, m := range []string{"Store", "Swap", "CompareAndSwap"} {
			for _, call := range atomicCalls(fn, f, m) {
				n++
				where := kit.FuncKey(root)
				ok := allowedFn[root] || helperOfAllowed(root)
				c.R.Check(ok, r, "Instance.running."+m+" in "+where, c.Pos(call.Pos()), "tabled writer", "Instance.running is written in "+where+", which is not in the closed writer table {MakeRunnableProcessor, RunnableProcessor.Teardown}: the reservation is shared by the old and the new runnable of a live reconfigure — releasing it anywhere else lets Update/Delete through while the processor is running", false)
			}
		}
	}
	if n == 0 {
		c.R.Fail(r, "Instance.running writers", "pkg/processor", "no write of Instance.running found (shape changed)")
	}
}

// c14R13 (seeded R6b-m2): the pipeline name set is updated delete-first: once a name has been put into the set, nothing
// on the way to the next store write or to the return removes an entry again — unless behind a test that the two names
// differ. An insert followed by an unguarded delete loses the name whenever old and new name are equal.
func c14R13(c *Ctx) {
	r := c.R.Rule("R13", "K3 the pipeline name set is updated delete-first (pipeline.Service): after an insert into instanceNames no delete on the set follows before the next store write or the return, unless it is guarded by a test that two names differ — insert-then-delete drops the name whenever the old and the new name are the same", 3)
	f := c.Field(r, pPipe, "Service", "instanceNames")
	p := c.W.Pkg(pPipe)
	if f == nil || p == nil || c.W.SSA[p.Types] == nil {
		return
	}
	storeSet := kit.FuncSet{}
	for _, m := range []string{"(*Store).Set", "(*Store).Delete"} {
		if g := c.Fn(r, pPipe, m); g != nil {
			storeSet[g] = true
		}
	}
	isNames := func(v ssa.Value) bool { return kit.IsFieldLoad(v, f) }
	isDelete := func(in ssa.Instruction) bool {
		call, ok := in.(*ssa.Call)
		if !ok {
			return false
		}
		b, ok := call.Call.Value.(*ssa.Builtin)
		return ok && b.Name() == "delete" && len(call.Call.Args) == 2 && isNames(call.Call.Args[0])
	}
	n := 0
	for _, fn := range c.W.AllFuncs(c.W.SSA[p.Types]) {
		// edges on which two strings are known to differ
		differ := map[kit.Edge]bool{}
		for _, b := range fn.Blocks {
			for _, in := range b.Instrs {
				bo, ok := in.(*ssa.BinOp)
				if !ok || (bo.Op != token.EQL && bo.Op != token.NEQ) {
					continue
				}
				if bt, ok := bo.X.Type().Underlying().(*types.Basic); !ok || bt.Info()&types.IsString == 0 {
					continue
				}
				if _, isC := bo.X.(*ssa.Const); isC {
					continue
				}
				if _, isC := bo.Y.(*ssa.Const); isC {
					continue
				}
				for _, e := range kit.CondEdges(bo, bo.Op == token.NEQ) {
					differ[e] = true
				}
			}
		}
		guarded := func(b *ssa.BasicBlock) bool {
			for e := range differ {
				if e.To == b || e.To.Dominates(b) {
					return true
				}
			}
			return false
		}
		for _, b := range fn.Blocks {
			for i, in := range b.Instrs {
				mu, ok := in.(*ssa.MapUpdate)
				if !ok || !isNames(mu.Map) {
					continue
				}
				n++
				// forward walk from the insert to the next store write / return
				var bad ssa.Instruction
				seen := map[*ssa.BasicBlock]bool{}
				var walk func(blk *ssa.BasicBlock, from int)
				walk = func(blk *ssa.BasicBlock, from int) {
					for j := from; j < len(blk.Instrs) && bad == nil; j++ {
						x := blk.Instrs[j]
						if ci, ok := x.(ssa.CallInstruction); ok && storeSet.Has(kit.CalleeOf(ci.Common())) {
							return
						}
						if isDelete(x) && !guarded(blk) {
							bad = x
							return
						}
					}
					for _, s := range blk.Succs {
						if !seen[s] && bad == nil {
							seen[s] = true
							walk(s, 0)
						}
					}
				}
				walk(b, i+1)
				key := kit.FuncKey(fn) + ": no delete on the name set after the insert"
				if bad == nil {
					c.R.Pass(r, key, c.Pos(posOf(mu)), "delete-first", true)
				} else {
					c.R.Fail(r, key, c.Pos(posOf(bad)), "a name is deleted from instanceNames after one was inserted, with no test that the two names differ: when the old and the new name are equal (an update that keeps the name, or its rollback) the name is gone from the set — a second pipeline with that name can be created, which a restarted server would refuse")
				}
			}
		}
	}
	if n == 0 {
		c.R.Fail(r, "instanceNames inserts", "pkg/pipeline", "no insert into Service.instanceNames found (shape changed)")
	}
}

// c16R13 (seeded R6c-m2): whatever in-place apply gives up with — restart fallback or error — it first swaps back the
// processors it has already swapped live: every rollbackInPlace call of applyInPlace is handed the list that the swap
// loop appends to.
func c16R13(c *Ctx) {
	r := c.R.Rule("R13", "K6 a refused or failed in-place apply leaves the running pipeline unchanged: every rollbackInPlace call in applyInPlace passes the accumulated list of processors already swapped live (a value that append grows in the swap loop), never nil/a constant", 2)
	fn := c.SSA(r, pProv, "(*Service).applyInPlace")
	rb := c.Fn(r, pProv, "(*Service).rollbackInPlace")
	if fn == nil || rb == nil {
		return
	}
	calls := kit.CallsToDeep(fn, Set(rb))
	if len(calls) == 0 {
		c.R.Fail(r, "applyInPlace: rolls back through rollbackInPlace", c.Pos(fn.Pos()), "no rollbackInPlace call found (shape changed)")
		return
	}
	var grown func(v ssa.Value, d int) bool // v is (a phi/cell over) the result of an append
	grown = func(v ssa.Value, d int) bool {
		if v == nil || d > 6 {
			return false
		}
		switch x := v.(type) {
		case *ssa.Call:
			if b, ok := x.Call.Value.(*ssa.Builtin); ok && b.Name() == "append" {
				return true
			}
		case *ssa.Phi:
			for _, e := range x.Edges {
				if grown(e, d+1) {
					return true
				}
			}
		case *ssa.UnOp:
			if x.Op == token.MUL {
				// a local cell (captured or spilled): some store into it is an append result
				if refs := x.X.Referrers(); refs != nil {
					for _, ref := range *refs {
						if st, ok := ref.(*ssa.Store); ok && st.Addr == x.X && grown(st.Val, d+1) {
							return true
						}
					}
				}
			}
		case *ssa.Slice:
			return grown(x.X, d+1)
		}
		return false
	}
	for _, call := range calls {
		args := call.Common().Args
		last := args[len(args)-1]
		c.R.Check(grown(last, 0), r, "applyInPlace: rollbackInPlace gets the processors already swapped", c.Pos(call.Pos()), "the swapped list", "rollbackInPlace is called with a list that is not the one the swap loop appends to (nil/constant): the store is put back to the old configuration but the processors already swapped live keep running the new one — a refused or failed apply leaves the running pipeline changed", false)
	}
}
