package rules

import (
	"fmt"
	"go/types"
	"strings"

	"conduitlint/kit"
)

// guardEntry is one row of the frozen guarded-by table: the fields of a struct
// that, on the reference tree, are accessed with the struct's mutex held at
// every access of an already-shared object (confirmed by reading; discovered
// with `conduitlint -inferguards`). Exempt lists accesses that are correct
// without the lock, keyed by function, one reason each.
type guardEntry struct {
	Rel, Struct, Mutex string
	Fields             []string
	Exempt             map[string]string // FuncKey of the declared function -> reason
	Min                int
}

// guardTable evaluates one row: every access `<base>.<field>` in the struct's
// package, where base is rooted in a receiver/parameter/captured variable (an
// object under construction in a local is not shared yet), happens with
// `<base>.<mutex>` in the must-lockset. Helper functions every caller of which
// holds the lock inherit it (kit.RequiresLock).
func (c *Ctx) guardTable(r string, e guardEntry) {
	p := c.W.Pkg(e.Rel)
	if p == nil {
		c.R.Unresolved(r, e.Rel)
		return
	}
	sp := c.W.SSA[p.Types]
	var fields []*types.Var
	for _, f := range e.Fields {
		if v := c.Field(r, e.Rel, e.Struct, f); v != nil {
			fields = append(fields, v)
		}
	}
	if c.Field(r, e.Rel, e.Struct, e.Mutex) == nil || len(fields) == 0 {
		return
	}
	spec := c.W.StdLockSpec()
	entry := c.W.RequiresLock(sp, spec)
	n := 0
	per := map[string]int{}
	for _, fn := range c.W.AllFuncs(sp) {
		root := fn
		for root.Parent() != nil {
			root = root.Parent()
		}
		for _, a := range kit.CheckGuarded(fn, spec, entry[fn], e.Mutex, fields) {
			if strings.HasPrefix(a.Base, "<") || strings.Contains(a.Base, "@") {
				continue // a local object that is not shared yet (constructor)
			}
			n++
			id := fmt.Sprintf("%s.%s: %s.%s in %s", e.Struct, e.Mutex, a.Base, a.Field.Name(), kit.FuncKey(root))
			per[id]++
			key := fmt.Sprintf("%s#%d", id, per[id])
			switch {
			case a.OK:
				c.R.Pass(r, key, c.Pos(posOf(a.Instr)), "held "+a.Held, true)
			case e.Exempt[kit.FuncKey(root)] != "":
				c.R.Pass(r, key, c.Pos(posOf(a.Instr)), "tabled exception: "+e.Exempt[kit.FuncKey(root)], false)
			default:
				c.R.Fail(r, id, c.Pos(posOf(a.Instr)), fmt.Sprintf("%s.%s is accessed without %s.%s held on every path (held: %s): on the reference tree every access of this field holds that mutex", a.Base, a.Field.Name(), a.Base, e.Mutex, a.Held))
			}
		}
	}
	if n < e.Min {
		c.R.Fail(r, fmt.Sprintf("%s.%s: guarded accesses", e.Struct, e.Mutex), "", fmt.Sprintf("only %d guarded accesses found, %d confirmed on the reference tree", n, e.Min))
	}
}
