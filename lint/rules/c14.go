package rules

import (
	"go/token"
	"go/types"
	"strings"

	"conduitlint/kit"

	"golang.org/x/tools/go/ssa"
)

const pRollback = "github.com/conduitio/conduit-commons/rollback"

func init() {
	register(&Property{
		ID:          "C14",
		Run:         runC14,
		Explanation: "Decides the structural clauses of all-or-nothing management operations: (R1) every orchestrator method that opens a store transaction registers the discard right after it, registers an in-memory inverse after every successful service mutation before the next fallible step, skips the rollback only on the commit's success edge, and runs it by defer; the inverse of an Update re-applies values captured BEFORE the mutation (it never reads the live instance at rollback time); (R2) every mutating service call from the orchestrator is dominated by the provisioned-by-API edge and the not-running edge; (R4) the services publish a created instance in their maps only after the store write succeeded and remove it only after the store delete succeeded; (R6) the pipeline name index follows renames (the old name — read before the config is replaced — is freed, the new one reserved). Rules added later (after independent seeded changes and defect hunts) are not all enumerated here: every armed rule is listed with its description, kind and instance count under coverage.rules.",
		NotDecided:  []string{"equality of memory and store after arbitrary histories", "reference symmetry beyond the paired Add/Remove inverses"},
		Assumptions: []string{"rollback.R executes appended functions in reverse order unless Skip was called", "the store transaction discards writes that were not committed"},
	})
}

type mutDesc struct {
	svc     string // pipelines | connectors | processors
	method  string
	inverse string
}

var c14Mutators = []mutDesc{
	{"pipelines", "Create", "Delete"}, {"pipelines", "Delete", "Create"}, {"pipelines", "Update", "Update"}, {"pipelines", "UpdateDLQ", "UpdateDLQ"},
	{"pipelines", "AddConnector", "RemoveConnector"}, {"pipelines", "RemoveConnector", "AddConnector"},
	{"pipelines", "AddProcessor", "RemoveProcessor"}, {"pipelines", "RemoveProcessor", "AddProcessor"},
	{"connectors", "Create", "Delete"}, {"connectors", "Delete", "Create"}, {"connectors", "Update", "Update"},
	{"connectors", "AddProcessor", "RemoveProcessor"}, {"connectors", "RemoveProcessor", "AddProcessor"},
	{"processors", "Create", "Delete"}, {"processors", "Delete", "Create"}, {"processors", "Update", "Update"},
}

// svcCall classifies an interface call on the orchestrator's service fields.
func svcCall(ci ssa.CallInstruction) (svc, method string, ok bool) {
	cm := ci.Common()
	if !cm.IsInvoke() {
		return "", "", false
	}
	_, f := kit.FieldBase(cm.Value)
	if f == nil {
		return "", "", false
	}
	switch f.Name() {
	case "pipelines", "connectors", "processors":
		return f.Name(), cm.Method.Name(), true
	}
	return "", "", false
}

func runC14(c *Ctx) {
	c14R13(c)
	r1 := c.R.Rule("R1", "K4 transaction + rollback discipline in every transactional orchestrator method", 40)
	r2 := c.R.Rule("R2", "K3 guards: mutating service calls are dominated by the provisioned-by-API edge and the pipeline-not-running edge", 20)
	p := c.W.Pkg(pOrch)
	if p == nil {
		c.R.Unresolved(r1, pOrch)
		return
	}
	sp := c.W.SSA[p.Types]
	appendM := c.W.ExtMethod(pRollback, "R", "Append")
	appendPure := c.W.ExtMethod(pRollback, "R", "AppendPure")
	skipM := c.W.ExtMethod(pRollback, "R", "Skip")
	mustExec := c.W.ExtMethod(pRollback, "R", "MustExecute")
	commit := c.W.ExtMethod("github.com/conduitio/conduit-commons/database", "Transaction", "Commit")
	discard := c.W.ExtMethod("github.com/conduitio/conduit-commons/database", "Transaction", "Discard")
	if appendM == nil || appendPure == nil || skipM == nil || mustExec == nil || commit == nil || discard == nil {
		c.R.Unresolved(r1, "rollback.R / database.Transaction methods")
		return
	}
	isMut := func(svc, m string) *mutDesc {
		for i := range c14Mutators {
			if c14Mutators[i].svc == svc && c14Mutators[i].method == m {
				return &c14Mutators[i]
			}
		}
		return nil
	}
	apiConst := map[string]types.Object{
		"pipeline":  c.W.LookupObj(pPipe, "ProvisionTypeAPI"),
		"connector": c.W.LookupObj(pConn, "ProvisionTypeAPI"),
		"processor": c.W.LookupObj(pProc, "ProvisionTypeAPI"),
	}
	running := c.W.LookupObj(pPipe, "StatusRunning")
	getStatus := c.Fn(r2, pPipe, "(*Instance).GetStatus")
	nTx := 0
	for _, tname := range []string{"PipelineOrchestrator", "ConnectorOrchestrator", "ProcessorOrchestrator"} {
		T := c.W.LookupType(pOrch, tname)
		if T == nil {
			c.R.Unresolved(r1, pOrch+"."+tname)
			continue
		}
		ms := c.W.Prog.MethodSets.MethodSet(types.NewPointer(T))
		for i := 0; i < ms.Len(); i++ {
			fn := c.W.Prog.MethodValue(ms.At(i))
			if fn == nil || fn.Pkg != sp || fn.Synthetic != "" {
				continue
			}
			name := tname + "." + fn.Name()
			// mutating service calls in this method (not in closures: those are inverses)
			var muts []ssa.CallInstruction
			for _, b := range fn.Blocks {
				for _, in := range b.Instrs {
					if ci, ok := in.(ssa.CallInstruction); ok {
						if svc, m, ok := svcCall(ci); ok && isMut(svc, m) != nil {
							if _, isDefer := in.(*ssa.Defer); !isDefer {
								muts = append(muts, ci)
							}
						}
					}
				}
			}
			if len(muts) == 0 {
				continue
			}
			// ---- R2 guards ----
			if !(tname == "PipelineOrchestrator" && fn.Name() == "Create") {
				gAPI := kit.NewGates().AddEdges(kit.CmpEdges(fn, func(b *ssa.BinOp) (bool, bool) {
					_, f := kit.FieldBase(b.X)
					if f == nil || f.Name() != "ProvisionedBy" {
						return false, false
					}
					for _, k := range apiConst {
						if isConstObj(b.Y, k) {
							switch b.Op {
							case token.NEQ:
								return true, false
							case token.EQL:
								return true, true
							}
						}
					}
					return false, false
				}), "ProvisionedBy == ProvisionTypeAPI")
				// not live: neither Running nor Recovering (F39) — a pipeline in its recovery back-off is about to be
				// restarted from the very connectors/processors the call would change; lifecycle.Stop and
				// provisioning.isRunningStatus treat both statuses as live. The test may sit in a predicate helper.
				isStatus := func(v ssa.Value) bool {
					return kit.DerivesFrom(v, func(x ssa.Value) bool {
						cl, ok := x.(*ssa.Call)
						return ok && kit.CalleeOf(cl.Common()) == getStatus
					})
				}
				notStatus := func(obj types.Object) *kit.Gates {
					return kit.NewGates().AddEdges(kit.CmpEdges(fn, func(b *ssa.BinOp) (bool, bool) {
						if obj != nil && ((isStatus(b.X) && isConstObj(b.Y, obj)) || (isStatus(b.Y) && isConstObj(b.X, obj))) {
							switch b.Op {
							case token.EQL:
								return true, false
							case token.NEQ:
								return true, true
							}
						}
						return false, false
					}), "")
				}
				gRun := notStatus(running)
				gRec := notStatus(c.W.LookupObj(pPipe, "StatusRecovering"))
				c.Dominated(r2, name+": mutations only while the pipeline is not recovering", asInstrs(muts), gRec, "the GetStatus() != StatusRecovering edge")
				c.Dominated(r2, name+": mutations only for API-provisioned resources", asInstrs(muts), gAPI, "the ProvisionedBy == ProvisionTypeAPI edge")
				c.Dominated(r2, name+": mutations only while the pipeline is not running", asInstrs(muts), gRun, "the GetStatus() != StatusRunning edge")
			}
			// ---- R1 transaction discipline (methods performing more than one mutation or opening a transaction) ----
			var newTx []ssa.CallInstruction
			for _, b := range fn.Blocks {
				for _, in := range b.Instrs {
					if ci, ok := in.(ssa.CallInstruction); ok && ci.Common().IsInvoke() && ci.Common().Method.Name() == "NewTransaction" {
						newTx = append(newTx, ci)
					}
				}
			}
			if len(newTx) == 0 {
				c.R.Check(len(muts) == 1, r1, name+": a single mutation needs no transaction", c.Pos(fn.Pos()), "1 mutation", name+" performs several service mutations without a store transaction and rollback", false)
				continue
			}
			nTx++
			appends := kit.CallsTo(fn, Set(appendM))
			pures := kit.CallsTo(fn, Set(appendPure))
			commits := kit.CallsTo(fn, Set(commit))
			// (a) discard registered on the NewTransaction success edge, before any mutation
			okPure := false
			for _, pc := range pures {
				a := pc.Common().Args
				if mc, isMC := a[len(a)-1].(*ssa.MakeClosure); isMC {
					if f2, isF := mc.Fn.(*ssa.Function); isF && strings.HasSuffix(f2.Name(), "Discard$bound") {
						okPure = true
					}
				}
			}
			c.R.Check(okPure, r1, name+": r.AppendPure(txn.Discard)", c.Pos(fn.Pos()), "ok", name+" does not register txn.Discard with the rollback", true)
			gPure := kit.NewGates()
			for _, pc := range pures {
				gPure.AddInstr(pc, "")
			}
			c.Dominated(r1, name+": discard registered before any mutation", asInstrs(muts), gPure, "r.AppendPure(txn.Discard)")
			c.Dominated(r1, name+": discard registered only after the transaction was created", asInstrs(pures), okGates(newTx, ""), "the NewTransaction success edge")
			// (b)+(c): after each mutation[ok] an Append of the inverse before the next mutation / commit / return
			gApp := kit.NewGates()
			for _, a := range appends {
				gApp.AddInstr(a, "r.Append(inverse)")
			}
			for _, m := range muts {
				svc, meth, _ := svcCall(m)
				desc := isMut(svc, meth)
				for _, e := range kit.OKEdges(m) {
					bad := ""
					for _, m2 := range muts {
						if kit.EdgeReaches(e, m2, gApp) {
							bad = "the next mutation"
						}
					}
					for _, cm := range commits {
						if kit.EdgeReaches(e, cm, gApp) {
							bad = "the commit"
						}
					}
					c.R.Check(bad == "", r1, name+": "+svc+"."+meth+" is followed by its inverse registration", c.Pos(m.Pos()), "r.Append after the mutation", name+": after "+svc+"."+meth+" succeeded, "+bad+" is reached without registering the in-memory inverse: if a later step or the commit fails, the store is rolled back but memory keeps the change", true)
					// the first Append reached is the right inverse
					okInv := false
					for _, a := range appends {
						if !kit.EdgeReaches(e, a, gApp) {
							continue
						}
						args := a.Common().Args
						if mc, isMC := args[len(args)-1].(*ssa.MakeClosure); isMC {
							inv := mc.Fn.(*ssa.Function)
							for _, b := range inv.Blocks {
								for _, in := range b.Instrs {
									if ci, ok := in.(ssa.CallInstruction); ok {
										if s2, m2, ok := svcCall2(ci); ok && s2 == svc && m2 == desc.inverse {
											okInv = true
											if desc.method == "Update" {
												c14InverseArgs(c, r1, name, svc, inv, ci)
											}
										}
									}
								}
							}
						}
					}
					c.R.Check(okInv, r1, name+": inverse of "+svc+"."+meth+" is "+svc+"."+desc.inverse, c.Pos(m.Pos()), "ok", name+": the function registered after "+svc+"."+meth+" does not call "+svc+"."+desc.inverse, true)
				}
			}
			// (e) Skip only after Commit ok; MustExecute deferred
			c.Dominated(r1, name+": rollback skipped only after the commit succeeded", asInstrs(kit.CallsTo(fn, Set(skipM))), okGates(commits, ""), "the txn.Commit success edge")
			hasDefer := false
			if len(fn.Blocks) > 0 {
				for _, in := range fn.Blocks[0].Instrs {
					if d, ok := in.(*ssa.Defer); ok && kit.CalleeOf(&d.Call) == mustExec {
						hasDefer = true
					}
				}
			}
			c.R.Check(hasDefer, r1, name+": rollback executed by a defer registered at entry", c.Pos(fn.Pos()), "defer r.MustExecute()", name+" does not defer r.MustExecute() at entry", true)
			// success return only after commit ok
			nilRets, _ := kit.NilReturns(fn)
			c.Dominated(r1, name+": success only after the commit succeeded", asInstrs(nilRets), okGates(commits, ""), "the txn.Commit success edge")
		}
	}
	c.R.Check(nTx >= 6, r1, "transactional orchestrator methods found", "", "ok", "fewer transactional orchestrator methods found than on the reference tree", false)
	c14R4(c)
	c14R6(c)
	c14R3(c)
	c14R5(c)
	c07R6As(c, c.R.Rule("R7", "K3 (= C07.R6) rejected means untouched: pipeline.Service.UpdateDLQ range-checks the new settings before it stores them on the live instance", 4))
}

// c14R5: everything an orchestrator method does to the services between NewTransaction and
// Commit happens inside that transaction.
func c14R5(c *Ctx) {
	r := c.R.Rule("R5", "K6 transaction context: in every orchestrator method that opens a DB transaction, each service call made after it (also from the rollback closures) receives the context NewTransaction returned, never the caller's context", 20)
	newTx := c.W.ExtMethod("github.com/conduitio/conduit-commons/database", "DB", "NewTransaction")
	p := c.W.Pkg(pOrch)
	if newTx == nil || p == nil {
		c.R.Unresolved(r, "database.DB.NewTransaction / "+pOrch)
		return
	}
	sp := c.W.SSA[p.Types]
	n := 0
	for _, fn := range c.W.AllFuncs(sp) {
		if fn.Parent() != nil {
			continue
		}
		txs := kit.CallsTo(fn, c.Fam(newTx))
		if len(txs) == 0 {
			continue
		}
		tx := txs[0]
		txCtx := kit.ResultN(tx, 1)
		if txCtx == nil {
			c.R.Fail(r, kit.FuncKey(fn)+": transaction context", c.Pos(tx.Pos()), "the context returned by NewTransaction is discarded")
			continue
		}
		isTxCtx := func(v ssa.Value) bool {
			if v == txCtx {
				return true
			}
			u, ok := v.(*ssa.UnOp)
			if !ok || u.Op != token.MUL {
				return false
			}
			cell := u.X
			if fv, ok := cell.(*ssa.FreeVar); ok {
				cell = kit.ResolveFreeVar(fv)
			}
			if cell == nil {
				return false
			}
			for _, cu := range kit.CellUses(cell) {
				if st, ok := cu.Instr.(*ssa.Store); ok && st.Val == txCtx {
					// in the method body itself the store must come first
					if u.Parent() == fn && !kit.InstrDominates(st, u) {
						continue
					}
					return true
				}
			}
			return false
		}
		for _, f := range kit.WithAnon(fn) {
			for _, b := range f.Blocks {
				for _, in := range b.Instrs {
					ci, ok := in.(ssa.CallInstruction)
					if !ok {
						continue
					}
					svc, method, isSvc := svcCall2(ci)
					if !isSvc {
						continue
					}
					if f == fn && !kit.InstrDominates(tx, ci) {
						continue // before the transaction was opened
					}
					a := ci.Common().Args
					if len(a) == 0 || !strings.HasSuffix(a[0].Type().String(), "context.Context") {
						continue
					}
					n++
					c.R.Check(isTxCtx(a[0]), r, kit.FuncKey(fn)+": "+svc+"."+method+" runs in the transaction", c.Pos(ci.Pos()), "ctx from NewTransaction", svc+"."+method+" is called with a context other than the one NewTransaction returned: its store write happens outside the transaction, so a later failure rolls memory back but leaves the row in the store (an orphan after restart)", true)
				}
			}
		}
	}
	if n == 0 {
		c.R.Fail(r, "orchestrator service calls inside a transaction", "", "none found")
	}
}

// c14R3: a service method that changed the live instance before persisting it
// puts the previous values back when the store write fails (F7). The instance
// is the object Get/List hand out, and the orchestrator registers its rollback
// step only after the service call succeeded, so nothing else undoes it.
func c14R3(c *Ctx) {
	r := c.R.Rule("R3", "K4 restore on a failed persist: in the pipeline/connector/processor services every exported field of the live instance assigned before store.Set is assigned again on every exit behind store.Set's failure edge", 20)
	// tabled exceptions: same shape, no failing behaviour demonstrated through the management API
	exempt := map[string]string{
		"(*" + pConn + ".Service).SetState":     "not reached from the orchestrator's create/update/delete calls (called by the lifecycle/provisioning paths); F7 verdict lists it as an undemonstrated suspect",
		"(*" + pPipe + ".Service).UpdateStatus": "the in-memory status mirrors what the run is actually doing; restoring it on a failed write is not obviously right (F7 verdict)",
	}
	n := 0
	for _, rel := range []string{pPipe, pConn, pProc} {
		p := c.W.Pkg(rel)
		if p == nil {
			c.R.Unresolved(r, rel)
			continue
		}
		sp := c.W.SSA[p.Types]
		set := c.Fn(r, rel, "(*Store).Set")
		svcT := c.W.LookupType(rel, "Service")
		if set == nil || svcT == nil {
			continue
		}
		ms := c.W.Prog.MethodSets.MethodSet(types.NewPointer(svcT))
		for i := 0; i < ms.Len(); i++ {
			fn := c.W.Prog.MethodValue(ms.At(i))
			if fn == nil || fn.Pkg != sp {
				continue
			}
			for _, call := range kit.CallsTo(fn, Set(set)) {
				args := call.Common().Args
				inst := args[len(args)-1]
				base := kit.PathOf(inst)
				if strings.HasPrefix(base, "<") || strings.Contains(base, "@") {
					// a freshly built instance that is not in the service's map yet (Create persists first, then publishes)
					if _, isAlloc := kit.Unwrap(inst).(*ssa.Alloc); isAlloc {
						continue
					}
				}
				// fields of that instance assigned on a path to the Set call
				pre := map[*types.Var][]*ssa.Store{}
				var order []*types.Var
				for _, b := range fn.Blocks {
					for _, in := range b.Instrs {
						st, ok := in.(*ssa.Store)
						if !ok {
							continue
						}
						fa, ok := st.Addr.(*ssa.FieldAddr)
						if !ok || kit.PathOf(fa.X) != base {
							continue
						}
						f := kit.FieldOf(fa)
						if f == nil || !f.Exported() {
							continue
						}
						if kit.Reaches(st, call, nil) {
							if pre[f] == nil {
								order = append(order, f)
							}
							pre[f] = append(pre[f], st)
						}
					}
				}
				if len(order) == 0 {
					continue
				}
				for _, f := range order {
					n++
					key := kit.FuncKey(fn) + ": " + f.Name() + " restored when store.Set fails"
					if why, ok := exempt[kit.FuncKey(fn)]; ok {
						c.R.Pass(r, key, c.Pos(call.Pos()), "tabled exception: "+why, false)
						continue
					}
					g := kit.NewGates()
					for _, b := range fn.Blocks {
						for _, in := range b.Instrs {
							if st, ok := in.(*ssa.Store); ok {
								if fa, ok := st.Addr.(*ssa.FieldAddr); ok && kit.PathOf(fa.X) == base && kit.SameField(kit.FieldOf(fa), f) {
									isPre := false
									for _, ps := range pre[f] {
										if ps == st {
											isPre = true
										}
									}
									if !isPre {
										g.AddInstr(st, "restore "+f.Name())
									}
								}
							}
						}
					}
					// … or a same-package helper that is handed the instance and assigns the field on all of its paths
					for _, b := range fn.Blocks {
						for _, in := range b.Instrs {
							ci, ok := in.(ssa.CallInstruction)
							if !ok {
								continue
							}
							h := ci.Common().StaticCallee()
							if h == nil || h.Pkg != fn.Pkg || len(h.Blocks) == 0 {
								continue
							}
							for j, a := range ci.Common().Args {
								if j >= len(h.Params) || kit.PathOf(a) != base {
									continue
								}
								hg := kit.NewGates()
								for _, hb := range h.Blocks {
									for _, hin := range hb.Instrs {
										if st, ok := hin.(*ssa.Store); ok {
											if fa, ok := st.Addr.(*ssa.FieldAddr); ok && fa.X == ssa.Value(h.Params[j]) && kit.SameField(kit.FieldOf(fa), f) {
												hg.AddInstr(st, "")
											}
										}
									}
								}
								if hg.Empty() {
									continue
								}
								all := true
								for _, ret := range kit.Returns(h) {
									if pass, _ := kit.MustPass(ret, hg); !pass {
										all = false
									}
								}
								if all {
									g.AddInstr(ci, "helper restoring "+f.Name())
								}
							}
						}
					}
					ok := !g.Empty()
					for _, e := range kit.FailEdges(call) {
						if pass, _ := kit.AllExitsFromEdge(e, false, kit.ExitSpec{Gates: g}); !pass {
							ok = false
						}
					}
					if len(kit.FailEdges(call)) == 0 {
						ok = false
					}
					c.R.Check(ok, r, key, c.Pos(call.Pos()), "restored on every failing exit", kit.FuncKey(fn)+" assigns "+f.Name()+" on the live instance before store.Set and does not put the previous value back when the write fails: the API call returns an error, nothing is persisted, but Get/List keep reporting the new value (memory != store)", true)
				}
			}
		}
	}
	// what is put back must be the old value: a list is never shrunk in place (slices.Delete / copy on
	// the live slice shifts the shared backing array, so the saved header restores a corrupted list)
	for _, rel := range []string{pPipe, pConn, pProc} {
		p := c.W.Pkg(rel)
		if p == nil {
			continue
		}
		sp := c.W.SSA[p.Types]
		instT := c.W.LookupType(rel, "Instance")
		for _, fn := range c.W.AllFuncs(sp) {
			for _, b := range fn.Blocks {
				for _, in := range b.Instrs {
					call, ok := in.(*ssa.Call)
					if !ok || len(call.Call.Args) == 0 {
						continue
					}
					name := ""
					if callee := call.Call.StaticCallee(); callee != nil && callee.Pkg != nil && callee.Pkg.Pkg.Path() == "slices" {
						name = callee.Name()
					} else if callee != nil && callee.Origin() != nil && callee.Origin().Pkg != nil && callee.Origin().Pkg.Pkg.Path() == "slices" {
						name = callee.Origin().Name()
					}
					if bi, ok := call.Call.Value.(*ssa.Builtin); ok && bi.Name() == "copy" {
						name = "copy"
					}
					if !(strings.HasPrefix(name, "Delete") || name == "copy" || strings.HasPrefix(name, "Insert")) {
						continue
					}
					a0 := kit.Unwrap(call.Call.Args[0])
					if sl, ok := a0.(*ssa.Slice); ok {
						a0 = sl.X
					}
					base, f := kit.FieldBase(a0)
					if f == nil || base == nil || instT == nil {
						continue
					}
					if pt, ok := base.Type().Underlying().(*types.Pointer); !ok || !types.Identical(pt.Elem(), instT) {
						continue
					}
					n++
					c.R.Fail(r, kit.FuncKey(fn)+": "+f.Name()+" is not modified in place", c.Pos(call.Pos()), kit.FuncKey(fn)+" shrinks/shifts Instance."+f.Name()+" in place ("+name+" on the live slice): the slice header saved for the failed-persist restore shares that backing array, so a failed write restores an already-shifted list (memory != store, dangling and lost references)")
				}
			}
		}
	}
	if n == 0 {
		c.R.Fail(r, "service methods that change an instance before persisting it", "", "none found (store.Set anchors moved?)")
	}
}

// svcCall2 classifies a service call inside an inverse closure (the receiver is
// reached through a captured orchestrator).
func svcCall2(ci ssa.CallInstruction) (string, string, bool) {
	cm := ci.Common()
	if !cm.IsInvoke() {
		return "", "", false
	}
	p := kit.PathOf(cm.Value)
	for _, s := range []string{"pipelines", "connectors", "processors"} {
		if strings.HasSuffix(p, "."+s) {
			return s, cm.Method.Name(), true
		}
	}
	return "", "", false
}

// c14InverseArgs: the inverse of an Update must re-apply values captured before
// the mutation: none of its arguments may be read, at rollback time, from a
// field of a live *Instance.
func c14InverseArgs(c *Ctx, r, name, svc string, inv *ssa.Function, call ssa.CallInstruction) {
	for i, a := range call.Common().Args {
		if i == 0 {
			continue // ctx
		}
		bad := false
		kit.DerivesFrom(a, func(v ssa.Value) bool {
			base, f := kit.FieldBase(v)
			if f == nil || base == nil {
				return false
			}
			// a field read through a pointer to an in-repo Instance struct
			if pt, ok := base.Type().Underlying().(*types.Pointer); ok {
				if nt, ok := pt.Elem().(*types.Named); ok && nt.Obj().Name() == "Instance" && f.Name() != "ID" {
					bad = true
				}
			}
			return false
		})
		c.R.Check(!bad, r, name+": inverse "+svc+".Update argument "+itoa(i)+" captured before the mutation", c.Pos(call.Pos()), "captured value", name+": the rollback of "+svc+".Update reads a field of the live instance at rollback time; the service updates the instance in place, so this re-applies the NEW value and the rollback does nothing", true)
	}
}

func c14R4(c *Ctx) {
	r := c.R.Rule("R4", "K3 map/store order in the three services: an instance is published in the in-memory map only after store.Set succeeded and removed only after store.Delete succeeded", 6)
	for _, rel := range []string{pPipe, pConn, pProc} {
		instF := c.W.LookupField(rel, "Service", "instances")
		if instF == nil {
			instF = c.W.LookupField(rel, "Service", "connectors")
		}
		if instF == nil {
			c.R.Unresolved(r, rel+".Service.instances")
			continue
		}
		set := Set(c.Fn(r, rel, "(*Store).Set"))
		del := Set(c.Fn(r, rel, "(*Store).Delete"))
		if fn := c.SSA(r, rel, "(*Service).Create"); fn != nil {
			var ups []ssa.Instruction
			for _, b := range fn.Blocks {
				for _, in := range b.Instrs {
					if mu, ok := in.(*ssa.MapUpdate); ok && kit.IsFieldLoad(mu.Map, instF) {
						ups = append(ups, mu)
					}
				}
			}
			if len(ups) == 0 {
				c.R.Fail(r, rel+".Service.Create: publishes the instance", c.Pos(fn.Pos()), "no insert into the instances map")
			}
			c.Dominated(r, rel+".Service.Create: instance published only after the store write succeeded", ups, okGates(kit.CallsTo(fn, set), ""), "the store.Set success edge")
		}
		if fn := c.SSA(r, rel, "(*Service).Delete"); fn != nil {
			var dels []ssa.Instruction
			for _, b := range fn.Blocks {
				for _, in := range b.Instrs {
					if call, ok := in.(*ssa.Call); ok {
						if bi, ok := call.Call.Value.(*ssa.Builtin); ok && bi.Name() == "delete" && kit.IsFieldLoad(call.Call.Args[0], instF) {
							dels = append(dels, in)
						}
					}
				}
			}
			if len(dels) == 0 {
				c.R.Fail(r, rel+".Service.Delete: removes the instance", c.Pos(fn.Pos()), "no delete from the instances map")
			}
			c.Dominated(r, rel+".Service.Delete: instance removed only after the store delete succeeded", dels, okGates(kit.CallsTo(fn, del), ""), "the store.Delete success edge")
		}
	}
}

func c14R6(c *Ctx) {
	c14R8(c)
	c14R9(c)
	c14R10(c)
	c14R11(c)
	c14R12(c)
	c14R6As(c, c.R.Rule("R6", "K6 name index follows renames: pipeline.Service.Update frees the OLD name (read before the config is replaced) and reserves the new one", 2))
}

func c14R6As(c *Ctx, r string) {
	fn := c.SSA(r, pPipe, "(*Service).Update")
	if fn == nil {
		return
	}
	namesF := c.Field(r, pPipe, "Service", "instanceNames")
	cfgF := c.Field(r, pPipe, "Instance", "Config")
	nameF := c.Field(r, pPipe, "Config", "Name")
	// the replacement is the store of the cfg parameter (a store of a saved old value on the
	// failed-persist path is the restore, see R3)
	cfgStores := storesToField(fn, cfgF, func(v ssa.Value) bool { return fromParam(v, argParam(fn, 2)) })
	if len(cfgStores) != 1 {
		c.R.Fail(r, "pipeline.Service.Update: config replacement", c.Pos(fn.Pos()), "expected one store of the cfg parameter to Instance.Config")
		return
	}
	n := 0
	for _, b := range fn.Blocks {
		for _, in := range b.Instrs {
			call, ok := in.(*ssa.Call)
			if !ok {
				continue
			}
			bi, ok := call.Call.Value.(*ssa.Builtin)
			if !ok || bi.Name() != "delete" || !kit.IsFieldLoad(call.Call.Args[0], namesF) {
				continue
			}
			key := call.Call.Args[1]
			if fromParam(key, argParam(fn, 2)) {
				continue // un-reserving the NEW name again when the persist failed (R3)
			}
			n++
			okOld := kit.IsFieldLoad(key, nameF) && !kit.Reaches(cfgStores[0], key.(ssa.Instruction), nil)
			c.R.Check(okOld, r, "pipeline.Service.Update: the freed name is the previous one", c.Pos(call.Pos()), "pl.Config.Name read before pl.Config = cfg", "the name removed from the name index is read after the config was replaced (it is the NEW name): the old name stays reserved forever and a later create/rename to it is refused although no such pipeline exists", true)
		}
	}
	c.R.Check(n == 1, r, "pipeline.Service.Update: frees one name", c.Pos(fn.Pos()), "ok", "the old name is no longer removed from the name index", true)
	// the new name is reserved from the cfg parameter
	okNew := false
	for _, b := range fn.Blocks {
		for _, in := range b.Instrs {
			if mu, ok := in.(*ssa.MapUpdate); ok && kit.IsFieldLoad(mu.Map, namesF) {
				if fromParam(mu.Key, argParam(fn, 2)) {
					okNew = true
				}
			}
		}
	}
	c.R.Check(okNew, r, "pipeline.Service.Update: reserves the new name", c.Pos(fn.Pos()), "instanceNames[cfg.Name] = true", "the new name is not reserved in the name index", true)
}

// livePersisted: a service method that fetched the live instance persists that
// very instance; if it persists a different object instead (a copy that carries
// the change), the copy sets every exported field of the instance type — a copy
// that leaves one out (State, ProcessorIDs, …) overwrites the stored record with
// its zero value although memory still has it.
func livePersisted(c *Ctx, r string) {
	n := 0
	for _, rel := range []string{pPipe, pConn, pProc} {
		p := c.W.Pkg(rel)
		if p == nil {
			continue
		}
		sp := c.W.SSA[p.Types]
		set := c.Fn(r, rel, "(*Store).Set")
		get := c.Fn(r, rel, "(*Service).Get")
		svcT := c.W.LookupType(rel, "Service")
		instT := c.W.LookupType(rel, "Instance")
		if set == nil || get == nil || svcT == nil || instT == nil {
			continue
		}
		st, _ := instT.Underlying().(*types.Struct)
		ms := c.W.Prog.MethodSets.MethodSet(types.NewPointer(svcT))
		for i := 0; i < ms.Len(); i++ {
			fn := c.W.Prog.MethodValue(ms.At(i))
			if fn == nil || fn.Pkg != sp {
				continue
			}
			gets := kit.CallsTo(fn, Set(get))
			if len(gets) == 0 {
				continue
			}
			for _, call := range kit.CallsTo(fn, Set(set)) {
				args := call.Common().Args
				inst := kit.Unwrap(args[len(args)-1])
				n++
				live := false
				for _, g := range gets {
					if gv := kit.ResultN(g, 0); gv != nil && (inst == gv || kit.IsVar(inst, gv)) {
						live = true
					}
				}
				key := kit.FuncKey(fn) + ": persists the live instance (or a complete copy)"
				if live {
					c.R.Pass(r, key, c.Pos(call.Pos()), "the instance returned by Get", true)
					continue
				}
				// a different object: every exported field must be assigned on it
				missing := []string{}
				if a, ok := inst.(*ssa.Alloc); ok && st != nil {
					for fi := 0; fi < st.NumFields(); fi++ {
						f := st.Field(fi)
						if !f.Exported() {
							continue
						}
						found := false
						for _, b := range fn.Blocks {
							for _, in := range b.Instrs {
								if s2, ok := in.(*ssa.Store); ok {
									if fa, ok := s2.Addr.(*ssa.FieldAddr); ok && fa.X == ssa.Value(a) && kit.SameField(kit.FieldOf(fa), f) {
										found = true
									}
								}
							}
						}
						if !found {
							missing = append(missing, f.Name())
						}
					}
				} else {
					missing = append(missing, "(not a recognisable copy)")
				}
				c.R.Check(len(missing) == 0, r, key, c.Pos(call.Pos()), "complete copy", kit.FuncKey(fn)+" hands store.Set an object other than the live instance it fetched, and that object does not set "+strings.Join(missing, ", ")+": the stored record loses those fields (e.g. the connector's position) while memory still has them — a restart then loads the zero value", true)
			}
		}
	}
	if n == 0 {
		c.R.Fail(r, "service methods that fetch and persist an instance", "", "none found")
	}
}

// c14R8: "leaves everything exactly as it was" for a failed DELETE (F25). The orchestrators undo a delete by calling
// the service's Create / Add… again; that builds a NEW instance and APPENDS the id. The rollback closure therefore
// has to put back what Create's parameters do not carry (a connector's position!) and the parent's id list as it was.
func c14R8(c *Ctx) {
	r := c.R.Rule("R8", "K8/K6 a rolled-back delete restores the deleted instance: in the Delete methods' rollback closures every exported instance field that the re-creating Create call does not take as a parameter is assigned from the deleted instance (connector: State, LastActiveConfig, CreatedAt, UpdatedAt; processor: Config — Create normalises it —, CreatedAt, UpdatedAt), and after the re-adding Add… call the parent's id list is assigned a copy taken before the Remove… call (the id gets its old place back)", 12)
	for _, t := range []struct {
		orch, svc, rel string
		covered        map[string]string // instance field → why the rollback does not have to assign it
	}{
		{"ConnectorOrchestrator", "connectors", pConn, map[string]string{"ID": "Create parameter", "Type": "Create parameter", "Plugin": "Create parameter", "PipelineID": "Create parameter", "Config": "Create parameter", "ProvisionedBy": "Create parameter", "ProcessorIDs": "Delete refuses a connector that still has processors attached (len(conn.ProcessorIDs) != 0), so the list is empty"}},
		{"ProcessorOrchestrator", "processors", pProc, map[string]string{"ID": "Create parameter", "Plugin": "Create parameter", "Parent": "Create parameter", "ProvisionedBy": "Create parameter", "Condition": "Create parameter"}}, // Config is a Create parameter too, but Create normalises it (Workers 0 → 1): it has to be put back as it was (F55)
	} {
		fn := c.SSA(r, pOrch, "(*"+t.orch+").Delete")
		inst := c.W.LookupType(t.rel, "Instance")
		if fn == nil || inst == nil {
			c.R.Unresolved(r, t.orch+".Delete / "+t.rel+".Instance")
			continue
		}
		st := inst.Underlying().(*types.Struct)
		nCreate := 0
		for _, lit := range kit.WithAnon(fn) {
			if lit == fn {
				continue
			}
			for _, b := range lit.Blocks {
				for _, in := range b.Instrs {
					ci, ok := in.(ssa.CallInstruction)
					if !ok {
						continue
					}
					svc, m, ok := svcCall(ci)
					if !ok {
						continue
					}
					switch {
					case svc == t.svc && m == "Create":
						nCreate++
						for i := 0; i < st.NumFields(); i++ {
							f := st.Field(i)
							if !f.Exported() || f.Embedded() {
								continue
							}
							if _, ok := t.covered[f.Name()]; ok {
								continue
							}
							restored := false
							for _, s2 := range kit.FieldStores(lit, f) {
								if kit.IsFieldLoad(kit.Unwrap(s2.Val), f) && kit.InstrDominates(ci, s2) {
									restored = true
								}
							}
							c.R.Check(restored, r, t.orch+".Delete rollback: "+t.rel+".Instance."+f.Name()+" restored", c.Pos(ci.Pos()), "assigned from the deleted instance", "the rollback of a failed delete re-creates the "+t.svc[:len(t.svc)-1]+" through Create, which does not carry "+f.Name()+", and does not put the deleted instance's "+f.Name()+" back: the API call fails but the live instance has lost it (for a connector's State: the source position — the next persist of that connector writes the position-less instance to the store)", true)
						}
					case strings.HasPrefix(m, "Add") && (strings.HasSuffix(m, "Connector") || strings.HasSuffix(m, "Processor")):
						// the parent's list: ConnectorIDs for AddConnector, ProcessorIDs for AddProcessor
						lname := strings.TrimPrefix(m, "Add") + "IDs"
						ok2 := false
						for _, s2 := range storesToFieldNamed(lit, lname) {
							if !kit.InstrDominates(ci, s2) {
								continue
							}
							// value: a copy taken in the enclosing method before the Remove… call
							v := kit.Unwrap(s2.Val)
							if u, isU := v.(*ssa.UnOp); isU {
								if fv, isFV := u.X.(*ssa.FreeVar); isFV {
									if cell := kit.ResolveFreeVar(fv); cell != nil {
										for _, use := range kit.CellUses(cell) {
											if st2, isSt := use.Instr.(*ssa.Store); isSt && st2.Addr == cell && use.Fn == fn {
												v = kit.Unwrap(st2.Val)
											}
										}
									}
								}
							}
							cl, isCall := v.(*ssa.Call)
							if !isCall {
								continue
							}
							if f := kit.CalleeOf(cl.Common()); f == nil || f.Name() != "Clone" || f.Pkg() == nil || f.Pkg().Path() != "slices" {
								continue
							}
							if !fieldNamed(cl.Call.Args[0], lname) {
								continue
							}
							// before the matching Remove… call
							for _, b2 := range fn.Blocks {
								for _, in2 := range b2.Instrs {
									if c2, isC := in2.(ssa.CallInstruction); isC {
										if svc2, m2, ok3 := svcCall(c2); ok3 && svc2 == svc && m2 == "Remove"+strings.TrimPrefix(m, "Add") && kit.InstrDominates(cl, c2) {
											ok2 = true
										}
									}
								}
							}
						}
						c.R.Check(ok2, r, t.orch+".Delete rollback: "+svc+"."+m+" puts the id back at its old place", c.Pos(ci.Pos()), lname+" = copy taken before Remove…", "the rollback re-adds the id with "+m+", which APPENDS it, and does not restore the parent's "+lname+" as it was before the delete: a failed delete of a non-last element changes the order in memory (for processors: the processing order of the pipeline) while the store keeps the old one", true)
					}
				}
			}
		}
		c.R.Check(nCreate == 1, r, t.orch+".Delete: one re-creating rollback step", c.Pos(fn.Pos()), "found", "expected exactly one rollback closure calling "+t.svc+".Create", true)
	}
}

// c14R9: F40. The inverse steps of Create/Update go through the regular service methods, which stamp
// UpdatedAt = time.Now(): a rolled-back call must put the timestamp back, or the instance differs from before the
// call and from what a restarted server loads.
func c14R9(c *Ctx) {
	r := c.R.Rule("R9", "K6 a rolled-back call leaves the timestamps alone: every rollback closure of the orchestrators whose inverse step returns the live instance (Update, Add…, Remove…, the re-creating Create) assigns that instance's UpdatedAt from a value read before the forward step", 8)
	p := c.W.Pkg(pOrch)
	if p == nil {
		return
	}
	appendM := c.W.ExtMethod(pRollback, "R", "Append")
	for _, fn := range c.W.AllFuncs(c.W.SSA[p.Types]) {
		if fn.Parent() != nil {
			continue
		}
		for _, a := range kit.CallsTo(fn, Set(appendM)) {
			mc, ok := a.Common().Args[len(a.Common().Args)-1].(*ssa.MakeClosure)
			if !ok {
				continue
			}
			lit := mc.Fn.(*ssa.Function)
			for _, b := range lit.Blocks {
				for _, in := range b.Instrs {
					ci, ok := in.(ssa.CallInstruction)
					if !ok {
						continue
					}
					svc, m, ok := svcCall(ci)
					if !ok || m == "Delete" || m == "Get" {
						continue
					}
					if !(m == "Update" || m == "Create" || strings.HasPrefix(m, "Add") || strings.HasPrefix(m, "Remove")) {
						continue
					}
					okTS := false
					for _, st := range storesToFieldNamed(lit, "UpdatedAt") {
						if kit.InstrDominates(ci, st) {
							okTS = true
						}
					}
					c.R.Check(okTS, r, kit.FuncKey(fn)+" rollback: "+svc+"."+m+" restores UpdatedAt", c.Pos(ci.Pos()), "UpdatedAt put back", "the rollback step "+svc+"."+m+" stamps UpdatedAt = time.Now() on the live instance and the closure does not put the previous value back: after a failed call (e.g. a failing commit) the instance's timestamp differs from before the call and from the store", true)
				}
			}
		}
	}
}

// c14R10: F38 (known finding). Persister.Persist snapshots the whole connector instance (config included) and writes
// it up to a second later, outside any transaction. A service write or delete of the same connector in between is
// overwritten / undone by that stale snapshot unless the service tells the persister.
func c14R10(c *Ctx) {
	r := c.R.Rule("R10", "K3 a queued persister snapshot cannot undo a later API change: connector.Service.Update and .Delete notify the persister (replace or drop the pending snapshot of that connector) after their own store write succeeded (AddProcessor/RemoveProcessor/SetState have the same shape but were not demonstrated and are not armed)", 2)
	pt := c.W.LookupType(pConn, "Persister")
	if pt == nil {
		c.R.Unresolved(r, pConn+".Persister")
		return
	}
	for _, m := range []string{"Update", "Delete"} {
		fn := c.SSA(r, pConn, "(*Service)."+m)
		if fn == nil {
			continue
		}
		notified := false
		for _, b := range fn.Blocks {
			for _, in := range b.Instrs {
				if ci, ok := in.(ssa.CallInstruction); ok {
					if f := ci.Common().StaticCallee(); f != nil && f.Signature.Recv() != nil {
						if n, ok := derefNamed(f.Signature.Recv().Type()); ok && n.Obj() == pt.Obj() {
							notified = true
						}
					}
				}
			}
		}
		c.R.Check(notified, r, "connector.Service."+m+": the persister's pending snapshot is replaced/dropped", c.Pos(fn.Pos()), "persister notified", "connector.Service."+m+" writes (or deletes) the connector in the store without touching the persister: a snapshot of the same connector queued by an earlier Persist (e.g. Source.Open's lifecycle event followed by a failed plugin Open — nothing flushes it) is written up to a second later and overwrites the API change, or resurrects the deleted connector as an orphan, in the store; the restarted server loads the stale state", true)
	}
}

// c14R11: F55/F56. The rollback of a Delete re-creates the entity through Create. Whatever Update lets into the store
// must therefore be something Create accepts, or a later failed delete cannot be rolled back (rollback.MustExecute
// panics, the entity is gone from memory while store and pipeline still reference it).
func c14R11(c *Ctx) {
	r := c.R.Rule("R11", "K3 Update refuses what Create refuses: connector.Service.Update persists only behind validateConnector[ok] and the plugin != \"\" edge; processor.Service.updateConfig persists only behind the Workers >= 0 edge", 3)
	if fn := c.SSA(r, pConn, "(*Service).Update"); fn != nil {
		set := c.Fn(r, pConn, "(*Store).Set")
		val := c.Fn(r, pConn, "(*Service).validateConnector")
		sets := asInstrs(kit.CallsTo(fn, Set(set)))
		c.R.Check(len(sets) >= 1, r, "connector.Service.Update: persists", c.Pos(fn.Pos()), "store.Set", "no store.Set in connector.Service.Update", true)
		c.Dominated(r, "connector.Service.Update: persists only a configuration Create would accept", sets, okGates(kit.CallsToOK(fn, Set(val), 2), "validateConnector ok"), "the validateConnector success edge")
		var plug ssa.Value
		for _, prm := range fn.Params {
			if prm.Name() == "plugin" {
				plug = prm
			}
		}
		gp := kit.NewGates().AddEdges(kit.CmpEdges(fn, func(b *ssa.BinOp) (bool, bool) {
			if plug != nil && ((kit.IsVar(b.X, plug) && isStrConst(b.Y, "")) || (kit.IsVar(b.Y, plug) && isStrConst(b.X, ""))) {
				switch b.Op {
				case token.NEQ:
					return true, true
				case token.EQL:
					return true, false
				}
			}
			return false, false
		}), "plugin != \"\"")
		c.Dominated(r, "connector.Service.Update: persists only a non-empty plugin", sets, gp, "the plugin != \"\" edge")
	}
	if fn := c.SSA(r, pProc, "(*Service).updateConfig"); fn != nil {
		set := c.Fn(r, pProc, "(*Store).Set")
		wF := c.Field(r, pProc, "Config", "Workers")
		sets := asInstrs(kit.CallsTo(fn, Set(set)))
		isW := func(v ssa.Value) bool { return kit.IsFieldLoad(v, wF) || fieldNamed(v, "Workers") }
		g := kit.NewGates().AddEdges(kit.CmpEdges(fn, func(b *ssa.BinOp) (bool, bool) {
			switch {
			case isW(b.X) && kit.IsIntConst(b.Y, 0):
				switch b.Op {
				case token.LSS:
					return true, false
				case token.GEQ:
					return true, true
				}
			case isW(b.Y) && kit.IsIntConst(b.X, 0):
				switch b.Op {
				case token.GTR:
					return true, false
				case token.LEQ:
					return true, true
				}
			}
			return false, false
		}), "Workers >= 0")
		c.Dominated(r, "processor.Service.updateConfig: persists only a non-negative worker count", sets, g, "the cfg.Workers >= 0 edge")
	}
}

// c14R12: F73 and F74 (known findings).
//
//	F73  connector.Service.Create never checks whether the id already exists: provisioning pipeline `a` with connector
//	     `b:src` and pipeline `a:b` with connector `src` both yield the connector id `a:b:src`; the second Create silently
//	     overwrites the first pipeline's connector (settings, ownership, one shared position).
//	F74  the orchestrators' compensations write through the call's own transaction. After a FAILED Commit (badger
//	     conflict, SQL driver) or a cancelled request context that transaction no longer accepts writes — only the
//	     in-memory driver of the tests does —: the compensation fails, rollback.MustExecute panics (there is no recovery
//	     interceptor: the process dies), and memory keeps the state it was supposed to undo.
func c14R12(c *Ctx) {
	r := c.R.Rule("R12", "K3 create refuses an existing id, and a failed commit can still be compensated: connector.Service.Create persists only behind the id-not-present edge of a lookup in s.connectors; behind the failure edge of txn.Commit the ConnectorOrchestrator's Create/Update/Delete obtain a usable transaction (NewTransaction) for their compensations", 4)
	if fn := c.SSA(r, pConn, "(*Service).Create"); fn != nil {
		mapF := c.Field(r, pConn, "Service", "connectors")
		set := c.Fn(r, pConn, "(*Store).Set")
		g := kit.NewGates()
		for _, b := range fn.Blocks {
			for _, in := range b.Instrs {
				if lk, ok := in.(*ssa.Lookup); ok && lk.CommaOk && kit.IsFieldLoad(lk.X, mapF) {
					if refs := lk.Referrers(); refs != nil {
						for _, u := range *refs {
							if ex, ok := u.(*ssa.Extract); ok && ex.Index == 1 {
								g.AddEdges(kit.CondEdges(ex, false), "id not present")
							}
						}
					}
				}
			}
		}
		sets := kit.CallsTo(fn, Set(set))
		ok := !g.Empty() && len(sets) > 0
		for _, st := range sets {
			if pass, _ := kit.MustPass(st, g); !pass {
				ok = false
			}
		}
		c.R.Check(ok, r, "connector.Service.Create: an existing id is refused", c.Pos(fn.Pos()), "behind the not-present edge", "connector.Service.Create stores the new instance without looking the id up in s.connectors: two pipelines whose ids and connector ids concatenate to the same connector id (`a`+`b:src`, `a:b`+`src`) overwrite each other's connector — Init returns nil, one pipeline's source now belongs to the other with its settings, both share one position", true)
	}
	commit := c.W.ExtMethod("github.com/conduitio/conduit-commons/database", "Transaction", "Commit")
	for _, m := range []string{"Create", "Update", "Delete"} {
		fn := c.SSA(r, pOrch, "(*ConnectorOrchestrator)."+m)
		if fn == nil || commit == nil {
			continue
		}
		fresh := false
		for _, call := range kit.CallsTo(fn, c.Fam(commit)) {
			for _, e := range kit.FailEdges(call) {
				for _, b := range fn.Blocks {
					if !(b == e.To || e.To.Dominates(b)) {
						continue
					}
					for _, in := range b.Instrs {
						if ci, ok := in.(ssa.CallInstruction); ok {
							if ci.Common().IsInvoke() && ci.Common().Method.Name() == "NewTransaction" {
								fresh = true
							}
							if h := ci.Common().StaticCallee(); h != nil && h.Pkg == fn.Pkg {
								for _, hb := range h.Blocks {
									for _, hin := range hb.Instrs {
										if hc, ok := hin.(ssa.CallInstruction); ok && hc.Common().IsInvoke() && hc.Common().Method.Name() == "NewTransaction" {
											fresh = true
										}
									}
								}
							}
						}
					}
				}
			}
		}
		// or: the deferred rollback is handed a context that is not the finished transaction's (a helper that ends the transaction)
		for _, b := range fn.Blocks {
			for _, in := range b.Instrs {
				if d, ok := in.(*ssa.Defer); ok {
					if h := d.Call.StaticCallee(); h != nil && h.Pkg == fn.Pkg {
						for _, hb := range h.Blocks {
							for _, hin := range hb.Instrs {
								if hc, ok := hin.(ssa.CallInstruction); ok && hc.Common().IsInvoke() && hc.Common().Method.Name() == "NewTransaction" {
									fresh = true
								}
							}
						}
					}
				}
			}
		}
		c.R.Check(fresh, r, "ConnectorOrchestrator."+m+": a failed commit's compensations run on a usable transaction", c.Pos(fn.Pos()), "fresh transaction", "when txn.Commit fails (or the request context is cancelled) the rollback closures still write through the call's own transaction context: badger has discarded it and the SQL drivers marked it done, so the compensating service call fails, rollback.MustExecute panics — no recovery interceptor, the process dies — and memory keeps the state the call was supposed to undo (only the in-memory driver the unit tests use keeps accepting writes)", true)
	}
}

func storesToFieldNamed(fn *ssa.Function, name string) []*ssa.Store {
	var out []*ssa.Store
	for _, b := range fn.Blocks {
		for _, in := range b.Instrs {
			if st, ok := in.(*ssa.Store); ok {
				if f := kit.FieldOf(st.Addr); f != nil && f.Name() == name {
					out = append(out, st)
				}
			}
		}
	}
	return out
}
