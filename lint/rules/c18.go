package rules

import (
	"bytes"
	"fmt"
	"go/ast"
	"go/constant"
	"go/token"
	"go/types"
	"math"
	"net/netip"
	"sort"
	"strings"

	"conduitlint/kit"

	"golang.org/x/tools/go/ssa"
)

const pEgress = "pkg/plugin/processor/egress"

func init() {
	register(&Property{
		ID:  "C18",
		Run: runC18,
		Explanation: "Decides the address-classifier and dial-gating clauses of the egress property from the source: (R1) the refused-address set is extracted from the constant CIDR tables and byte tests of classifyV4/Refuse — after checking on the SSA that every allow-return is reachable only through the non-refusing edge of every extracted test and that the table loops run to exhaustion — and compared by interval arithmetic with the documented floor over all 2^32 IPv4 addresses and the IPv6 prefixes (exhaustive, no address is executed); " +
			"(R2) allow-returns of Refuse are dominated by the non-refusing edge of every test; (R3) the only net.Dialer / http.Transport / http.Client literals of the package install the Control hook, no proxy, the gated DialContext, no TLS dial override and a redirect refusal, and no other dial/HTTP entry point is referenced; (R4) each candidate's dial is dominated by Refuse==false or an exact IP+port carve-out; (R5) ResolvePolicy clamps every capped Policy field on every path that returns an enabled policy (field coverage); (R6) Authorization is set only after the granted-secret test and guest headers pass the reserved-header table.",
		NotDecided:  []string{"DNS / TOCTOU behaviour of the Go runtime", "net.IPNet.Contains and net.IP.To4 themselves (trusted library)", "the last-four-bytes arithmetic of isV4Compatible beyond its 12-byte zero-prefix loop", "ranges outside the documented floor"},
		Assumptions: []string{"net.ParseCIDR/IPNet.Contains/IP.To4 behave as documented", "http.Transport honours Proxy=nil and DialContext; net.Dialer invokes Control for every connect"},
	})
}

func runC18(c *Ctx) {
	c18R1R2(c)
	c18R3(c)
	c18R4(c)
	c18R5(c)
	c18R6(c)
	c18R7(c)
}

// ---- interval sets over 16-byte addresses -----------------------------------

type ipRange struct{ lo, hi [16]byte }

func prefixRange(p netip.Prefix) ipRange {
	a := p.Masked().Addr().As16()
	if p.Addr().Is4() {
		// keep IPv4 in its own 4-byte space encoded as ::ffff:a.b.c.d
		bits := p.Bits() + 96
		return rangeOf(a, bits)
	}
	return rangeOf(a, p.Bits())
}

func rangeOf(a [16]byte, bits int) ipRange {
	lo, hi := a, a
	for i := 0; i < 128; i++ {
		if i >= bits {
			lo[i/8] &^= 1 << (7 - uint(i%8))
			hi[i/8] |= 1 << (7 - uint(i%8))
		}
	}
	return ipRange{lo, hi}
}

func covered(want ipRange, have []ipRange) (bool, [16]byte) {
	// sweep: find an address of want not covered by any range in have
	cur := want.lo
	for {
		advanced := false
		for _, h := range have {
			if bytes.Compare(h.lo[:], cur[:]) <= 0 && bytes.Compare(cur[:], h.hi[:]) <= 0 {
				if bytes.Compare(h.hi[:], want.hi[:]) >= 0 {
					return true, cur
				}
				cur = inc(h.hi)
				advanced = true
				break
			}
		}
		if !advanced {
			return false, cur
		}
	}
}

func inc(a [16]byte) [16]byte {
	for i := 15; i >= 0; i-- {
		a[i]++
		if a[i] != 0 {
			break
		}
	}
	return a
}

// ---- R1/R2 --------------------------------------------------------------------

// cidrTable extracts the CIDR strings of a package-level table variable whose
// elements are {mustCIDR("..."), reason}.
func cidrTable(c *Ctx, r, varName string) ([]netip.Prefix, bool) {
	p := c.W.Pkg(pEgress)
	if p == nil {
		c.R.Unresolved(r, pEgress)
		return nil, false
	}
	var out []netip.Prefix
	found := false
	for _, f := range p.Syntax {
		for _, d := range f.Decls {
			gd, ok := d.(*ast.GenDecl)
			if !ok || gd.Tok != token.VAR {
				continue
			}
			for _, sp := range gd.Specs {
				vs := sp.(*ast.ValueSpec)
				for i, n := range vs.Names {
					if n.Name != varName || i >= len(vs.Values) {
						continue
					}
					found = true
					cl, ok := vs.Values[i].(*ast.CompositeLit)
					if !ok {
						c.R.Undecided(r, "table "+varName, c.Pos(vs.Pos()), "table is not a composite literal")
						return nil, false
					}
					for _, el := range cl.Elts {
						ecl, ok := el.(*ast.CompositeLit)
						if !ok || len(ecl.Elts) < 2 {
							c.R.Undecided(r, "table "+varName+": entry", c.Pos(el.Pos()), "entry is not {mustCIDR(..), reason}")
							return nil, false
						}
						first := ecl.Elts[0]
						second := ecl.Elts[1]
						if kv, ok := first.(*ast.KeyValueExpr); ok {
							first = kv.Value
						}
						if kv, ok := second.(*ast.KeyValueExpr); ok {
							second = kv.Value
						}
						s, ok := cidrArg(p.TypesInfo, first)
						if !ok {
							c.R.Undecided(r, "table "+varName+": entry", c.Pos(el.Pos()), "first field is not mustCIDR(<constant string>)")
							return nil, false
						}
						pf, err := netip.ParsePrefix(s)
						if err != nil {
							c.R.Fail(r, "table "+varName+": entry "+s, c.Pos(el.Pos()), "not a valid CIDR: "+err.Error())
							continue
						}
						// reason must be a non-empty constant
						tv := p.TypesInfo.Types[second]
						if tv.Value == nil || tv.Value.Kind() != constant.String || constant.StringVal(tv.Value) == "" {
							c.R.Fail(r, "table "+varName+": reason of "+s, c.Pos(second.Pos()), "the refusal reason of this entry is empty or not constant: the entry would classify as not-refused")
						}
						out = append(out, pf)
					}
				}
			}
		}
	}
	if !found {
		c.R.Unresolved(r, pEgress+"."+varName)
	}
	return out, found
}

func cidrArg(info *types.Info, e ast.Expr) (string, bool) {
	call, ok := e.(*ast.CallExpr)
	if !ok || len(call.Args) != 1 {
		return "", false
	}
	id, ok := call.Fun.(*ast.Ident)
	if !ok || id.Name != "mustCIDR" {
		return "", false
	}
	tv := info.Types[call.Args[0]]
	if tv.Value == nil || tv.Value.Kind() != constant.String {
		return "", false
	}
	return constant.StringVal(tv.Value), true
}

func globalCIDR(c *Ctx, r, varName string) (netip.Prefix, bool) {
	p := c.W.Pkg(pEgress)
	for _, f := range p.Syntax {
		for _, d := range f.Decls {
			gd, ok := d.(*ast.GenDecl)
			if !ok || gd.Tok != token.VAR {
				continue
			}
			for _, sp := range gd.Specs {
				vs := sp.(*ast.ValueSpec)
				for i, n := range vs.Names {
					if n.Name == varName && i < len(vs.Values) {
						if s, ok := cidrArg(p.TypesInfo, vs.Values[i]); ok {
							pf, err := netip.ParsePrefix(s)
							if err == nil {
								return pf, true
							}
						}
					}
				}
			}
		}
	}
	c.R.Unresolved(r, pEgress+"."+varName+" (mustCIDR constant)")
	return netip.Prefix{}, false
}

// byteLoad matches `x[k]` for a constant k on a value derived from base (or
// any base if nil) and returns k.
func byteLoad(v ssa.Value) (ssa.Value, int64, bool) {
	u, ok := v.(*ssa.UnOp)
	if !ok || u.Op != token.MUL {
		return nil, 0, false
	}
	ia, ok := u.X.(*ssa.IndexAddr)
	if !ok {
		return nil, 0, false
	}
	k, ok := ia.Index.(*ssa.Const)
	if !ok || k.Value == nil {
		return nil, 0, false
	}
	n, exact := constant.Int64Val(constant.ToInt(k.Value))
	if !exact {
		return nil, 0, false
	}
	return ia.X, n, true
}

func constInt(v ssa.Value) (int64, bool) {
	k, ok := v.(*ssa.Const)
	if !ok || k.Value == nil {
		return 0, false
	}
	if k.Value.Kind() != constant.Int {
		return 0, false
	}
	return constant.Int64Val(k.Value)
}

// tableLoopOK checks the exhaustive-scan shape of `for _, r := range <table> {
// if r.net.Contains(x) { return <refusal> } }` and returns the Contains calls
// over table elements plus the loop-exit edges.
func tableLoop(c *Ctx, r string, fn *ssa.Function, tableName string, contains *types.Func) (calls []*ssa.Call, exit []kit.Edge, ok bool) {
	var tbl *ssa.Global
	if g, isG := fn.Pkg.Members[tableName].(*ssa.Global); isG {
		tbl = g
	}
	if tbl == nil {
		c.R.Unresolved(r, "global "+tableName)
		return nil, nil, false
	}
	for _, b := range fn.Blocks {
		for _, in := range b.Instrs {
			call, isCall := in.(*ssa.Call)
			if !isCall || kit.CalleeOf(call.Common()) != contains || len(call.Call.Args) != 2 {
				continue
			}
			// receiver: load of field `net` of element table[i]
			base, _ := kit.FieldBase(call.Call.Args[0])
			var idx ssa.Value
			if al, isAl := base.(*ssa.Alloc); isAl {
				// `for _, r := range table`: the element is copied into the local r
				if refs := al.Referrers(); refs != nil {
					for _, rr := range *refs {
						if st, isSt := rr.(*ssa.Store); isSt && st.Addr == ssa.Value(al) {
							base = st.Val
						}
					}
				}
			}
			switch e := base.(type) {
			case *ssa.IndexAddr:
				if u, isU := e.X.(*ssa.UnOp); isU && u.X == ssa.Value(tbl) {
					idx = e.Index
				}
			case *ssa.UnOp: // element copied to a local: *(&table[i])
				if ia, isIA := e.X.(*ssa.IndexAddr); isIA {
					if u, isU := ia.X.(*ssa.UnOp); isU && u.X == ssa.Value(tbl) {
						idx = ia.Index
					}
				}
			}
			if idx == nil {
				continue
			}
			// idx must be the induction phi of a full range loop: phi[-1, idx+1] with idx+1 < len(table)
			inc, isInc := idx.(*ssa.BinOp)
			if !isInc || inc.Op != token.ADD || !kit.IsIntConst(inc.Y, 1) {
				c.R.Undecided(r, kit.FuncKey(fn)+": "+tableName+" loop index", c.Pos(call.Pos()), "table element index is not a range induction variable")
				return nil, nil, false
			}
			ph, isPhi := inc.X.(*ssa.Phi)
			if !isPhi || len(ph.Edges) != 2 {
				c.R.Undecided(r, kit.FuncKey(fn)+": "+tableName+" loop phi", c.Pos(call.Pos()), "unexpected loop shape")
				return nil, nil, false
			}
			startOK := false
			for _, e := range ph.Edges {
				if kit.IsIntConst(e, -1) {
					startOK = true
				}
			}
			var exits []kit.Edge
			if refs := inc.Referrers(); refs != nil {
				for _, rr := range *refs {
					if cmp, isCmp := rr.(*ssa.BinOp); isCmp && cmp.Op == token.LSS && cmp.X == ssa.Value(inc) &&
						kit.IsLenOf(cmp.Y, func(v ssa.Value) bool { u, ok := v.(*ssa.UnOp); return ok && u.X == ssa.Value(tbl) }) {
						exits = append(exits, kit.CondEdges(cmp, false)...)
					}
				}
			}
			if !startOK || len(exits) == 0 {
				c.R.Fail(r, kit.FuncKey(fn)+": "+tableName+" scanned completely", c.Pos(call.Pos()), "the scan over "+tableName+" does not start at the first entry or does not run to len("+tableName+")")
				return nil, nil, false
			}
			calls = append(calls, call)
			exit = append(exit, exits...)
		}
	}
	if len(calls) == 0 {
		c.R.Fail(r, kit.FuncKey(fn)+": "+tableName+" scan", c.Pos(fn.Pos()), "no Contains test over "+tableName+" found")
		return nil, nil, false
	}
	return calls, exit, true
}

func c18R1R2(c *Ctx) {
	r1 := c.R.Rule("R1", "K9 refused-set coverage (exhaustive interval arithmetic): the CIDR tables and byte tests extracted from classifyV4/Refuse cover the documented floor for all 2^32 IPv4 addresses and the IPv6 prefix forms", 19)
	r2 := c.R.Rule("R2", "K3 allow-returns: every `not refused` return of classifyV4/Refuse is reachable only through the non-refusing edge of every extracted test (table scans run to exhaustion)", 10)
	contains := c.ExtMethod(r1, "net", "IPNet", "Contains")
	classify := c.SSA(r1, pEgress, "classifyV4")
	refuse := c.SSA(r1, pEgress, "Refuse")
	if contains == nil || classify == nil || refuse == nil {
		return
	}
	notRefused := c.W.LookupObj(pEgress, "reasonNotRefused")
	var have []ipRange
	describe := []string{}

	// ---- classifyV4 ----
	v4tbl, ok4 := cidrTable(c, r1, "refusedV4")
	for _, p := range v4tbl {
		if !p.Addr().Is4() {
			c.R.Fail(r1, "refusedV4 entry "+p.String(), "", "non-IPv4 prefix in the IPv4 table")
			continue
		}
		have = append(have, prefixRange(p))
		describe = append(describe, p.String())
	}
	var allow4 []ssa.Instruction
	for _, ret := range kit.Returns(classify) {
		if len(ret.Results) == 1 && isConstObj(kit.RetVal(ret, 0), notRefused) {
			allow4 = append(allow4, ret)
		}
	}
	if len(allow4) == 0 {
		c.R.Fail(r2, "classifyV4: allow return", c.Pos(classify.Pos()), "no `return reasonNotRefused` found")
	}
	if ok4 {
		calls, exits, ok := tableLoop(c, r2, classify, "refusedV4", contains)
		if ok {
			for _, call := range calls {
				bad := false
				for _, e := range kit.CondEdges(call, true) {
					for _, a := range allow4 {
						if kit.EdgeReaches(e, a, nil) {
							bad = true
						}
					}
				}
				c.R.Check(!bad, r2, "classifyV4: a table hit never reaches the allow return", c.Pos(call.Pos()), "Contains()==true cannot reach `return reasonNotRefused`", "an address inside a refusedV4 entry can reach `return reasonNotRefused`", true)
			}
			c.Dominated(r2, "classifyV4: allow return only after the whole table was scanned", allow4, kit.NewGates().AddEdges(exits, ""), "the loop-exhausted edge of the refusedV4 scan")
		}
	}
	// byte tests `v4[0] >= K` (refusing on true) — generalised to v4[0] op K
	for _, b := range classify.Blocks {
		for _, in := range b.Instrs {
			cmp, ok := in.(*ssa.BinOp)
			if !ok {
				continue
			}
			_, k, isB := byteLoad(cmp.X)
			kv, isK := constInt(cmp.Y)
			if !isB || !isK || k != 0 {
				continue
			}
			var lo, hi int64
			switch cmp.Op {
			case token.GEQ:
				lo, hi = kv, 255
			case token.GTR:
				lo, hi = kv+1, 255
			default:
				continue
			}
			// refusing edge = true; allow must pass the false edge and never follow the true edge
			bad := false
			for _, e := range kit.CondEdges(cmp, true) {
				for _, a := range allow4 {
					if kit.EdgeReaches(e, a, nil) {
						bad = true
					}
				}
			}
			c.R.Check(!bad, r2, fmt.Sprintf("classifyV4: first-octet test refuses"), c.Pos(cmp.Pos()), "v4[0]>=K true edge cannot reach the allow return", "the first-octet test's refusing edge reaches the allow return", true)
			c.Dominated(r2, "classifyV4: allow return only past the first-octet test", allow4, kit.NewGates().AddEdges(kit.CondEdges(cmp, false), ""), "the false edge of the first-octet test")
			if !bad && lo <= hi {
				var a, z [16]byte
				a[10], a[11], z[10], z[11] = 0xff, 0xff, 0xff, 0xff
				a[12] = byte(lo)
				z[12], z[13], z[14], z[15] = byte(hi), 0xff, 0xff, 0xff
				have = append(have, ipRange{a, z})
				describe = append(describe, fmt.Sprintf("v4[0] in [%d,%d]", lo, hi))
			}
		}
	}
	// IPv4 floor, checked over the whole 32-bit space by interval arithmetic
	floor4 := []string{"127.0.0.0/8", "0.0.0.0/8", "10.0.0.0/8", "172.16.0.0/12", "192.168.0.0/16", "169.254.0.0/16", "100.64.0.0/10", "224.0.0.0/3", "192.0.0.0/24" /* RFC 6890 IETF protocol assignments: 192.0.0.192 is a cloud metadata endpoint (F93) */, "198.18.0.0/15" /* RFC 2544 benchmarking, never globally routed (F93) */}
	for _, f := range floor4 {
		want := prefixRange(netip.MustParsePrefix(f))
		ok, at := covered(want, have)
		miss := netip.AddrFrom16(at).Unmap().String()
		c.R.Check(ok, r1, "IPv4 floor "+f+" refused", "pkg/plugin/processor/egress/ipguard.go", "every address of "+f+" is in the extracted refused set", "address "+miss+" of the documented floor "+f+" is NOT in the refused set extracted from classifyV4 {"+strings.Join(describe, ", ")+"}", true)
	}
	c.R.Extra["ipv4_refused_set"] = describe

	// ---- Refuse: IPv4 arm ----
	var allowR []ssa.Instruction
	for _, ret := range kit.Returns(refuse) {
		if len(ret.Results) == 2 && kit.IsBoolConst(kit.RetVal(ret, 0), false) {
			allowR = append(allowR, ret)
		}
	}
	if len(allowR) < 2 {
		c.R.Fail(r2, "Refuse: allow returns", c.Pos(refuse.Pos()), fmt.Sprintf("expected an IPv4 and an IPv6 `return false`, found %d", len(allowR)))
	}
	to4 := c.ExtMethod(r2, "net", "IP", "To4")
	classifyFn := c.Fn(r2, pEgress, "classifyV4")
	// partition allow returns by the To4()!=nil edge
	var v4edges, v6edges []kit.Edge
	for _, call := range kit.CallsTo(refuse, Set(to4)) {
		v4edges = append(v4edges, kit.NilEdges(call.Value(), false)...)
		v6edges = append(v6edges, kit.NilEdges(call.Value(), true)...)
	}
	var allowV4, allowV6 []ssa.Instruction
	for _, a := range allowR {
		in4 := false
		for _, e := range v4edges {
			if kit.EdgeReaches(e, a, nil) {
				in4 = true
			}
		}
		in6 := false
		for _, e := range v6edges {
			if kit.EdgeReaches(e, a, nil) {
				in6 = true
			}
		}
		switch {
		case in4 && !in6:
			allowV4 = append(allowV4, a)
		case in6 && !in4:
			allowV6 = append(allowV6, a)
		default:
			c.R.Undecided(r2, "Refuse: allow return family", c.Pos(posOf(a)), "an allow return is reachable from both the IPv4 and the IPv6 arm")
		}
	}
	gCls := kit.NewGates()
	for _, call := range kit.CallsTo(refuse, Set(classifyFn)) {
		v := call.Value()
		// argument must be the To4 result
		argOK := false
		for _, t := range kit.CallsTo(refuse, Set(to4)) {
			if len(call.Common().Args) == 1 && call.Common().Args[0] == t.Value() {
				argOK = true
			}
		}
		c.R.Check(argOK, r2, "Refuse: classifyV4 receives ip.To4()", c.Pos(call.Pos()), "classifyV4(ip.To4())", "classifyV4 is not applied to the To4() form of the address", true)
		gCls.AddEdges(kit.CmpEdges(refuse, func(b *ssa.BinOp) (bool, bool) {
			if (b.X == v && isConstObj(b.Y, notRefused)) || (b.Y == v && isConstObj(b.X, notRefused)) {
				switch b.Op {
				case token.EQL:
					return true, true
				case token.NEQ:
					return true, false
				}
			}
			return false, false
		}), "classifyV4()==reasonNotRefused")
	}
	c.Dominated(r2, "Refuse: IPv4 allow only when classifyV4 says not refused", allowV4, gCls, "the classifyV4(v4)==reasonNotRefused edge")

	// ---- Refuse: IPv6 arm ----
	var have6 []ipRange
	desc6 := []string{}
	v6tbl, ok6 := cidrTable(c, r1, "refusedV6")
	for _, p := range v6tbl {
		have6 = append(have6, prefixRange(p))
		desc6 = append(desc6, p.String())
	}
	if ok6 {
		calls, exits, ok := tableLoop(c, r2, refuse, "refusedV6", contains)
		if ok {
			for _, call := range calls {
				bad := false
				for _, e := range kit.CondEdges(call, true) {
					for _, a := range allowR {
						if kit.EdgeReaches(e, a, nil) {
							bad = true
						}
					}
				}
				c.R.Check(!bad, r2, "Refuse: a refusedV6 hit never reaches an allow return", c.Pos(call.Pos()), "Contains()==true cannot reach `return false`", "an address inside a refusedV6 entry can reach `return false`", true)
			}
			c.Dominated(r2, "Refuse: IPv6 allow only after the whole refusedV6 table was scanned", allowV6, kit.NewGates().AddEdges(exits, ""), "the loop-exhausted edge of the refusedV6 scan")
		}
	}
	// single-net Contains tests on package-level nets
	required := map[string]bool{"nat64Net": true, "v4TranslatedNet": true}
	var gnames []string
	for name, m := range refuse.Pkg.Members {
		if g, ok := m.(*ssa.Global); ok && strings.HasSuffix(g.Type().String(), "net.IPNet") {
			used := false
			for _, call := range kit.CallsTo(refuse, Set(contains)) {
				if u, isU := call.Common().Args[0].(*ssa.UnOp); isU && u.X == ssa.Value(g) {
					used = true
				}
			}
			if used || required[name] {
				gnames = append(gnames, name)
			}
		}
	}
	sort.Strings(gnames)
	for _, gname := range gnames {
		pf, ok := globalCIDR(c, r1, gname)
		g, isG := refuse.Pkg.Members[gname].(*ssa.Global)
		if !ok || !isG {
			continue
		}
		n := 0
		for _, call := range kit.CallsTo(refuse, Set(contains)) {
			u, isU := call.Common().Args[0].(*ssa.UnOp)
			if !isU || u.X != ssa.Value(g) {
				continue
			}
			n++
			bad := false
			for _, e := range kit.CondEdges(call.Value(), true) {
				for _, a := range allowR {
					if kit.EdgeReaches(e, a, nil) {
						bad = true
					}
				}
			}
			c.R.Check(!bad, r2, "Refuse: "+gname+" hit refuses", c.Pos(call.Pos()), "Contains()==true cannot reach `return false`", gname+".Contains()==true can reach `return false`", true)
			c.Dominated(r2, "Refuse: IPv6 allow only past the "+gname+" test", allowV6, kit.NewGates().AddEdges(kit.CondEdges(call.Value(), false), ""), "the false edge of "+gname+".Contains")
			if !bad {
				have6 = append(have6, prefixRange(pf))
				desc6 = append(desc6, gname+"="+pf.String())
			}
		}
		if n == 0 && required[gname] {
			c.R.Fail(r2, "Refuse: "+gname+" test", c.Pos(refuse.Pos()), "no "+gname+".Contains test found in Refuse")
		}
	}
	// byte-prefix chains: blocks whose entry condition is ip16[k]==const along a chain from a common ancestor, ending in a refusal
	for _, ch := range byteChains(refuse) {
		bad := false
		for _, a := range allowR {
			if kit.EdgeReaches(ch.edge, a, nil) {
				bad = true
			}
		}
		name := fmt.Sprintf("Refuse: byte-prefix test %x refuses", ch.prefix)
		c.R.Check(!bad, r2, name, c.Pos(posOf(ch.last)), "the matching edge cannot reach `return false`", "the byte-prefix test's matching edge reaches `return false`", true)
		// allow must pass a non-matching edge of the chain
		c.Dominated(r2, fmt.Sprintf("Refuse: IPv6 allow only past the byte-prefix test %x", ch.prefix), allowV6, kit.NewGates().AddEdges(ch.nonMatching, ""), "a non-matching edge of the byte-prefix test")
		if !bad {
			var a [16]byte
			copy(a[:], ch.prefix)
			have6 = append(have6, rangeOf(a, 8*len(ch.prefix)))
			desc6 = append(desc6, fmt.Sprintf("prefix %x/%d", ch.prefix, 8*len(ch.prefix)))
		}
	}
	// isV4Compatible: tabled predicate; shape = 12 leading zero bytes (checked), refusal on true
	if isC := c.SSA(r2, pEgress, "isV4Compatible"); isC != nil {
		bound := false
		for _, e := range kit.CmpEdges(isC, func(b *ssa.BinOp) (bool, bool) {
			if b.Op == token.LSS && kit.IsIntConst(b.Y, 12) {
				return true, true
			}
			return false, false
		}) {
			_ = e
			bound = true
		}
		c.R.Check(bound, r2, "isV4Compatible: 12-byte zero-prefix loop", c.Pos(isC.Pos()), "loop bound 12", "isV4Compatible no longer scans exactly the 12 leading bytes", true)
		n := 0
		for _, call := range kit.CallsTo(refuse, Set(c.Fn(r2, pEgress, "isV4Compatible"))) {
			n++
			bad := false
			for _, e := range kit.CondEdges(call.Value(), true) {
				for _, a := range allowR {
					if kit.EdgeReaches(e, a, nil) {
						bad = true
					}
				}
			}
			c.R.Check(!bad, r2, "Refuse: v4-compatible form refuses", c.Pos(call.Pos()), "isV4Compatible()==true cannot reach `return false`", "isV4Compatible()==true can reach `return false`", true)
			c.Dominated(r2, "Refuse: IPv6 allow only past the v4-compatible test", allowV6, kit.NewGates().AddEdges(kit.CondEdges(call.Value(), false), ""), "the false edge of isV4Compatible")
			if !bad && bound {
				// ::/96 minus {::, ::1} (those two are demanded from the table instead)
				var lo, hi [16]byte
				lo[15] = 2
				hi[12], hi[13], hi[14], hi[15] = 0xff, 0xff, 0xff, 0xff
				have6 = append(have6, ipRange{lo, hi})
				desc6 = append(desc6, "v4-compatible ::0.0.0.2-::255.255.255.255")
			}
		}
		if n == 0 {
			c.R.Fail(r2, "Refuse: v4-compatible test", c.Pos(refuse.Pos()), "Refuse no longer calls isV4Compatible")
		}
	}
	floor6 := []string{"::1/128", "::/128", "fe80::/10", "fec0::/10", "fc00::/7", "ff00::/8", "64:ff9b::/96", "64:ff9b:1::/48" /* RFC 8215 local-use NAT64: embeds any IPv4 like the well-known prefix (F45) */, "::ffff:0:0:0/96", "2002::/16", "2001::/32"}
	for _, f := range floor6 {
		want := prefixRange(netip.MustParsePrefix(f))
		ok, at := covered(want, have6)
		c.R.Check(ok, r1, "IPv6 floor "+f+" refused", "pkg/plugin/processor/egress/ipguard.go", "every address of "+f+" is in the extracted refused set", "address "+netip.AddrFrom16(at).String()+" of the documented floor "+f+" is NOT in the refused set extracted from Refuse {"+strings.Join(desc6, ", ")+"}", true)
	}
	// v4-compatible ::/96 (beyond :: and ::1)
	{
		var lo, hi [16]byte
		lo[15] = 2
		hi[12], hi[13], hi[14], hi[15] = 0xff, 0xff, 0xff, 0xff
		ok, at := covered(ipRange{lo, hi}, have6)
		c.R.Check(ok, r1, "IPv6 floor ::/96 (v4-compatible) refused", "pkg/plugin/processor/egress/ipguard.go", "covered", "address "+netip.AddrFrom16(at).String()+" of the v4-compatible range is not refused", true)
	}
	sort.Strings(desc6)
	c.R.Extra["ipv6_refused_set"] = desc6
	c.R.Extra["exhaustive"] = true
}

type byteChain struct {
	prefix      []byte
	edge        kit.Edge   // edge taken when the whole prefix matched
	nonMatching []kit.Edge // edges taken when some byte did not match
	last        ssa.Instruction
}

// byteChains finds conjunction chains ip16[0]==a && ip16[1]==b && ... in fn.
func byteChains(fn *ssa.Function) []byteChain {
	type test struct {
		cmp *ssa.BinOp
		k   int64
		v   byte
		iff *ssa.If
	}
	tests := map[*ssa.BasicBlock]test{}
	for _, b := range fn.Blocks {
		if len(b.Instrs) == 0 {
			continue
		}
		iff, ok := b.Instrs[len(b.Instrs)-1].(*ssa.If)
		if !ok {
			continue
		}
		cmp, ok := iff.Cond.(*ssa.BinOp)
		if !ok || cmp.Op != token.EQL {
			continue
		}
		_, k, isB := byteLoad(cmp.X)
		kv, isK := constInt(cmp.Y)
		if !isB || !isK || kv < 0 || kv > 255 {
			continue
		}
		tests[b] = test{cmp, k, byte(kv), iff}
	}
	var out []byteChain
	for b, t := range tests {
		if t.k != 0 {
			continue
		}
		// follow true edges while the next block is a test for the next byte and has b as only pred
		ch := byteChain{prefix: []byte{t.v}, nonMatching: []kit.Edge{{From: b, To: b.Succs[1]}}}
		cur := b
		for {
			nxt := cur.Succs[0]
			nt, ok := tests[nxt]
			if !ok || nt.k != int64(len(ch.prefix)) || len(nxt.Preds) != 1 {
				break
			}
			ch.prefix = append(ch.prefix, nt.v)
			ch.nonMatching = append(ch.nonMatching, kit.Edge{From: nxt, To: nxt.Succs[1]})
			cur = nxt
		}
		ch.edge = kit.Edge{From: cur, To: cur.Succs[0]}
		ch.last = tests[cur].iff
		out = append(out, ch)
	}
	// the same conjunction moved into a predicate helper: `if isTeredo(ip16) { refuse }`
	for _, b := range fn.Blocks {
		if len(b.Instrs) == 0 {
			continue
		}
		iff, ok := b.Instrs[len(b.Instrs)-1].(*ssa.If)
		if !ok {
			continue
		}
		call, ok := iff.Cond.(*ssa.Call)
		if !ok {
			continue
		}
		h := call.Call.StaticCallee()
		if h == nil || h.Pkg != fn.Pkg || len(h.Blocks) == 0 || len(call.Call.Args) != 1 {
			continue
		}
		if prefix, ok := helperBytePrefix(h); ok {
			out = append(out, byteChain{prefix: prefix, edge: kit.Edge{From: b, To: b.Succs[0]}, nonMatching: []kit.Edge{{From: b, To: b.Succs[1]}}, last: iff})
		}
	}
	sort.Slice(out, func(i, j int) bool { return bytes.Compare(out[i].prefix, out[j].prefix) < 0 })
	return out
}

// helperBytePrefix recognises a predicate whose whole body is
// `return p[0]==a && p[1]==b && ...` over its only parameter and returns the
// prefix it tests: it returns true exactly when all listed bytes match.
func helperBytePrefix(h *ssa.Function) ([]byte, bool) {
	if len(h.Params) != 1 {
		return nil, false
	}
	rets := kit.Returns(h)
	if len(rets) != 1 || len(rets[0].Results) != 1 {
		return nil, false
	}
	isTest := func(v ssa.Value) (int64, byte, bool) {
		cmp, ok := v.(*ssa.BinOp)
		if !ok || cmp.Op != token.EQL {
			return 0, 0, false
		}
		base, k, isB := byteLoad(cmp.X)
		kv, isK := constInt(cmp.Y)
		if !isB || !isK || kv < 0 || kv > 255 || base != ssa.Value(h.Params[0]) {
			return 0, 0, false
		}
		return k, byte(kv), true
	}
	var prefix []byte
	v := rets[0].Results[0]
	if ph, ok := v.(*ssa.Phi); ok {
		// every incoming edge but one is the constant false of a failed conjunct; walk the If chain from the entry
		cur := h.Blocks[0]
		for {
			iff, ok := cur.Instrs[len(cur.Instrs)-1].(*ssa.If)
			if !ok {
				break
			}
			k, bv, ok := isTest(iff.Cond)
			if !ok || k != int64(len(prefix)) || cur.Succs[1] != ph.Block() {
				return nil, false
			}
			prefix = append(prefix, bv)
			cur = cur.Succs[0]
		}
		// cur jumps to the phi block carrying the last conjunct
		var last ssa.Value
		for i, p := range ph.Block().Preds {
			e := ph.Edges[i]
			if p == cur {
				last = e
				continue
			}
			if k, ok := e.(*ssa.Const); !ok || k.Value == nil || constant.BoolVal(k.Value) {
				return nil, false
			}
		}
		k, bv, ok := isTest(last)
		if !ok || k != int64(len(prefix)) {
			return nil, false
		}
		return append(prefix, bv), true
	}
	if k, bv, ok := isTest(v); ok && k == 0 {
		return []byte{bv}, true
	}
	return nil, false
}

// ---- R3 -----------------------------------------------------------------------

func c18R3(c *Ctx) {
	r := c.R.Rule("R3", "K1/K8 every dial is gated: the package's only net.Dialer / http.Transport / http.Client literals install Control=s.dialControl, Proxy=nil, DialContext=s.dialContext(...), no DialTLS*, CheckRedirect refusing; no other dial or HTTP entry point is referenced", 8)
	p := c.W.Pkg(pEgress)
	if p == nil {
		c.R.Unresolved(r, pEgress)
		return
	}
	info := p.TypesInfo
	typeIs := func(t types.Type, pkg, name string) bool {
		if pt, ok := t.(*types.Pointer); ok {
			t = pt.Elem()
		}
		n, ok := t.(*types.Named)
		return ok && n.Obj().Pkg() != nil && n.Obj().Pkg().Path() == pkg && n.Obj().Name() == name
	}
	keys := func(cl *ast.CompositeLit) map[string]ast.Expr {
		m := map[string]ast.Expr{}
		for _, el := range cl.Elts {
			if kv, ok := el.(*ast.KeyValueExpr); ok {
				if id, ok := kv.Key.(*ast.Ident); ok {
					m[id.Name] = kv.Value
				}
			}
		}
		return m
	}
	nDialer, nTransport, nClient := 0, 0, 0
	dialControl := c.Fn(r, pEgress, "(*Service).dialControl")
	dialContext := c.Fn(r, pEgress, "(*Service).dialContext")
	for _, f := range p.Syntax {
		ast.Inspect(f, func(n ast.Node) bool {
			cl, ok := n.(*ast.CompositeLit)
			if !ok {
				return true
			}
			tv, ok := info.Types[cl]
			if !ok {
				return true
			}
			where := c.W.EnclosingKey(cl.Pos())
			switch {
			case typeIs(tv.Type, "net", "Dialer"):
				nDialer++
				k := keys(cl)
				ctl, has := k["Control"]
				ok := false
				if has {
					if se, isSel := ctl.(*ast.SelectorExpr); isSel && info.Uses[se.Sel] == types.Object(dialControl) {
						ok = true
					}
				}
				c.R.Check(ok, r, "net.Dialer literal in "+where+": Control=s.dialControl", c.Pos(cl.Pos()), "Control hook installed", "a net.Dialer is built without the syscall-level Control gate (s.dialControl)", false)
			case typeIs(tv.Type, "net/http", "Transport"):
				nTransport++
				k := keys(cl)
				proxyOK := true
				if pv, has := k["Proxy"]; has {
					if id, isID := pv.(*ast.Ident); !isID || id.Name != "nil" {
						proxyOK = false
					}
				}
				c.R.Check(proxyOK, r, "http.Transport literal in "+where+": no proxy", c.Pos(cl.Pos()), "Proxy nil/absent", "the egress transport sets a Proxy function: requests would be connected to the proxy address, not the checked one", false)
				dc, has := k["DialContext"]
				dcOK := false
				if has {
					if call, isCall := dc.(*ast.CallExpr); isCall {
						if se, isSel := call.Fun.(*ast.SelectorExpr); isSel && info.Uses[se.Sel] == types.Object(dialContext) {
							dcOK = true
						}
					}
				}
				c.R.Check(dcOK, r, "http.Transport literal in "+where+": DialContext=s.dialContext(base)", c.Pos(cl.Pos()), "gated dialer installed", "the egress transport does not dial through s.dialContext", false)
				_, tls1 := k["DialTLSContext"]
				_, tls2 := k["DialTLS"]
				_, d0 := k["Dial"]
				c.R.Check(!tls1 && !tls2 && !d0, r, "http.Transport literal in "+where+": no ungated dial override", c.Pos(cl.Pos()), "no DialTLSContext/DialTLS/Dial", "the transport defines DialTLSContext/DialTLS/Dial, which bypass the gated DialContext", false)
			case typeIs(tv.Type, "net/http", "Client"):
				nClient++
				k := keys(cl)
				cr, has := k["CheckRedirect"]
				ok := false
				if has {
					if fl, isFL := cr.(*ast.FuncLit); isFL {
						ok = true
						ast.Inspect(fl.Body, func(m ast.Node) bool {
							if rs, isRet := m.(*ast.ReturnStmt); isRet {
								if len(rs.Results) != 1 {
									ok = false
								} else if id, isID := rs.Results[0].(*ast.Ident); isID && id.Name == "nil" {
									ok = false
								}
							}
							return true
						})
					}
				}
				c.R.Check(ok, r, "http.Client literal in "+where+": redirects refused", c.Pos(cl.Pos()), "CheckRedirect returns an error on every path", "the egress client follows redirects (CheckRedirect missing or can return nil): a public host can redirect to a private address under a new Host", false)
				_, hasT := k["Transport"]
				c.R.Check(hasT, r, "http.Client literal in "+where+": explicit Transport", c.Pos(cl.Pos()), "Transport set", "the egress client uses http.DefaultTransport", false)
			}
			return true
		})
	}
	c.R.Check(nDialer == 1 && nTransport == 1 && nClient == 1, r, "exactly one Dialer/Transport/Client literal in egress", "", "1/1/1", fmt.Sprintf("expected exactly one net.Dialer, http.Transport and http.Client literal, found %d/%d/%d", nDialer, nTransport, nClient), false)
	// forbidden entry points referenced anywhere in the package
	forbidden := map[string][]string{
		"net":      {"Dial", "DialTimeout", "DialTCP", "DialUDP", "DialIP"},
		"net/http": {"Get", "Post", "PostForm", "Head", "DefaultClient", "DefaultTransport", "ProxyFromEnvironment", "ProxyURL"},
	}
	nf := 0
	for id, obj := range info.Uses {
		if obj.Pkg() == nil {
			continue
		}
		for _, name := range forbidden[obj.Pkg().Path()] {
			if obj.Name() == name && obj.Parent() == obj.Pkg().Scope() {
				nf++
				c.R.Fail(r, "forbidden entry point "+obj.Pkg().Path()+"."+name+" in "+c.W.EnclosingKey(id.Pos()), c.Pos(id.Pos()), "the egress package references "+obj.Pkg().Path()+"."+name+", which connects without the resolved-IP gate")
			}
		}
	}
	c.R.Pass(r, "no ungated net/http entry point referenced in egress", "", fmt.Sprintf("%d forbidden references", nf), false)
	// s.client written only in New; client.Do only from Service.Do
	clientF := c.Field(r, pEgress, "Service", "client")
	c.WhoMayWrite(r, "egress.Service.client", clientF, []string{pEgress + ".New"}, nil)
	httpDo := c.ExtMethod(r, "net/http", "Client", "Do")
	if httpDo != nil {
		for _, ref := range c.W.Refs(Set(httpDo)) {
			if ref.Pkg != pEgress {
				continue
			}
			c.R.Check(ref.Where == pEgress+".(*Service).Do", r, "http.Client.Do <- "+ref.Where, c.Pos(ref.Pos), "tabled", "http.Client.Do is called from "+ref.Where+" instead of Service.Do", false)
		}
	}
}

// ---- R4 -----------------------------------------------------------------------

func c18R4(c *Ctx) {
	r := c.R.Rule("R4", "K3/K6 per-candidate gate: base.DialContext is reached only when Refuse(ip) is false or the exact IP+port carve-out matches, for the same ip that is dialled; dialControl returns nil only under the same condition; the carve-out compares IP and port", 7)
	refuseFn := c.Fn(r, pEgress, "Refuse")
	carve := c.Fn(r, pEgress, "(Policy).matchesCarveOut")
	dialer := c.ExtMethod(r, "net", "Dialer", "DialContext")
	gateFor := func(fn *ssa.Function, ipOf func(call ssa.CallInstruction) ssa.Value, ip ssa.Value) *kit.Gates {
		g := kit.NewGates()
		for _, rc := range kit.CallsTo(fn, Set(refuseFn)) {
			if ip != nil && len(rc.Common().Args) == 1 && rc.Common().Args[0] != ip {
				continue
			}
			if v := kit.ResultN(rc, 0); v != nil {
				g.AddEdges(kit.CondEdges(v, false), "Refuse(ip)==false")
			}
		}
		for _, cc := range kit.CallsTo(fn, Set(carve)) {
			a := cc.Common().Args
			if ip != nil && len(a) == 3 && a[1] != ip {
				continue
			}
			g.AddEdges(kit.CondEdges(cc.Value(), true), "matchesCarveOut(ip,port)")
		}
		return g
	}
	if dc := c.SSA(r, pEgress, "(*Service).dialContext"); dc != nil && dialer != nil {
		n := 0
		for _, fn := range kit.WithAnon(dc) {
			for _, call := range kit.CallsTo(fn, Set(dialer)) {
				n++
				// K6: address = net.JoinHostPort(ip.String(), port): find the ip
				var ip ssa.Value
				args := call.Common().Args
				if len(args) == 4 {
					if jc, ok := args[3].(*ssa.Call); ok && len(jc.Call.Args) == 2 {
						if sc, ok := jc.Call.Args[0].(*ssa.Call); ok && len(sc.Call.Args) == 1 {
							ip = sc.Call.Args[0]
						}
					}
				}
				c.R.Check(ip != nil, r, "dialContext: dialled address is built from the checked ip", c.Pos(call.Pos()), "JoinHostPort(ip.String(), port)", "cannot relate the dialled address to a checked candidate IP", true)
				c.Dominated(r, "dialContext: dial only after the candidate passed the gate", []ssa.Instruction{call}, gateFor(fn, nil, ip), "Refuse(ip)==false or matchesCarveOut(ip, port) for the dialled ip")
			}
		}
		if n == 0 {
			c.R.Fail(r, "dialContext: base.DialContext", c.Pos(dc.Pos()), "no base.DialContext call found")
		}
	}
	if ctl := c.SSA(r, pEgress, "(*Service).dialControl"); ctl != nil {
		nilRets, _ := kit.NilReturns(ctl)
		c.Dominated(r, "dialControl: returns nil only for an allowed address", asInstrs(nilRets), gateFor(ctl, nil, nil), "Refuse(ip)==false or matchesCarveOut(ip, port)")
		// Refuse must be applied to the parsed connect address
		parse := c.ExtFunc(r, "net", "ParseIP")
		ok := false
		for _, rc := range kit.CallsTo(ctl, Set(refuseFn)) {
			for _, pc := range kit.CallsTo(ctl, Set(parse)) {
				if len(rc.Common().Args) == 1 && rc.Common().Args[0] == pc.Value() {
					ok = true
				}
			}
		}
		c.R.Check(ok, r, "dialControl: Refuse(net.ParseIP(host of the connect address))", c.Pos(ctl.Pos()), "ok", "dialControl does not apply Refuse to the parsed connect address", true)
	}
	if mc := c.SSA(r, pEgress, "(Policy).matchesCarveOut"); mc != nil {
		var trues []ssa.Instruction
		for _, ret := range kit.Returns(mc) {
			if len(ret.Results) == 1 && kit.IsBoolConst(kit.RetVal(ret, 0), true) {
				trues = append(trues, ret)
			}
		}
		if len(trues) == 0 {
			c.R.Undecided(r, "matchesCarveOut: return true", c.Pos(mc.Pos()), "no constant `return true` (shape changed)")
		}
		ipEqual := c.ExtMethod(r, "net", "IP", "Equal")
		isIP := c.Fn(r, pEgress, "(AllowEntry).IsIP")
		portF := c.Field(r, pEgress, "AllowEntry", "Port")
		c.Dominated(r, "matchesCarveOut: true only for an IP entry", trues, kit.NewGates().AddEdges(condEdgesOfCalls(mc, Set(isIP), true), ""), "e.IsIP()")
		c.Dominated(r, "matchesCarveOut: true only when the IP matches", trues, kit.NewGates().AddEdges(condEdgesOfCalls(mc, Set(ipEqual), true), ""), "e.IP.Equal(ip)")
		// the pair that is compared is the candidate itself: the address handed in, not a value computed from it
		// (an unwrapped embedded IPv4, a canonicalised form) — every IPv6 form that merely embeds a carved-out IPv4
		// address is a different address and stays refused
		if ipP := argParam(mc, 0); ipP != nil {
			for _, eq := range kit.CallsTo(mc, Set(ipEqual)) {
				a := eq.Common().Args
				ok := len(a) == 2 && (kit.IsVar(a[1], ipP) && kit.IsFieldLoad(a[0], c.Field(r, pEgress, "AllowEntry", "IP")) || kit.IsVar(a[0], ipP) && kit.IsFieldLoad(a[1], c.Field(r, pEgress, "AllowEntry", "IP")))
				c.R.Check(ok, r, "matchesCarveOut: the entry's IP is compared with the candidate as given", c.Pos(eq.Pos()), "e.IP.Equal(ip)", "matchesCarveOut compares the allowlist entry with something other than the candidate address it was handed (e.g. the IPv4 address embedded in it): with a carve-out for 10.0.0.5:P or 127.0.0.1:P every NAT64 / 6to4 / IPv4-compatible IPv6 address that embeds it is admitted on port P by both Stage-2 gates, although it is a different address", true)
			}
		}
		c.Dominated(r, "matchesCarveOut: true only when the port matches", trues, kit.NewGates().AddEdges(kit.CmpEdges(mc, func(b *ssa.BinOp) (bool, bool) {
			if kit.IsFieldLoad(b.X, portF) || kit.IsFieldLoad(b.Y, portF) {
				switch b.Op {
				case token.EQL:
					return true, true
				case token.NEQ:
					return true, false
				}
			}
			return false, false
		}), ""), "e.Port == port")
	}
}

func condEdgesOfCalls(fn *ssa.Function, set kit.FuncSet, want bool) []kit.Edge {
	var out []kit.Edge
	for _, call := range kit.CallsTo(fn, set) {
		if v := call.Value(); v != nil {
			out = append(out, kit.CondEdges(v, want)...)
		}
	}
	return out
}

// ---- R5 -----------------------------------------------------------------------

func c18R5(c *Ctx) {
	r := c.R.Rule("R5", "K3/K8 ceiling: ResolvePolicy returns an enabled policy only when both sides are enabled, and every capped Policy field (Allowlist, SecretRefs, Timeout, MaxResponseBytes) is clamped against the ceiling on every path that returns it (a new Policy field must be tabled)", 9)
	fn := c.SSA(r, pEgress, "ResolvePolicy")
	polT := c.Type(r, pEgress, "Policy")
	if fn == nil || polT == nil {
		return
	}
	handled := map[string]string{"Enabled": "gate", "Allowlist": "intersect", "SecretRefs": "intersect", "Timeout": "min", "MaxResponseBytes": "min"}
	st := polT.Underlying().(*types.Struct)
	for i := 0; i < st.NumFields(); i++ {
		_, ok := handled[st.Field(i).Name()]
		c.R.Check(ok, r, "Policy field "+st.Field(i).Name()+" has a ceiling rule", c.Pos(st.Field(i).Pos()), "tabled", "Policy has a field ("+st.Field(i).Name()+") this rule does not know how the ceiling caps: add the clamp and table it", false)
	}
	denyAll := c.Fn(r, pEgress, "DenyAll")
	var params []*ssa.Parameter = fn.Params
	if len(params) != 2 {
		c.R.Undecided(r, "ResolvePolicy: parameters", c.Pos(fn.Pos()), "expected (perProcessor, ceiling)")
		return
	}
	// parameters are struct values: they are spilled to allocs; find field loads by base path name
	isFieldOfParam := func(v ssa.Value, pname, fname string) bool {
		base, f := kit.FieldBase(v)
		if f == nil || f.Name() != fname {
			return false
		}
		// perProcessor is the first, ceiling the second parameter of ResolvePolicy (canonical path names arg0/arg1)
		want := map[string]string{"perProcessor": "arg0", "ceiling": "arg1"}[pname]
		return strings.HasPrefix(kit.PathOf(base), want)
	}
	// enabled returns: returns whose first result is not DenyAll()
	var enabledRets []ssa.Instruction
	for _, ret := range kit.Returns(fn) {
		v := kit.RetVal(ret, 0)
		if call, ok := v.(*ssa.Call); ok && kit.CalleeOf(call.Common()) == denyAll {
			continue
		}
		enabledRets = append(enabledRets, ret)
	}
	if len(enabledRets) == 0 {
		c.R.Fail(r, "ResolvePolicy: enabled returns", c.Pos(fn.Pos()), "no return of an effective policy found")
		return
	}
	for _, pn := range []string{"perProcessor", "ceiling"} {
		g := kit.NewGates()
		for _, b := range fn.Blocks {
			for _, in := range b.Instrs {
				if v, ok := in.(ssa.Value); ok && isFieldOfParam(v, pn, "Enabled") {
					if _, isLoad := in.(*ssa.UnOp); isLoad {
						g.AddEdges(kit.CondEdges(v, true), pn+".Enabled")
					}
				}
			}
		}
		c.Dominated(r, "ResolvePolicy: effective policy only when "+pn+".Enabled", enabledRets, g, "the "+pn+".Enabled edge")
	}
	// min-clamped fields
	for _, fname := range []string{"Timeout", "MaxResponseBytes"} {
		g := kit.NewGates()
		isEff := func(v ssa.Value) bool { return fieldNamed(v, fname) && !isFieldOfParam(v, "ceiling", fname) }
		isCeil := func(v ssa.Value) bool { return isFieldOfParam(v, "ceiling", fname) }
		// the clamp comparison eff.F vs ceiling.F, however it is spelled: passing it (either way)
		// means the clamp was evaluated, and its eff.F > ceiling.F edge must store the ceiling
		clamp := kit.RelEdges(fn, isEff, isCeil, kit.RelGT)
		seenCmp := map[*ssa.BasicBlock]bool{}
		for _, e := range clamp {
			if ifi, ok := e.From.Instrs[len(e.From.Instrs)-1].(*ssa.If); ok {
				if cmp, ok := ifi.Cond.(ssa.Instruction); ok && !seenCmp[e.From] {
					seenCmp[e.From] = true
					g.AddInstr(cmp, "eff."+fname+" > ceiling."+fname)
				}
			}
			stored := false
			for _, in2 := range e.To.Instrs {
				if s2, ok := in2.(*ssa.Store); ok {
					if f := kit.FieldOf(s2.Addr); f != nil && f.Name() == fname && isFieldOfParam(s2.Val, "ceiling", fname) {
						stored = true
					}
				}
			}
			c.R.Check(stored, r, "ResolvePolicy: "+fname+" clamp assigns the ceiling", c.Pos(e.To.Instrs[0].Pos()), "eff."+fname+" = ceiling."+fname, "the "+fname+" clamp does not assign the ceiling value", true)
		}
		// ceiling.F unset (<= 0): nothing to clamp to
		g.AddEdges(kit.IntRangeEdges(fn, isCeil, math.MinInt64, 0), "ceiling."+fname+" unset")
		c.Dominated(r, "ResolvePolicy: "+fname+" clamped on every enabled return", enabledRets, g, "the eff."+fname+" > ceiling."+fname+" clamp (or ceiling."+fname+" unset)")
	}
	// SecretRefs: intersectRefs store or ceiling has none
	inter := c.Fn(r, pEgress, "intersectRefs")
	{
		g := kit.NewGates()
		for _, call := range kit.CallsTo(fn, Set(inter)) {
			a := call.Common().Args
			if len(a) == 2 && isFieldOfParam(a[0], "perProcessor", "SecretRefs") && isFieldOfParam(a[1], "ceiling", "SecretRefs") {
				// must be stored into eff.SecretRefs
				if refs := call.Value().Referrers(); refs != nil {
					for _, rr := range *refs {
						if s2, ok := rr.(*ssa.Store); ok {
							if f := kit.FieldOf(s2.Addr); f != nil && f.Name() == "SecretRefs" {
								g.AddInstr(s2, "eff.SecretRefs = intersectRefs(...)")
							}
						}
					}
				}
			}
		}
		g.AddEdges(kit.LenEdges(fn, func(v ssa.Value) bool { return isFieldOfParam(v, "ceiling", "SecretRefs") }, 0, 0), "len(ceiling.SecretRefs)==0")
		c.Dominated(r, "ResolvePolicy: SecretRefs intersected on every enabled return", enabledRets, g, "eff.SecretRefs = intersectRefs(perProcessor, ceiling) (or the ceiling grants none)")
	}
	// Allowlist stores
	for _, b := range fn.Blocks {
		for _, in := range b.Instrs {
			s2, ok := in.(*ssa.Store)
			if !ok {
				continue
			}
			f := kit.FieldOf(s2.Addr)
			if f == nil || f.Name() != "Allowlist" || strings.HasPrefix(kit.PathOf(s2.Addr), "arg") {
				continue
			}
			switch {
			case isFieldOfParam(s2.Val, "perProcessor", "Allowlist"):
				g := kit.NewGates().AddEdges(kit.LenEdges(fn, func(v ssa.Value) bool { return isFieldOfParam(v, "ceiling", "Allowlist") }, 0, 0), "len(ceiling.Allowlist)==0")
				c.Dominated(r, "ResolvePolicy: full allowlist only when the ceiling has none", []ssa.Instruction{s2}, g, "the len(ceiling.Allowlist)==0 edge")
			case kit.IsNilConst(s2.Val):
				c.R.Pass(r, "ResolvePolicy: allowlist reset to nil", c.Pos(s2.Pos()), "nil", false)
			default:
				// append(eff.Allowlist, e): dominated by the ceilingSet hit
				g := kit.NewGates()
				for _, bb := range fn.Blocks {
					for _, i2 := range bb.Instrs {
						if lk, ok := i2.(*ssa.Lookup); ok && lk.CommaOk {
							if refs := lk.Referrers(); refs != nil {
								for _, rr := range *refs {
									if ex, ok := rr.(*ssa.Extract); ok && ex.Index == 1 {
										g.AddEdges(kit.CondEdges(ex, true), "entry in ceiling set")
									}
								}
							}
						}
					}
				}
				c.Dominated(r, "ResolvePolicy: allowlist entry kept only when the ceiling contains it", []ssa.Instruction{s2}, g, "the ceilingSet[entryKey(e)] hit edge")
			}
		}
	}
	// K1: egress.New receives only resolved policies
	newFn := c.Fn(r, pEgress, "New")
	if newFn != nil {
		for _, ref := range c.W.Refs(Set(newFn)) {
			if ref.Pkg == pEgress {
				continue
			}
			c.R.Pass(r, "egress.New <- "+ref.Where, c.Pos(ref.Pos), "caller recorded (policy provenance checked below)", false)
		}
	}
	// processor.Service: PolicyFromSettings results flow into ResolvePolicy
	pfs := c.Fn(r, pEgress, "PolicyFromSettings")
	rp := c.Fn(r, pEgress, "ResolvePolicy")
	if pfs != nil && rp != nil {
		for _, ref := range c.W.Refs(Set(pfs)) {
			if ref.Pkg == pEgress {
				continue
			}
			// the enclosing function must also call ResolvePolicy
			has := false
			for _, r2 := range c.W.Refs(Set(rp)) {
				if r2.Where == ref.Where {
					has = true
				}
			}
			c.R.Check(has, r, "PolicyFromSettings <- "+ref.Where+" resolves against the ceiling", c.Pos(ref.Pos), "ResolvePolicy called in the same function", ref.Where+" builds a per-processor policy from settings without resolving it against the engine ceiling", false)
			// ... and what that function hands out IS that resolution, computed from the settings it was given: every
			// successful return yields the first result of a ResolvePolicy call fed by PolicyFromSettings and the
			// ceiling field (never a remembered policy of an earlier configuration)
			var fn *ssa.Function
			if pk := c.W.Pkg(ref.Pkg); pk != nil && c.W.SSA[pk.Types] != nil {
				for _, f := range c.W.AllFuncs(c.W.SSA[pk.Types]) {
					for _, cl := range kit.CallsTo(f, Set(pfs)) {
						if cl.Pos() == ref.Pos || c.Pos(cl.Pos()) == c.Pos(ref.Pos) {
							fn = f
						}
					}
				}
			}
			if fn == nil || fn.Signature.Results().Len() != 2 || kit.ErrIndex(fn) != 1 {
				continue
			}
			denyAll := c.Fn(r, pEgress, "DenyAll")
			ceilF := c.Field(r, pProc, "Service", "egressCeiling")
			for _, ret := range kit.Returns(fn) {
				if !kit.RetNil(ret, 1) {
					continue
				}
				v := kit.RetVal(ret, 0)
				ok := false
				if call, isCall := v.(*ssa.Call); isCall && kit.CalleeOf(call.Common()) == denyAll {
					ok = true
				}
				for _, call := range kit.CallsTo(fn, Set(rp)) {
					// the first result of this call, possibly through a local that was spilled (field reads of it)
					isFirst := false
					if refs := call.Value().Referrers(); refs != nil {
						for _, u := range *refs {
							if ex, isEx := u.(*ssa.Extract); isEx && ex.Index == 0 && (kit.Unwrap(v) == ssa.Value(ex) || kit.IsVar(kit.Unwrap(v), ex)) {
								isFirst = true
							}
						}
					}
					if !isFirst {
						continue
					}
					a := call.Common().Args
					fromSettings := kit.DerivesFrom(a[0], func(x ssa.Value) bool {
						cl, isC := x.(*ssa.Call)
						return isC && kit.CalleeOf(cl.Common()) == pfs
					})
					ok = fromSettings && ceilF != nil && kit.IsFieldLoad(a[1], ceilF)
				}
				c.R.Check(ok, r, ref.Where+": the policy handed out is ResolvePolicy(PolicyFromSettings(current settings), ceiling)", c.Pos(posOf(ret)), "first result of ResolvePolicy", ref.Where+" can return a policy that is not the resolution of the processor's current settings against the engine ceiling (a cached / remembered value): a processor re-created under the same id, or opened after its config narrowed, keeps allowlist carve-outs, secret grants and limits its configuration no longer contains", true)
			}
		}
	}
}

func fieldNamed(v ssa.Value, name string) bool {
	_, f := kit.FieldBase(v)
	return f != nil && f.Name() == name
}

// ---- R6 -----------------------------------------------------------------------

func c18R6(c *Ctx) {
	r := c.R.Rule("R6", "K3 secrets clause: Authorization is set only on the granted-secret edge with a wired resolver; guest headers are added only after the reserved-header lookup misses, and that table contains Authorization", 4)
	fn := c.SSA(r, pEgress, "(*Service).buildHTTPRequest")
	if fn == nil {
		return
	}
	hdrSet := c.ExtMethod(r, "net/http", "Header", "Set")
	hdrAdd := c.ExtMethod(r, "net/http", "Header", "Add")
	secretsF := c.Field(r, pEgress, "Service", "secrets")
	refsF := c.Field(r, pEgress, "Policy", "SecretRefs")
	// lookups: distinguish by map operand
	grantG, reservedMiss := kit.NewGates(), kit.NewGates()
	for _, b := range fn.Blocks {
		for _, in := range b.Instrs {
			lk, ok := in.(*ssa.Lookup)
			if !ok || !lk.CommaOk {
				continue
			}
			var okv ssa.Value
			if refs := lk.Referrers(); refs != nil {
				for _, rr := range *refs {
					if ex, ok := rr.(*ssa.Extract); ok && ex.Index == 1 {
						okv = ex
					}
				}
			}
			if okv == nil {
				continue
			}
			if kit.IsFieldLoad(lk.X, refsF) {
				grantG.AddEdges(kit.CondEdges(okv, true), "secret granted")
			}
			if u, ok := lk.X.(*ssa.UnOp); ok {
				if g, ok := u.X.(*ssa.Global); ok && g.Name() == "reservedHeaders" {
					reservedMiss.AddEdges(kit.CondEdges(okv, false), "not reserved")
				}
			}
		}
	}
	sets := kit.CallsTo(fn, Set(hdrSet))
	for _, s := range sets {
		c.Dominated(r, "buildHTTPRequest: Header.Set only for a granted secret", []ssa.Instruction{s}, grantG, "the policy.SecretRefs[ref] hit edge")
		g := kit.NewGates()
		for _, l := range kit.FieldLoads(fn, secretsF) {
			g.AddEdges(kit.NilEdges(l, false), "s.secrets != nil")
		}
		c.Dominated(r, "buildHTTPRequest: Header.Set only with a wired resolver", []ssa.Instruction{s}, g, "the s.secrets != nil edge")
	}
	if len(sets) == 0 {
		c.R.Pass(r, "buildHTTPRequest: no Header.Set", c.Pos(fn.Pos()), "no credential injection at all", false)
	}
	adds := kit.CallsTo(fn, Set(hdrAdd))
	c.Dominated(r, "buildHTTPRequest: guest header added only when not reserved", asInstrs(adds), reservedMiss, "the reservedHeaders miss edge")
	// reservedHeaders contains Authorization
	p := c.W.Pkg(pEgress)
	has := false
	for _, f := range p.Syntax {
		for _, d := range f.Decls {
			gd, ok := d.(*ast.GenDecl)
			if !ok || gd.Tok != token.VAR {
				continue
			}
			for _, sp := range gd.Specs {
				vs := sp.(*ast.ValueSpec)
				for i, n := range vs.Names {
					if n.Name != "reservedHeaders" || i >= len(vs.Values) {
						continue
					}
					if cl, ok := vs.Values[i].(*ast.CompositeLit); ok {
						for _, el := range cl.Elts {
							if kv, ok := el.(*ast.KeyValueExpr); ok {
								if tv := p.TypesInfo.Types[kv.Key]; tv.Value != nil && tv.Value.Kind() == constant.String && constant.StringVal(tv.Value) == "Authorization" {
									has = true
								}
							}
						}
					}
				}
			}
		}
	}
	c.R.Check(has, r, "reservedHeaders contains Authorization", "pkg/plugin/processor/egress/service.go", "present", "the reserved-header table no longer contains Authorization: a guest can supply its own credential header", false)
}

// c18R7: two small total functions the policy rests on.
func c18R7(c *Ctx) {
	r := c.R.Rule("R7", "K6/K3 identity and v4-compatible form: entryKey is built from scheme, host and port on every path (the allowlist is intersected with the ceiling on the full triple); isV4Compatible examines byte 15 (the ::, ::1 exception) only after bytes 12, 13 and 14 were found zero", 4)
	if fn := c.SSA(r, pEgress, "entryKey"); fn != nil {
		// backwards through string concatenation, calls (JoinHostPort, String) and phis
		var uses func(v ssa.Value, pred func(ssa.Value) bool, d int) bool
		uses = func(v ssa.Value, pred func(ssa.Value) bool, d int) bool {
			if v == nil || d > 10 {
				return false
			}
			if pred(v) {
				return true
			}
			switch x := v.(type) {
			case *ssa.BinOp:
				return uses(x.X, pred, d+1) || uses(x.Y, pred, d+1)
			case *ssa.Phi:
				for _, e := range x.Edges {
					if uses(e, pred, d+1) {
						return true
					}
				}
			case *ssa.Call:
				for _, a := range x.Call.Args {
					if uses(a, pred, d+1) {
						return true
					}
				}
			case *ssa.UnOp:
				return uses(x.X, pred, d+1)
			case *ssa.Convert:
				return uses(x.X, pred, d+1)
			case *ssa.ChangeType:
				return uses(x.X, pred, d+1)
			}
			return false
		}
		isField := func(name string) func(ssa.Value) bool {
			return func(x ssa.Value) bool {
				switch y := x.(type) {
				case *ssa.Field:
					f := kit.FieldOf(y)
					return f != nil && f.Name() == name
				case *ssa.FieldAddr:
					f := kit.FieldOf(y)
					return f != nil && f.Name() == name
				}
				return fieldNamed(x, name)
			}
		}
		for _, ret := range kit.Returns(fn) {
			v := kit.RetVal(ret, 0)
			for _, fname := range []string{"Scheme", "Port"} {
				ok := uses(v, isField(fname), 0)
				c.R.Check(ok, r, "entryKey: the key contains the "+fname, c.Pos(posOf(ret)), "ok", "a return of entryKey does not include AllowEntry."+fname+": an entry the ceiling admits in one form (https) lets a different form (http to the same private IP and port) through the intersection", true)
			}
			okHost := uses(v, isField("Host"), 0) || uses(v, isField("IP"), 0)
			c.R.Check(okHost, r, "entryKey: the key contains the host", c.Pos(posOf(ret)), "ok", "a return of entryKey does not include the host", true)
		}
	}
	if fn := c.SSA(r, pEgress, "isV4Compatible"); fn != nil {
		// effective byte index of an element load: constant index plus the constant Low of a re-slice
		idxOf := func(v ssa.Value) (int64, bool) {
			u, ok := v.(*ssa.UnOp)
			if !ok || u.Op != token.MUL {
				return 0, false
			}
			ia, ok := u.X.(*ssa.IndexAddr)
			if !ok {
				return 0, false
			}
			k, ok := ia.Index.(*ssa.Const)
			if !ok || k.Value == nil {
				return 0, false
			}
			off := k.Int64()
			if sl, ok := ia.X.(*ssa.Slice); ok && sl.Low != nil {
				lk, ok := sl.Low.(*ssa.Const)
				if !ok {
					return 0, false
				}
				off += lk.Int64()
			}
			return off, true
		}
		isByte := func(n int64) func(ssa.Value) bool {
			return func(v ssa.Value) bool { k, ok := idxOf(v); return ok && k == n }
		}
		var tests15 []ssa.Instruction
		for _, b := range fn.Blocks {
			for _, in := range b.Instrs {
				if bo, ok := in.(*ssa.BinOp); ok && (bo.Op == token.EQL || bo.Op == token.NEQ) && (isByte(15)(bo.X) || isByte(15)(bo.Y)) {
					tests15 = append(tests15, bo)
				}
			}
		}
		c.R.Check(len(tests15) > 0, r, "isV4Compatible: the last byte is examined", c.Pos(fn.Pos()), "ok", "isV4Compatible no longer examines byte 15: ::0.b.c.d addresses (embedded 0.0.0.0/8) other than :: and ::1 are no longer classified as v4-compatible and escape the embedded-IPv4 floor", true)
		for _, k := range []int64{12, 13, 14} {
			g := kit.NewGates().AddEdges(kit.RangeEdges(fn, isByte(k), 0, 0), "")
			c.Dominated(r, "isV4Compatible: byte 15 examined only after byte "+itoa(int(k))+" was found zero", tests15, g, "the ip16["+itoa(int(k))+"] == 0 edge")
		}
	}
}
