package rules

import (
	"go/token"
	"go/types"
	"sort"

	"conduitlint/kit"

	"golang.org/x/tools/go/ssa"
)

func init() {
	register(&Property{
		ID:          "C06",
		Run:         runC06,
		Explanation: "Decides the structural clauses of a draining graceful stop: (R1) v1 source and destination nodes register, on the Open success edge, a deferred teardown that waits for all open messages first (destination: stop → wait → teardown), every tracked message is added to the tracker before it is sent on, and status handlers run newest-first so the tracker's Done is the last step of an ack; (R2) every Open has its Close/Teardown on all exits (DLQ handler, processor node, v2 worker rollback, idempotent source teardown under its mutex); (R3) StopAndWait = Stop[ok] → WaitPipeline[ok] → WaitPersisted → nil in both engines; (R4) v2 Worker.Stop takes the processing lock before arming the stop flag and tearing the source down, and a batch is discarded only after the lock was acquired; (R5 = C02.R7) Source.Teardown's flush → drain → stop order; (R6) the stop position is fetched and recorded before the stop control message is injected; (R7) every flush generation of the persister completes (callbacks run, callbacksDone closed) on every exit of flushNow; (R8) no send on the node error channel reachable from a persister flush callback can block (non-blocking select on a buffered channel), so the final flush after the node stopped cannot hang Persister.Wait / stop-and-wait; (R9) the v1 fan-in reports end-of-stream only once every input channel is closed, so records held upstream of it are still forwarded during a drain. Rules added later (after independent seeded changes and defect hunts) are not all enumerated here: every armed rule is listed with its description, kind and instance count under coverage.rules.",
		NotDecided:  []string{"that the drain terminates in general (liveness beyond R7)", "timing of debounce timers", "plugin behaviour"},
		Assumptions: []string{"sync.WaitGroup, rollback.R (Append/Skip/Execute) semantics", "deferred functions run in LIFO order on every exit"},
	})
}

func runC06(c *Ctx) {
	c06R1(c)
	c06R2(c)
	c06R3(c)
	c06R4(c)
	c02TeardownOrder(c, c.R.Rule("R5", "K3 (= C02.R7) Source.Teardown: flush → wait → close queue → drain → stop stream → join → plugin teardown", 9))
	c06R6(c)
	c06R7(c)
	c06R13(c)
	c06R8(c)
	c06R9(c)
	c09R2As(c, c.R.Rule("R11", "K13 (= C09.R2) v1 destination acker: surplus acks of a multi-ack response are kept across worker wake-ups (the ack buffer is declared once, outside the signal loop) and acks[0] is indexed only on a non-empty batch — a dropped surplus ack leaves a delivered record open for ever", 1))
	c06R12(c)
	msgNotDropped(c, c.R.Rule("R10", "K4 no message forgotten (v1): every stream node function that receives a *Message sends it on, hands it to another function, acks it or nacks it on every path before it exits or receives the next one", 8))
}

// deferredClosures returns the defer instructions of fn whose deferred function
// literal contains a call to one of set.
func deferredClosures(fn *ssa.Function, set kit.FuncSet) []*ssa.Defer {
	var out []*ssa.Defer
	for _, b := range fn.Blocks {
		for _, in := range b.Instrs {
			d, ok := in.(*ssa.Defer)
			if !ok {
				continue
			}
			if mc, ok := d.Call.Value.(*ssa.MakeClosure); ok {
				if len(kit.CallsTo(mc.Fn.(*ssa.Function), set)) > 0 {
					out = append(out, d)
				}
			} else if set.Has(kit.CalleeOf(&d.Call)) {
				out = append(out, d)
			}
		}
	}
	return out
}

func closureOf(d *ssa.Defer) *ssa.Function {
	if mc, ok := d.Call.Value.(*ssa.MakeClosure); ok {
		return mc.Fn.(*ssa.Function)
	}
	return nil
}

// pairedOnAllExits checks: the defer d is registered only on the success edge
// of open, and every exit after that success edge runs it.
func (c *Ctx) pairedOnAllExits(r, key string, fn *ssa.Function, open []ssa.CallInstruction, ds []*ssa.Defer, what string) {
	if len(open) == 0 {
		c.R.Fail(r, key+": open call", c.Pos(fn.Pos()), "the Open call was not found")
		return
	}
	if len(ds) == 0 {
		c.R.Fail(r, key+": deferred "+what, c.Pos(fn.Pos()), "no deferred "+what+" found: a successful Open is not paired with a "+what+" on every exit")
		return
	}
	dg := map[*ssa.Defer]bool{}
	for _, d := range ds {
		dg[d] = true
	}
	for _, oc := range open {
		for _, e := range kit.OKEdges(oc) {
			ok, exit := kit.AllExitsFromEdge(e, false, kit.ExitSpec{DeferGates: dg, IncludePanic: true})
			c.R.Check(ok, r, key+": every exit after a successful Open runs the deferred "+what, c.Pos(oc.Pos()), "paired", "an exit (block "+fmtInts(exit)+") after the Open success edge does not run the deferred "+what+": the opened connector/processor is never torn down", true)
		}
	}
}

func c06R1(c *Ctx) {
	r := c.R.Rule("R1", "K3/K4 v1 drain-before-teardown: deferred teardown registered on the Open success edge waits for open messages first; tracked messages are added before being sent on; status handlers run newest-first", 10)
	wait := Set(c.Fn(r, pStream, "(*OpenMessagesTracker).Wait"))
	add := Set(c.Fn(r, pStream, "(*OpenMessagesTracker).Add"))
	send := Set(c.Fn(r, pStream, "(*pubSubNodeBase).Send"), c.Fn(r, pStream, "(*pubNodeBase).Send"))
	// source node
	if fn := c.SSA(r, pStream, "(*SourceNode).Run"); fn != nil {
		open := c.Fam(c.Fn(r, pStream, "Source.Open"))
		td := c.Fam(c.Fn(r, pStream, "Source.Teardown"))
		ds := deferredClosures(fn, td)
		c.pairedOnAllExits(r, "SourceNode.Run", fn, kit.CallsTo(fn, open), ds, "teardown")
		for _, d := range ds {
			c.Dominated(r, "SourceNode.Run: teardown deferred only after Open succeeded", []ssa.Instruction{d}, okGates(kit.CallsTo(fn, open), ""), "the Source.Open success edge")
			if cl := closureOf(d); cl != nil {
				g := kit.NewGates()
				for _, w := range kit.CallsTo(cl, wait) {
					g.AddInstr(w, "openMsgTracker.Wait()")
				}
				c.Dominated(r, "SourceNode.Run: open messages awaited before Source.Teardown", asInstrs(kit.CallsTo(cl, td)), g, "openMsgTracker.Wait()")
			}
		}
		// Add(msg) before Send(msg)
		for _, s := range kit.CallsTo(fn, send) {
			msg := s.Common().Args[len(s.Common().Args)-1]
			g := kit.NewGates()
			for _, a := range kit.CallsTo(fn, add) {
				if a.Common().Args[1] == msg {
					g.AddInstr(a, "openMsgTracker.Add(msg)")
				}
			}
			c.Dominated(r, "SourceNode.Run: message tracked before it is sent on", []ssa.Instruction{s}, g, "openMsgTracker.Add(msg) for the same message")
		}
	}
	// destination node
	if fn := c.SSA(r, pStream, "(*DestinationNode).Run"); fn != nil {
		open := c.Fam(c.Fn(r, pStream, "Destination.Open"))
		td := c.Fam(c.Fn(r, pStream, "Destination.Teardown"))
		stop := c.Fam(c.Fn(r, pStream, "Destination.Stop"))
		ds := deferredClosures(fn, td)
		c.pairedOnAllExits(r, "DestinationNode.Run", fn, kit.CallsTo(fn, open), ds, "teardown")
		for _, d := range ds {
			c.Dominated(r, "DestinationNode.Run: teardown deferred only after Open succeeded", []ssa.Instruction{d}, okGates(kit.CallsTo(fn, open), ""), "the Destination.Open success edge")
			if cl := closureOf(d); cl != nil {
				c.Sequence(r, "DestinationNode.Run teardown", cl, []Event{
					{Name: "Destination.Stop", Instrs: asInstrs(kit.CallsTo(cl, stop))},
					{Name: "openMsgTracker.Wait", Instrs: asInstrs(kit.CallsTo(cl, wait))},
					{Name: "Destination.Teardown", Instrs: asInstrs(kit.CallsTo(cl, td))},
				})
			}
		}
		filteredF := c.Field(r, pStream, "Message", "filtered")
		for _, s := range kit.CallsTo(fn, send) {
			msg := s.Common().Args[len(s.Common().Args)-1]
			g := kit.NewGates()
			for _, a := range kit.CallsTo(fn, add) {
				if a.Common().Args[1] == msg {
					g.AddInstr(a, "openMsgTracker.Add(msg)")
				}
			}
			for _, l := range kit.FieldLoads(fn, filteredF) {
				g.AddEdges(kit.CondEdges(l, true), "msg.filtered (never written, nothing to await)")
			}
			c.Dominated(r, "DestinationNode.Run: written message tracked before it is sent on", []ssa.Instruction{s}, g, "openMsgTracker.Add(msg) (or the filtered edge)")
		}
	}
	// handler order
	if fn := c.SSA(r, pStream, "(*Message).RegisterStatusHandler"); fn != nil {
		found := false
		for _, lit := range kit.WithAnon(fn)[1:] {
			var hCalls, nextCalls []ssa.Instruction
			for _, b := range lit.Blocks {
				for _, in := range b.Instrs {
					call, ok := in.(*ssa.Call)
					if !ok || call.Call.IsInvoke() {
						continue
					}
					v := call.Call.Value
					if u, ok := v.(*ssa.UnOp); ok {
						v = u.X
					}
					fv, ok := v.(*ssa.FreeVar)
					if !ok {
						continue
					}
					switch fv.Name() {
					case "h":
						hCalls = append(hCalls, in)
					case "next":
						nextCalls = append(nextCalls, in)
					}
				}
			}
			if len(hCalls) == 0 || len(nextCalls) == 0 {
				continue
			}
			found = true
			g := kit.NewGates()
			for _, h := range hCalls {
				g.AddInstr(h, "h(msg, change)")
			}
			c.Dominated(r, "RegisterStatusHandler: the newest handler runs before the earlier ones", nextCalls, g, "the call of the newly registered handler")
		}
		c.R.Check(found, r, "RegisterStatusHandler: handler chain", c.Pos(fn.Pos()), "found", "the handler-chaining closure (h then next) was not found", false)
	}
}

func c06R2(c *Ctx) {
	r := c.R.Rule("R2", "K4 open/close pairing: DLQ handler, processor node, v2 worker rollback and idempotent source teardown", 8)
	if fn := c.SSA(r, pStream, "(*DLQHandlerNode).Run"); fn != nil {
		open := c.Fam(c.Fn(r, pStream, "DLQHandler.Open"))
		cl := c.Fam(c.Fn(r, pStream, "DLQHandler.Close"))
		c.pairedOnAllExits(r, "DLQHandlerNode.Run", fn, kit.CallsTo(fn, open), deferredClosures(fn, cl), "close")
	}
	if fn := c.SSA(r, pStream, "(*ProcessorNode).Run"); fn != nil {
		td := c.Fam(c.Fn(r, pStream, "Processor.Teardown"))
		tdr := Set(c.Fn(r, pStream, "teardownForReconfigure"))
		ds := append(deferredClosures(fn, td), deferredClosures(fn, tdr)...)
		open := kit.CallsTo(fn, c.Fam(c.Fn(r, pStream, "Processor.Open")))
		// accepted idiom: the deferred teardown is registered before Open
		okReg := len(ds) > 0 && len(open) > 0
		for _, o := range open {
			g := kit.NewGates()
			for _, d := range ds {
				g.AddInstr(d, "")
			}
			if ok, _ := kit.MustPass(o, g); !ok {
				okReg = false
			}
		}
		c.R.Check(okReg, r, "ProcessorNode.Run: processor teardown deferred before Open", c.Pos(fn.Pos()), "paired", "ProcessorNode.Run opens its processor without a deferred teardown registered first", true)
	}
	if fn := c.SSA(r, pFunnel, "(*Worker).Open"); fn != nil {
		taskOpen := c.Fam(c.Fn(r, pFunnel, "Task.Open"))
		appendM := c.W.ExtMethod("github.com/conduitio/conduit-commons/rollback", "R", "Append")
		skipM := c.W.ExtMethod("github.com/conduitio/conduit-commons/rollback", "R", "Skip")
		execM := c.W.ExtMethod("github.com/conduitio/conduit-commons/rollback", "R", "Execute")
		if appendM == nil || skipM == nil || execM == nil {
			c.R.Unresolved(r, "rollback.R.{Append,Skip,Execute}")
		} else {
			// `for task := range Tasks()` is a range-over-func loop: its body is a synthetic closure. Find the function that holds the Open calls.
			nOpen := 0
			okClose := false
			for _, body := range kit.WithAnon(fn) {
				for _, o := range kit.CallsTo(body, taskOpen) {
					nOpen++
					g := kit.NewGates()
					for _, a := range kit.CallsTo(body, Set(appendM)) {
						g.AddInstr(a, "r.Append(task.Close)")
					}
					for _, e := range kit.OKEdges(o) {
						ok, exit := kit.AllExitsFromEdge(e, false, kit.ExitSpec{Gates: g})
						c.R.Check(ok, r, "Worker.Open: every opened task gets its Close appended to the rollback", c.Pos(o.Pos()), "r.Append after Open[ok]", "a task opened successfully is not registered for rollback before the loop continues/returns (exit "+fmtInts(exit)+"): if a later task fails to open, this one stays open", true)
					}
				}
				for _, a := range kit.CallsTo(body, Set(appendM)) {
					if mc, ok := a.Common().Args[len(a.Common().Args)-1].(*ssa.MakeClosure); ok {
						if len(kit.CallsTo(mc.Fn.(*ssa.Function), c.Fam(c.Fn(r, pFunnel, "Task.Close")))) > 0 {
							okClose = true
						}
					}
				}
			}
			c.R.Check(nOpen > 0, r, "Worker.Open: task Open calls found", c.Pos(fn.Pos()), "ok", "no task.Open call found in Worker.Open", false)
			c.R.Check(okClose, r, "Worker.Open: the rollback closes the task", c.Pos(fn.Pos()), "task.Close", "the function appended to the rollback does not close the task", true)
			// F36: SourceTask.Close is a no-op — the source plugin is torn down by the worker (tearDownSource), so the
			// rollback has to do that too, or a source opened here stays running when a later task / the DLQ fails
			okTD := false
			if td := c.Fn(r, pFunnel, "(*Worker).tearDownSource"); td != nil {
				for _, body := range kit.WithAnon(fn) {
					for _, a := range kit.CallsTo(body, Set(appendM)) {
						if mc, ok := a.Common().Args[len(a.Common().Args)-1].(*ssa.MakeClosure); ok {
							if len(kit.CallsTo(mc.Fn.(*ssa.Function), Set(td))) > 0 {
								okTD = true
							}
						}
					}
				}
			}
			c.R.Check(okTD, r, "Worker.Open: the rollback tears the opened source down", c.Pos(fn.Pos()), "r.Append(w.tearDownSource)", "Worker.Open's rollback only calls task.Close, and SourceTask.Close does not tear the source down (the worker does, in tearDownSource): when a later task or the DLQ fails to open, the source plugin keeps running and the connector stays marked as running — every later Start fails with 'connector is running' and Persister.Wait never returns", true)
			dlqOpen := Set(c.Fn(r, pFunnel, "(*DLQ).Open"))
			c.Dominated(r, "Worker.Open: rollback skipped only after everything opened", asInstrs(kit.CallsTo(fn, Set(skipM))), okGates(kit.CallsTo(fn, dlqOpen), ""), "the DLQ.Open success edge")
			c.R.Check(len(deferredClosures(fn, Set(execM))) == 1, r, "Worker.Open: rollback executed by defer", c.Pos(fn.Pos()), "defer r.Execute()", "the rollback is not executed by a deferred function", true)
		}
	}
	if fn := c.SSA(r, pFunnel, "(*Worker).tearDownSource"); fn != nil {
		tornF := c.Field(r, pFunnel, "Worker", "sourceTornDown")
		td := c.Fam(c.Fn(r, pFunnel, "Source.Teardown"))
		c.Dominated(r, "tearDownSource: marked torn down only after Teardown succeeded", storesToField(fn, tornF, func(v ssa.Value) bool { return kit.IsBoolConst(v, true) }), okGates(kit.CallsTo(fn, td), ""), "the Source.Teardown success edge")
		g := kit.NewGates()
		for _, l := range kit.FieldLoads(fn, tornF) {
			g.AddEdges(kit.CondEdges(l, false), "!sourceTornDown")
		}
		c.Dominated(r, "tearDownSource: at most one successful teardown", asInstrs(kit.CallsTo(fn, td)), g, "the !sourceTornDown edge")
		c.Guarded(r, fn, nil, "teardownMu", []*types.Var{tornF}, nil)
	}
	// v2 worker goroutine: Close on every exit after Do
	if fn := c.SSA(r, pFunnel, "(*Worker).Close"); fn != nil {
		c.R.Check(len(kit.CallsTo(fn, Set(c.Fn(r, pFunnel, "(*Worker).tearDownSource")))) == 1 && len(kit.CallsTo(fn, Set(c.Fn(r, pFunnel, "(*DLQ).Close")))) == 1, r, "Worker.Close: tears the source down and closes the DLQ", c.Pos(fn.Pos()), "ok", "Worker.Close no longer tears down the source and closes the DLQ", true)
	}
}

func c06R3(c *Ctx) {
	c06StopAndWait(c, c.R.Rule("R3", "K3 StopAndWait = Stop[ok] → WaitPipeline[ok] → WaitPersisted[completed] → return nil (both engines)", 8))
}

func c06StopAndWait(c *Ctx, r string) {
	for _, rel := range []string{pLife, pLife2} {
		fn := c.SSA(r, rel, "(*Service).StopAndWait")
		if fn == nil {
			continue
		}
		stop := Set(c.Fn(r, rel, "(*Service).Stop"))
		waitP := Set(c.Fn(r, rel, "(*Service).WaitPipeline"))
		var persisted kit.FuncSet
		if m := c.W.LookupFunc(rel, "ConnectorService.WaitPersisted"); m != nil {
			persisted = c.Fam(m)
		} else {
			c.R.Unresolved(r, rel+".ConnectorService.WaitPersisted")
			continue
		}
		// the wait calls may sit in closures handed to a bounded-wait helper: locate the instruction in fn that (directly or via such a closure) performs the call
		locate := func(set kit.FuncSet) []ssa.Instruction {
			var out []ssa.Instruction
			for _, call := range kit.CallsTo(fn, set) {
				out = append(out, call)
			}
			for _, b := range fn.Blocks {
				for _, in := range b.Instrs {
					call, ok := in.(*ssa.Call)
					if !ok {
						continue
					}
					for _, a := range call.Call.Args {
						if mc, ok := a.(*ssa.MakeClosure); ok && len(kit.CallsTo(mc.Fn.(*ssa.Function), set)) > 0 {
							out = append(out, in)
						}
					}
				}
			}
			return out
		}
		stops := kit.CallsTo(fn, stop)
		waits := locate(waitP)
		pers := locate(persisted)
		if len(stops) == 0 || len(waits) == 0 || len(pers) == 0 {
			c.R.Fail(r, rel+".StopAndWait: steps", c.Pos(fn.Pos()), "Stop / WaitPipeline / WaitPersisted not all found in StopAndWait: a nil return would no longer mean 'drained and durable'")
			continue
		}
		c.Dominated(r, rel+".StopAndWait: WaitPipeline only after Stop succeeded", waits, okGates(stops, ""), "the Stop success edge")
		gW := kit.NewGates()
		for _, w := range waits {
			if ci, ok := w.(ssa.CallInstruction); ok {
				gW.AddEdges(kit.OKEdges(ci), "")
			}
		}
		c.Dominated(r, rel+".StopAndWait: WaitPersisted only after the pipeline stopped cleanly", pers, gW, "the WaitPipeline success edge")
		nilRets, _ := kit.NilReturns(fn)
		gP := kit.NewGates()
		for _, p := range pers {
			// a bounded wait reports whether the barrier was reached: only its success edge counts
			if ci, ok := p.(ssa.CallInstruction); ok && ci.Value() != nil && kit.ErrIndexOfCall(ci) >= 0 {
				gP.AddEdges(kit.OKEdges(ci), "WaitPersisted completed")
				continue
			}
			gP.AddInstr(p, "WaitPersisted")
		}
		if len(nilRets) == 0 {
			c.R.Fail(r, rel+".StopAndWait: return nil", c.Pos(fn.Pos()), "no `return nil`")
		}
		c.Dominated(r, rel+".StopAndWait: nil only after WaitPersisted", asInstrs(nilRets), gP, "connectors.WaitPersisted()")
		// graceful (force=false)
		for _, s := range stops {
			a := s.Common().Args
			c.R.Check(kit.IsBoolConst(a[len(a)-1], false), r, rel+".StopAndWait: graceful stop", c.Pos(s.Pos()), "force=false", "StopAndWait issues a force stop", true)
		}
	}
}

func c06R4(c *Ctx) {
	r := c.R.Rule("R4", "K3 v2 batch not abandoned: Worker.Stop acquires the processing lock before arming the stop flag and tearing the source down; the first task acquires the lock (deferred release) before deciding to discard or process a batch", 6)
	acq := Set(c.Fn(r, pFunnel, "(*Worker).acquireProcessingLock"))
	stopF := c.Field(r, pFunnel, "Worker", "stop")
	store := c.W.ExtMethod("sync/atomic", "Bool", "Store")
	load := c.W.ExtMethod("sync/atomic", "Bool", "Load")
	isStop := func(call ssa.CallInstruction) bool {
		a := call.Common().Args
		return len(a) >= 1 && kit.SameField(kit.FieldOf(a[0]), stopF)
	}
	if fn := c.SSA(r, pFunnel, "(*Worker).Stop"); fn != nil {
		var stores, tds []ssa.Instruction
		for _, call := range kit.CallsTo(fn, Set(store)) {
			if isStop(call) && kit.IsBoolConst(call.Common().Args[1], true) {
				stores = append(stores, call)
			}
		}
		tds = asInstrs(kit.CallsTo(fn, Set(c.Fn(r, pFunnel, "(*Worker).tearDownSource"))))
		c.Sequence(r, "Worker.Stop", fn, []Event{
			{Name: "acquireProcessingLock", Instrs: asInstrs(kit.CallsTo(fn, acq))},
			{Name: "stop.Store(true)", Instrs: stores},
			{Name: "tearDownSource", Instrs: tds},
		})
		c.Dominated(r, "Worker.Stop: stop armed only with the processing lock held", stores, okGates(kit.CallsTo(fn, acq), ""), "the acquireProcessingLock success edge")
	}
	if fn := c.SSA(r, pFunnel, "(*Worker).doTaskAttempt"); fn != nil {
		acqs := kit.CallsTo(fn, acq)
		c.R.Check(len(acqs) == 1, r, "doTaskAttempt: first task takes the processing lock", c.Pos(fn.Pos()), "ok", "doTaskAttempt no longer acquires the processing lock for the first task", true)
		// the discard decision (stop.Load() after a successful read) is taken with the lock held: every stop.Load whose true edge leads to `return nil` without acking... simply: every stop.Load not on the error path of Do is dominated by the acquire success edge.
		do := c.Fam(c.Fn(r, pFunnel, "Task.Do"))
		var doOK []kit.Edge
		for _, d := range kit.CallsTo(fn, do) {
			doOK = append(doOK, kit.OKEdges(d)...)
		}
		n := 0
		for _, l := range kit.CallsTo(fn, Set(load)) {
			if !isStop(l) {
				continue
			}
			// only loads reachable after Task.Do succeeded
			reach := false
			for _, e := range doOK {
				if kit.EdgeReaches(e, l, nil) {
					reach = true
				}
			}
			if !reach {
				continue
			}
			n++
			c.Dominated(r, "doTaskAttempt: discard decision taken with the processing lock held", []ssa.Instruction{l}, okGates(acqs, ""), "the acquireProcessingLock success edge")
		}
		c.R.Check(n >= 1, r, "doTaskAttempt: stop re-checked after the lock", c.Pos(fn.Pos()), "ok", "doTaskAttempt no longer re-checks the stop flag after acquiring the processing lock", true)
		// release deferred: the release func value (result 0 of acquire) is deferred on the success edge
		okDefer := false
		for _, a := range acqs {
			rel := kit.ResultN(a, 0)
			for _, b := range fn.Blocks {
				for _, in := range b.Instrs {
					if d, ok := in.(*ssa.Defer); ok && d.Call.Value == rel {
						okDefer = true
					}
				}
			}
		}
		c.R.Check(okDefer, r, "doTaskAttempt: processing lock released by defer", c.Pos(fn.Pos()), "defer release()", "the processing lock is not released by a deferred call: a batch error would leave Stop waiting forever", true)
		// processing (doNextTask / acker calls) happens only with the lock held on the first task: covered by dominance of the acquire over everything after `if taskNode.IsFirst()`
	}
}

func c06R6(c *Ctx) {
	r := c.R.Rule("R6", "K3 v1 stop position: SourceNode.stopGraceful records the position returned by Source.Stop (success edge) before it injects the stop control message carrying that position", 3)
	fn := c.SSA(r, pStream, "(*SourceNode).stopGraceful")
	if fn == nil {
		return
	}
	stop := c.Fam(c.Fn(r, pStream, "Source.Stop"))
	inject := Set(c.Fn(r, pStream, "(*pubNodeBase).InjectControlMessage"))
	stops := kit.CallsTo(fn, stop)
	var posStores []ssa.Instruction
	for _, b := range fn.Blocks {
		for _, in := range b.Instrs {
			if st, ok := in.(*ssa.Store); ok {
				if f := kit.FieldOf(st.Addr); f != nil && f.Name() == "position" {
					posStores = append(posStores, st)
					// value is the Stop result
					okV := false
					for _, s := range stops {
						if st.Val == kit.ResultN(s, 0) {
							okV = true
						}
					}
					c.R.Check(okV, r, "stopGraceful: records the position returned by Source.Stop", c.Pos(st.Pos()), "ok", "the recorded stop position is not the one returned by Source.Stop", true)
				}
			}
		}
	}
	if len(posStores) == 0 {
		c.R.Fail(r, "stopGraceful: stop position recorded", c.Pos(fn.Pos()), "no store of the stop position found")
	}
	c.Dominated(r, "stopGraceful: position recorded only after Source.Stop succeeded", posStores, okGates(stops, ""), "the Source.Stop success edge")
	// inject after the position is known: dominated by the store or by positionFetched==true
	g := kit.NewGates()
	for _, s := range posStores {
		g.AddInstr(s, "")
	}
	for _, b := range fn.Blocks {
		for _, in := range b.Instrs {
			if u, ok := in.(*ssa.UnOp); ok {
				if f := kit.FieldOf(u.X); f != nil && f.Name() == "positionFetched" {
					g.AddEdges(kit.CondEdges(u, true), "positionFetched")
				}
			}
		}
	}
	c.Dominated(r, "stopGraceful: stop control message injected only once the stop position is known", asInstrs(kit.CallsTo(fn, inject)), g, "the stop-position store (or positionFetched)")
	// ... and it carries the RECORDED position (the cached field), so a stop that is retried after the first
	// injection timed out still tells Run where to stop
	nPos := 0
	for _, ic := range kit.CallsTo(fn, inject) {
		args := ic.Common().Args
		rec := args[len(args)-1]
		// the record literal: a local composite whose Position field is stored
		var lit ssa.Value
		if u, ok := rec.(*ssa.UnOp); ok && u.Op == token.MUL {
			lit = u.X
		}
		if lit == nil {
			continue
		}
		for _, b := range fn.Blocks {
			for _, in := range b.Instrs {
				st, ok := in.(*ssa.Store)
				if !ok {
					continue
				}
				fa, ok := st.Addr.(*ssa.FieldAddr)
				if !ok || fa.X != lit {
					continue
				}
				if f := kit.FieldOf(fa); f == nil || f.Name() != "Position" {
					continue
				}
				nPos++
				cached := false
				if u, ok := st.Val.(*ssa.UnOp); ok {
					if pf := kit.FieldOf(u.X); pf != nil && pf.Name() == "position" {
						cached = true
					}
				}
				c.R.Check(cached, r, "stopGraceful: the stop control message carries the recorded stop position", c.Pos(st.Pos()), "n.stop.position", "the stop control message carries something other than the recorded n.stop.position (e.g. a local that is only set on the attempt that called Source.Stop): a retried graceful stop tells Run to stop at an empty position, Run never reaches its stop condition and the stop never completes", true)
			}
		}
	}
	c.R.Check(nPos >= 1, r, "stopGraceful: builds the stop control message", c.Pos(fn.Pos()), "ok", "no stop control message with a position found", false)
}

func c06R7(c *Ctx) {
	r := c.R.Rule("R7", "K4 flush generation always completes: every exit of Persister.flushNow has started the goroutine that closes callbacksDone, and writeDone is closed by defer at entry", 2)
	fn := c.SSA(r, pConn, "(*Persister).flushNow")
	if fn == nil {
		return
	}
	cbF := c.Field(r, pConn, "flushState", "callbacksDone")
	wdF := c.Field(r, pConn, "flushState", "writeDone")
	closes := func(f *ssa.Function, field *types.Var) bool {
		for _, b := range f.Blocks {
			for _, in := range b.Instrs {
				if call, ok := in.(*ssa.Call); ok {
					if bi, ok := call.Call.Value.(*ssa.Builtin); ok && bi.Name() == "close" && len(call.Call.Args) == 1 && kit.IsFieldLoad(call.Call.Args[0], field) {
						return true
					}
				}
			}
		}
		return false
	}
	isCloser := func(in ssa.Instruction) bool {
		switch x := in.(type) {
		case *ssa.Go:
			if mc, ok := x.Call.Value.(*ssa.MakeClosure); ok && closes(mc.Fn.(*ssa.Function), cbF) {
				return true
			}
		case *ssa.Call:
			if bi, ok := x.Call.Value.(*ssa.Builtin); ok && bi.Name() == "close" && kit.IsFieldLoad(x.Call.Args[0], cbF) {
				return true
			}
		}
		return false
	}
	g := kit.NewGates()
	// the closer goroutine itself, or a call to a helper that starts it on all of its paths
	for _, in := range kit.GateInstrs(fn, isCloser, 2) {
		g.AddInstr(in, "go func(){ cbWg.Wait(); close(callbacksDone) }()")
	}
	rets := kit.Returns(fn)
	var targets []ssa.Instruction
	for _, ret := range rets {
		targets = append(targets, ret)
	}
	c.Dominated(r, "flushNow: callbacksDone is closed (by the closer goroutine) on every exit", targets, g, "the goroutine that closes st.callbacksDone")
	// writeDone closed by a defer in the entry block
	okWD := false
	if len(fn.Blocks) > 0 {
		for _, in := range fn.Blocks[0].Instrs {
			if d, ok := in.(*ssa.Defer); ok {
				if bi, ok := d.Call.Value.(*ssa.Builtin); ok && bi.Name() == "close" && kit.IsFieldLoad(d.Call.Args[0], wdF) {
					okWD = true
				}
			}
		}
	}
	c.R.Check(okWD, r, "flushNow: writeDone closed by a defer registered at entry", c.Pos(fn.Pos()), "defer close(st.writeDone)", "writeDone is not closed by a defer at the top of flushNow: a later flush or WaitPendingWrites can block forever", true)
}

// c06R8: a flush callback never blocks on the node's error channel (F19): the
// persister joins its callbacks in Wait/WaitPendingWrites, and the node only
// reads errs while it runs, so a blocking send for the final flush would hang
// stop-and-wait.
func c06R8(c *Ctx) {
	r := c.R.Rule("R8", "K1/K3 flush callbacks never block: every send on Source.errs / Destination.errs reachable from a callback handed to Persister.Persist is an arm of a non-blocking select, and both channels are created with a buffer", 5)
	persist := c.Fn(r, pConn, "(*Persister).Persist")
	if persist == nil {
		return
	}
	fields := []*types.Var{c.Field(r, pConn, "Source", "errs"), c.Field(r, pConn, "Destination", "errs")}
	isErrs := func(v ssa.Value) bool {
		for _, f := range fields {
			if f != nil && kit.IsFieldLoad(v, f) {
				return true
			}
		}
		return false
	}
	p := c.W.Pkg(pConn)
	sp := c.W.SSA[p.Types]
	// callbacks handed to Persist
	var roots []*ssa.Function
	for _, m := range sp.Members {
		var fns []*ssa.Function
		switch x := m.(type) {
		case *ssa.Function:
			fns = kit.WithAnon(x)
		case *ssa.Type:
			for _, t := range []types.Type{x.Type(), types.NewPointer(x.Type())} {
				ms := c.W.Prog.MethodSets.MethodSet(t)
				for i := 0; i < ms.Len(); i++ {
					if f := c.W.Prog.MethodValue(ms.At(i)); f != nil && f.Pkg == sp {
						fns = append(fns, kit.WithAnon(f)...)
					}
				}
			}
		}
		for _, f := range fns {
			for _, call := range kit.CallsTo(f, Set(persist)) {
				a := call.Common().Args
				cb := kit.Unwrap(a[len(a)-1])
				if mc, ok := cb.(*ssa.MakeClosure); ok {
					roots = append(roots, mc.Fn.(*ssa.Function))
				} else if f, ok := cb.(*ssa.Function); ok {
					roots = append(roots, f)
				} else if !kit.IsNilConst(cb) {
					c.R.Undecided(r, "Persist callback in "+kit.FuncKey(f), c.Pos(call.Pos()), "the callback handed to Persister.Persist is not a function literal: cannot enumerate what it sends on")
				}
			}
		}
	}
	// everything statically reachable from the callbacks inside the package
	seen := map[*ssa.Function]bool{}
	var visit func(f *ssa.Function)
	visit = func(f *ssa.Function) {
		if f == nil || seen[f] || f.Pkg != sp {
			return
		}
		seen[f] = true
		for _, b := range f.Blocks {
			for _, in := range b.Instrs {
				switch x := in.(type) {
				case ssa.CallInstruction:
					if callee := x.Common().StaticCallee(); callee != nil {
						visit(callee)
					}
					for _, a := range x.Common().Args {
						if mc, ok := a.(*ssa.MakeClosure); ok {
							visit(mc.Fn.(*ssa.Function))
						}
					}
				case *ssa.MakeClosure:
					visit(x.Fn.(*ssa.Function))
				}
			}
		}
	}
	seenRoot := map[*ssa.Function]bool{}
	for _, f := range roots {
		if !seenRoot[f] {
			seenRoot[f] = true
			visit(f)
		}
	}
	c.R.Check(len(seenRoot) >= 3, r, "Persist callbacks enumerated", "", "ok", "fewer than the 3 Persist callbacks confirmed by hand were found", false)
	var fs []*ssa.Function
	for f := range seen {
		fs = append(fs, f)
	}
	sort.Slice(fs, func(i, j int) bool { return kit.FuncKey(fs[i]) < kit.FuncKey(fs[j]) })
	nSends := 0
	for _, f := range fs {
		for _, b := range f.Blocks {
			for _, in := range b.Instrs {
				switch x := in.(type) {
				case *ssa.Send:
					if isErrs(x.Chan) {
						nSends++
						c.R.Fail(r, kit.FuncKey(f)+": send on errs from a flush callback", c.Pos(x.Pos()), "a blocking send on the node's error channel is reachable from a Persister flush callback: after the node stopped reading, the final flush's callback never returns and Persister.Wait / stop-and-wait hang")
					}
				case *ssa.Select:
					for _, st := range x.States {
						if st.Dir == types.SendOnly && isErrs(st.Chan) {
							nSends++
							c.R.Check(!x.Blocking, r, kit.FuncKey(f)+": send on errs from a flush callback", c.Pos(x.Pos()), "non-blocking select", "the select sending on the node's error channel from a Persister flush callback has no default arm: it can block forever once the node stopped reading", true)
						}
					}
				}
			}
		}
	}
	c.R.Check(nSends >= 2, r, "flush failures are still reported to the node", "", "ok", "no send on errs is reachable from the flush callbacks any more: a failed state flush would go unnoticed by the node", false)
	// the channels are buffered
	if fn := c.SSA(r, pConn, "(*Instance).Connector"); fn != nil {
		n := 0
		for _, in := range kit.Instrs(fn, func(in ssa.Instruction) bool { _, ok := in.(*ssa.MakeChan); return ok }) {
			mk := in.(*ssa.MakeChan)
			flows := kit.FlowsTo(mk, func(in ssa.Instruction, x ssa.Value) bool {
				st, ok := in.(*ssa.Store)
				if !ok || st.Val != x {
					return false
				}
				f := kit.FieldOf(st.Addr)
				return kit.SameField(f, fields[0]) || kit.SameField(f, fields[1])
			})
			if !flows {
				continue
			}
			n++
			c.R.Check(!kit.IsIntConst(mk.Size, 0), r, "Instance.Connector: errs is buffered", c.Pos(mk.Pos()), "buffered", "errs is created unbuffered: the non-blocking report of a flush failure would be dropped whenever the node is not receiving at that instant", true)
		}
		c.R.Check(n == 2, r, "Instance.Connector: creates both errs channels", c.Pos(fn.Pos()), "2", "expected the errs channels of Source and Destination to be created in Instance.Connector", false)
	}
}

// c06R9: the v1 fan-in keeps forwarding until every input is closed.
func c06R9(c *Ctx) {
	r := c.R.Rule("R9", "K3 fan-in drains every input: FaninNode.trigger reports end-of-stream (nil message, nil error) only on the edge where no input channel is left", 1)
	fn := c.SSA(r, pStream, "(*FaninNode).trigger")
	if fn == nil {
		return
	}
	n := 0
	for _, lit := range kit.WithAnon(fn)[1:] {
		isChanSliceLen := func(v ssa.Value) bool {
			return kit.IsLenOf(v, func(x ssa.Value) bool {
				s, ok := x.Type().Underlying().(*types.Slice)
				if !ok {
					return false
				}
				_, isChan := s.Elem().Underlying().(*types.Chan)
				return isChan
			})
		}
		g := kit.NewGates().AddEdges(kit.RangeEdges(lit, isChanSliceLen, 0, 0), "len(in) == 0")
		for _, ret := range kit.Returns(lit) {
			if len(ret.Results) != 2 || !kit.IsNilConst(kit.RetVal(ret, 0)) || !kit.IsNilConst(kit.RetVal(ret, 1)) {
				continue
			}
			n++
			c.Dominated(r, "FaninNode.trigger: end-of-stream only when no input is left", []ssa.Instruction{ret}, g, "the len(remaining inputs) == 0 edge")
		}
	}
	if n == 0 {
		c.R.Fail(r, "FaninNode.trigger: end-of-stream return", c.Pos(fn.Pos()), "no `return nil, nil` found in the trigger closure")
	}
}

// c06R12: the deferred-ack delivery goroutine exits only once it has seen, in
// one critical section, the queue closed and empty.
func c06R12(c *Ctx) {
	r := c.R.Rule("R12", "K3/K5 deferred acks are delivered before the source is torn down: Source.deliverDeferredAcks returns only behind the closed==true edge and the len(snapshot)==0 edge, where the closed flag and the queue snapshot are read in the same ackMu critical section", 3)
	fn := c.SSA(r, pConn, "(*Source).deliverDeferredAcks")
	qF := c.Field(r, pConn, "Source", "deferredAckQueue")
	clF := c.Field(r, pConn, "Source", "deferredAckClosed")
	if fn == nil || qF == nil || clF == nil {
		return
	}
	var rets []ssa.Instruction
	for _, ret := range kit.Returns(fn) {
		rets = append(rets, ret)
	}
	qLoads := kit.FieldLoads(fn, qF)
	cLoads := kit.FieldLoads(fn, clF)
	gClosed := kit.NewGates()
	for _, l := range cLoads {
		gClosed.AddEdges(kit.CondEdges(l, true), "closed")
	}
	isSnap := func(v ssa.Value) bool {
		for _, l := range qLoads {
			if v == l {
				return true
			}
		}
		return false
	}
	gEmpty := kit.NewGates().AddEdges(kit.LenEdges(fn, isSnap, 0, 0), "len(queue snapshot)==0")
	c.Dominated(r, "deliverDeferredAcks: exits only after the queue was closed", rets, gClosed, "the deferredAckClosed==true edge")
	c.Dominated(r, "deliverDeferredAcks: exits only with an empty snapshot", rets, gEmpty, "the len(snapshot)==0 edge (nothing was queued when the flag was read)")
	// same critical section: the flag is read in the block that takes the snapshot, under ackMu, with no Unlock in between
	ls := kit.Locksets(fn, c.W.StdLockSpec(), nil)
	okSame := false
	for _, ql := range qLoads {
		for _, cl := range cLoads {
			qi, ok1 := ql.(ssa.Instruction)
			ci, ok2 := cl.(ssa.Instruction)
			if ok1 && ok2 && qi.Block() == ci.Block() && containsLock(ls[qi], "recv.ackMu") && containsLock(ls[ci], "recv.ackMu") {
				okSame = true
			}
		}
	}
	c.R.Check(okSame, r, "deliverDeferredAcks: flag and snapshot read in one critical section", c.Pos(fn.Pos()), "same ackMu section", "the closed flag is not read in the ackMu critical section that snapshots the queue: Teardown can enqueue the final position and close the queue between the two reads, and the goroutine exits with that position still queued — it is persisted but never acked to the plugin", true)
}

// c06R13: F35. WaitPendingWrites (Teardown's "flush, then wait until my final ack was delivered") only ever sees the
// LATEST flush generation, and any connector can trigger a newer flush while the callbacks of the previous one are
// still running. A generation therefore reports its callbacks done only after the generation it superseded did:
// triggerFlush hands the previous generation's callbacksDone to the new one, and the closer receives from it first.
func c06R13(c *Ctx) {
	r := c.R.Rule("R13", "K3/K6 callbacks-done is cumulative over flush generations: triggerFlush records the superseded generation's callbacksDone in the new flushState, and the goroutine that closes a generation's callbacksDone first receives from the recorded channel (or finds it nil)", 3)
	trig := c.SSA(r, pConn, "(*Persister).triggerFlush")
	flush := c.SSA(r, pConn, "(*Persister).flushNow")
	cbF := c.Field(r, pConn, "flushState", "callbacksDone")
	T := c.W.LookupType(pConn, "flushState")
	if trig == nil || flush == nil || cbF == nil || T == nil {
		return
	}
	// the link field: a field of flushState that triggerFlush assigns a load of (previous).callbacksDone
	var link *types.Var
	st := T.Underlying().(*types.Struct)
	for i := 0; i < st.NumFields(); i++ {
		f := st.Field(i)
		if f == cbF {
			continue
		}
		for _, s2 := range kit.FieldStores(trig, f) {
			if kit.IsFieldLoad(kit.Unwrap(s2.Val), cbF) {
				link = f
			}
		}
	}
	if link == nil {
		c.R.Fail(r, "triggerFlush: the new generation remembers the previous generation's callbacksDone", c.Pos(trig.Pos()), "triggerFlush does not hand the superseded flush generation's callbacksDone to the new one: WaitPendingWrites waits for the callbacks of the latest flush only, so a source whose last position was committed by flush N (callback not yet run) and whose Teardown forces flush N+1 closes its deferred-ack queue and tears the plugin down before the callback of flush N queued the ack — the final ack of a durable position is dropped although the stop 'drained'")
		return
	}
	c.R.Pass(r, "triggerFlush: the new generation remembers the previous generation's callbacksDone", c.Pos(trig.Pos()), "flushState."+link.Name(), true)
	n := 0
	for _, lit := range kit.WithAnon(flush) {
		for _, b := range lit.Blocks {
			for _, in := range b.Instrs {
				call, ok := in.(*ssa.Call)
				if !ok {
					continue
				}
				bi, ok := call.Call.Value.(*ssa.Builtin)
				if !ok || bi.Name() != "close" || !kit.IsFieldLoad(call.Call.Args[0], cbF) {
					continue
				}
				n++
				g := kit.NewGates()
				for _, b2 := range lit.Blocks {
					for _, in2 := range b2.Instrs {
						if u, ok := in2.(*ssa.UnOp); ok && u.Op == token.ARROW && kit.IsFieldLoad(u.X, link) {
							g.AddInstr(u, "<-st."+link.Name())
						}
					}
				}
				for _, l := range kit.FieldLoads(lit, link) {
					g.AddEdges(kit.NilEdges(l, true), link.Name()+" == nil")
				}
				c.Dominated(r, "flushNow: callbacksDone closed only after the previous generation's", []ssa.Instruction{call}, g, "a receive from st."+link.Name()+" (or its nil edge)")
			}
		}
	}
	c.R.Check(n >= 1, r, "flushNow: close(callbacksDone)", c.Pos(flush.Pos()), "found", "no close(st.callbacksDone) found in flushNow or its closures", true)
}
