package rules

import (
	"encoding/json"
	"fmt"
	"os"
	"path/filepath"
	"sort"
	"strings"

	"conduitlint/kit"

	"golang.org/x/tools/go/ssa"
)

// Error-propagation baseline (K7'): in the functions declared in a property's
// anchor files that themselves return an error, the error of every call is
// either PROPAGATED — every path behind the call's failure edge leaves the
// function with a non-nil error (or panics) — or the site is one of the sites
// that already tolerate the error on the reference tree (frozen table
// tolerated_errors.json: package, callee, count). A change that turns a
// propagated error into a logged-and-ignored one ("swallowed error") is
// reported; so is a new call whose error is dropped. Sites that disappear are
// not reported (the specific rules own the anchors that must exist).

type tolerated struct {
	Pkg    string `json:"pkg"` // module-relative package of the calling function
	Callee string `json:"callee"`
	N      int    `json:"n"`
	Where  string `json:"where,omitempty"` // functions holding the sites on the reference tree (informational)
}

// ErrSite is one classified call site.
type ErrSite struct {
	Pkg, Func, Callee, Pos string
	Propagated             bool
}

// anchorFiles lists the property's anchor files (module-relative).
var anchorFilesOf = map[string][]string{}

// LoadAnchors reads properties.jsonl once.
func LoadAnchors(verif string) {
	b, err := os.ReadFile(filepath.Join(verif, "properties.jsonl"))
	if err != nil {
		return
	}
	for _, line := range strings.Split(string(b), "\n") {
		if strings.TrimSpace(line) == "" {
			continue
		}
		var p struct {
			ID      string `json:"id"`
			Anchors struct {
				Files []string `json:"files"`
			} `json:"anchors"`
		}
		if json.Unmarshal([]byte(line), &p) == nil {
			anchorFilesOf[p.ID] = p.Anchors.Files
		}
	}
}

// ErrSites classifies the error-returning calls of the error-returning
// functions declared in the given files.
func ErrSites(w *kit.World, files []string) []ErrSite {
	want := map[string]bool{}
	for _, f := range files {
		want[f] = true
	}
	var out []ErrSite
	for _, p := range w.Pkgs {
		if kit.Generated(p.PkgPath) {
			continue
		}
		sp := w.SSA[p.Types]
		if sp == nil {
			continue
		}
		for _, fn := range w.AllFuncs(sp) {
			if fn.Parent() != nil || len(fn.Blocks) == 0 || kit.ErrIndex(fn) < 0 {
				continue
			}
			pos := w.Fset.Position(fn.Pos())
			rel := strings.TrimPrefix(pos.Filename, w.Repo+"/")
			if !want[rel] {
				continue
			}
			for _, b := range fn.Blocks {
				for _, in := range b.Instrs {
					call, ok := in.(*ssa.Call)
					if !ok || kit.ErrIndexOfCall(call) < 0 {
						continue
					}
					callee := "?"
					if f := kit.CalleeOf(call.Common()); f != nil {
						callee = f.FullName()
					} else if call.Call.Value != nil {
						callee = "value:" + call.Call.Value.Name()
						if u, ok := call.Call.Value.(*ssa.UnOp); ok {
							if g, ok := u.X.(*ssa.Global); ok {
								callee = g.Pkg.Pkg.Path() + "." + g.Name()
							}
						}
					}
					// error constructors and wrappers are not fallible steps
					if strings.Contains(callee, "/cerrors.") || strings.Contains(callee, "/conduiterr.") || strings.HasPrefix(callee, "errors.") || strings.HasPrefix(callee, "fmt.") {
						continue
					}
					// best-effort removal of temporary files is cleanup, not a step of the mechanism
					if callee == "os.Remove" || callee == "os.RemoveAll" {
						continue
					}
					site := ErrSite{Pkg: kit.RelPkg(p.PkgPath), Func: kit.FuncKey(fn), Callee: callee, Pos: w.Pos(call.Pos())}
					site.Propagated = propagated(fn, call)
					out = append(out, site)
				}
			}
		}
	}
	sort.Slice(out, func(i, j int) bool {
		if out[i].Func != out[j].Func {
			return out[i].Func < out[j].Func
		}
		return out[i].Pos < out[j].Pos
	})
	return out
}

// propagated: the call's error is the function's result directly (return f()),
// or every path behind its failure edge leaves fn with a non-nil error.
func propagated(fn *ssa.Function, call *ssa.Call) bool {
	// return f(...): the call value (or its error component) is returned as is
	ev := kit.ErrResult(call)
	if ev != nil {
		for _, ret := range kit.Returns(fn) {
			if kit.RetVal(ret, len(ret.Results)-1) == ev {
				// returned verbatim on this path; other paths are judged by the edges below
				if len(kit.FailEdges(call)) == 0 {
					return true
				}
			}
		}
	}
	fe := kit.FailEdges(call)
	if len(fe) == 0 {
		// never tested: propagated only if the value is what the function returns / hands on
		if ev == nil {
			return false // result discarded
		}
		return kit.FlowsTo(ev, func(in ssa.Instruction, x ssa.Value) bool {
			switch y := in.(type) {
			case *ssa.Return:
				return true
			case *ssa.Store:
				return y.Val == x
			case ssa.CallInstruction:
				return true // handed to another function (Join, wrap, callback, nack reason)
			}
			return false
		})
	}
	g := kit.NewGates()
	for _, ret := range kit.Returns(fn) {
		if !kit.IsNilConst(kit.RetVal(ret, len(ret.Results)-1)) {
			g.AddInstr(ret, "returns an error")
		}
	}
	for _, e := range fe {
		if ok, _ := kit.AllExitsFromEdge(e, false, kit.ExitSpec{Gates: g}); !ok {
			return false
		}
	}
	return true
}

func loadTolerated(verif string) map[string]int {
	out := map[string]int{}
	b, err := os.ReadFile(filepath.Join(verif, "lint", "rules", "tolerated_errors.json"))
	if err != nil {
		return nil
	}
	var ts []tolerated
	if json.Unmarshal(b, &ts) != nil {
		return nil
	}
	for _, t := range ts {
		out[t.Pkg+"|"+t.Callee] = t.N
	}
	return out
}

// errPropagation evaluates the baseline for the property's anchor files.
func errPropagation(c *Ctx, r string, verif string) {
	files := anchorFilesOf[c.R.Property]
	tol := loadTolerated(verif)
	if tol == nil {
		c.R.Unresolved(r, "lint/rules/tolerated_errors.json")
		return
	}
	sites := ErrSites(c.W, files)
	seen := map[string]int{}
	nProp := 0
	for _, s := range sites {
		if s.Propagated {
			nProp++
			continue
		}
		k := s.Pkg + "|" + s.Callee
		seen[k]++
		if seen[k] <= tol[k] {
			c.R.Pass(r, fmt.Sprintf("%s: error of %s tolerated#%d", s.Func, s.Callee, seen[k]), s.Pos, "tolerated on the reference tree (tabled)", false)
			continue
		}
		c.R.Fail(r, fmt.Sprintf("%s: error of %s", s.Func, s.Callee), s.Pos, fmt.Sprintf("the error returned by %s is not propagated by %s (a path behind its failure edge returns nil / goes on) and package %s tolerates an error of this callee at only %d site(s) on the reference tree: a failure of this step would be swallowed", s.Callee, s.Func, s.Pkg, tol[k]))
	}
	c.R.Check(nProp > 0, r, "propagated error sites in the anchor files", "", fmt.Sprintf("%d propagated", nProp), "no propagated error site found in the property's anchor files", true)
	c.R.Note(fmt.Sprintf("error-propagation baseline: %d fallible call sites in error-returning functions of %d anchor files, %d propagated", len(sites), len(files), nProp))
}

// GenTolerated prints the tolerated-site table for the current tree.
func GenTolerated(w *kit.World) {
	all := map[string]bool{}
	for _, fs := range anchorFilesOf {
		for _, f := range fs {
			all[f] = true
		}
	}
	var files []string
	for f := range all {
		files = append(files, f)
	}
	cnt := map[string]int{}
	where := map[string][]string{}
	total, prop := 0, 0
	for _, s := range ErrSites(w, files) {
		total++
		if s.Propagated {
			prop++
			continue
		}
		k := s.Pkg + "|" + s.Callee
		cnt[k]++
		where[k] = append(where[k], s.Func)
		fmt.Fprintf(os.Stderr, "tolerated: %s  %s  %s\n", s.Pos, s.Func, s.Callee)
	}
	var ts []tolerated
	for k, n := range cnt {
		i := strings.Index(k, "|")
		ts = append(ts, tolerated{Pkg: k[:i], Callee: k[i+1:], N: n, Where: strings.Join(where[k], ", ")})
	}
	sort.Slice(ts, func(i, j int) bool {
		if ts[i].Pkg != ts[j].Pkg {
			return ts[i].Pkg < ts[j].Pkg
		}
		return ts[i].Callee < ts[j].Callee
	})
	b, _ := json.MarshalIndent(ts, "", " ")
	fmt.Println(string(b))
	fmt.Fprintf(os.Stderr, "%d sites, %d propagated, %d tolerated\n", total, prop, total-prop)
}

// RunAll runs the property's own rules and then the rules every property shares.
func RunAll(p *Property, c *Ctx, verif string) {
	p.Run(c)
	if len(anchorFilesOf) == 0 {
		LoadAnchors(verif)
	}
	r := c.R.Rule("R99", "K7 error-propagation baseline over the property's anchor files: in every error-returning function declared there, the error of each fallible call is propagated on every path behind its failure edge, or the site is one of those that tolerate it on the reference tree (lint/rules/tolerated_errors.json)", 1)
	errPropagation(c, r, verif)
}
