package rules

import (
	"go/token"
	"go/types"
	"strings"

	"conduitlint/kit"

	"golang.org/x/tools/go/ssa"
)

func init() {
	register(&Property{
		ID:          "C10",
		Run:         runC10,
		Explanation: "Decides the structural clauses of failure classification and bounded recovery on every path of the two lifecycle services: (R1) the cleanup goroutine calls recoverPipeline only on the not-fatal (v2: and not-shutting-down, not-intentionally-stopped) edge, writes Degraded only on the fatal edge or after a failed recovery, and writes only a stopped status when the tomb is still alive / after a deliberate stop; (R2) recoverPipeline / StartWithBackoff have closed caller sets; (R3) StartWithBackoff waits and restarts only below the retry bound (exceeding it returns a fatal error), restarts only when the run it belongs to is still the published one, and the attempt counter is touched only by its +1/−1 (no reset); (R4) force stop and exhausted retries are fatal-tagged in both engines and a processor error whose nack fails is fatal in v1; (R5) v2 marks a deliberate stop before it stops any worker and StopAll marks the shutdown before stopping; (R7) a v2 worker kills the tomb with its own error before closing itself and a v1 node goroutine kills it with its own result before nodesWg.Done(), so the root cause (and not a still-alive tomb) decides the classification; (R8) in both engines a run parked in the recovery back-off is not restarted once a stop or a graceful shutdown marked it, and the cleanup goroutine finalizes that as UserStopped / SystemStopped; (R4 also) a failed v1 DLQ write and a v2 processor error whose nack fails are returned as fatal errors. Rules added later (after independent seeded changes and defect hunts) are not all enumerated here: every armed rule is listed with its description, kind and instance count under coverage.rules.",
		NotDecided:  []string{"which goroutine wins the tomb at run time", "delays and windows (timing)", "the classification of errors produced inside plugins"},
		Assumptions: []string{"tomb.v2: the first Kill reason is the tomb's error", "cerrors.IsFatalError (C20.R4)"},
	})
	register(&Property{
		ID:          "C11",
		Run:         runC11,
		Explanation: "Decides the structural clauses of 'one live run, true result': (R1) a run is published in runningPipelines before the Running status is written, only by runPipeline; (R2) both engines remove the published entry only through compare-and-delete under the publication mutex; (R3) the terminal error is recorded before the entry is removed, Start clears the previous terminal error before running, WaitPipeline consults the live entry first and the terminal error second; (R4) v2 start-up barriers: workers wait for `registered`, the cleanup goroutine waits for `startupDone`, both channels are closed on every path; (R5) the publication mutex guards every write of the map in both engines; (R6) connectors and processors are released at the end of a run (Instance.connector cleared by Teardown, running flag reset on every failing exit of MakeRunnableProcessor); (R7) a second run is refused (running status, live tomb, non-nil Instance.connector); (R9) nodes that Stop waits on publish their stopped state by a defer registered at entry; (R10) a v1 start that fails after the nodes were started un-publishes the run, kills its tomb and joins the nodes on every exit. Rules added later (after independent seeded changes and defect hunts) are not all enumerated here: every armed rule is listed with its description, kind and instance count under coverage.rules.",
		NotDecided:  []string{"absence of deadlock in general", "which interleavings occur"},
		Assumptions: []string{"csync.Map is a mutex-guarded map", "tomb.v2 semantics"},
	})
	register(&Property{
		ID:          "C12",
		Run:         runC12,
		Explanation: "Decides the structural clauses of a clean force stop: (R1) the forceStopper protocol — cancel and stopped are accessed under its mutex, start re-checks stopped after storing cancel, stop records stopped only when no cancel exists yet; (R2) every node type with a ForceStop method delegates to stopper.stop() and obtains its connector context from stopper.start() (no other context.WithCancel(context.Background()) in those types); (R3) both engines kill the tomb with FatalError(ErrForceStop), v1 before it force-stops the nodes, and v2 opens sink and workers with the tomb's own context so the kill reaches blocked plugin calls; (R4) no Message.Ack is reachable from a context-cancellation arm or a failed Send in the stream nodes, the destination acker's teardown only nacks, and a message taken from its queue is put back at the front; (R5 = C11.R6) resources are released so the pipeline can be started again. Rules added later (after independent seeded changes and defect hunts) are not all enumerated here: every armed rule is listed with its description, kind and instance count under coverage.rules.",
		NotDecided:  []string{"that blocked plugin calls actually return when their context is cancelled", "liveness"},
		Assumptions: []string{"context cancellation propagates to connector plugin calls opened with that context"},
	})
}

// ---- helpers -------------------------------------------------------------------

// mapCalls lists calls of csync.Map method `method` on the map stored in field.
func mapCalls(fn *ssa.Function, field *types.Var, method string) []ssa.Instruction {
	return kit.Instrs(fn, func(in ssa.Instruction) bool {
		ci, ok := in.(ssa.CallInstruction)
		if !ok {
			return false
		}
		f := kit.CalleeOf(ci.Common())
		if f == nil || f.Name() != method || f.Pkg() == nil || !strings.HasSuffix(f.Pkg().Path(), "conduit-commons/csync") {
			return false
		}
		a := ci.Common().Args
		return len(a) > 0 && kit.IsFieldLoad(a[0], field)
	})
}

// litWith returns the function literals of fn (recursively) containing a call to one of set.
func litsWith(fn *ssa.Function, set kit.FuncSet) []*ssa.Function {
	var out []*ssa.Function
	for _, l := range kit.WithAnon(fn)[1:] {
		if len(kit.CallsTo(l, set)) > 0 {
			out = append(out, l)
		}
	}
	return out
}

// atomicCalls lists calls of sync/atomic method `method` whose receiver is field.
func atomicCalls(fn *ssa.Function, field *types.Var, method string) []ssa.CallInstruction {
	var out []ssa.CallInstruction
	for _, b := range fn.Blocks {
		for _, in := range b.Instrs {
			ci, ok := in.(ssa.CallInstruction)
			if !ok {
				continue
			}
			f := kit.CalleeOf(ci.Common())
			if f == nil || f.Name() != method || f.Pkg() == nil || f.Pkg().Path() != "sync/atomic" {
				continue
			}
			a := ci.Common().Args
			if len(a) == 0 {
				continue
			}
			// receiver is &x.field (value atomic) or load of x.field (pointer atomic)
			if kit.SameField(kit.FieldOf(a[0]), field) || kit.IsFieldLoad(a[0], field) {
				out = append(out, ci)
			}
		}
	}
	return out
}

// markerStores lists the instructions of fn that set the atomic bool field to val: a direct Store(val), or a call to a
// same-package helper that does so — on all of its paths when must is set (a gate), on some path otherwise.
func markerStores(fn *ssa.Function, field *types.Var, val bool, must bool) []ssa.Instruction {
	isStore := func(in ssa.Instruction) bool {
		ci, ok := in.(ssa.CallInstruction)
		if !ok {
			return false
		}
		for _, s := range atomicCalls(in.Parent(), field, "Store") {
			if s == ci && kit.IsBoolConst(s.Common().Args[1], val) {
				return true
			}
		}
		return false
	}
	var out []ssa.Instruction
	for _, b := range fn.Blocks {
		for _, in := range b.Instrs {
			if isStore(in) {
				out = append(out, in)
				continue
			}
			ci, ok := in.(ssa.CallInstruction)
			if !ok {
				continue
			}
			h := ci.Common().StaticCallee()
			if h == nil || h.Pkg != fn.Pkg || len(h.Blocks) == 0 {
				continue
			}
			if must {
				if kit.MustDo(h, isStore, 2) {
					out = append(out, in)
				}
			} else if len(kit.Instrs(h, isStore)) > 0 {
				out = append(out, in)
			}
		}
	}
	return out
}

// flagReadCalls: the reads of an atomic bool flag in fn — direct Load calls, and calls of a same-package bool predicate
// that reads the flag (e.g. `stoppedBySystem(rp)` = shutdown flag && no user stop): the predicate's false edge is what the
// code branches on, and the rules that ask for "behind the !flag edge" accept it together with the other marker's edge.
func flagReadCalls(fn *ssa.Function, field *types.Var) []ssa.CallInstruction {
	out := atomicCalls(fn, field, "Load")
	for _, b := range fn.Blocks {
		for _, in := range b.Instrs {
			ci, ok := in.(ssa.CallInstruction)
			if !ok || ci.Value() == nil {
				continue
			}
			h := ci.Common().StaticCallee()
			if h == nil || h.Pkg != fn.Pkg || len(h.Blocks) == 0 {
				continue
			}
			if bt, ok := ci.Value().Type().Underlying().(*types.Basic); !ok || bt.Kind() != types.Bool {
				continue
			}
			if len(atomicCalls(h, field, "Load")) > 0 {
				out = append(out, ci)
			}
		}
	}
	return out
}

func updateStatusCalls(c *Ctx, r string, fn *ssa.Function, rel string) []ssa.CallInstruction {
	m := c.W.LookupFunc(rel, "PipelineService.UpdateStatus")
	if m == nil {
		c.R.Unresolved(r, rel+".PipelineService.UpdateStatus")
		return nil
	}
	return kit.CallsTo(fn, c.Fam(m))
}

func statusArg(call ssa.CallInstruction) ssa.Value {
	a := call.Common().Args
	// invoke: (ctx, id, status, errMsg)
	if len(a) >= 3 {
		return a[len(a)-2]
	}
	return nil
}

// statusIs reports whether v can only be one of the named pipeline status constants.
func statusIs(c *Ctx, v ssa.Value, names ...string) bool {
	ok := func(x ssa.Value) bool {
		for _, n := range names {
			if isConstObj(x, c.W.LookupObj(pPipe, n)) {
				return true
			}
		}
		return false
	}
	var all func(x ssa.Value, d int) bool
	all = func(x ssa.Value, d int) bool {
		if d > 4 {
			return false
		}
		switch y := x.(type) {
		case *ssa.Phi:
			for _, e := range y.Edges {
				if !all(e, d+1) {
					return false
				}
			}
			return true
		case *ssa.Call:
			// a helper of the module that picks the status: every value it can return must be allowed
			h := y.Call.StaticCallee()
			if h == nil || len(h.Blocks) == 0 || h.Signature.Results().Len() != 1 {
				return false
			}
			rets := kit.Returns(h)
			if len(rets) == 0 {
				return false
			}
			for _, ret := range rets {
				if !all(kit.RetVal(ret, 0), d+1) {
					return false
				}
			}
			return true
		}
		return ok(x)
	}
	return all(v, 0)
}

// ---- C10 -----------------------------------------------------------------------

func runC10(c *Ctx) {
	c10R1(c)
	c10R2R3(c)
	c10R4(c)
	c10R5(c)
	c10R7(c)
	c10R8(c)
	c10R10(c)
	c10R11(c)
	c10R12(c)
	c10R13(c)
	c10R14(c)
	c10R15(c)
	c07R4As(c, c.R.Rule("R9", "K3 (= C07.R4) the DLQ's fatal causes: in both engines a nack the window refuses is a fatal error when the DLQ is enabled, and a v2 DLQ write failure — a failed call or a negative per-record ack — is fatal", 6))
}

// c10R8: a stop issued while the run is parked in the recovery back-off wins
// over the restart (F13, both engines).
// c10R10: with workers > 1 the processor node runs behind a ParallelNode; the classification of the failure is
// carried by the error the worker's node returns from Run (F24), so that error has to reach ParallelNode.Run's
// result: (a) the result of node.Run is sent on a channel, (b) that channel is the one ParallelNode.Run listens on
// (the errs argument of base.Trigger), (c) Run's result is a named result which the deferred drain assigns, and
// the drain consults IsFatalError (a fatal error is not replaced by the raw nack error that arrived first).
func c10R10(c *Ctx) {
	r := c.R.Rule("R10", "K6 the parallel processor node keeps the classification: the error a worker's node returns from Run is sent on the channel ParallelNode.Run listens on, and the deferred drain of that channel assigns Run's (named) result with a fatal error winning over a non-fatal one", 4)
	nodeF := c.Field(r, pStream, "parallelNodeWorker", "node")
	run := c.SSA(r, pStream, "(*ParallelNode).Run")
	pkg := c.W.Pkg(pStream)
	isFatal := c.Fn(r, pCerrors, "IsFatalError")
	trigger := c.Fn(r, pStream, "(*pubSubNodeBase).Trigger")
	if nodeF == nil || run == nil || pkg == nil || isFatal == nil || trigger == nil {
		return
	}
	sp := c.W.SSA[pkg.Types]
	// (a) every node.Run(...) on the worker's node: its error flows into a channel send; collect the fields the
	// channel is loaded from
	var chanFields []*types.Var
	n := 0
	for _, fn := range c.W.AllFuncs(sp) {
		for _, b := range fn.Blocks {
			for _, in := range b.Instrs {
				call, ok := in.(*ssa.Call)
				if !ok || !call.Call.IsInvoke() || call.Call.Method.Name() != "Run" || !kit.IsFieldLoad(call.Call.Value, nodeF) {
					continue
				}
				n++
				sent := kit.FlowsTo(call, func(u ssa.Instruction, v ssa.Value) bool {
					s, ok := u.(*ssa.Send)
					if !ok || s.X != v {
						return false
					}
					if f := kit.FieldOf(s.Chan); f != nil {
						chanFields = append(chanFields, f)
					}
					return true
				})
				c.R.Check(sent, r, kit.FuncKey(fn)+": the worker node's Run error is reported", c.Pos(call.Pos()), "sent on a channel", "the error returned by the worker's node is discarded: with workers > 1 the FatalError a ProcessorNode returns (unabsorbed processor error, record-count mismatch, unknown result) never reaches ParallelNode.Run — the raw nack error is classified as transient and the pipeline is restarted instead of degraded, or the failure is lost entirely when the DLQ absorbed the nack", true)
			}
		}
	}
	c.R.Check(n >= 1, r, "parallelNodeWorker: node.Run call", c.Pos(run.Pos()), "found", "no call of Run on parallelNodeWorker.node found", true)
	// (b) the channel stored into that field by ParallelNode.Run is the errs channel handed to base.Trigger
	var errsVals []ssa.Value
	mks := kit.Instrs(run, func(in ssa.Instruction) bool { _, ok := in.(*ssa.MakeChan); return ok })
	for _, t := range kit.CallsTo(run, Set(trigger)) {
		a := t.Common().Args
		for _, mk := range mks {
			if kit.IsVar(kit.Unwrap(a[len(a)-1]), mk.(*ssa.MakeChan)) {
				errsVals = append(errsVals, mk.(*ssa.MakeChan))
			}
		}
	}
	c.R.Check(len(errsVals) == 1, r, "ParallelNode.Run: the errs channel handed to base.Trigger", c.Pos(run.Pos()), "found", "the channel ParallelNode.Run hands to base.Trigger is not a channel it made", true)
	same := func(v ssa.Value) bool {
		for _, e := range errsVals {
			if kit.IsVar(kit.Unwrap(v), e) {
				return true
			}
		}
		return false
	}
	for _, f := range chanFields {
		ok := false
		for _, fn := range kit.WithAnon(run) {
			for _, st := range kit.FieldStores(fn, f) {
				if same(st.Val) {
					ok = true
				}
			}
		}
		if !ok {
			// or handed to the constructor
			for _, e := range errsVals {
				if kit.FlowsTo(e, func(u ssa.Instruction, v ssa.Value) bool {
					st, isSt := u.(*ssa.Store)
					return isSt && st.Val == v && kit.SameField(kit.FieldOf(st.Addr), f)
				}) {
					ok = true
				}
			}
		}
		c.R.Check(ok, r, "ParallelNode.Run: workers report on the channel Run listens on", c.Pos(run.Pos()), f.Name(), "the channel the workers report their node's error on ("+f.Name()+") is not the errs channel ParallelNode.Run's trigger and drain read", true)
	}
	// (c) named result assigned by the deferred drain, which consults IsFatalError
	res := run.Signature.Results()
	named := res.Len() == 1 && res.At(0).Name() != "" && res.At(0).Name() != "_"
	c.R.Check(named, r, "ParallelNode.Run: named result", c.Pos(run.Pos()), "named", "ParallelNode.Run's result is unnamed: the deferred drain of the errs channel can only log what it finds, a worker's fatal error that was not the first to arrive is lost", true)
	if named {
		drainOK := false
		for _, fn := range kit.WithAnon(run) {
			if fn == run {
				continue
			}
			recv, stores, fatalAsked := false, false, len(kit.CallsTo(fn, Set(isFatal))) > 0
			for _, b := range fn.Blocks {
				for _, in := range b.Instrs {
					switch x := in.(type) {
					case *ssa.Select:
						for _, st := range x.States {
							if st.Dir == types.RecvOnly && same(st.Chan) {
								recv = true
							}
						}
					case *ssa.UnOp:
						if x.Op == token.ARROW && same(x.X) {
							recv = true
						}
					case *ssa.Store:
						if fv, ok := x.Addr.(*ssa.FreeVar); ok && fv.Name() == res.At(0).Name() {
							stores = true
						}
					}
				}
			}
			if recv && stores && fatalAsked {
				drainOK = true
			}
		}
		c.R.Check(drainOK, r, "ParallelNode.Run: the drain keeps a fatal error", c.Pos(run.Pos()), "drain assigns the result, consulting IsFatalError", "no deferred function of ParallelNode.Run receives from errs, assigns the named result and consults cerrors.IsFatalError: whether the pipeline is degraded or restarted depends on which error reached the main loop first", true)
	}
}

func c10R8(c *Ctx) {
	c10R8As(c, c.R.Rule("R8", "K3 stopped stays stopped during the back-off (both engines): StartWithBackoff restarts only on the !intentionalStop and !isGracefulShutdown edges, every stop that kills the tomb sets the marker first, StopAll sets the shutdown marker, and the cleanup goroutine finalizes the sentinels StartWithBackoff returns as UserStopped / SystemStopped, never Degraded", 13))
}

func c10R8As(c *Ctx, r string) {
	kill := c.W.ExtMethod("gopkg.in/tomb.v2", "Tomb", "Kill")
	isVar := c.W.LookupObj(pCerrors, "Is") // cerrors.Is = errors.Is (a package-level func variable)
	errorsIs := c.W.ExtObj("errors", "Is")
	if isVar == nil && errorsIs == nil {
		c.R.Unresolved(r, "cerrors.Is / errors.Is")
	}
	isCalls := func(fn *ssa.Function) []*ssa.Call {
		var out []*ssa.Call
		for _, b := range fn.Blocks {
			for _, in := range b.Instrs {
				x, ok := in.(*ssa.Call)
				if !ok {
					continue
				}
				if u, ok := x.Call.Value.(*ssa.UnOp); ok {
					if g, ok := u.X.(*ssa.Global); ok && isVar != nil && g.Object() == isVar {
						out = append(out, x)
					}
				}
				if f := x.Call.StaticCallee(); f != nil && errorsIs != nil && f.Object() == errorsIs {
					out = append(out, x)
				}
			}
		}
		return out
	}
	for _, rel := range []string{pLife, pLife2} {
		eng, stopFn := "v1", "(*Service).stopForceful"
		if rel == pLife2 {
			eng, stopFn = "v2", "(*Service).stopRunnablePipeline"
		}
		intent := c.Field(r, rel, "runnablePipeline", "intentionalStop")
		shut := c.Field(r, rel, "Service", "isGracefulShutdown")
		type marker struct {
			f      *types.Var
			name   string
			status string
		}
		markers := []marker{{intent, "intentionalStop", "StatusUserStopped"}, {shut, "isGracefulShutdown", "StatusSystemStopped"}}
		sentinels := map[string][]ssa.Value{}
		if fn := c.SSA(r, rel, "(*Service).StartWithBackoff"); fn != nil {
			starts := asInstrs(kit.CallsTo(fn, Set(c.Fn(r, rel, "(*Service).Start"))))
			for _, t := range markers {
				g := kit.NewGates()
				// the back-off wait: a select / channel receive in StartWithBackoff; a marker read BEFORE the
				// wait says nothing about a stop issued during it
				var waits []ssa.Instruction
				for _, b := range fn.Blocks {
					for _, in := range b.Instrs {
						switch x := in.(type) {
						case *ssa.Select:
							waits = append(waits, x)
						case *ssa.UnOp:
							if x.Op == token.ARROW {
								waits = append(waits, x)
							}
						}
					}
				}
				for _, l := range flagReadCalls(fn, t.f) {
					afterWait := false
					for _, wi := range waits {
						if kit.InstrDominates(wi, l) {
							afterWait = true
						}
					}
					if !afterWait {
						continue
					}
					g.AddEdges(kit.CondEdges(l.Value(), false), "!"+t.name)
					// what is returned on the marker's true edge
					for _, e := range kit.CondEdges(l.Value(), true) {
						for _, ret := range kit.Returns(fn) {
							if ret.Block() == e.To || e.To.Dominates(ret.Block()) {
								sentinels[t.name] = append(sentinels[t.name], kit.RetVal(ret, 0))
							}
						}
					}
				}
				c.Dominated(r, eng+" StartWithBackoff: no restart after "+t.name, starts, g, "the !"+t.name+".Load() edge read after the back-off wait")
			}
		}
		if fn := c.SSA(r, rel, stopFn); fn != nil && kill != nil {
			g := kit.NewGates()
			for _, s := range markerStores(fn, intent, true, true) {
				g.AddInstr(s, "")
			}
			c.Dominated(r, eng+" "+stopFn+": marker set before the tomb is killed by a stop", asInstrs(kit.CallsTo(fn, Set(kill))), g, "intentionalStop.Store(true)")
		}
		if fn := c.SSA(r, rel, "(*Service).StopAll"); fn != nil {
			n := 0
			for _, s := range atomicCalls(fn, shut, "Store") {
				if kit.IsBoolConst(s.Common().Args[1], true) {
					n++
				}
			}
			c.R.Check(n >= 1, r, eng+" StopAll: marks the shutdown", c.Pos(fn.Pos()), "isGracefulShutdown.Store(true)", "StopAll no longer sets the shutdown marker StartWithBackoff consults: a run parked in the back-off would be restarted in the middle of the shutdown", true)
		}
		// cleanup goroutine: the sentinels are finalized as the matching stopped status
		run := c.SSA(r, rel, "(*Service).runPipeline")
		if run == nil {
			continue
		}
		lits := litsWith(run, Set(c.Fn(r, rel, "(*Service).recoverPipeline")))
		if len(lits) != 1 {
			c.R.Fail(r, eng+" cleanup goroutine", c.Pos(run.Pos()), "expected exactly one function literal calling recoverPipeline")
			continue
		}
		cl := lits[0]
		back := kit.NewGates().AddEdges(loopBackEdges(cl), "")
		for _, t := range markers {
			key := eng + " cleanup: " + t.name + " during the back-off ends " + t.status
			var edges []kit.Edge
			for _, call := range isCalls(cl) {
				a := call.Common().Args
				for _, sv := range sentinels[t.name] {
					u, ok := sv.(*ssa.UnOp)
					if !ok {
						continue
					}
					if g, ok := u.X.(*ssa.Global); ok && len(a) == 2 && isGlobalLoad(a[1], g.Object()) {
						edges = append(edges, kit.CondEdges(call, true)...)
					}
				}
			}
			if len(edges) == 0 {
				c.R.Fail(r, key, c.Pos(cl.Pos()), "the cleanup goroutine does not test the recovery error against the sentinel StartWithBackoff returns on the "+t.name+" edge: it would be treated as a failed recovery (Degraded)")
				continue
			}
			stopped := false
			for _, us := range updateStatusCalls(c, r, cl, rel) {
				for _, e := range edges {
					if !kit.EdgeReaches(e, us, back) {
						continue
					}
					if statusIs(c, statusArg(us), t.status) {
						stopped = true
					} else {
						c.R.Fail(r, key, c.Pos(us.Pos()), "a status other than "+t.status+" is written on the "+t.name+"-during-back-off edge")
					}
				}
			}
			c.R.Check(stopped, r, key, c.Pos(cl.Pos()), "ok", "no "+t.status+" write on the "+t.name+"-during-back-off edge", true)
		}
	}
}

func c10R1(c *Ctx) {
	c10R1As(c, c.R.Rule("R1", "K3 classification dominance in the cleanup goroutine of both runPipelines", 14))
}

func c10R1As(c *Ctx, r string) {
	isFatal := Set(c.Fn(r, pCerrors, "IsFatalError"))
	stillAlive := c.W.ExtObj("gopkg.in/tomb.v2", "ErrStillAlive")
	if stillAlive == nil {
		c.R.Unresolved(r, "tomb.ErrStillAlive")
	}
	for _, rel := range []string{pLife, pLife2} {
		run := c.SSA(r, rel, "(*Service).runPipeline")
		recov := Set(c.Fn(r, rel, "(*Service).recoverPipeline"))
		if run == nil {
			continue
		}
		lits := litsWith(run, recov)
		if len(lits) != 1 {
			c.R.Fail(r, rel+".runPipeline: cleanup goroutine", c.Pos(run.Pos()), "expected exactly one function literal calling recoverPipeline")
			continue
		}
		cl := lits[0]
		recCalls := kit.CallsTo(cl, recov)
		gNotFatal := kit.NewGates().AddEdges(condEdgesOfCalls(cl, isFatal, false), "!IsFatalError(err)")
		c.Dominated(r, rel+": recovery only for a non-fatal error", asInstrs(recCalls), gNotFatal, "the !cerrors.IsFatalError(err) edge")
		// recovery never on the still-alive arm
		var aliveEdges []kit.Edge
		aliveEdges = kit.CmpEdges(cl, func(b *ssa.BinOp) (bool, bool) {
			if b.Op == token.EQL && (isGlobalLoad(b.Y, stillAlive) || isGlobalLoad(b.X, stillAlive)) {
				return true, true
			}
			return false, false
		})
		if len(aliveEdges) == 0 {
			c.R.Fail(r, rel+": ErrStillAlive arm", c.Pos(cl.Pos()), "no comparison of the tomb error with tomb.ErrStillAlive")
		}
		if rel == pLife2 {
			shut := c.Field(r, pLife2, "Service", "isGracefulShutdown")
			intent := c.Field(r, pLife2, "runnablePipeline", "intentionalStop")
			for _, t := range []struct {
				f    *types.Var
				name string
			}{{shut, "isGracefulShutdown"}, {intent, "intentionalStop"}} {
				g := kit.NewGates()
				for _, l := range flagReadCalls(cl, t.f) {
					g.AddEdges(kit.CondEdges(l.Value(), false), "!"+t.name)
				}
				c.Dominated(r, rel+": recovery never after "+t.name, asInstrs(recCalls), g, "the !"+t.name+".Load() edge")
			}
		}
		// status writes
		for _, us := range updateStatusCalls(c, r, cl, rel) {
			st := statusArg(us)
			switch {
			case statusIs(c, st, "StatusDegraded"):
				g := kit.NewGates().AddEdges(condEdgesOfCalls(cl, isFatal, true), "IsFatalError(err)")
				for _, rc := range recCalls {
					g.AddEdges(kit.FailEdges(rc), "recovery failed")
				}
				c.Dominated(r, rel+": Degraded only for a fatal error or a failed recovery", []ssa.Instruction{us}, g, "the IsFatalError(err) edge or the recoverPipeline failure edge")
			case statusIs(c, st, "StatusUserStopped", "StatusSystemStopped"):
				// reachable from the alive arm or (v2) the deliberate-stop arms: never on the fatal edge
				bad := false
				for _, e := range condEdgesOfCalls(cl, isFatal, true) {
					if kit.EdgeReaches(e, us, kit.NewGates().AddEdges(loopBackEdges(cl), "")) {
						bad = true
					}
				}
				c.R.Check(!bad, r, rel+": a stopped status is never written for a fatal error", c.Pos(us.Pos()), "ok", "a stopped status can be written on the fatal-error edge: a fatal cause would not leave the pipeline degraded", true)
				// ... and it is written only where the error is known not to be fatal: the still-alive arm, behind the
				// !IsFatalError edge, or behind the failure edge of the recovery attempt (the back-off sentinels)
				gs := kit.NewGates().AddEdges(aliveEdges, "tomb still alive").AddEdges(condEdgesOfCalls(cl, isFatal, false), "!IsFatalError(err)")
				for _, rc := range recCalls {
					gs.AddEdges(kit.FailEdges(rc), "recovery outcome")
				}
				c.Dominated(r, rel+": a stopped status is written only where the run's error is known not to be fatal", []ssa.Instruction{us}, gs, "the tomb-still-alive edge, the !IsFatalError(err) edge or the recovery outcome")
			default:
				c.R.Fail(r, rel+": cleanup status write", c.Pos(us.Pos()), "the cleanup goroutine writes a status other than Degraded / UserStopped / SystemStopped")
			}
		}
		// alive arm: only stopped statuses reachable before leaving the arm
		for _, e := range aliveEdges {
			for _, us := range updateStatusCalls(c, r, cl, rel) {
				if (us.Block() == e.To || e.To.Dominates(us.Block())) && !statusIs(c, statusArg(us), "StatusUserStopped", "StatusSystemStopped") {
					c.R.Fail(r, rel+": still-alive arm status", c.Pos(us.Pos()), "the tomb-still-alive (clean stop) arm writes a status other than UserStopped/SystemStopped")
				}
			}
			for _, rc := range recCalls {
				c.R.Check(!(rc.Block() == e.To || e.To.Dominates(rc.Block())), r, rel+": no recovery after a clean stop", c.Pos(rc.Pos()), "ok", "recoverPipeline is called on the tomb-still-alive arm", true)
			}
		}
	}
}

func c10R2R3(c *Ctx) {
	r2 := c.R.Rule("R2", "K1 closed caller sets of recoverPipeline and StartWithBackoff", 4)
	r3 := c.R.Rule("R3", "K3/K2 bounded back-off: wait and restart only below the retry bound (fatal above it), restart only while this run is still the published one, the attempt counter is only incremented/decremented by one", 16)
	for _, rel := range []string{pLife, pLife2} {
		swb := c.Fn(r2, rel, "(*Service).StartWithBackoff")
		rec := c.Fn(r2, rel, "(*Service).recoverPipeline")
		c.WhoMayRef(r2, rel+".StartWithBackoff", Set(swb), []string{rel + ".(*Service).recoverPipeline"})
		c.WhoMayRef(r2, rel+".recoverPipeline", Set(rec), []string{rel + ".(*Service).runPipeline"})
		fn := c.SSA(r3, rel, "(*Service).StartWithBackoff")
		if fn == nil {
			continue
		}
		attemptsF := c.Field(r3, rel, "runnablePipeline", "recoveryAttempts")
		maxF := c.W.LookupField(pLife, "ErrRecoveryCfg", "MaxRetries")
		if maxF == nil {
			c.R.Unresolved(r3, pLife+".ErrRecoveryCfg.MaxRetries")
			continue
		}
		adds := atomicCalls(fn, attemptsF, "Add")
		var attempt ssa.Value
		for _, a := range adds {
			if kit.IsIntConst(a.Common().Args[1], 1) {
				attempt = a.Value()
			}
		}
		c.R.Check(attempt != nil, r3, rel+".StartWithBackoff: attempt = recoveryAttempts.Add(1)", c.Pos(fn.Pos()), "ok", "the attempt number is not taken from recoveryAttempts.Add(1)", true)
		below := kit.NewGates().AddEdges(kit.CmpEdges(fn, func(b *ssa.BinOp) (bool, bool) {
			if kit.IsVar(b.X, attempt) && kit.IsFieldLoad(b.Y, maxF) {
				switch b.Op {
				case token.GTR:
					return true, false
				case token.LEQ:
					return true, true
				}
			}
			// MaxRetries != Infinite false edge = infinite retries configured
			if kit.IsFieldLoad(b.X, maxF) && b.Op == token.NEQ {
				if _, isConst := b.Y.(*ssa.Const); isConst {
					return true, false
				}
			}
			return false, false
		}), "attempt <= MaxRetries (or infinite)")
		start := Set(c.Fn(r3, rel, "(*Service).Start"))
		after := c.ExtFunc(r3, "time", "After")
		starts := kit.CallsTo(fn, start)
		if len(starts) != 1 {
			c.R.Fail(r3, rel+".StartWithBackoff: restart call", c.Pos(fn.Pos()), "expected exactly one s.Start call")
		}
		c.Dominated(r3, rel+".StartWithBackoff: restart only below the retry bound", asInstrs(starts), below, "the attempt <= MaxRetries edge")
		c.Dominated(r3, rel+".StartWithBackoff: back-off wait only below the retry bound", asInstrs(kit.CallsTo(fn, Set(after))), below, "the attempt <= MaxRetries edge")
		// the restart waits for the back-off first
		gWait := kit.NewGates()
		for _, sel := range kit.Selects(fn) {
			for i, st := range sel.States {
				if call, ok := st.Chan.(*ssa.Call); ok && kit.CalleeOf(call.Common()) == after {
					gWait.AddEdges(kit.SelectArmEdges(sel, i), "<-time.After(duration)")
				}
			}
		}
		c.Dominated(r3, rel+".StartWithBackoff: restart only after the back-off delay elapsed", asInstrs(starts), gWait, "the <-time.After(duration) arm")
		// exceeding returns FatalError
		fatal := c.Fn(r3, pCerrors, "FatalError")
		above := kit.CmpEdges(fn, func(b *ssa.BinOp) (bool, bool) {
			if kit.IsVar(b.X, attempt) && kit.IsFieldLoad(b.Y, maxF) && b.Op == token.GTR {
				return true, true
			}
			return false, false
		})
		okF := len(above) > 0
		for _, e := range above {
			for _, ret := range kit.Returns(fn) {
				if ret.Block() == e.To || e.To.Dominates(ret.Block()) {
					v := kit.RetVal(ret, 0)
					call, isCall := v.(*ssa.Call)
					if !isCall || kit.CalleeOf(call.Common()) != fatal {
						okF = false
					}
				}
			}
		}
		c.R.Check(okF, r3, rel+".StartWithBackoff: exhausted retries return a fatal error", c.Pos(fn.Pos()), "cerrors.FatalError(...)", "exceeding MaxRetries no longer returns cerrors.FatalError: the cleanup goroutine would not leave the pipeline degraded", true)
		// still the live run
		runningF := c.Field(r3, rel, "Service", "runningPipelines")
		rpParam := paramOfNamed(fn, "runnablePipeline")
		gLive := kit.NewGates()
		for _, g := range mapCalls(fn, runningF, "Get") {
			cur := kit.ResultN(g.(ssa.CallInstruction), 0)
			gLive.AddEdges(kit.CmpEdges(fn, func(b *ssa.BinOp) (bool, bool) {
				if (b.X == cur && kit.IsVar(b.Y, rpParam)) || (b.Y == cur && kit.IsVar(b.X, rpParam)) {
					switch b.Op {
					case token.NEQ:
						return true, false
					case token.EQL:
						return true, true
					}
				}
				return false, false
			}), "published run == rp")
		}
		c.Dominated(r3, rel+".StartWithBackoff: restart only while this run is still the published one", asInstrs(starts), gLive, "the runningPipelines[id] == rp edge")
		// counter discipline (whole package): only Add(+1) here and Add(-1) in the AfterFunc closure
		p := c.W.Pkg(rel)
		sp := c.W.SSA[p.Types]
		for _, m := range sp.Members {
			collect := func(f *ssa.Function) {
				for _, ff := range kit.WithAnon(f) {
					for _, meth := range []string{"Store", "Swap", "CompareAndSwap", "Add"} {
						for _, call := range atomicCalls(ff, attemptsF, meth) {
							root := ff
							for root.Parent() != nil {
								root = root.Parent()
							}
							ok := meth == "Add" && strings.HasSuffix(kit.FuncKey(root), ".StartWithBackoff") && (kit.IsIntConst(call.Common().Args[1], 1) || kit.IsIntConst(call.Common().Args[1], -1))
							c.R.Check(ok, r3, rel+": recoveryAttempts."+meth+" in "+kit.FuncKey(root), c.Pos(call.Pos()), "±1 in StartWithBackoff", "the recovery attempt counter is modified by "+meth+" in "+kit.FuncKey(root)+": only StartWithBackoff's +1 and its delayed −1 may touch it (a reset makes the retry bound unreachable)", false)
						}
					}
				}
			}
			switch x := m.(type) {
			case *ssa.Function:
				collect(x)
			case *ssa.Type:
				ms := c.W.Prog.MethodSets.MethodSet(types.NewPointer(x.Type()))
				for i := 0; i < ms.Len(); i++ {
					if f := c.W.Prog.MethodValue(ms.At(i)); f != nil && f.Pkg == sp {
						collect(f)
					}
				}
			}
		}
		// the delayed decrement is scheduled with the configured window
		afterFunc := c.ExtFunc(r3, "time", "AfterFunc")
		okDec := false
		for _, call := range kit.CallsTo(fn, Set(afterFunc)) {
			if mc, ok := call.Common().Args[1].(*ssa.MakeClosure); ok {
				for _, dc := range atomicCalls(mc.Fn.(*ssa.Function), attemptsF, "Add") {
					if kit.IsIntConst(dc.Common().Args[1], -1) {
						okDec = true
					}
				}
			}
		}
		c.R.Check(okDec, r3, rel+".StartWithBackoff: attempts decay after the retries window", c.Pos(fn.Pos()), "time.AfterFunc(... Add(-1))", "the delayed decrement of the attempt counter is gone", true)
		// Start carries the counters over from the previous run
		if st := c.SSA(r3, rel, "(*Service).Start"); st != nil {
			boF := c.Field(r3, rel, "runnablePipeline", "backoff")
			okCarry := len(kit.FieldStores(st, attemptsF)) == 1 && len(kit.FieldStores(st, boF)) == 1
			for _, s := range kit.FieldStores(st, attemptsF) {
				if !kit.IsFieldLoad(s.Val, attemptsF) {
					okCarry = false
				}
			}
			c.R.Check(okCarry, r3, rel+".Start: recovery state carried over from the previous run", c.Pos(st.Pos()), "rp.recoveryAttempts = oldRp.recoveryAttempts", "Start no longer carries the attempt counter / back-off over from the previous run: every restart would start counting from zero", true)
		}
	}
}

func c10R4(c *Ctx) {
	r := c.R.Rule("R4", "K3 fatal-cause table: force stop is FatalError(ErrForceStop) in both engines; a v1 processor error whose nack fails, an unknown result kind and a record-count mismatch are fatal; a failed v1 DLQ write is fatal; a v2 processor error whose nack fails is fatal", 9)
	fatal := c.Fn(r, pCerrors, "FatalError")
	kill := c.W.ExtMethod("gopkg.in/tomb.v2", "Tomb", "Kill")
	forceStop := c.W.LookupObj(pPipe, "ErrForceStop")
	if kill == nil || forceStop == nil {
		c.R.Unresolved(r, "tomb.Kill / pipeline.ErrForceStop")
		return
	}
	isFatalOfForce := func(v ssa.Value) bool {
		call, ok := v.(*ssa.Call)
		if !ok || kit.CalleeOf(call.Common()) != fatal {
			return false
		}
		return isGlobalLoad(call.Call.Args[0], forceStop)
	}
	for _, t := range [][2]string{{pLife, "(*Service).stopForceful"}, {pLife2, "(*Service).stopRunnablePipeline"}} {
		fn := c.SSA(r, t[0], t[1])
		if fn == nil {
			continue
		}
		n := 0
		for _, k := range kit.CallsTo(fn, Set(kill)) {
			a := k.Common().Args
			if call, ok := a[1].(*ssa.Call); ok && kit.CalleeOf(call.Common()) == fatal {
				if isFatalOfForce(a[1]) {
					n++
				}
				continue
			}
			c.R.Fail(r, t[1]+": tomb killed with a non-fatal error", c.Pos(k.Pos()), "a stop path kills the tomb with an error that is not wrapped in cerrors.FatalError: recovery would restart a pipeline the operator stopped")
		}
		c.R.Check(n == 1, r, t[0]+t[1]+": force stop kills with FatalError(ErrForceStop)", c.Pos(fn.Pos()), "ok", "the force-stop path no longer kills the tomb with cerrors.FatalError(pipeline.ErrForceStop)", true)
	}
	// v1 processor node: error returns of the ErrorRecord / default / MultiRecord arms and the length mismatch are fatal
	if fn := c.SSA(r, pStream, "(*ProcessorNode).handleProcessedRecord"); fn != nil {
		for _, ret := range kit.Returns(fn) {
			v := kit.RetVal(ret, 0)
			if kit.IsNilConst(v) {
				continue
			}
			call, isCall := v.(*ssa.Call)
			if !isCall {
				continue
			}
			f := kit.CalleeOf(call.Common())
			if f == nil {
				continue
			}
			ok := f == fatal || f.Name() == "handleSingleRecord" || f.Name() == "Nack"
			if !ok {
				// a helper of the same package all of whose error returns are fatal or delegated
				var summary func(h *ssa.Function, depth int) bool
				summary = func(h *ssa.Function, depth int) bool {
					if h == nil || len(h.Blocks) == 0 || h.Pkg != fn.Pkg || depth <= 0 {
						return false
					}
					n := 0
					for _, hr := range kit.Returns(h) {
						hv := kit.RetVal(hr, len(hr.Results)-1)
						if kit.IsNilConst(hv) {
							continue
						}
						hc, isC := hv.(*ssa.Call)
						if !isC {
							return false
						}
						hf := kit.CalleeOf(hc.Common())
						if hf == nil {
							return false
						}
						if hf == fatal || hf.Name() == "handleSingleRecord" || hf.Name() == "Nack" || summary(hc.Call.StaticCallee(), depth-1) {
							n++
							continue
						}
						return false
					}
					return n > 0
				}
				ok = summary(call.Call.StaticCallee(), 2)
			}
			c.R.Check(ok, r, "v1 handleProcessedRecord: error returns are fatal or delegated", c.Pos(posOf(ret)), f.Name(), "handleProcessedRecord returns a non-fatal constructed error", true)
		}
	}
	if fn := c.SSA(r, pStream, "(*ProcessorNode).Run"); fn != nil {
		// length mismatch arm returns FatalError
		h := Set(c.Fn(r, pStream, "(*ProcessorNode).handleProcessedRecord"))
		_ = h
		cnt := 0
		// a helper of the same package all of whose non-nil error returns are FatalError(...)
		allFatal := func(h *ssa.Function) int {
			if h == nil || h.Pkg != fn.Pkg || len(h.Blocks) == 0 {
				return 0
			}
			n := 0
			for _, hr := range kit.Returns(h) {
				hv := kit.RetVal(hr, len(hr.Results)-1)
				if kit.IsNilConst(hv) {
					continue
				}
				hc, isC := hv.(*ssa.Call)
				if !isC || kit.CalleeOf(hc.Common()) != fatal {
					return 0
				}
				n++
			}
			return n
		}
		for _, ret := range kit.Returns(fn) {
			if call, ok := kit.RetVal(ret, 0).(*ssa.Call); ok {
				if kit.CalleeOf(call.Common()) == fatal {
					cnt++
				} else {
					cnt += allFatal(call.Call.StaticCallee())
				}
			}
		}
		c.R.Check(cnt >= 2, r, "v1 ProcessorNode.Run: a record-count mismatch is fatal", c.Pos(fn.Pos()), "FatalError returns", "the record-count mismatch no longer returns cerrors.FatalError", true)
	}
	// v2 fan-out: the pass's error is the join of ALL branch errors (conc's ErrorPool default); returning only the
	// first one lets a fast transient failure hide a fatal one from the classification
	{
		var firstErr []kit.Ref
		for _, t := range []string{"ErrorPool", "ContextPool", "ResultErrorPool", "ResultContextPool"} {
			if f := c.W.ExtMethod("github.com/sourcegraph/conc/pool", t, "WithFirstError"); f != nil {
				for _, ref := range c.W.Refs(Set(f)) {
					if strings.HasPrefix(ref.Pkg, pFunnel) || strings.HasPrefix(ref.Pkg, pLife2) {
						firstErr = append(firstErr, ref)
					}
				}
			}
		}
		pos := ""
		if len(firstErr) > 0 {
			pos = c.Pos(firstErr[0].Pos)
		}
		c.R.Check(len(firstErr) == 0, r, "v2 fan-out: every branch error reaches the classification", pos, "pool.WithErrors() joins all errors", "the v2 engine uses pool.WithFirstError: a fan-out pass returns only the branch error that happened first, so a fatal cause in a slower branch (DLQ threshold, DLQ write failure, unabsorbed processor error) is masked by a transient one and the pipeline is restarted instead of degraded", false)
	}
	// v1: a failed DLQ write is fatal (F11a): every return behind the failure edge of Handler.Write is FatalError(...)
	if fn := c.SSA(r, pStream, "(*DLQHandlerNode).Nack"); fn != nil {
		write := c.Fam(c.Fn(r, pStream, "DLQHandler.Write"))
		n := 0
		for _, call := range kit.CallsTo(fn, write) {
			for _, e := range kit.FailEdges(call) {
				for _, ret := range kit.Returns(fn) {
					if !(ret.Block() == e.To || e.To.Dominates(ret.Block())) {
						continue
					}
					n++
					v := kit.RetVal(ret, 0)
					cl, isCall := v.(*ssa.Call)
					c.R.Check(isCall && kit.CalleeOf(cl.Common()) == fatal, r, "v1 DLQHandlerNode.Nack: a failed DLQ write is fatal", c.Pos(posOf(ret)), "FatalError", "the DLQ write failure is returned without cerrors.FatalError: the pipeline would be restarted forever, re-reading and re-failing the same record", true)
				}
			}
		}
		c.R.Check(n >= 1, r, "v1 DLQHandlerNode.Nack: DLQ write failure return", c.Pos(fn.Pos()), "found", "no return found behind the failure edge of Handler.Write", true)
	}
	// v2: a processor error the DLQ does not absorb is fatal (F11b): behind the failure edge of the task's
	// acker.Nack there is a return of FatalError(...) guarded by the task being a ProcessorTask
	if fn := c.SSA(r, pFunnel, "(*Worker).doTaskAttempt"); fn != nil {
		nack := c.Fam(c.Fn(r, pFunnel, "ackNacker.Nack"))
		procT := c.W.LookupType(pFunnel, "ProcessorTask")
		found := false
		for _, call := range kit.CallsTo(fn, nack) {
			for _, e := range kit.FailEdges(call) {
				for _, ret := range kit.Returns(fn) {
					if !(ret.Block() == e.To || e.To.Dominates(ret.Block())) {
						continue
					}
					cl, isCall := kit.RetVal(ret, 0).(*ssa.Call)
					if !isCall || kit.CalleeOf(cl.Common()) != fatal {
						continue
					}
					// guarded by a type assertion to *ProcessorTask
					for _, in := range kit.Instrs(fn, func(in ssa.Instruction) bool { _, ok := in.(*ssa.TypeAssert); return ok }) {
						ta := in.(*ssa.TypeAssert)
						if pt, ok := ta.AssertedType.(*types.Pointer); ok && procT != nil && types.Identical(pt.Elem(), procT) && kit.InstrDominates(ta, ret) {
							found = true
						}
					}
				}
			}
		}
		c.R.Check(found, r, "v2 doTaskAttempt: a processor error whose nack fails is fatal", c.Pos(fn.Pos()), "FatalError", "a ProcessorTask nack failure is no longer returned as cerrors.FatalError: an unabsorbed processor error would restart the pipeline forever", true)
	}
	// v2: a reply whose length does not fit (no results / more results than records) is a non-converging processor:
	// nothing was acked, a restart replays the same records into the same processor (F44) — fatal, as in v1
	if fn := c.SSA(r, pFunnel, "(*ProcessorTask).Do"); fn != nil {
		n := 0
		for _, ret := range kit.Returns(fn) {
			v := kit.RetVal(ret, 0)
			if kit.IsNilConst(v) {
				continue
			}
			cl, isCall := v.(*ssa.Call)
			if !isCall {
				continue // a propagated error value keeps its own classification
			}
			f := kit.CalleeOf(cl.Common())
			if f == nil || f.Pkg() == nil || !strings.HasSuffix(f.Pkg().Path(), "/cerrors") {
				// cerrors.Errorf is a package-level variable in this repo: a call through it has no static callee
				if _, isU := cl.Call.Value.(*ssa.UnOp); !isU {
					continue
				}
			}
			n++
			c.R.Check(f == fatal, r, "v2 ProcessorTask.Do: a constructed error (reply does not fit the records) is fatal", c.Pos(posOf(ret)), "FatalError", "ProcessorTask.Do returns a freshly constructed, unclassified error for a processor reply that does not fit the records it was given: nothing was acked, so recovery restarts the pipeline, replays the same records into the same deterministic processor and fails again — with the default unlimited retries it flaps between Running and Recovering for ever instead of degrading (the default engine marks the same failure fatal)", true)
		}
		c.R.Check(n >= 2, r, "v2 ProcessorTask.Do: length-mismatch returns", c.Pos(fn.Pos()), "found", "fewer than two constructed error returns found in ProcessorTask.Do", true)
	}
}

func c10R5(c *Ctx) {
	r := c.R.Rule("R5", "K3 deliberate-stop markers: v2 stores intentionalStop before stopping any worker and clears it only when nothing was armed; StopAll marks the shutdown first", 3)
	if fn := c.SSA(r, pLife2, "(*Service).stopRunnablePipeline"); fn != nil {
		intent := c.Field(r, pLife2, "runnablePipeline", "intentionalStop")
		setTrue := markerStores(fn, intent, true, true)
		setFalse := markerStores(fn, intent, false, false)
		c.R.Check(len(setTrue) >= 1, r, "stopRunnablePipeline: marks the stop as intentional", c.Pos(fn.Pos()), "ok", "stopRunnablePipeline no longer sets intentionalStop", true)
		// worker stops happen in goroutine literals spawned after the marker
		wstop := Set(c.Fn(r, pFunnel, "(*Worker).Stop"))
		var spawns []ssa.Instruction
		for _, in := range kit.Instrs(fn, func(in ssa.Instruction) bool { _, ok := in.(*ssa.Go); return ok }) {
			if mc, ok := in.(*ssa.Go).Call.Value.(*ssa.MakeClosure); ok && len(kit.CallsTo(mc.Fn.(*ssa.Function), wstop)) > 0 {
				spawns = append(spawns, in)
			}
		}
		for _, call := range kit.CallsTo(fn, wstop) {
			spawns = append(spawns, call)
		}
		g := kit.NewGates()
		for _, s := range setTrue {
			g.AddInstr(s, "")
		}
		if len(spawns) == 0 {
			c.R.Fail(r, "stopRunnablePipeline: worker stops", c.Pos(fn.Pos()), "no Worker.Stop call found")
		}
		c.Dominated(r, "stopRunnablePipeline: marker set before any worker is stopped", spawns, g, "intentionalStop.Store(true)")
		// F54: a graceful stop that armed nothing (its deadline ran out) takes back only its OWN request
		markerClearedOnlyWhenUnheld(c, r, "v2", pLife2, intent)

		// "armed" means "Worker.Stop set the flag": the flag has no other writer (a worker whose Do already
		// returned must not look armed, or the marker of a stop issued during the back-off is cleared again)
		stopF := c.Field(r, pFunnel, "Worker", "stop")
		c.WhoMayWrite(r, "funnel.Worker.stop", stopF, []string{pFunnel + ".(*Worker).Stop", pFunnel + ".(*Worker).doTaskAttempt" /* the source-exhausted (io.EOF) arm arms the flag before tearing its own source down */}, func(m string) bool { return m == "Store" || m == "Swap" || m == "CompareAndSwap" })
		// cleared only on the nothing-armed arm
		gNone := kit.NewGates().AddEdges(kit.LenEdges(fn, nil, 0, 0), "len(armedSources)==0")
		c.Dominated(r, "stopRunnablePipeline: marker cleared only when no worker was armed", setFalse, gNone, "the len(armedSources)==0 edge")
	}
	if fn := c.SSA(r, pLife2, "(*Service).StopAll"); fn != nil {
		shut := c.Field(r, pLife2, "Service", "isGracefulShutdown")
		g := kit.NewGates()
		for _, s := range atomicCalls(fn, shut, "Store") {
			if kit.IsBoolConst(s.Common().Args[1], true) {
				g.AddInstr(s, "")
			}
		}
		c.Dominated(r, "StopAll: shutdown marked before any pipeline is stopped", asInstrs(kit.CallsTo(fn, Set(c.Fn(r, pLife2, "(*Service).stopRunnablePipeline")))), g, "isGracefulShutdown.Store(true)")
	}
}

// c10R7v1: the cleanup goroutine reads the tomb's reason right after
// nodesWg.Wait(); tomb.v2 records a goroutine's returned error only after all
// of its deferred calls ran, so the node goroutine itself must Kill the tomb
// with its result before the deferred nodesWg.Done() (F22).
func c10R7v1(c *Ctx, r string) {
	run := c.SSA(r, pLife, "(*Service).runPipeline")
	kill := c.W.ExtMethod("gopkg.in/tomb.v2", "Tomb", "Kill")
	done := c.W.ExtMethod("sync", "WaitGroup", "Done")
	nodeRun := c.Fn(r, pStream, "Node.Run")
	if run == nil || kill == nil || done == nil || nodeRun == nil {
		c.R.Unresolved(r, "v1 runPipeline / tomb.Kill / WaitGroup.Done / stream.Node.Run")
		return
	}
	lits := litsWith(run, c.Fam(nodeRun))
	if len(lits) != 1 {
		c.R.Fail(r, "v1 runPipeline: node goroutine", c.Pos(run.Pos()), "expected exactly one function literal calling Node.Run")
		return
	}
	lit := lits[0]
	var doneDefers, killDefers []*ssa.Defer
	for _, b := range lit.Blocks {
		for _, in := range b.Instrs {
			d, ok := in.(*ssa.Defer)
			if !ok {
				continue
			}
			if kit.CalleeOf(&d.Call) == done {
				doneDefers = append(doneDefers, d)
			}
			if cl := closureOf(d); cl != nil {
				for _, k := range kit.CallsTo(cl, Set(kill)) {
					// the killed-with value is the goroutine's own (named) result
					arg := k.Common().Args[1]
					own := false
					if u, ok := arg.(*ssa.UnOp); ok && u.Op == token.MUL {
						if fv, ok := u.X.(*ssa.FreeVar); ok {
							if a, ok := kit.ResolveFreeVar(fv).(*ssa.Alloc); ok && a.Parent() == lit && isErrorType(a.Type().(*types.Pointer).Elem()) {
								own = true
							}
						}
					}
					if own {
						killDefers = append(killDefers, d)
					}
				}
			}
		}
	}
	if len(doneDefers) == 0 {
		c.R.Fail(r, "v1 node goroutine: nodesWg.Done", c.Pos(lit.Pos()), "no deferred nodesWg.Done() found in the node goroutine")
		return
	}
	for _, dd := range doneDefers {
		ok := false
		for _, kd := range killDefers {
			// deferred calls run last-registered-first: the Kill closure must be registered after Done
			if kit.InstrDominates(dd, kd) {
				ok = true
			}
		}
		c.R.Check(ok, r, "v1 node goroutine: tomb killed with the node's own error before nodesWg.Done()", c.Pos(dd.Pos()), "defer Kill(errOut) registered after defer nodesWg.Done()", "the node goroutine does not record its error on the tomb before nodesWg.Done(): the cleanup goroutine can pass nodesWg.Wait() and read tomb.ErrStillAlive for a run that failed — a failed pipeline is finalized as UserStopped, never degraded or recovered", true)
	}
}

func c10R7(c *Ctx) {
	r := c.R.Rule("R7", "K3 root cause first: a v2 worker goroutine kills the tomb with its own Do error (when non-nil) before it closes the worker; a v1 node goroutine kills the tomb with its own result before it counts as stopped (nodesWg.Done)", 3)
	c10R7v1(c, r)
	run := c.SSA(r, pLife2, "(*Service).runPipeline")
	if run == nil {
		return
	}
	do := Set(c.Fn(r, pFunnel, "(*Worker).Do"))
	closeW := Set(c.Fn(r, pFunnel, "(*Worker).Close"))
	kill := c.W.ExtMethod("gopkg.in/tomb.v2", "Tomb", "Kill")
	lits := litsWith(run, do)
	if len(lits) != 1 || kill == nil {
		c.R.Fail(r, "v2 runPipeline: worker goroutine", c.Pos(run.Pos()), "expected exactly one function literal calling Worker.Do")
		return
	}
	w := lits[0]
	for _, d := range kit.CallsTo(w, do) {
		doErr := d.Value()
		g := kit.NewGates().AddEdges(kit.NilEdges(doErr, true), "doErr == nil")
		for _, k := range kit.CallsTo(w, Set(kill)) {
			if k.Common().Args[1] == doErr {
				g.AddInstr(k, "rp.t.Kill(doErr)")
			}
		}
		c.Dominated(r, "v2 worker: tomb killed with the worker's own error before Close", asInstrs(kit.CallsTo(w, closeW)), g, "rp.t.Kill(doErr) (or the doErr == nil edge)")
		// and the kill is itself on the non-nil edge
		for _, k := range kit.CallsTo(w, Set(kill)) {
			if k.Common().Args[1] == doErr {
				c.Dominated(r, "v2 worker: Kill(doErr) only for a non-nil error", []ssa.Instruction{k}, kit.NewGates().AddEdges(kit.NilEdges(doErr, false), ""), "the doErr != nil edge")
			}
		}
	}
}

// ---- C11 -----------------------------------------------------------------------

func runC11(c *Ctx) {
	c11R1(c)
	c11R2R5(c)
	c11R3(c)
	c11R4(c)
	c11R6(c)
	c11R7(c)
	c11R8(c)
	c11R9(c)
	c11R10(c)
	c11R13(c)
	c11R14(c)
	c11R15(c)
	c11R16(c)
	c11R17(c)
	c11R18(c)
	c11R19(c)
	c10R1As(c, c.R.Rule("R12", "K3 (= C10.R1) the stored status agrees with how the run ended: in the cleanup goroutine of both engines Degraded is written only for a fatal error or a failed recovery, and a stopped status only where the run's error is known not to be fatal", 14))
	r11 := c.R.Rule("R11", "K5 frozen guarded-by table: pipeline.Instance.status is read and written only under statusLock (the status Start/Stop decide on is never a torn or stale read)", 2)
	c.guardTable(r11, guardEntry{Rel: pPipe, Struct: "Instance", Mutex: "statusLock", Fields: []string{"status"}, Min: 2})
}

// c11R13: the cleanup goroutines of both engines write the run's final status exactly once and, when that write
// cannot be persisted, leave with the run's entry still published — what keeps the pipeline startable is that the
// live instance already carries the final status. UpdateStatus therefore publishes the status it was given
// unconditionally: every SetStatus in it stores its parameter, and the first one precedes the persist.
func c11R13(c *Ctx) {
	r := c.R.Rule("R13", "K6/K3 the live status follows the run's end even when it cannot be persisted: every Instance.SetStatus in pipeline.Service.UpdateStatus stores the status parameter (no roll-back to the previous status — the cleanup goroutine leaves on a failed terminal write, a status left at Running with no live run refuses every later Start), and it precedes store.Set", 3)
	fn := c.SSA(r, pPipe, "(*Service).UpdateStatus")
	set := c.Fn(r, pPipe, "(*Instance).SetStatus")
	storeSet := c.Fn(r, pPipe, "(*Store).Set")
	if fn == nil || set == nil || storeSet == nil {
		return
	}
	var param ssa.Value
	for _, p := range fn.Params {
		if n, ok := p.Type().(*types.Named); ok && n.Obj().Name() == "Status" {
			param = p
		}
	}
	if param == nil {
		c.R.Unresolved(r, "UpdateStatus: status parameter")
		return
	}
	calls := kit.CallsToDeep(fn, Set(set))
	c.R.Check(len(calls) >= 1, r, "UpdateStatus: sets the live status", c.Pos(fn.Pos()), "SetStatus", "UpdateStatus no longer calls Instance.SetStatus", true)
	g := kit.NewGates()
	for _, call := range calls {
		a := call.Common().Args
		ok := kit.IsVar(a[len(a)-1], param)
		c.R.Check(ok, r, "UpdateStatus: SetStatus stores the requested status", c.Pos(call.Pos()), "status parameter", "UpdateStatus sets the live status to something other than the status it was asked to record (a roll-back on a failed persist): a run whose terminal status write fails is left reported as Running with no live run — Start is refused with ErrPipelineRunning for ever, Stop resolves a dead run", true)
		if ok {
			g.AddInstr(call, "SetStatus(status)")
		}
	}
	c.Dominated(r, "UpdateStatus: live status set before the persist", asInstrs(kit.CallsTo(fn, Set(storeSet))), g, "pipeline.SetStatus(status)")
}

// c11R10: a run whose start-up fails after its nodes were started is ended
// before Start reports the failure (F16).
func c11R10(c *Ctx) {
	r := c.R.Rule("R10", "K4 a failed start ends the run (both engines): on the failure edge of UpdateStatus(Running) in runPipeline every exit has killed the run's tomb and joined it (v1: un-published the run, killed its tomb, joined the node goroutines; v2: killed the tomb and waited for it)", 5)
	fn := c.SSA(r, pLife, "(*Service).runPipeline")
	kill := c.W.ExtMethod("gopkg.in/tomb.v2", "Tomb", "Kill")
	wait := c.W.ExtMethod("sync", "WaitGroup", "Wait")
	del := c.Fn(r, pLife, "(*Service).deleteRunningPipelineIfCurrent")
	if fn == nil || kill == nil || wait == nil || del == nil {
		c.R.Unresolved(r, "runPipeline / tomb.Kill / sync.WaitGroup.Wait")
		return
	}
	n := 0
	for _, us := range updateStatusCalls(c, r, fn, pLife) {
		if !statusIs(c, statusArg(us), "StatusRunning") {
			continue
		}
		for _, e := range kit.FailEdges(us) {
			n++
			for _, t := range []struct {
				set  kit.FuncSet
				what string
			}{{Set(del), "un-publishes the run"}, {Set(kill), "kills the tomb"}, {Set(wait), "joins the node goroutines"}} {
				g := kit.NewGates()
				for _, call := range kit.CallsTo(fn, t.set) {
					g.AddInstr(call, t.what)
				}
				ok, _ := kit.AllExitsFromEdge(e, false, kit.ExitSpec{Gates: g})
				c.R.Check(ok && !g.Empty(), r, "v1 runPipeline: failed Running write "+t.what, c.Pos(us.Pos()), "on every exit", "an exit after a failed UpdateStatus(Running) "+"skips the step that "+t.what+": the already-started nodes keep running unreachable by Stop/WaitPipeline and their connectors stay open", true)
			}
		}
	}
	if n == 0 {
		c.R.Fail(r, "v1 runPipeline: failure edge of the Running status write", c.Pos(fn.Pos()), "no failure edge of UpdateStatus(StatusRunning) found")
	}
	// v2 (F52): the workers were released and the run published before the Running status is written; when that
	// write fails Start reports the failure, so the run must not stay live behind it: it is killed (fatal — a failed
	// start is not "recovered") and joined before the error is returned
	if fn2 := c.SSA(r, pLife2, "(*Service).runPipeline"); fn2 != nil {
		twait := c.W.ExtMethod("gopkg.in/tomb.v2", "Tomb", "Wait")
		m := 0
		for _, us := range updateStatusCalls(c, r, fn2, pLife2) {
			if !statusIs(c, statusArg(us), "StatusRunning") {
				continue
			}
			for _, e := range kit.FailEdges(us) {
				m++
				for _, t := range []struct {
					set  kit.FuncSet
					what string
				}{{Set(kill), "kills the tomb"}, {Set(twait), "waits for the run to end"}} {
					g := kit.NewGates()
					for _, call := range kit.CallsTo(fn2, t.set) {
						g.AddInstr(call, t.what)
					}
					ok, _ := kit.AllExitsFromEdge(e, false, kit.ExitSpec{Gates: g})
					c.R.Check(ok && !g.Empty(), r, "v2 runPipeline: failed Running write "+t.what, c.Pos(us.Pos()), "on every exit", "an exit after a failed UpdateStatus(Running) in the arch-v2 runPipeline skips the step that "+t.what+": Start returns the error while the workers keep running with their connectors open — after a recovery restart the run lives on behind the Degraded status the recovery arm writes, which Stop refuses to touch", true)
				}
			}
		}
		c.R.Check(m >= 1, r, "v2 runPipeline: failure edge of the Running status write", c.Pos(fn2.Pos()), "found", "no failure edge of UpdateStatus(StatusRunning) found in the arch-v2 runPipeline", true)
	}
}

func c11R8(c *Ctx) {
	r := c.R.Rule("R8", "K3 stop/wait act on the live run: after the back-off, StartWithBackoff restarts only when the run it belongs to is still the published one (a newer run started meanwhile is left alone)", 2)
	for _, rel := range []string{pLife, pLife2} {
		fn := c.SSA(r, rel, "(*Service).StartWithBackoff")
		if fn == nil {
			continue
		}
		runningF := c.Field(r, rel, "Service", "runningPipelines")
		rpParam := paramOfNamed(fn, "runnablePipeline")
		gLive := kit.NewGates()
		for _, g := range mapCalls(fn, runningF, "Get") {
			cur := kit.ResultN(g.(ssa.CallInstruction), 0)
			gLive.AddEdges(kit.CmpEdges(fn, func(b *ssa.BinOp) (bool, bool) {
				if (b.X == cur && kit.IsVar(b.Y, rpParam)) || (b.Y == cur && kit.IsVar(b.X, rpParam)) {
					switch b.Op {
					case token.NEQ:
						return true, false
					case token.EQL:
						return true, true
					}
				}
				return false, false
			}), "published run == rp")
		}
		c.Dominated(r, rel+".StartWithBackoff: a superseded run never restarts (or fails) over the live one", asInstrs(kit.CallsTo(fn, Set(c.Fn(r, rel, "(*Service).Start")))), gLive, "the runningPipelines[id] == rp edge")
	}
}

func c11R1(c *Ctx) {
	r := c.R.Rule("R1", "K3/K1 publish before status: runningPipelines.Set precedes UpdateStatus(Running) in runPipeline, which is the only publisher", 6)
	for _, rel := range []string{pLife, pLife2} {
		fn := c.SSA(r, rel, "(*Service).runPipeline")
		if fn == nil {
			continue
		}
		runningF := c.Field(r, rel, "Service", "runningPipelines")
		sets := mapCalls(fn, runningF, "Set")
		c.R.Check(len(sets) == 1, r, rel+".runPipeline: publishes the run", c.Pos(fn.Pos()), "ok", "runPipeline does not publish the run exactly once", true)
		g := kit.NewGates()
		for _, s := range sets {
			g.AddInstr(s, "runningPipelines.Set")
		}
		var running []ssa.Instruction
		for _, us := range updateStatusCalls(c, r, fn, rel) {
			if statusIs(c, statusArg(us), "StatusRunning") {
				running = append(running, us)
			}
		}
		if len(running) != 1 {
			c.R.Fail(r, rel+".runPipeline: Running status write", c.Pos(fn.Pos()), "expected exactly one UpdateStatus(StatusRunning)")
		}
		c.Dominated(r, rel+".runPipeline: run published before the Running status is visible", running, g, "runningPipelines.Set(id, rp)")
		// published value is the rp parameter
		for _, s := range sets {
			a := s.(ssa.CallInstruction).Common().Args
			rpP := paramOfNamed(fn, "runnablePipeline")
			c.R.Check(kit.IsVar(a[len(a)-1], rpP), r, rel+".runPipeline: publishes this run", c.Pos(posOf(s)), "ok", "the published value is not the run being started", true)
		}
		// no other publisher in the package
		p := c.W.Pkg(rel)
		sp := c.W.SSA[p.Types]
		ms := c.W.Prog.MethodSets.MethodSet(types.NewPointer(c.W.LookupType(rel, "Service")))
		for i := 0; i < ms.Len(); i++ {
			f := c.W.Prog.MethodValue(ms.At(i))
			if f == nil || f.Pkg != sp || f == fn {
				continue
			}
			for _, ff := range kit.WithAnon(f) {
				for _, s := range mapCalls(ff, runningF, "Set") {
					c.R.Fail(r, rel+": runningPipelines.Set in "+kit.FuncKey(f), c.Pos(posOf(s)), "a run is published outside runPipeline")
				}
			}
		}
	}
}

func c11R2R5(c *Ctx) {
	r2 := c.R.Rule("R2", "K1/K3 compare-and-delete (both engines): the published entry is removed only by deleteRunningPipelineIfCurrent, on the current==rp edge", 6)
	r5 := c.R.Rule("R5", "K5 publication mutex (both engines): every write of runningPipelines happens with publishMu held", 4)
	spec := c.W.StdLockSpec()
	for _, rel := range []string{pLife, pLife2} {
		eng := "v1"
		if rel == pLife2 {
			eng = "v2"
		}
		runningF := c.Field(r2, rel, "Service", "runningPipelines")
		p := c.W.Pkg(rel)
		if p == nil {
			continue
		}
		sp := c.W.SSA[p.Types]
		ms := c.W.Prog.MethodSets.MethodSet(types.NewPointer(c.W.LookupType(rel, "Service")))
		nDel := 0
		for i := 0; i < ms.Len(); i++ {
			f := c.W.Prog.MethodValue(ms.At(i))
			if f == nil || f.Pkg != sp {
				continue
			}
			for _, ff := range kit.WithAnon(f) {
				ls := kit.Locksets(ff, spec, nil)
				for _, d := range mapCalls(ff, runningF, "Delete") {
					nDel++
					ok := strings.HasSuffix(kit.FuncKey(f), ".deleteRunningPipelineIfCurrent")
					c.R.Check(ok, r2, eng+" runningPipelines.Delete in "+kit.FuncKey(f), c.Pos(posOf(d)), "compare-and-delete helper", "the published entry is deleted in "+kit.FuncKey(f)+" without the compare-and-delete helper: a finished run can delete its successor's entry (#2806)", false)
					c.R.Check(containsLock(ls[d], "recv.publishMu"), r5, eng+" Delete under publishMu ("+kit.FuncKey(f)+")", c.Pos(posOf(d)), "held "+ls[d], "runningPipelines.Delete without publishMu", true)
				}
				for _, s := range mapCalls(ff, runningF, "Set") {
					c.R.Check(containsLock(ls[s], "recv.publishMu"), r5, eng+" Set under publishMu ("+kit.FuncKey(f)+")", c.Pos(posOf(s)), "held "+ls[s], "runningPipelines.Set without publishMu", true)
				}
			}
		}
		c.R.Check(nDel >= 1, r2, eng+": the departing run removes its entry", "", "ok", "no runningPipelines.Delete left in "+rel+": an ended run would stay published", false)
		if fn := c.SSA(r2, rel, "(*Service).deleteRunningPipelineIfCurrent"); fn != nil {
			rpParam := paramOfNamed(fn, "runnablePipeline")
			g := kit.NewGates()
			for _, gt := range mapCalls(fn, runningF, "Get") {
				cur := kit.ResultN(gt.(ssa.CallInstruction), 0)
				g.AddEdges(kit.CmpEdges(fn, func(b *ssa.BinOp) (bool, bool) {
					if (b.X == cur && kit.IsVar(b.Y, rpParam)) || (b.Y == cur && kit.IsVar(b.X, rpParam)) {
						switch b.Op {
						case token.EQL:
							return true, true
						case token.NEQ:
							return true, false
						}
					}
					return false, false
				}), "current == rp")
			}
			c.Dominated(r2, eng+" deleteRunningPipelineIfCurrent: delete only when the entry is this run", mapCalls(fn, runningF, "Delete"), g, "the current == rp edge")
		}
	}
}

func c11R3(c *Ctx) {
	r := c.R.Rule("R3", "K3 terminal result: recorded before the entry is removed; Start clears it before running; WaitPipeline reads the live entry first, then the terminal error", 8)
	for _, rel := range []string{pLife, pLife2} {
		termF := c.Field(r, rel, "Service", "terminalErrors")
		runningF := c.Field(r, rel, "Service", "runningPipelines")
		run := c.SSA(r, rel, "(*Service).runPipeline")
		if run != nil {
			recov := Set(c.Fn(r, rel, "(*Service).recoverPipeline"))
			for _, cl := range litsWith(run, recov) {
				g := kit.NewGates()
				sets := mapCalls(cl, termF, "Set")
				for _, s := range sets {
					g.AddInstr(s, "terminalErrors.Set")
				}
				c.R.Check(len(sets) == 1, r, rel+": cleanup records the terminal error", c.Pos(cl.Pos()), "ok", "the cleanup goroutine does not record the terminal error exactly once", true)
				var dels []ssa.Instruction
				dels = append(dels, mapCalls(cl, runningF, "Delete")...)
				if h := c.W.LookupFunc(rel, "(*Service).deleteRunningPipelineIfCurrent"); h != nil {
					dels = append(dels, asInstrs(kit.CallsTo(cl, Set(h)))...)
				}
				if len(dels) == 0 {
					c.R.Fail(r, rel+": cleanup removes the entry", c.Pos(cl.Pos()), "the cleanup goroutine never removes the published entry")
				}
				c.Dominated(r, rel+": terminal error recorded before the entry is removed", dels, g, "terminalErrors.Set(id, err)")
			}
		}
		if st := c.SSA(r, rel, "(*Service).Start"); st != nil {
			g := kit.NewGates()
			for _, d := range mapCalls(st, termF, "Delete") {
				g.AddInstr(d, "terminalErrors.Delete")
			}
			c.Dominated(r, rel+".Start: previous terminal error cleared before the new run", asInstrs(kit.CallsTo(st, Set(c.Fn(r, rel, "(*Service).runPipeline")))), g, "terminalErrors.Delete(id)")
		}
		if wp := c.SSA(r, rel, "(*Service).WaitPipeline"); wp != nil {
			gets := mapCalls(wp, runningF, "Get")
			tgets := mapCalls(wp, termF, "Get")
			c.R.Check(len(gets) == 1 && len(tgets) == 1, r, rel+".WaitPipeline: consults the live entry and the terminal error", c.Pos(wp.Pos()), "ok", "WaitPipeline no longer consults both the live entry and the recorded terminal error", true)
			g := kit.NewGates()
			for _, x := range gets {
				g.AddInstr(x, "")
			}
			c.Dominated(r, rel+".WaitPipeline: live entry first", tgets, g, "runningPipelines.Get(id)")
		}
	}
}

func c11R4(c *Ctx) {
	r := c.R.Rule("R4", "K4 v2 start-up barriers: workers wait for `registered`, the cleanup goroutine waits for `startupDone` before reading the tomb error, both are closed on every path after they are needed", 5)
	run := c.SSA(r, pLife2, "(*Service).runPipeline")
	if run == nil {
		return
	}
	// identify the two make(chan struct{}) locals by their use: `registered` is received in the worker literal, `startupDone` in the cleanup literal
	do := Set(c.Fn(r, pFunnel, "(*Worker).Do"))
	recov := Set(c.Fn(r, pLife2, "(*Service).recoverPipeline"))
	tombErr := c.W.ExtMethod("gopkg.in/tomb.v2", "Tomb", "Err")
	recvChan := func(lit *ssa.Function) (ssa.Value, ssa.Instruction) {
		for _, b := range lit.Blocks {
			for _, in := range b.Instrs {
				if u, ok := in.(*ssa.UnOp); ok && u.Op == token.ARROW {
					src := u.X
					if l, ok := src.(*ssa.UnOp); ok {
						src = l.X
					}
					if fv, ok := src.(*ssa.FreeVar); ok {
						return resolveFreeVar(fv), in
					}
				}
			}
		}
		return nil, nil
	}
	closesOf := func(ch ssa.Value) []ssa.Instruction {
		return kit.Instrs(run, func(in ssa.Instruction) bool {
			call, ok := in.(*ssa.Call)
			if !ok {
				return false
			}
			bi, ok := call.Call.Value.(*ssa.Builtin)
			if !ok || bi.Name() != "close" {
				return false
			}
			a := call.Call.Args[0]
			if l, ok := a.(*ssa.UnOp); ok {
				a = l.X
			}
			return a == ch
		})
	}
	wl := litsWith(run, do)
	cl := litsWith(run, recov)
	if len(wl) != 1 || len(cl) != 1 {
		c.R.Fail(r, "v2 runPipeline: worker and cleanup goroutines", c.Pos(run.Pos()), "worker/cleanup literals not found")
		return
	}
	regCh, regRecv := recvChan(wl[0])
	sdCh, sdRecv := recvChan(cl[0])
	if regCh == nil || sdCh == nil {
		c.R.Fail(r, "v2 runPipeline: barriers", c.Pos(run.Pos()), "the registered/startupDone barrier receives were not found in the worker/cleanup goroutines")
		return
	}
	// worker: <-registered before w.Do
	c.Dominated(r, "v2 worker: waits for all goroutines to be registered before running", asInstrs(kit.CallsTo(wl[0], do)), kit.NewGates().AddInstr(regRecv, ""), "<-registered")
	// cleanup: <-startupDone before rp.t.Err()
	c.Dominated(r, "v2 cleanup: waits for start-up to finish before reading the tomb error", asInstrs(kit.CallsTo(cl[0], Set(tombErr))), kit.NewGates().AddInstr(sdRecv, ""), "<-startupDone")
	// both closed on every path from the first t.Go to the return
	tgo := c.W.ExtMethod("gopkg.in/tomb.v2", "Tomb", "Go")
	gos := kit.CallsTo(run, Set(tgo))
	for _, t := range []struct {
		name string
		ch   ssa.Value
	}{{"registered", regCh}, {"startupDone", sdCh}} {
		cls := closesOf(t.ch)
		// exactly once on every path: at least one close site, and no close site can be reached from another
		twice := false
		for _, a := range cls {
			for _, b := range cls {
				if a != b && kit.Reaches(a, b, nil) {
					twice = true
				}
			}
		}
		c.R.Check(len(cls) >= 1 && !twice, r, "v2 runPipeline: "+t.name+" closed exactly once", c.Pos(run.Pos()), "ok", "the "+t.name+" barrier is not closed exactly once on every path (a second close panics, none wedges the run)", true)
		g := kit.NewGates()
		for _, x := range cls {
			g.AddInstr(x, "")
		}
		for _, gi := range gos {
			ok, exit := kit.AllExits(gi, kit.ExitSpec{Gates: g})
			c.R.Check(ok, r, "v2 runPipeline: "+t.name+" closed on every exit after goroutines were started", c.Pos(gi.Pos()), "ok", "a path returns from runPipeline (block "+fmtInts(exit)+") after starting goroutines without closing "+t.name+": they wait forever and the run never ends", true)
		}
	}
}

func c11R6(c *Ctx) {
	r := c.R.Rule("R6", "K4 release on end: Teardown of source/destination clears Instance.connector; processor Teardown clears the running flag; MakeRunnableProcessor resets it on every failing exit", 5)
	connF := c.Field(r, pConn, "Instance", "connector")
	for _, m := range []string{"(*Source).Teardown", "(*Destination).Teardown"} {
		fn := c.SSA(r, pConn, m)
		if fn == nil {
			continue
		}
		stores := storesToField(fn, connF, kit.IsNilConst)
		c.R.Check(len(stores) >= 1, r, m+": releases the instance", c.Pos(fn.Pos()), "Instance.connector = nil", m+" no longer clears Instance.connector: the connector can never be opened again ('another instance is already running')", true)
		// cleared after the plugin teardown call, regardless of its result
		var pt []ssa.Instruction
		for _, b := range fn.Blocks {
			for _, in := range b.Instrs {
				if ci, ok := in.(ssa.CallInstruction); ok && ci.Common().IsInvoke() && ci.Common().Method.Name() == "Teardown" {
					pt = append(pt, in)
				}
			}
		}
		for _, t := range pt {
			g := kit.NewGates()
			for _, s := range stores {
				g.AddInstr(s, "")
			}
			ok, exit := kit.AllExits(t, kit.ExitSpec{Gates: g})
			c.R.Check(ok, r, m+": instance released on every exit after the plugin teardown", c.Pos(posOf(t)), "ok", "an exit (block "+fmtInts(exit)+") after the plugin teardown leaves Instance.connector set", true)
		}
	}
	runningF := c.Field(r, pProc, "Instance", "running")
	if fn := c.SSA(r, pProc, "(*RunnableProcessor).Teardown"); fn != nil {
		ok := false
		for _, s := range atomicCalls(fn, runningF, "Store") {
			if kit.IsBoolConst(s.Common().Args[1], false) {
				ok = true
			}
		}
		c.R.Check(ok, r, "RunnableProcessor.Teardown: clears the running flag", c.Pos(fn.Pos()), "running.Store(false)", "RunnableProcessor.Teardown no longer clears Instance.running: the processor can never be made runnable again", true)
	}
	if fn := c.SSA(r, pProc, "(*Service).MakeRunnableProcessor"); fn != nil {
		cas := atomicCalls(fn, runningF, "CompareAndSwap")
		c.R.Check(len(cas) == 1, r, "MakeRunnableProcessor: claims the running flag with CompareAndSwap", c.Pos(fn.Pos()), "ok", "MakeRunnableProcessor no longer claims Instance.running atomically", true)
		// every error return after the successful CAS resets the flag
		g := kit.NewGates()
		for _, s := range atomicCalls(fn, runningF, "Store") {
			if kit.IsBoolConst(s.Common().Args[1], false) {
				g.AddInstr(s, "running.Store(false)")
			}
		}
		for _, f2 := range kit.WithAnon(fn)[1:] {
			for _, s := range atomicCalls(f2, runningF, "Store") {
				_ = s // a deferred reset closure
			}
		}
		for _, cc := range cas {
			for _, e := range kit.CondEdges(cc.Value(), true) {
				bad := false
				for _, ret := range kit.Returns(fn) {
					ei := kit.ErrIndex(fn)
					if ei < 0 || kit.RetNil(ret, ei) {
						continue
					}
					if kit.EdgeReaches(e, ret, g) {
						bad = true
					}
				}
				// deferred reset idiom
				dg := map[*ssa.Defer]bool{}
				for _, b := range fn.Blocks {
					for _, in := range b.Instrs {
						if d, ok := in.(*ssa.Defer); ok {
							if cl := closureOf(d); cl != nil && len(atomicCalls(cl, runningF, "Store")) > 0 {
								dg[d] = true
							}
						}
					}
				}
				if bad && len(dg) > 0 {
					ok, _ := kit.AllExitsFromEdge(e, false, kit.ExitSpec{Gates: g, DeferGates: dg})
					bad = !ok
				}
				c.R.Check(!bad, r, "MakeRunnableProcessor: running flag reset on every failing exit", c.Pos(cc.Pos()), "ok", "an error return after the flag was claimed does not reset Instance.running: a failed start leaves the processor permanently 'running'", true)
			}
		}
	}
}

func c11R7(c *Ctx) {
	r := c.R.Rule("R7", "K3 single run: Start refuses a Running pipeline, runPipeline refuses a live tomb, connectors refuse a second Open", 6)
	for _, rel := range []string{pLife, pLife2} {
		if st := c.SSA(r, rel, "(*Service).Start"); st != nil {
			get := c.Fn(r, pPipe, "(*Instance).GetStatus")
			running := c.W.LookupObj(pPipe, "StatusRunning")
			g := kit.NewGates()
			for _, call := range kit.CallsTo(st, Set(get)) {
				v := call.Value()
				g.AddEdges(kit.CmpEdges(st, func(b *ssa.BinOp) (bool, bool) {
					if b.X == ssa.Value(v) && isConstObj(b.Y, running) {
						switch b.Op {
						case token.EQL:
							return true, false
						case token.NEQ:
							return true, true
						}
					}
					return false, false
				}), "status != Running")
			}
			c.Dominated(r, rel+".Start: a running pipeline is refused", asInstrs(kit.CallsTo(st, Set(c.Fn(r, rel, "(*Service).runPipeline")))), g, "the GetStatus() != StatusRunning edge")
		}
		if run := c.SSA(r, rel, "(*Service).runPipeline"); run != nil {
			alive := c.W.ExtMethod("gopkg.in/tomb.v2", "Tomb", "Alive")
			tgo := c.W.ExtMethod("gopkg.in/tomb.v2", "Tomb", "Go")
			g := kit.NewGates().AddEdges(condEdgesOfCalls(run, Set(alive), false), "!rp.t.Alive()")
			tF := c.Field(r, rel, "runnablePipeline", "t")
			for _, l := range kit.FieldLoads(run, tF) {
				g.AddEdges(kit.NilEdges(l, true), "rp.t == nil")
			}
			c.Dominated(r, rel+".runPipeline: a live tomb is refused", asInstrs(kit.CallsTo(run, Set(tgo))), g, "the !rp.t.Alive() (or rp.t == nil) edge")
		}
	}
	connF := c.Field(r, pConn, "Instance", "connector")
	for _, m := range []string{"(*Source).Open", "(*Destination).Open"} {
		fn := c.SSA(r, pConn, m)
		if fn == nil {
			continue
		}
		g := kit.NewGates()
		for _, l := range kit.FieldLoads(fn, connF) {
			g.AddEdges(kit.NilEdges(l, true), "Instance.connector == nil")
		}
		var dispense []ssa.Instruction
		for _, b := range fn.Blocks {
			for _, in := range b.Instrs {
				if ci, ok := in.(ssa.CallInstruction); ok && ci.Common().IsInvoke() && strings.HasPrefix(ci.Common().Method.Name(), "Dispense") {
					dispense = append(dispense, in)
				}
			}
		}
		if len(dispense) == 0 {
			c.R.Fail(r, m+": plugin dispense", c.Pos(fn.Pos()), "no Dispense call found")
		}
		c.Dominated(r, m+": a second open of the same connector is refused", dispense, g, "the Instance.connector == nil edge")
		c.R.Check(len(storesToField(fn, connF, nil)) >= 1, r, m+": records the running connector", c.Pos(fn.Pos()), "ok", m+" no longer records itself in Instance.connector", true)
	}
}

func c11R9(c *Ctx) {
	r := c.R.Rule("R9", "K4 stop cannot wedge: nodes whose Stop/Nack waits on their state publish nodeStateStopped by a defer registered at the top of Run (on every exit, including a failed Open)", 2)
	stopped := c.W.LookupObj(pStream, "nodeStateStopped")
	for _, m := range []string{"(*SourceNode).Run", "(*DLQHandlerNode).Run"} {
		fn := c.SSA(r, pStream, m)
		if fn == nil {
			continue
		}
		ok := false
		if len(fn.Blocks) > 0 {
			for _, in := range fn.Blocks[0].Instrs {
				if d, isD := in.(*ssa.Defer); isD {
					a := d.Call.Args
					if len(a) >= 1 && isGlobalLoad(a[len(a)-1], stopped) {
						ok = true
					}
				}
				// the defer must come before any call that can fail and return
				if _, isIf := in.(*ssa.If); isIf {
					break
				}
			}
		}
		c.R.Check(ok, r, m+": stopped state published by a defer at entry", c.Pos(fn.Pos()), "defer n.state.Set(nodeStateStopped)", m+" no longer registers `defer n.state.Set(nodeStateStopped)` in its entry block: when Open fails the state is never set and a Stop request waiting on it never returns", true)
	}
}

// ---- C12 -----------------------------------------------------------------------

func runC12(c *Ctx) {
	c12R1(c)
	c12R2(c)
	c12R3(c)
	c12R4(c)
	c11R6(c)
	c10R8As(c, c.R.Rule("R8", "K3 (= C10.R8) force-stopped stays stopped: a run parked in the recovery back-off is not restarted once a stop marked it — the marker is read after the wait, every stop that kills the tomb sets it first, and the cleanup goroutine finalizes it as UserStopped", 13))
	c12R9(c)
	c12R12As(c, c.R.Rule("R12", "K3 force stop at any instant, also while the recovery restarts the pipeline: StartWithBackoff re-reads a stop marker of the run it belongs to after Start returned (both engines), so a stop accepted for the dead run between the pre-restart check and the publication of the new run is applied to the new run", 2))
	c10R11As(c, c.R.Rule("R11", "K3 (= C10.R11) a force-stopped run stays stopped: the v1 stop marker set by an accepted (force) stop is never cleared by a later refused graceful stop — in both engines the marker is cleared only behind a zero test of the stop-request counter, under the counter's lock — and the cleanup goroutine recovers only an unmarked run", 3))
	c05SharedDest(c, c.R.Rule("R10", "K4/K3 (= C05.R4) v2 no ack of an unhandled record after a force stop: a worker enters a shared destination only under sharedMu and re-checks the poison flag after acquiring it — a worker queued behind the pass the force stop broke never takes that pass's leftover reply as the confirmation of its own record (and acks it to its source)", 6))
	msgNotDropped(c, c.R.Rule("R7", "K4 (= C06.R10) no message forgotten (v1): a stream node that received a message sends it on, hands it over, acks it or nacks it on every path — also on the ctx.Done() arms a force stop takes — so the source's wait for open messages, and with it the run, always ends", 8))
}

func c12R1(c *Ctx) {
	r := c.R.Rule("R1", "K5/K3 forceStopper protocol: cancel/stopped accessed under mu; start re-checks stopped after storing cancel; stop marks stopped only when there is no cancel yet", 8)
	cancelF := c.Field(r, pStream, "forceStopper", "cancel")
	stoppedF := c.Field(r, pStream, "forceStopper", "stopped")
	for _, m := range []string{"(*forceStopper).start", "(*forceStopper).stop"} {
		fn := c.SSA(r, pStream, m)
		if fn == nil {
			continue
		}
		c.Guarded(r, fn, nil, "mu", []*types.Var{cancelF, stoppedF}, nil)
	}
	if fn := c.SSA(r, pStream, "(*forceStopper).start"); fn != nil {
		g := kit.NewGates()
		for _, s := range kit.FieldStores(fn, cancelF) {
			g.AddInstr(s, "f.cancel = cancel")
		}
		var loads []ssa.Instruction
		for _, l := range kit.FieldLoads(fn, stoppedF) {
			loads = append(loads, l.(ssa.Instruction))
		}
		c.R.Check(len(loads) == 1, r, "forceStopper.start: re-checks stopped", c.Pos(fn.Pos()), "ok", "start no longer checks whether a force stop arrived before it", true)
		c.Dominated(r, "forceStopper.start: stopped checked after cancel is stored (same critical section)", loads, g, "the store of f.cancel")
		// on stopped: cancel() is called
		for _, l := range kit.FieldLoads(fn, stoppedF) {
			okCall := false
			for _, e := range kit.CondEdges(l, true) {
				for _, in := range e.To.Instrs {
					if call, ok := in.(*ssa.Call); ok && !call.Call.IsInvoke() && call.Call.StaticCallee() == nil {
						okCall = true
					}
				}
			}
			c.R.Check(okCall, r, "forceStopper.start: a force stop that raced start-up is applied", c.Pos(fn.Pos()), "cancel()", "start does not cancel the fresh context when stop() was called first: that force stop is lost", true)
		}
	}
	if fn := c.SSA(r, pStream, "(*forceStopper).stop"); fn != nil {
		g := kit.NewGates()
		for _, l := range kit.FieldLoads(fn, cancelF) {
			g.AddEdges(kit.NilEdges(l, true), "cancel == nil")
		}
		c.Dominated(r, "forceStopper.stop: stopped recorded only when no context exists yet", storesToField(fn, stoppedF, func(v ssa.Value) bool { return kit.IsBoolConst(v, true) }), g, "the f.cancel == nil edge")
		// on cancel != nil: calls it
		okCall := false
		for _, l := range kit.FieldLoads(fn, cancelF) {
			for _, e := range kit.NilEdges(l, false) {
				for _, in := range e.To.Instrs {
					if call, ok := in.(*ssa.Call); ok && kit.IsFieldLoad(call.Call.Value, cancelF) {
						okCall = true
					}
				}
			}
		}
		c.R.Check(okCall, r, "forceStopper.stop: cancels a started context", c.Pos(fn.Pos()), "f.cancel()", "stop does not call the stored cancel function (or dereferences it without the nil check, #2539)", true)
	}
}

func c12R2(c *Ctx) {
	r := c.R.Rule("R2", "K1/K8 adoption: every stream node type with a ForceStop method delegates to stopper.stop() and takes its connector context from stopper.start(); no direct context.WithCancel(context.Background()) in those types", 8)
	p := c.W.Pkg(pStream)
	if p == nil {
		return
	}
	stop := Set(c.Fn(r, pStream, "(*forceStopper).stop"))
	start := Set(c.Fn(r, pStream, "(*forceStopper).start"))
	withCancel := c.ExtFunc(r, "context", "WithCancel")
	n := 0
	sc := p.Types.Scope()
	for _, name := range sc.Names() {
		tn, ok := sc.Lookup(name).(*types.TypeName)
		if !ok {
			continue
		}
		nt, ok := tn.Type().(*types.Named)
		if !ok {
			continue
		}
		fs := c.W.LookupFunc(pStream, "(*"+name+").ForceStop")
		if fs == nil || fs.Type().(*types.Signature).Recv() == nil || types.IsInterface(nt) {
			continue
		}
		n++
		if fn := c.W.SSAFunc(fs); fn != nil {
			c.R.Check(len(kit.CallsTo(fn, stop)) == 1, r, name+".ForceStop delegates to the forceStopper", c.Pos(fn.Pos()), "n.stopper.stop()", name+".ForceStop does not call stopper.stop(): a force stop racing start-up is lost or nil-dereferences a cancel function", true)
		}
		run := c.W.SSAFunc(c.W.LookupFunc(pStream, "(*"+name+").Run"))
		if run != nil {
			c.R.Check(len(kit.CallsTo(run, start)) == 1, r, name+".Run takes its connector context from the forceStopper", c.Pos(run.Pos()), "n.stopper.start()", name+".Run does not obtain its connector context from stopper.start()", true)
			c.R.Check(len(kit.CallsToDeep(run, Set(withCancel))) == 0, r, name+".Run builds no connector context of its own", c.Pos(run.Pos()), "ok", name+".Run creates a context with context.WithCancel directly: ForceStop cannot cancel it", true)
		}
	}
	c.R.Check(n >= 4, r, "force-stoppable node types found", "", "4", "fewer than 4 node types with ForceStop found", false)
}

func c12R3(c *Ctx) {
	r := c.R.Rule("R3", "K3 fatal tag and reach: v1 kills the tomb (fatal) before it force-stops nodes; v2 opens the sink and every worker with the tomb's own context", 4)
	kill := c.W.ExtMethod("gopkg.in/tomb.v2", "Tomb", "Kill")
	if fn := c.SSA(r, pLife, "(*Service).stopForceful"); fn != nil && kill != nil {
		g := kit.NewGates()
		for _, k := range kit.CallsTo(fn, Set(kill)) {
			g.AddInstr(k, "rp.t.Kill(...)")
		}
		var fstops []ssa.Instruction
		for _, b := range fn.Blocks {
			for _, in := range b.Instrs {
				if ci, ok := in.(ssa.CallInstruction); ok && ci.Common().IsInvoke() && ci.Common().Method.Name() == "ForceStop" {
					fstops = append(fstops, in)
				}
			}
		}
		viaHelper := false
		if len(fstops) == 0 {
			// the loop over the nodes may live in a helper of the same package: its call stands for the loop
			for _, b := range fn.Blocks {
				for _, in := range b.Instrs {
					ci, ok := in.(ssa.CallInstruction)
					if !ok {
						continue
					}
					h := ci.Common().StaticCallee()
					if h == nil || h.Pkg != fn.Pkg || len(h.Blocks) == 0 {
						continue
					}
					inLoop := false
					for _, hb := range h.Blocks {
						for _, hin := range hb.Instrs {
							if hc, ok := hin.(ssa.CallInstruction); ok && hc.Common().IsInvoke() && hc.Common().Method.Name() == "ForceStop" {
								for _, l := range kit.Loops(h) {
									if l.Contains(hin) && len(l.EarlyExits()) == 0 {
										inLoop = true
									}
								}
							}
						}
					}
					if inLoop {
						fstops = append(fstops, in)
						viaHelper = true
					}
				}
			}
		}
		if len(fstops) == 0 {
			c.R.Fail(r, "v1 stopForceful: node ForceStop", c.Pos(fn.Pos()), "no ForceStop call on nodes")
		}
		c.Dominated(r, "v1 stopForceful: tomb killed (fatal) before nodes are force-stopped", fstops, g, "rp.t.Kill(FatalError(ErrForceStop))")
		// ... and on every exit: no return of stopForceful bypasses the loop over the nodes (a run whose tomb is
		// already dying still has nodes blocked in plugin calls that only end when their connector context is
		// cancelled by ForceStop)
		for _, fs := range fstops {
			if viaHelper {
				for _, ret := range kit.Returns(fn) {
					c.R.Check(kit.InstrDominates(fs, ret), r, "v1 stopForceful: every exit force-stops the nodes", c.Pos(posOf(ret)), "behind the node loop (helper)", "stopForceful can return without force-stopping the nodes", true)
				}
				continue
			}
			h := fs.Block()
			for h != nil {
				back := false
				for _, p := range h.Preds {
					if h.Dominates(p) {
						back = true
					}
				}
				if back {
					break
				}
				h = h.Idom()
			}
			if h == nil {
				c.R.Fail(r, "v1 stopForceful: ForceStop is called in a loop over the nodes", c.Pos(fs.Pos()), "the ForceStop call is not inside a loop")
				continue
			}
			for _, ret := range kit.Returns(fn) {
				c.R.Check(h.Dominates(ret.Block()), r, "v1 stopForceful: every exit force-stops the nodes", c.Pos(posOf(ret)), "behind the node loop", "stopForceful can return without force-stopping the nodes: a run that is already failing (tomb dying, status still Running) keeps nodes blocked in destination/DLQ plugin calls that only return when ForceStop cancels their connector context — the forced stop does not end the run", true)
			}
		}
	}
	if fn := c.SSA(r, pLife2, "(*Service).runPipeline"); fn != nil {
		tctx := c.W.ExtMethod("gopkg.in/tomb.v2", "Tomb", "Context")
		var tc ssa.Value
		for _, call := range kit.CallsTo(fn, Set(tctx)) {
			tc = call.Value()
		}
		c.R.Check(tc != nil, r, "v2 runPipeline: takes the tomb context", c.Pos(fn.Pos()), "ok", "runPipeline no longer derives its context from the tomb", true)
		for _, t := range []struct {
			name string
			set  kit.FuncSet
		}{{"sink.Open", Set(c.Fn(r, pFunnel, "(*Sink).Open"))}, {"worker.Open", Set(c.Fn(r, pFunnel, "(*Worker).Open"))}} {
			calls := kit.CallsTo(fn, t.set)
			if len(calls) == 0 {
				c.R.Fail(r, "v2 runPipeline: "+t.name, c.Pos(fn.Pos()), t.name+" not found")
			}
			for _, call := range calls {
				a := call.Common().Args
				c.R.Check(len(a) == 2 && kit.IsVar(a[1], tc), r, "v2 runPipeline: "+t.name+" uses the tomb context", c.Pos(call.Pos()), "ok", t.name+" is opened with a context other than the tomb's: a force stop (tomb kill) cannot unblock its plugin calls and the run never ends", true)
			}
		}
		// workers run with the tomb context too
		for _, lit := range litsWith(fn, Set(c.Fn(r, pFunnel, "(*Worker).Do"))) {
			for _, call := range kit.CallsTo(lit, Set(c.Fn(r, pFunnel, "(*Worker).Do"))) {
				a := call.Common().Args
				ok := len(a) == 2 && (kit.IsVar(a[1], tc) || capturedIs(a[1], tc))
				c.R.Check(ok, r, "v2 runPipeline: Worker.Do runs with the tomb context", c.Pos(call.Pos()), "ok", "Worker.Do is not run with the tomb's context", true)
			}
		}
	}
}

func c12R4(c *Ctx) {
	r := c.R.Rule("R4", "K3 no ack on cancellation: in the stream nodes no Message.Ack is reachable from a ctx.Done() select arm; DestinationAckerNode.teardown only nacks; a message popped from the acker queue is re-queued at the front", 8)
	p := c.W.Pkg(pStream)
	if p == nil {
		return
	}
	sp := c.W.SSA[p.Types]
	msgAck := Set(c.Fn(r, pStream, "(*Message).Ack"))
	ctxDone := c.W.ExtMethod("context", "Context", "Done")
	n := 0
	var all []*ssa.Function
	for _, m := range sp.Members {
		switch x := m.(type) {
		case *ssa.Function:
			all = append(all, kit.WithAnon(x)...)
		case *ssa.Type:
			for _, T := range []types.Type{x.Type(), types.NewPointer(x.Type())} {
				ms := c.W.Prog.MethodSets.MethodSet(T)
				for i := 0; i < ms.Len(); i++ {
					if f := c.W.Prog.MethodValue(ms.At(i)); f != nil && f.Pkg == sp && f.Synthetic == "" {
						all = append(all, kit.WithAnon(f)...)
					}
				}
			}
		}
	}
	seen := map[*ssa.Function]bool{}
	for _, f := range all {
		if seen[f] {
			continue
		}
		seen[f] = true
		acks := kit.CallsTo(f, msgAck)
		for _, sel := range kit.Selects(f) {
			for i, st := range sel.States {
				call, ok := st.Chan.(*ssa.Call)
				if !ok || st.Dir != types.RecvOnly || kit.CalleeOf(call.Common()) != ctxDone {
					continue
				}
				n++
				bad := false
				for _, e := range kit.SelectArmEdges(sel, i) {
					for _, a := range acks {
						if kit.EdgeReaches(e, a, kit.NewGates().AddEdges(loopBackEdges(f), "")) {
							bad = true
						}
					}
				}
				c.R.Check(!bad, r, "no Message.Ack on the ctx.Done() arm in "+kit.FuncKey(f), c.Pos(sel.Pos()), "ok", "a Message.Ack is reachable from a context-cancellation arm in "+kit.FuncKey(f)+": a force stop would acknowledge a record that was not handled", true)
			}
		}
	}
	c.R.Check(n >= 5, r, "ctx.Done() arms examined", "", "ok", "fewer cancellation arms found than on the reference tree", false)
	if fn := c.SSA(r, pStream, "(*DestinationAckerNode).teardown"); fn != nil {
		c.R.Check(len(kit.CallsToDeep(fn, msgAck)) == 0 && len(kit.CallsToDeep(fn, Set(c.Fn(r, pStream, "(*Message).Nack")))) >= 1, r, "DestinationAckerNode.teardown only nacks", c.Pos(fn.Pos()), "ok", "DestinationAckerNode.teardown acks (or no longer nacks) the messages left in its queue", true)
	}
	if fn := c.SSA(r, pStream, "(*DestinationAckerNode).worker"); fn != nil {
		front, back := 0, 0
		for _, f := range kit.WithAnon(fn) {
			for _, b := range f.Blocks {
				for _, in := range b.Instrs {
					if ci, ok := in.(ssa.CallInstruction); ok {
						if fo := kit.CalleeOf(ci.Common()); fo != nil {
							switch fo.Name() {
							case "PushFront":
								front++
							case "PushBack":
								back++
							}
						}
					}
				}
			}
		}
		c.R.Check(front == 1 && back == 0, r, "DestinationAckerNode.worker: a popped message is put back at the front", c.Pos(fn.Pos()), "queue.PushFront(msg)", "the worker re-queues a popped message at the back (or not at all): teardown then nacks messages out of order and the ordered source-acker semaphore waits forever", true)
	}
}

// c12R9: a connector counts as running only once its Open succeeded.
func c12R9(c *Ctx) {
	r := c.R.Rule("R9", "K4 startable again after a failed start: Source.Open / Destination.Open mark the instance as running (Instance.connector = …) only where no failing exit can follow — or every failing exit behind the mark clears it again", 2)
	connF := c.Field(r, pConn, "Instance", "connector")
	for _, name := range []string{"(*Source).Open", "(*Destination).Open"} {
		fn := c.SSA(r, pConn, name)
		if fn == nil || connF == nil {
			continue
		}
		var marks, clears []*ssa.Store
		for _, f := range kit.WithAnon(fn) {
			for _, st := range kit.FieldStores(f, connF) {
				if kit.IsNilConst(st.Val) {
					clears = append(clears, st)
				} else if f == fn {
					marks = append(marks, st)
				}
			}
		}
		if len(marks) == 0 {
			c.R.Fail(r, name+": marks the instance running", c.Pos(fn.Pos()), "no store to Instance.connector found")
			continue
		}
		for _, m := range marks {
			bad := false
			for _, ret := range kit.Returns(fn) {
				if kit.IsNilConst(kit.RetVal(ret, len(ret.Results)-1)) {
					continue
				}
				if kit.Reaches(m, ret, nil) {
					bad = true
				}
			}
			if bad && len(clears) > 0 {
				bad = false // a deferred/explicit clear exists; the specific clear-on-failure shape is C11.R6's
			}
			c.R.Check(!bad, r, name+": no failing exit after the instance was marked running", c.Pos(m.Pos()), "ok", name+" sets Instance.connector before a step that can still fail and never clears it on that failure: after a start that fails there (e.g. a force stop during start-up) the run ends, but every later Start is refused with 'connector is running'", true)
		}
	}
}

// c10R11: F42. "A pipeline that a user stopped is never restarted by recovery" also when the stop was graceful and the
// drain it started ends with a transient error (a destination failing on the in-flight record): the v1 Stop marks the
// run before it asks the nodes to stop, and the cleanup goroutine enters recovery only for an unmarked run.
func c10R11(c *Ctx) {
	c10R11As(c, c.R.Rule("R11", "K3 a gracefully stopped run is not recovered: Service.Stop sets the run's intentionalStop marker before stopGraceful; a refused stop takes back only its own request — in both engines the marker is cleared only behind a zero test of the stop-request counter, under the counter's lock — and in runPipeline's cleanup goroutine recoverPipeline is called only behind the !intentionalStop.Load() edge", 3))
}

func c10R11As(c *Ctx, r string) {
	marker := c.Field(r, pLife, "runnablePipeline", "intentionalStop")
	stop := c.SSA(r, pLife, "(*Service).Stop")
	run := c.SSA(r, pLife, "(*Service).runPipeline")
	sg := c.Fn(r, pLife, "(*Service).stopGraceful")
	rec := c.Fn(r, pLife, "(*Service).recoverPipeline")
	if marker == nil || stop == nil || run == nil || sg == nil || rec == nil {
		return
	}
	g := kit.NewGates()
	for _, m := range []string{"Store", "CompareAndSwap", "Swap"} {
		for _, call := range atomicCalls(stop, marker, m) {
			a := call.Common().Args
			if kit.IsBoolConst(a[len(a)-1], true) {
				g.AddInstr(call, "rp.intentionalStop."+m+"(true)")
			}
		}
	}
	for _, in := range markerStores(stop, marker, true, true) {
		g.AddInstr(in, "marks the run (helper)")
	}
	c.Dominated(r, "v1 Stop: the run is marked as stopped by the user before the nodes are asked to stop", asInstrs(kit.CallsTo(stop, Set(sg))), g, "rp.intentionalStop.Store/CompareAndSwap(…, true)")
	// the mark is taken back only when no OTHER accepted stop holds it (F81: a failed graceful stop erased the mark of a
	// force stop accepted meanwhile, whose Kill is a no-op on a tomb that is already dying): wherever the marker is
	// cleared, it is behind the success edge of that call's own CompareAndSwap(false,true) AND no other stop can have
	// marked in between — i.e. a request counter compared with zero
	markerClearedOnlyWhenUnheld(c, r, "v1", pLife, marker)
	// cleanup goroutine: recovery only for an unmarked run
	n := 0
	for _, lit := range kit.WithAnon(run) {
		calls := kit.CallsTo(lit, Set(rec))
		if len(calls) == 0 {
			continue
		}
		n += len(calls)
		gl := kit.NewGates()
		for _, ld := range atomicCalls(lit, marker, "Load") {
			gl.AddEdges(kit.CondEdges(ld.Value(), false), "!rp.intentionalStop.Load()")
		}
		c.Dominated(r, "v1 cleanup: recovery only for a run the user did not stop", asInstrs(calls), gl, "the !rp.intentionalStop.Load() edge")
	}
	c.R.Check(n >= 1, r, "v1 cleanup: recoverPipeline call", c.Pos(run.Pos()), "found", "no recoverPipeline call found in runPipeline's goroutines", true)
}

// c11R14: F43. A graceful stop hands the source node a control message through pubNodeBase.InjectControlMessage. The
// node may be busy handing a record downstream and end from there (its context is cancelled because the run failed);
// its cleanup needs the node lock. Waiting for the node to take the message while HOLDING that lock wedges both: Stop
// never returns, the node never ends, the pipeline stays Running and not even a force stop releases it.
func c11R14(c *Ctx) {
	r := c.R.Rule("R14", "K5/K4 a stop cannot wedge against a dying node: pubNodeBase.InjectControlMessage waits for the node to take the control message without holding the node lock, and the wait has an arm on a channel that cleanup closes", 3)
	fn := c.SSA(r, pStream, "(*pubNodeBase).InjectControlMessage")
	cl := c.SSA(r, pStream, "(*pubNodeBase).cleanup")
	if fn == nil || cl == nil {
		return
	}
	ls := kit.Locksets(fn, c.W.StdLockSpec(), nil)
	sels := kit.Selects(fn)
	c.R.Check(len(sels) == 1, r, "InjectControlMessage: one wait for the node", c.Pos(fn.Pos()), "select", "expected exactly one select in InjectControlMessage", true)
	// channels closed by cleanup
	closed := map[*types.Var]bool{}
	for _, b := range cl.Blocks {
		for _, in := range b.Instrs {
			if call, ok := in.(*ssa.Call); ok {
				if bi, ok := call.Call.Value.(*ssa.Builtin); ok && bi.Name() == "close" {
					if _, f := kit.FieldBase(call.Call.Args[0]); f != nil {
						closed[f] = true
					}
				}
			}
		}
	}
	for _, sel := range sels {
		c.R.Check(!containsLock(ls[sel], "recv.lock"), r, "InjectControlMessage: the node lock is not held while waiting for the node", c.Pos(sel.Pos()), "held "+ls[sel], "InjectControlMessage blocks on the send to the node while holding n.lock: a node that ends without returning to its trigger (busy sending downstream when the run's context is cancelled) needs the same lock in cleanup — Stop never returns, the node never ends, the pipeline stays Running, Start is refused and a force stop cannot release it", true)
		arm := false
		for _, st := range sel.States {
			if st.Dir != types.RecvOnly {
				continue
			}
			if _, f := kit.FieldBase(st.Chan); f != nil && closed[f] && f.Name() != "out" {
				arm = true
			}
			// a local copy of the field taken under the lock
			if !arm {
				for f := range closed {
					if f.Name() != "out" && kit.DerivesFrom(st.Chan, func(x ssa.Value) bool { return kit.IsFieldLoad(x, f) }) {
						arm = true
					}
				}
			}
		}
		c.R.Check(arm, r, "InjectControlMessage: the wait ends when the node stops", c.Pos(sel.Pos()), "an arm on a channel cleanup closes", "the select in InjectControlMessage has no arm on a channel that pubNodeBase.cleanup closes: a stop racing a node that is ending waits until its own context is cancelled — StopAll at shutdown uses context.Background(), so SIGTERM never completes", true)
	}
}

// c11R15: F51 (same shape as the drain of F24). `defer func() { err = cerrors.LogOrReplace(err, closeErr, …) }()` only
// changes what the function returns when err is a NAMED result. With an unnamed result the deferred assignment writes a
// local that nobody reads any more: the close/teardown error of the node is lost, the run's error is nil and the
// pipeline is finalised as cleanly stopped.
func c11R15(c *Ctx) {
	r := c.R.Rule("R15", "K6 a deferred error reaches the caller: in the stream nodes, the lifecycle services and the connector package, a deferred closure that assigns an error to a variable of the enclosing function assigns a NAMED RESULT (an assignment to a plain local is dead: the function's return value was already fixed)", 6)
	n := 0
	for _, rel := range []string{pStream, pLife, pLife2, pConn, pFunnel} {
		p := c.W.Pkg(rel)
		if p == nil {
			continue
		}
		for _, fn := range c.W.AllFuncs(c.W.SSA[p.Types]) {
			if fn.Parent() != nil || kit.ErrIndex(fn) < 0 {
				continue
			}
			res := fn.Signature.Results()
			for _, b := range fn.Blocks {
				for _, in := range b.Instrs {
					d, ok := in.(*ssa.Defer)
					if !ok {
						continue
					}
					cl := closureOf(d)
					if cl == nil {
						continue
					}
					for _, cb := range cl.Blocks {
						for _, ci := range cb.Instrs {
							st, ok := ci.(*ssa.Store)
							if !ok {
								continue
							}
							fv, ok := st.Addr.(*ssa.FreeVar)
							if !ok || !types.Identical(fv.Type().(*types.Pointer).Elem(), types.Universe.Lookup("error").Type()) {
								continue
							}
							cell, _ := kit.ResolveFreeVar(fv).(*ssa.Alloc)
							if cell == nil || cell.Parent() != fn {
								continue
							}
							n++
							named := false
							for i := 0; i < res.Len(); i++ {
								if res.At(i).Name() != "" && res.At(i).Name() == cell.Comment {
									named = true
								}
							}
							c.R.Check(named, r, kit.FuncKey(fn)+": the deferred error assignment targets a named result", c.Pos(st.Pos()), cell.Comment, "a deferred function of "+kit.FuncKey(fn)+" assigns an error to the local `"+cell.Comment+"`, but the function's error result is unnamed: the assignment cannot change what was returned — the error of the deferred close/teardown is lost (the node ends with nil, the pipeline is finalised as cleanly stopped)", true)
						}
					}
				}
			}
		}
	}
	c.R.Check(n >= 6, r, "deferred error assignments", "", "found", "fewer deferred error assignments found than on the reference tree", true)
}

// c10R12: F49/F50 (known findings). StartWithBackoff reads the stop markers after the back-off wait and then calls
// Start, which fetches the pipeline, builds the nodes / opens the sink and workers and dispenses plugins before it
// publishes the new run. Until then runningPipelines still holds the dead run and the status is Recovering, so Stop
// and StopAll accept a request, mark the DEAD run and return nil — and the restart goes live. The stop has to be
// looked at again once the new run is published, and applied to it.
func c10R12(c *Ctx) {
	r := c.R.Rule("R12", "K3 a stop accepted while the recovery restart is being built is not lost (both engines): behind the success edge of the nested Start in StartWithBackoff the run's stop marker / the shutdown flag is read again", 2)
	for _, t := range []struct{ eng, rel string }{{"v1", pLife}, {"v2", pLife2}} {
		fn := c.SSA(r, t.rel, "(*Service).StartWithBackoff")
		start := c.Fn(r, t.rel, "(*Service).Start")
		intent := c.Field(r, t.rel, "runnablePipeline", "intentionalStop")
		shut := c.Field(r, t.rel, "Service", "isGracefulShutdown")
		if fn == nil || start == nil || intent == nil {
			continue
		}
		calls := kit.CallsTo(fn, Set(start))
		if len(calls) == 0 {
			c.R.Fail(r, t.eng+" StartWithBackoff: nested Start", c.Pos(fn.Pos()), "no call of Service.Start found in StartWithBackoff")
			continue
		}
		for _, call := range calls {
			rechecked := false
			for _, e := range kit.OKEdges(call) {
				for _, f := range []*types.Var{intent, shut} {
					if f == nil {
						continue
					}
					for _, ld := range atomicCalls(fn, f, "Load") {
						if ld.Block() == e.To || e.To.Dominates(ld.Block()) {
							rechecked = true
						}
					}
				}
				// or handed to a helper behind the edge that reads them
				for _, b := range fn.Blocks {
					if !(b == e.To || e.To.Dominates(b)) {
						continue
					}
					for _, in := range b.Instrs {
						if ci, ok := in.(ssa.CallInstruction); ok {
							if h := ci.Common().StaticCallee(); h != nil && h.Pkg == fn.Pkg && (len(atomicCalls(h, intent, "Load")) > 0 || (shut != nil && len(atomicCalls(h, shut, "Load")) > 0)) {
								rechecked = true
							}
						}
					}
				}
			}
			c.R.Check(rechecked, r, t.eng+" StartWithBackoff: a stop accepted during the restart build is applied to the new run", c.Pos(call.Pos()), "markers re-read behind Start[ok]", "StartWithBackoff checks the stop markers only BEFORE the nested Start; while Start builds the new run (fetching the pipeline, building nodes / opening sink and workers, dispensing plugins) the published entry is still the dead run and the status Recovering, so Stop(force) / StopAll mark the dead run and return nil — the restart then goes live: a pipeline the user (or the shutdown) just stopped is Running again, and at shutdown Wait returns while it runs", true)
		}
	}
}

const pConduit = "pkg/conduit"

// c10R13: F79/F80. Process shutdown (pkg/conduit Runtime). (a) Whatever made the runtime's tomb die, the pipelines are
// stopped with a reason that IS pipeline.ErrGracefulShutdown (or wraps it): any other reason is returned by the source
// nodes as a transient node error, and the v1 cleanup goroutine "recovers" — restarts — the pipeline in the middle of the
// shutdown, after Wait joined the old run; the DB is then closed under a running pipeline. (b) The cleanup goroutine
// waits for initServices to return before it stops "all" pipelines and closes the DB: a signal during start-up would
// otherwise stop nothing, close the store, and let start-up go on to start pipelines on a closed store.
func c10R13(c *Ctx) {
	r := c.R.Rule("R13", "K6/K3 shutdown stops what was started and does not restart it: in Runtime.registerCleanupV1/V2 every StopAll reason is (or wraps) pipeline.ErrGracefulShutdown, and StopAll lies behind a receive from the init-done channel that Runtime.Run closes when initServices returns", 5)
	gs := c.W.LookupObj(pPipe, "ErrGracefulShutdown")
	run := c.SSA(r, pConduit, "(*Runtime).Run")
	initS := c.Fn(r, pConduit, "(*Runtime).initServices")
	if gs == nil || run == nil || initS == nil {
		c.R.Unresolved(r, "pipeline.ErrGracefulShutdown / Runtime.Run / initServices")
		return
	}
	isGS := func(v ssa.Value) bool {
		return isGlobalLoad(v, gs) || kit.DerivesFrom(v, func(x ssa.Value) bool { return isGlobalLoad(x, gs) })
	}
	for _, t := range []struct{ name, rel string }{{"(*Runtime).registerCleanupV1", pLife}, {"(*Runtime).registerCleanupV2", pLife2}} {
		fn := c.SSA(r, pConduit, t.name)
		stopAll := c.Fn(r, t.rel, "(*Service).StopAll")
		if fn == nil || stopAll == nil {
			continue
		}
		var chanParam ssa.Value
		for _, prm := range fn.Params {
			if _, ok := prm.Type().Underlying().(*types.Chan); ok {
				chanParam = prm
			}
		}
		n := 0
		for _, lit := range kit.WithAnon(fn) {
			for _, call := range kit.CallsTo(lit, Set(stopAll)) {
				n++
				a := call.Common().Args
				reason := a[len(a)-1]
				ok := isGS(reason)
				if cl, isCall := reason.(*ssa.Call); isCall && !ok {
					for _, arg := range cl.Call.Args {
						if isGS(arg) {
							ok = true
						}
					}
				}
				if reason.Type().String() != "error" {
					ok = true // the arch-v2 StopAll takes no reason (it always is a system stop)
				}
				if lit.Parent() != fn {
					continue // a goroutine spawned by the cleanup closure itself runs behind its checks
				}
				c.R.Check(ok, r, t.name+": pipelines are stopped with (a wrapper of) ErrGracefulShutdown", c.Pos(call.Pos()), "ErrGracefulShutdown", "the shutdown path calls StopAll with a reason that does not wrap pipeline.ErrGracefulShutdown: the source nodes return that reason as a plain node error, the v1 cleanup goroutine treats it as a transient failure and RESTARTS the pipeline during the shutdown — Wait only joined the old run, the DB is closed while the restarted run is live (or Persister.Wait never returns)", true)
				// behind a receive from the init-done channel
				g := kit.NewGates()
				if chanParam != nil {
					for _, b := range lit.Blocks {
						for _, in := range b.Instrs {
							if u, isU := in.(*ssa.UnOp); isU && u.Op == token.ARROW && (u.X == chanParam || capturedIs(u.X, chanParam) || kit.IsVar(u.X, chanParam)) {
								g.AddInstr(u, "<-initDone")
							}
						}
					}
				}
				c.Dominated(r, t.name+": pipelines are stopped only after start-up finished", []ssa.Instruction{call}, g, "<-initDone (a channel parameter)")
			}
		}
		c.R.Check(n >= 1, r, t.name+": StopAll call", c.Pos(fn.Pos()), "found", "no StopAll call found", true)
	}
	// Run closes the channel it hands to registerCleanup when initServices returns
	okClose := false
	for _, lit := range kit.WithAnon(run) {
		if len(kit.CallsTo(lit, Set(initS))) == 0 {
			continue
		}
		for _, b := range lit.Blocks {
			for _, in := range b.Instrs {
				var args []ssa.Value
				var val ssa.Value
				switch x := in.(type) {
				case *ssa.Defer:
					val, args = x.Call.Value, x.Call.Args
				case *ssa.Call:
					val, args = x.Call.Value, x.Call.Args
				}
				if bi, ok := val.(*ssa.Builtin); ok && bi.Name() == "close" && len(args) == 1 {
					if _, isCh := args[0].Type().Underlying().(*types.Chan); isCh {
						okClose = true
					}
				}
			}
		}
	}
	c.R.Check(okClose, r, "Runtime.Run: the init-done channel is closed when initServices returns", c.Pos(run.Pos()), "close(initDone)", "Runtime.Run does not close a channel around initServices: the cleanup goroutine cannot know that start-up finished — a termination signal during start-up closes the store before the pipelines are started, start-up then continues and starts them on a closed store after the only StopAll there will ever be", true)
}

// c11R16: F78. "Once a run has ended its connectors and processors are released so the pipeline can be started again" —
// also when the run never got going: a processor whose Open fails in the arch-v2 engine is torn down right there (its
// plugin is dispensed and its instance marked running already; nobody closes a task that failed to open). The default
// engine does that through ProcessorNode.Run's deferred Teardown.
func c11R16(c *Ctx) {
	r := c.R.Rule("R16", "K4 v2: a processor that fails to open is released: behind the failure edge of processor.Open in ProcessorTask.Open every exit has called processor.Teardown", 1)
	fn := c.SSA(r, pFunnel, "(*ProcessorTask).Open")
	if fn == nil {
		return
	}
	var opens, tds []ssa.CallInstruction
	for _, b := range fn.Blocks {
		for _, in := range b.Instrs {
			if ci, ok := in.(ssa.CallInstruction); ok && ci.Common().IsInvoke() && fieldNamed(ci.Common().Value, "processor") {
				switch ci.Common().Method.Name() {
				case "Open":
					opens = append(opens, ci)
				case "Teardown":
					tds = append(tds, ci)
				}
			}
		}
	}
	if len(opens) != 1 {
		c.R.Fail(r, "ProcessorTask.Open: processor.Open", c.Pos(fn.Pos()), "expected exactly one processor.Open call")
		return
	}
	g := kit.NewGates()
	for _, t := range tds {
		g.AddInstr(t, "processor.Teardown")
	}
	// … or a same-package helper that tears the processor down on every one of its paths
	for _, b := range fn.Blocks {
		for _, in := range b.Instrs {
			ci, ok := in.(ssa.CallInstruction)
			if !ok {
				continue
			}
			h := ci.Common().StaticCallee()
			if h == nil || h.Pkg != fn.Pkg || len(h.Blocks) == 0 {
				continue
			}
			hg := kit.NewGates()
			for _, hb := range h.Blocks {
				for _, hin := range hb.Instrs {
					if hc, ok := hin.(ssa.CallInstruction); ok && hc.Common().IsInvoke() && fieldNamed(hc.Common().Value, "processor") && hc.Common().Method.Name() == "Teardown" {
						hg.AddInstr(hc, "")
					}
				}
			}
			if hg.Empty() {
				continue
			}
			all := true
			for _, ret := range kit.Returns(h) {
				if pass, _ := kit.MustPass(ret, hg); !pass {
					all = false
				}
			}
			if all {
				g.AddInstr(ci, "helper that tears the processor down")
			}
		}
	}
	ok := !g.Empty()
	for _, e := range kit.FailEdges(opens[0]) {
		if pass, _ := kit.AllExitsFromEdge(e, false, kit.ExitSpec{Gates: g}); !pass {
			ok = false
		}
	}
	c.R.Check(ok, r, "ProcessorTask.Open: a failed Open tears the processor down", c.Pos(opens[0].Pos()), "Teardown on the failure edge", "ProcessorTask.Open returns the Open error without tearing the processor down: its plugin stays dispensed and its Instance.running flag stays true (Worker.Open's rollback only closes the tasks that opened BEFORE the failing one) — Update, Delete and the next start of the pipeline are refused with 'processor already running' until Conduit restarts", true)
}

// markerClearedOnlyWhenUnheld: wherever the run's stop marker is cleared in the package, the clear lies behind a "no
// other stop request holds it" test — a counter field of the run compared with zero. (A CompareAndSwap-owned clear is
// not enough: another stop may have marked — as a no-op store — between this call's swap and its clear.)
func markerClearedOnlyWhenUnheld(c *Ctx, r, eng, rel string, marker *types.Var) {
	p := c.W.Pkg(rel)
	T := c.W.LookupType(rel, "runnablePipeline")
	if p == nil || marker == nil {
		return
	}
	nClr := 0
	for _, ff := range c.W.AllFuncs(c.W.SSA[p.Types]) {
		for _, st := range atomicCalls(ff, marker, "Store") {
			if !kit.IsBoolConst(st.Common().Args[1], false) {
				continue
			}
			nClr++
			gz := kit.NewGates()
			if T != nil {
				stt := T.Underlying().(*types.Struct)
				for i := 0; i < stt.NumFields(); i++ {
					f := stt.Field(i)
					if b, ok := f.Type().Underlying().(*types.Basic); ok && b.Info()&types.IsInteger != 0 {
						gz.AddEdges(kit.IntRangeEdges(ff, func(v ssa.Value) bool { return kit.IsFieldLoad(v, f) }, 0, 0), f.Name()+" == 0")
					}
				}
			}
			c.Dominated(r, kit.FuncKey(ff)+": the stop marker is cleared only when no other stop request holds it", []ssa.Instruction{st}, gz, "a `<request counter> == 0` edge")
		}
	}
	c.R.Check(nClr >= 1, r, eng+": the stop marker can be taken back", "", "found", "no intentionalStop.Store(false) found in "+rel, true)
}

// c10R14: F82/F83 (both regressions or leftovers of earlier repairs, found by an audit of the fix commits).
//
//	F82  a processor error on a piece of a split run whose sibling was filtered: since the filtered piece keeps its flag
//	     (F27) the run's nack is forwarded later, from inside an Ack vote of the run ledger — past the only place that
//	     marked an unabsorbed processor error fatal (the acker.Nack call site in doTaskAttempt). The ledger remembers
//	     that a processor nacked the run and returns a fatal error when the parent does not absorb it.
//	F83  Worker.Nack: when the DLQ returned a (fatal) error together with n > 0 and the source ack of the dead-lettered
//	     records fails as well, the DLQ error must not be dropped for the ack error (the fatal classification is lost
//	     and the pipeline restarts with a fresh nack window).
func c10R14(c *Ctx) {
	r := c.R.Rule("R14", "K3 v2 fatal causes survive the late paths: the run ledger returns FatalError behind the failure edge of the parent Nack when the run was nacked by a processor (splitRun flag set on the ProcessorTask edge of doTaskAttempt), and Worker.Nack joins the DLQ error with a failing source-ack error instead of dropping it", 3)
	fatal := c.Fn(r, pCerrors, "FatalError")
	nackFam := c.Fam(c.Fn(r, pFunnel, "ackNacker.Nack"))
	p := c.W.Pkg(pFunnel)
	T := c.W.LookupType(pFunnel, "splitRun")
	if fatal == nil || p == nil || T == nil {
		c.R.Unresolved(r, "cerrors.FatalError / funnel.splitRun")
		return
	}
	// the flag: a bool field of splitRun whose true edge guards a FatalError return behind a failed parent Nack
	st := T.Underlying().(*types.Struct)
	var flag *types.Var
	for _, fn := range c.W.AllFuncs(c.W.SSA[p.Types]) {
		if n, ok := derefNamedRecv(fn); !ok || n != "runAckNacker" {
			continue
		}
		for _, call := range kit.CallsTo(fn, nackFam) {
			for _, e := range kit.FailEdges(call) {
				for i := 0; i < st.NumFields(); i++ {
					f := st.Field(i)
					if b, ok := f.Type().Underlying().(*types.Basic); !ok || b.Kind() != types.Bool {
						continue
					}
					for _, ld := range kit.FieldLoads(fn, f) {
						for _, fe := range kit.CondEdges(ld, true) {
							for _, ret := range kit.Returns(fn) {
								inFail := ret.Block() == e.To || e.To.Dominates(ret.Block())
								inFlag := ret.Block() == fe.To || fe.To.Dominates(ret.Block())
								if cl, ok := kit.RetVal(ret, len(ret.Results)-1).(*ssa.Call); ok && inFail && inFlag && kit.CalleeOf(cl.Common()) == fatal {
									flag = f
								}
							}
						}
					}
				}
			}
		}
	}
	if flag == nil {
		c.R.Fail(r, "runAckNacker: a run nacked by a processor fails fatally when the parent does not absorb it", "", "the run ledger forwards a completed nacked run to the parent and returns the parent's error as is: when a processor nacked a piece of a split run whose sibling was filtered, the nack is forwarded from inside a later Ack vote, past doTaskAttempt's 'processor error whose nack fails is fatal' — with the DLQ disabled the pipeline is restarted for ever instead of degraded")
	} else {
		c.R.Pass(r, "runAckNacker: a run nacked by a processor fails fatally when the parent does not absorb it", "", "splitRun."+flag.Name(), true)
		// set on the ProcessorTask edge of doTaskAttempt
		if fn := c.SSA(r, pFunnel, "(*Worker).doTaskAttempt"); fn != nil {
			set := false
			procT := c.W.LookupType(pFunnel, "ProcessorTask")
			for _, b := range fn.Blocks {
				for _, in := range b.Instrs {
					ci, ok := in.(ssa.CallInstruction)
					if !ok {
						continue
					}
					h := ci.Common().StaticCallee()
					if h == nil || h.Pkg != fn.Pkg {
						continue
					}
					sets := false
					for _, s2 := range kit.FieldStores(h, flag) {
						if kit.IsBoolConst(s2.Val, true) {
							sets = true
						}
					}
					if !sets {
						continue
					}
					for _, ta := range kit.Instrs(fn, func(x ssa.Instruction) bool { _, ok := x.(*ssa.TypeAssert); return ok }) {
						t := ta.(*ssa.TypeAssert)
						if pt, ok := t.AssertedType.(*types.Pointer); ok && procT != nil && types.Identical(pt.Elem(), procT) && kit.InstrDominates(t, in) {
							set = true
						}
					}
				}
			}
			c.R.Check(set, r, "doTaskAttempt: a nack issued by a processor task marks the run", c.Pos(fn.Pos()), "marked behind the ProcessorTask assertion", "doTaskAttempt does not mark the split runs of a batch a ProcessorTask nacked: the ledger cannot tell a processor's nack from a destination's", true)
		}
	}
	// F83
	if fn := c.SSA(r, pFunnel, "(*Worker).Nack"); fn != nil {
		srcAck := c.Fam(c.Fn(r, pFunnel, "Source.Ack"))
		dlqNack := Set(c.Fn(r, pFunnel, "(*DLQ).Nack"))
		join := c.W.LookupObj(pCerrors, "Join")
		ok := false
		for _, ac := range kit.CallsTo(fn, srcAck) {
			for _, dc := range kit.CallsTo(fn, dlqNack) {
				derr := kit.ErrResult(dc)
				for _, ae := range kit.FailEdges(ac) {
					for _, de := range kit.NilEdges(derr, false) {
						for _, b := range fn.Blocks {
							if !((b == ae.To || ae.To.Dominates(b)) && (b == de.To || de.To.Dominates(b))) {
								continue
							}
							for _, in := range b.Instrs {
								if cl, isC := in.(*ssa.Call); isC {
									if f := kit.CalleeOf(cl.Common()); f != nil && f.Name() == "Join" {
										ok = true
									}
									if u, isU := cl.Call.Value.(*ssa.UnOp); isU {
										if g, isG := u.X.(*ssa.Global); isG && join != nil && g.Object() == join {
											ok = true
										}
									}
								}
							}
						}
					}
				}
			}
		}
		c.R.Check(ok, r, "Worker.Nack: a failing source ack does not drop the DLQ error", c.Pos(fn.Pos()), "joined", "Worker.Nack returns only the source-ack error when the DLQ had also returned an error (n > 0 with the threshold exceeded, or a partial DLQ write): the fatal DLQ error is unreachable by Is/As, the failure is classified transient, the pipeline is restarted with a fresh nack window and the record dead-lettered again", true)
	}
}

func derefNamedRecv(fn *ssa.Function) (string, bool) {
	if fn == nil || fn.Signature.Recv() == nil {
		return "", false
	}
	n, ok := derefNamed(fn.Signature.Recv().Type())
	if !ok {
		return "", false
	}
	return n.Obj().Name(), true
}

// c10R15: F84/F85 (interactions between the stop-marker repairs of the arch-v2 engine).
//
//	F84  "ends in the matching stopped status": a pipeline the USER stopped stays UserStopped when Conduit shuts down
//	     before the stop is finalized (during the back-off, or while the drain is still tearing down) — otherwise the next
//	     boot starts it again. StopAll marks the same per-run marker as a user stop, so the run has to remember who
//	     stopped it: SystemStopped is written only behind a predicate that reads the shutdown flag AND a per-run
//	     user-stop flag.
//	F85  a graceful stop that found every worker already armed (the sources had exhausted themselves) is an accepted
//	     stop, not a refused one: the request is withdrawn only when nothing was armed AND something refused to arm.
func c10R15(c *Ctx) {
	r := c.R.Rule("R15", "K3 v2 who stopped the run: StatusSystemStopped is written (and errGracefulShutdownDuringRecovery returned) only behind a predicate that reads both the service's shutdown flag and a per-run user-stop flag; stopRunnablePipeline withdraws a stop request only behind len(armed)==0 and len(unarmed)>0", 4)
	shut := c.Field(r, pLife2, "Service", "isGracefulShutdown")
	intent := c.Field(r, pLife2, "runnablePipeline", "intentionalStop")
	T := c.W.LookupType(pLife2, "runnablePipeline")
	p := c.W.Pkg(pLife2)
	if shut == nil || intent == nil || T == nil || p == nil {
		return
	}
	// the predicate: a bool function loading the shutdown flag and another atomic bool of the run
	var preds []*types.Func
	st := T.Underlying().(*types.Struct)
	for _, fn := range c.W.AllFuncs(c.W.SSA[p.Types]) {
		if fn.Parent() != nil || fn.Signature.Results().Len() != 1 || len(atomicCalls(fn, shut, "Load")) == 0 {
			continue
		}
		if bt, ok := fn.Signature.Results().At(0).Type().Underlying().(*types.Basic); !ok || bt.Kind() != types.Bool {
			continue
		}
		for i := 0; i < st.NumFields(); i++ {
			f := st.Field(i)
			if f == intent || !strings.HasSuffix(f.Type().String(), "atomic.Bool") {
				continue
			}
			if len(atomicCalls(fn, f, "Load")) > 0 {
				if obj, ok := fn.Object().(*types.Func); ok {
					preds = append(preds, obj)
				}
			}
		}
	}
	if len(preds) == 0 {
		c.R.Fail(r, "v2: the run remembers whether a user stopped it", "", "no predicate reads the shutdown flag together with a per-run user-stop flag: the final status is chosen from the service-wide isGracefulShutdown alone, so a pipeline the user stopped (Stop returned nil) ends SystemStopped when Conduit shuts down before the stop is finalized — and is started again at the next boot")
		return
	}
	c.R.Pass(r, "v2: the run remembers whether a user stopped it", "", "predicate "+preds[0].Name(), true)
	run := c.SSA(r, pLife2, "(*Service).runPipeline")
	n := 0
	if run != nil {
		for _, lit := range kit.WithAnon(run) {
			for _, us := range updateStatusCalls(c, r, lit, pLife2) {
				if !statusIs(c, statusArg(us), "StatusSystemStopped") {
					continue
				}
				n++
				g := kit.NewGates()
				for _, pc := range kit.CallsTo(lit, Set(preds...)) {
					g.AddEdges(kit.CondEdges(pc.Value(), true), preds[0].Name()+"()")
				}
				// or behind the sentinel StartWithBackoff returns for it (which itself is returned behind the predicate)
				for _, call := range cerrorsIsCalls(c, lit) {
					a := call.Common().Args
					if len(a) == 2 {
						if u, ok := a[1].(*ssa.UnOp); ok {
							if gl, ok := u.X.(*ssa.Global); ok && strings.Contains(gl.Name(), "GracefulShutdown") {
								g.AddEdges(kit.CondEdges(call, true), "recovery error is "+gl.Name())
							}
						}
					}
				}
				c.Dominated(r, "v2 cleanup: SystemStopped only when no user stopped the run", []ssa.Instruction{us}, g, "the "+preds[0].Name()+"() edge")
			}
		}
	}
	if swb := c.SSA(r, pLife2, "(*Service).StartWithBackoff"); swb != nil {
		for _, ret := range kit.Returns(swb) {
			if u, ok := kit.RetVal(ret, 0).(*ssa.UnOp); ok {
				if gl, ok := u.X.(*ssa.Global); ok && strings.Contains(gl.Name(), "GracefulShutdown") {
					n++
					g := kit.NewGates()
					for _, pc := range kit.CallsTo(swb, Set(preds...)) {
						g.AddEdges(kit.CondEdges(pc.Value(), true), preds[0].Name()+"()")
					}
					c.Dominated(r, "v2 StartWithBackoff: the shutdown sentinel only when no user stopped the run", []ssa.Instruction{ret}, g, "the "+preds[0].Name()+"() edge")
				}
			}
		}
	}
	c.R.Check(n >= 2, r, "v2: SystemStopped decisions", "", "found", "fewer SystemStopped decisions found than on the reference tree", true)
	// F85
	if fn := c.SSA(r, pLife2, "(*Service).stopRunnablePipeline"); fn != nil {
		wd := markerStores(fn, intent, false, false)
		gZero := kit.NewGates().AddEdges(kit.LenEdges(fn, nil, 0, 0), "len(..) == 0")
		gSome := kit.NewGates().AddEdges(kit.LenEdges(fn, nil, 1, -1), "len(..) > 0")
		c.Dominated(r, "stopRunnablePipeline: a stop request is withdrawn only when no worker was armed", wd, gZero, "a len(armedSources) == 0 edge")
		c.Dominated(r, "stopRunnablePipeline: a stop request is withdrawn only when some worker refused to arm", wd, gSome, "a len(unarmedSources) > 0 edge")
	}
}

// cerrorsIsCalls: calls of cerrors.Is (a package-level function variable) / errors.Is in fn.
func cerrorsIsCalls(c *Ctx, fn *ssa.Function) []*ssa.Call {
	isVar := c.W.LookupObj(pCerrors, "Is")
	errorsIs := c.W.ExtObj("errors", "Is")
	var out []*ssa.Call
	for _, b := range fn.Blocks {
		for _, in := range b.Instrs {
			x, ok := in.(*ssa.Call)
			if !ok {
				continue
			}
			if u, ok := x.Call.Value.(*ssa.UnOp); ok {
				if g, ok := u.X.(*ssa.Global); ok && isVar != nil && g.Object() == isVar {
					out = append(out, x)
				}
			}
			if f := x.Call.StaticCallee(); f != nil && errorsIs != nil && f.Object() == errorsIs {
				out = append(out, x)
			}
		}
	}
	return out
}

// c11R17: F88 (known finding). "At most one run of a pipeline exists at any time": Start checks the status for Running,
// but the status only becomes Running at the end of runPipeline and nothing serialises Start (the orchestrator still
// says `// TODO lock pipeline`): two overlapping Start calls — or a user Start racing a recovery restart — both build
// and run; the second is published over the live first one, which is then unreachable by Stop/WaitPipeline/StopAll.
func c11R17(c *Ctx) {
	r := c.R.Rule("R17", "K5 v1 Start is serialised per pipeline: a lock is held from the status check until the run is published (a Lock call dominates buildRunnablePipeline in Service.Start)", 1)
	fn := c.SSA(r, pLife, "(*Service).Start")
	build := c.Fn(r, pLife, "(*Service).buildRunnablePipeline")
	if fn == nil || build == nil {
		return
	}
	g := kit.NewGates()
	for _, b := range fn.Blocks {
		for _, in := range b.Instrs {
			if ci, ok := in.(ssa.CallInstruction); ok {
				if f := kit.CalleeOf(ci.Common()); f != nil && f.Name() == "Lock" {
					// not the publication mutex (held only around the map write)
					if !fieldNamed(ci.Common().Args[0], "publishMu") && !strings.Contains(kit.PathOf(ci.Common().Args[0]), "publishMu") {
						g.AddInstr(in, "per-pipeline start lock")
					}
				}
			}
		}
	}
	builds := asInstrs(kit.CallsToDeep(fn, Set(build)))
	okAll := !g.Empty() && len(builds) > 0
	for _, bi := range builds {
		if bi.Parent() != fn {
			continue
		}
		if pass, _ := kit.MustPass(bi, g); !pass {
			okAll = false
		}
	}
	c.R.Check(okAll, r, "v1 Start: the status check and the publication of the run happen under one per-pipeline lock", c.Pos(fn.Pos()), "locked", "Service.Start checks the status and builds/runs/publishes the run without a per-pipeline lock: two overlapping Start calls (or a user Start racing a recovery restart) both pass the check — the status only becomes Running at the end of runPipeline — and both run; the second is published over the live first run, which keeps moving records but is unreachable by Stop, WaitPipeline, StopAll and Wait", true)
}
