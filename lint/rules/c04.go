package rules

import (
	"go/token"
	"go/types"

	"conduitlint/kit"

	"golang.org/x/tools/go/ssa"
)

const pSem = "github.com/conduitio/conduit-commons/semaphore"

func init() {
	register(&Property{
		ID:          "C04",
		Run:         runC04,
		Explanation: "Decides the ordering mechanisms' structural clauses: (R1) v1 ticket discipline — a ticket is taken in the node's own goroutine before the handlers are registered and before the message is sent on, both handlers acquire that very ticket before touching the source or the DLQ and release it on every exit; (R2) the fail latch gates every forward and is set by the deferred function whenever the handler fails; (R3) v2 fan-out tally — every access under the mutex, `released` advanced only in releaseLocked after a successful parent call made WITH the mutex held, never past a non-terminal position; (R4) the tainted-batch loop advances by a span captured before any task sees the sub-batch, spawns no goroutine, and fan-out branches are joined; (R5) the connector's pending/deferred queues are append-at-tail / consume-from-head / nil-swap only (no aliasing reslice) under ackMu with a single delivery goroutine. Rules added later (after independent seeded changes and defect hunts) are not all enumerated here: every armed rule is listed with its description, kind and instance count under coverage.rules.",
		NotDecided:  []string{"semaphore.Simple's own FIFO guarantee (library)", "actual completion orders", "that positions are distinct values"},
		Assumptions: []string{"semaphore.Simple grants tickets in Enqueue order", "sync.Mutex"},
	})
}

func runC04(c *Ctx) {
	c04R1R2(c)
	c04R3(c)
	c04R4(c)
	c04R5(c)
	c04R6(c)
	c04R7(c)
	c04R10(c)
	c01R7As(c, c.R.Rule("R8", "K3 (= C01.R7) v2 split runs are released in place: runAckNacker.vote hands a completed run to the parent at the point of the walk where it completes (behind the run-complete edge, marked released first), dispatched by its sticky nacked flag", 3))
	c04R9(c)
}

// c04R9: Source.Ack retains the slice it is given until the persister flush; every call hands it a slice of
// its own.
func c04R9(c *Ctx) {
	r := c.R.Rule("R9", "K6 no shared position buffer: the positions slice the v1 source acker hands to Source.Ack is allocated for that call (connector.Source keeps it queued until the flush; a buffer reused across acks makes every queued ack carry the last position)", 2)
	reg := []string{"(*SourceAckerNode).registerAckHandler", "(*SourceAckerNode).registerNackHandler"}
	srcAck := c.Fam(c.Fn(r, pConn, "(*Source).Ack"))
	n := 0
	for _, name := range reg {
		fn := c.SSA(r, pStream, name)
		if fn == nil {
			continue
		}
		for _, f := range kit.WithAnon(fn) {
			for _, via := range kit.CallsVia(f, srcAck, 1) {
				n++
				if len(via.Args) < 2 || via.Args[len(via.Args)-1] == nil {
					c.R.Undecided(r, name+": positions handed to Source.Ack", c.Pos(via.Site.Pos()), "cannot resolve the positions argument")
					continue
				}
				arg := kit.Unwrap(via.Args[len(via.Args)-1])
				fresh := false
				switch x := arg.(type) {
				case *ssa.Slice:
					_, isAlloc := x.X.(*ssa.Alloc)
					fresh = isAlloc && !liveRoot(x.X, 0)
				case *ssa.MakeSlice:
					fresh = true
				}
				c.R.Check(fresh, r, name+": a fresh positions slice per Source.Ack", c.Pos(via.Site.Pos()), "slice literal / make", "the slice handed to Source.Ack is not allocated for this call (a buffer of the node or another shared slice): Source.Ack keeps it queued until the flush, so queued acks are overwritten by later ones — the plugin sees repeats and gaps", true)
			}
		}
	}
	if n == 0 {
		c.R.Fail(r, "v1 source acker: Source.Ack calls", "", "no Source.Ack call found in the ack/nack handlers")
	}
}

// c04R7: a deferred ack is given up only when the stream is gone, the retries are exhausted or the
// back-off was interrupted — never merely because a teardown has begun (the drain still delivers).
func c04R7(c *Ctx) {
	r := c.R.Rule("R7", "K4 deferred acks are not skipped: in Source.deliverOneAck every return behind a failed stream.Send lies behind streamTornDown()==true, the retries-exhausted edge or the interrupted-back-off edge (dropping entry k for any other reason lets k+1 reach the plugin first: a gap)", 1)
	fn := c.SSA(r, pConn, "(*Source).deliverOneAck")
	torn := c.Fn(r, pConn, "(*Source).streamTornDown")
	maxR := c.Fn(r, pConn, "(*Source).maxDeferredAckRetries")
	backoff := c.Fn(r, pConn, "(*Source).backoffDeferredAck")
	if fn == nil || torn == nil || maxR == nil || backoff == nil {
		return
	}
	var sends []ssa.CallInstruction
	for _, b := range fn.Blocks {
		for _, in := range b.Instrs {
			if ci, ok := in.(ssa.CallInstruction); ok && ci.Common().IsInvoke() && ci.Common().Method.Name() == "Send" {
				sends = append(sends, ci)
			}
		}
	}
	if len(sends) != 1 {
		c.R.Fail(r, "deliverOneAck: stream.Send", c.Pos(fn.Pos()), "expected exactly one stream.Send")
		return
	}
	g := kit.NewGates()
	g.AddEdges(condEdgesOfCalls(fn, Set(torn), true), "streamTornDown()")
	g.AddEdges(condEdgesOfCalls(fn, Set(backoff), false), "back-off interrupted")
	for _, mc := range kit.CallsTo(fn, Set(maxR)) {
		mv := mc.Value()
		g.AddEdges(kit.RelEdges(fn, func(v ssa.Value) bool { _, isB := v.(*ssa.BinOp); _, isP := v.(*ssa.Phi); return isB || isP }, func(v ssa.Value) bool { return v == mv }, kit.RelGE), "attempt >= max retries")
	}
	// a retry that delivers, or finds the plugin/stream gone, also ends the attempt legitimately
	g.AddEdges(kit.OKEdges(sends[0]), "delivered on retry")
	if prep := c.Fn(r, pConn, "(*Source).preparePluginCall"); prep != nil {
		for _, pc := range kit.CallsTo(fn, Set(prep)) {
			g.AddEdges(kit.FailEdges(pc), "plugin not running")
		}
	}
	if stF := c.Field(r, pConn, "Source", "stream"); stF != nil {
		for _, l := range kit.FieldLoads(fn, stF) {
			g.AddEdges(kit.NilEdges(l, true), "no stream")
		}
	}
	ok := true
	fe := kit.FailEdges(sends[0])
	for _, e := range fe {
		if pass, _ := kit.AllExitsFromEdge(e, false, kit.ExitSpec{Gates: g}); !pass {
			ok = false
		}
	}
	c.R.Check(ok && len(fe) > 0, r, "deliverOneAck: a queued ack is abandoned only when the stream is gone or the retries are spent", c.Pos(sends[0].Pos()), "ok", "deliverOneAck returns after a failed send on a path that is neither the stream-torn-down, the retries-exhausted nor the interrupted-back-off edge: a transient failure during the drain drops entry k and the loop goes on to deliver k+1 — the plugin sees a gap", true)
}

// c04R6: the ack aggregation state is only touched under its mutex.
func c04R6(c *Ctx) {
	r := c.R.Rule("R6", "K5 frozen guarded-by table: every field of the v2 fan-out vote tally (multiAckNacker) is accessed under its mu, and the v1 destination acker's message queue under queueMutex while the worker runs", 40)
	c.guardTable(r, guardEntry{Rel: pFunnel, Struct: "multiAckNacker", Mutex: "mu", Min: 30,
		Fields: []string{"parent", "branches", "positions", "posIndex", "ackVotes", "terminal", "acked", "record", "nackErr", "nackTaskID", "released", "failed"}})
	c.guardTable(r, guardEntry{Rel: pStream, Struct: "DestinationAckerNode", Mutex: "queueMutex", Min: 4,
		Fields: []string{"queue"},
		Exempt: map[string]string{"(*" + pStream + ".DestinationAckerNode).teardown": "runs in the worker goroutine after its loop ended and Run stopped enqueueing (the code says so: 'no need to lock, at this point the worker is not running anymore')"}})
}

func c04R1R2(c *Ctx) {
	r1 := c.R.Rule("R1", "K3/K6 v1 ticket discipline: Enqueue precedes handler registration and Send in the node goroutine; both handlers Acquire the ticket of their own message before Source.Ack / DLQHandlerNode.Nack and Release by defer", 10)
	r2 := c.R.Rule("R2", "K3/K7 v1 fail latch: every forward is dominated by !n.fail and the deferred function sets n.fail when the handler returns an error", 6)
	enq := c.W.ExtMethod(pSem, "Simple", "Enqueue")
	acq := c.W.ExtMethod(pSem, "Simple", "Acquire")
	rel := c.W.ExtMethod(pSem, "Simple", "Release")
	if enq == nil || acq == nil || rel == nil {
		c.R.Unresolved(r1, pSem+".Simple.{Enqueue,Acquire,Release}")
		return
	}
	run := c.SSA(r1, pStream, "(*SourceAckerNode).Run")
	regAck := c.Fn(r1, pStream, "(*SourceAckerNode).registerAckHandler")
	regNack := c.Fn(r1, pStream, "(*SourceAckerNode).registerNackHandler")
	send := c.Fn(r1, pStream, "(*pubSubNodeBase).Send")
	if run != nil {
		enqs := kit.CallsTo(run, Set(enq))
		if len(enqs) != 1 {
			c.R.Fail(r1, "SourceAckerNode.Run: one Enqueue per message", c.Pos(run.Pos()), "expected exactly one sem.Enqueue call in the receive loop")
		}
		g := kit.NewGates()
		for _, e := range enqs {
			g.AddInstr(e, "sem.Enqueue()")
		}
		for _, t := range []struct {
			name string
			f    *types.Func
		}{{"registerAckHandler", regAck}, {"registerNackHandler", regNack}, {"base.Send", send}} {
			calls := kit.CallsTo(run, Set(t.f))
			if len(calls) == 0 {
				c.R.Fail(r1, "SourceAckerNode.Run: "+t.name, c.Pos(run.Pos()), t.name+" call not found")
				continue
			}
			c.Dominated(r1, "SourceAckerNode.Run: Enqueue before "+t.name, asInstrs(calls), g, "sem.Enqueue()")
			// K6 the ticket passed is this iteration's Enqueue result
			if t.name != "base.Send" && len(enqs) == 1 {
				for _, call := range calls {
					a := call.Common().Args
					c.R.Check(len(a) == 3 && a[2] == enqs[0].Value(), r1, "SourceAckerNode.Run: "+t.name+" receives this message's ticket", c.Pos(call.Pos()), "ticket := sem.Enqueue()", "the ticket handed to "+t.name+" is not the result of this iteration's sem.Enqueue()", true)
				}
			}
		}
		// handlers registered before the message is sent on
		sends := kit.CallsTo(run, Set(send))
		for _, t := range []*types.Func{regAck, regNack} {
			g2 := kit.NewGates()
			for _, call := range kit.CallsTo(run, Set(t)) {
				g2.AddInstr(call, "")
			}
			c.Dominated(r1, "SourceAckerNode.Run: "+t.Name()+" before Send", asInstrs(sends), g2, t.Name())
		}
		// no goroutine between receive and send
		nGo := len(kit.Instrs(run, func(in ssa.Instruction) bool { _, ok := in.(*ssa.Go); return ok }))
		c.R.Check(nGo == 0, r1, "SourceAckerNode.Run: tickets are taken in the node's own goroutine", c.Pos(run.Pos()), "no go statement", "SourceAckerNode.Run starts a goroutine: tickets would no longer be enqueued in receive order", true)
	}
	srcAck := c.Fam(c.Fn(r1, pConn, "(*Source).Ack"))
	dlqNack := Set(c.Fn(r1, pStream, "(*DLQHandlerNode).Nack"))
	failF := c.Field(r2, pStream, "SourceAckerNode", "fail")
	for _, reg := range []string{"(*SourceAckerNode).registerAckHandler", "(*SourceAckerNode).registerNackHandler"} {
		fn := c.SSA(r1, pStream, reg)
		if fn == nil {
			continue
		}
		var ticketParam ssa.Value
		for _, p := range fn.Params {
			if n, ok := p.Type().(*types.Named); ok && n.Obj().Name() == "Ticket" {
				ticketParam = p
			}
		}
		found := false
		for _, lit := range kit.WithAnon(fn)[1:] {
			fwd := append(kit.CallsTo(lit, srcAck), kit.CallsTo(lit, dlqNack)...)
			if len(fwd) == 0 {
				continue
			}
			found = true
			acqs := kit.CallsTo(lit, Set(acq))
			g := kit.NewGates()
			for _, a := range acqs {
				g.AddInstr(a, "sem.Acquire(ticket)")
				// ticket = captured parameter
				ok := false
				if args := a.Common().Args; len(args) == 2 {
					ok = capturedIs(args[1], ticketParam)
				}
				c.R.Check(ok, r1, reg+" handler: acquires its own message's ticket", c.Pos(a.Pos()), "sem.Acquire(ticket)", "the handler acquires a ticket other than the one enqueued for its message", true)
			}
			c.Dominated(r1, reg+" handler: Acquire before forwarding", asInstrs(fwd), g, "sem.Acquire(ticket)")
			// release by defer registered after the acquire
			var deferRel *ssa.Defer
			for _, b := range lit.Blocks {
				for _, in := range b.Instrs {
					d, ok := in.(*ssa.Defer)
					if !ok {
						continue
					}
					if mc, ok := d.Call.Value.(*ssa.MakeClosure); ok {
						if len(kit.CallsTo(mc.Fn.(*ssa.Function), Set(rel))) > 0 {
							deferRel = d
						}
					}
				}
			}
			okRel := deferRel != nil
			if okRel {
				for _, a := range acqs {
					ok2, _ := kit.AllExits(a, kit.ExitSpec{DeferGates: map[*ssa.Defer]bool{deferRel: true}, IncludePanic: true})
					okRel = okRel && ok2
				}
			}
			c.R.Check(okRel, r1, reg+" handler: Release on every exit", c.Pos(lit.Pos()), "deferred sem.Release", "the handler does not release the semaphore lock by defer on every exit after acquiring it: a later message would wait forever or overtake", true)
			// R2 fail latch
			gFail := kit.NewGates()
			for _, l := range kit.FieldLoads(lit, failF) {
				gFail.AddEdges(kit.CondEdges(l, false), "!n.fail")
			}
			c.Dominated(r2, reg+" handler: forwards only while !n.fail", asInstrs(fwd), gFail, "the !n.fail edge")
			// deferred closure: store n.fail = true dominated by err != nil, err = named result cell
			if deferRel != nil {
				dfn := deferRel.Call.Value.(*ssa.MakeClosure).Fn.(*ssa.Function)
				stores := storesToField(dfn, failF, func(v ssa.Value) bool { return kit.IsBoolConst(v, true) })
				c.R.Check(len(stores) > 0, r2, reg+" handler: deferred function latches n.fail", c.Pos(dfn.Pos()), "n.fail = true", "the deferred function no longer sets n.fail", true)
				// the error tested is the handler's named result (a captured cell), and every error return of the handler stores into it
				var errCell ssa.Value
				for _, b := range dfn.Blocks {
					for _, in := range b.Instrs {
						if u, ok := in.(*ssa.UnOp); ok && u.Op == token.MUL {
							if fv, ok := u.X.(*ssa.FreeVar); ok && isErrorType(u.Type()) {
								errCell = resolveFreeVar(fv)
								gErr := kit.NewGates().AddEdges(kit.NilEdges(u, false), "err != nil")
								c.Dominated(r2, reg+" handler: latch set exactly when the handler failed", stores, gErr, "the err != nil edge of the handler's result")
							}
						}
					}
				}
				isResult := false
				if a, ok := errCell.(*ssa.Alloc); ok && a.Parent() == lit {
					// the named result: every Return of lit loads from it
					for _, ret := range kit.Returns(lit) {
						for _, rv := range ret.Results {
							if u, ok := rv.(*ssa.UnOp); ok && u.X == ssa.Value(a) {
								isResult = true
							}
						}
					}
				}
				c.R.Check(isResult, r2, reg+" handler: the latched error is the handler's own result", c.Pos(lit.Pos()), "named result err", "the deferred latch tests a variable that is not the handler's returned error (e.g. a shadowed err): a failed forward would not stop later acks", true)
			}
		}
		if !found {
			c.R.Fail(r1, reg+" handler", c.Pos(fn.Pos()), "no handler literal forwarding to the source/DLQ found")
		}
	}
}

func c04R3(c *Ctx) {
	c04R3As(c, c.R.Rule("R3", "K5/K2/K3 v2 fan-out release: tally fields under m.mu; `released` written only in releaseLocked, after a successful parent call made with m.mu held, and never past a non-terminal position", 30))
}

func c04R3As(c *Ctx, r string) {
	var fields []*types.Var
	for _, f := range []string{"ackVotes", "terminal", "acked", "record", "nackErr", "nackTaskID", "released", "failed"} {
		if v := c.Field(r, pFunnel, "multiAckNacker", f); v != nil {
			fields = append(fields, v)
		}
	}
	requires := map[string][]string{"releaseLocked": {"recv.mu"}, "ackBatch": {"recv.mu"}, "nackBatch": {"recv.mu"}}
	for _, m := range []string{"Ack", "Nack", "releaseLocked", "ackBatch", "nackBatch", "indexOf"} {
		fn := c.SSA(r, pFunnel, "(*multiAckNacker)."+m)
		if fn == nil {
			continue
		}
		c.Guarded(r, fn, requires[m], "mu", fields, nil)
	}
	// requires-lock callers
	spec := c.W.StdLockSpec()
	relFn := c.Fn(r, pFunnel, "(*multiAckNacker).releaseLocked")
	c.WhoMayRef(r, "multiAckNacker.releaseLocked", Set(relFn), []string{pFunnel + ".(*multiAckNacker).Ack", pFunnel + ".(*multiAckNacker).Nack"})
	for _, m := range []string{"Ack", "Nack"} {
		fn := c.SSA(r, pFunnel, "(*multiAckNacker)."+m)
		if fn == nil {
			continue
		}
		ls := kit.Locksets(fn, spec, nil)
		for _, call := range kit.CallsTo(fn, Set(relFn)) {
			c.R.Check(containsLock(ls[call], "recv.mu"), r, "multiAckNacker."+m+": releaseLocked called with m.mu held", c.Pos(call.Pos()), "held "+ls[call], "releaseLocked is called without m.mu", true)
		}
	}
	for _, h := range []string{"ackBatch", "nackBatch"} {
		c.WhoMayRef(r, "multiAckNacker."+h, Set(c.Fn(r, pFunnel, "(*multiAckNacker)."+h)), []string{pFunnel + ".(*multiAckNacker).releaseLocked"})
	}
	releasedF := c.Field(r, pFunnel, "multiAckNacker", "released")
	c.WhoMayWrite(r, "multiAckNacker.released", releasedF, []string{pFunnel + ".(*multiAckNacker).releaseLocked"}, nil)
	fn := c.SSA(r, pFunnel, "(*multiAckNacker).releaseLocked")
	if fn == nil {
		return
	}
	ackM := c.Fn(r, pFunnel, "ackNacker.Ack")
	nackM := c.Fn(r, pFunnel, "ackNacker.Nack")
	parentCalls := kit.CallsTo(fn, Set(ackM, nackM))
	if len(parentCalls) < 2 {
		c.R.Fail(r, "releaseLocked: parent calls", c.Pos(fn.Pos()), "expected parent.Ack and parent.Nack calls")
	}
	// the mutex is held across the parent call: the serialisation of parent calls IS the ordering guarantee
	ls := kit.Locksets(fn, spec, []string{"recv.mu"})
	for _, pc := range parentCalls {
		c.R.Check(containsLock(ls[pc], "recv.mu"), r, "releaseLocked: parent call made with m.mu held", c.Pos(pc.Pos()), "held "+ls[pc], "the parent Ack/Nack call is made after releasing m.mu: two branches can reach the source out of position order", true)
	}
	// a failed parent call is final (F28): the branches of a fan-out keep voting after one of them failed, and the
	// head position is still "terminal, not released" — without a sticky failure the next vote repeats the parent
	// Ack/Nack: a nack whose DLQ write failed is written again (and this time acked), one whose source ack failed
	// is dead-lettered twice
	{
		T := c.W.LookupType(pFunnel, "multiAckNacker")
		var sticky *types.Var
		if T != nil {
			st := T.Underlying().(*types.Struct)
			for i := 0; i < st.NumFields(); i++ {
				f := st.Field(i)
				if !types.Identical(f.Type(), types.Universe.Lookup("error").Type()) || f.Name() == "nackErr" {
					continue
				}
				g := kit.NewGates()
				for _, l := range kit.FieldLoads(fn, f) {
					g.AddEdges(kit.NilEdges(l, true), f.Name()+" == nil")
				}
				all := !g.Empty()
				for _, pc := range parentCalls {
					if ok, _ := kit.MustPass(pc, g); !ok {
						all = false
					}
				}
				if all {
					sticky = f
				}
			}
		}
		if sticky == nil {
			c.R.Fail(r, "releaseLocked: a failed parent Ack/Nack is not repeated", c.Pos(fn.Pos()), "no sticky failure: the parent Ack/Nack calls of releaseLocked are not guarded by an error field that is nil only while no parent call has failed — after a failed DLQ hand-off the next vote of a sibling branch calls parent.Nack for the same position again: the record is written to the DLQ a second time, counted twice in the nack window and (if that write succeeds) acked to the source although the pass already failed with the DLQ error")
		} else {
			for _, pc := range parentCalls {
				g := kit.NewGates()
				for _, stf := range kit.FieldStores(fn, sticky) {
					if !kit.IsNilConst(stf.Val) {
						g.AddInstr(stf, "m."+sticky.Name()+" = err")
					}
				}
				okAll := !g.Empty()
				for _, e := range kit.FailEdges(pc) {
					if pass, _ := kit.AllExitsFromEdge(e, false, kit.ExitSpec{Gates: g}); !pass {
						okAll = false
					}
				}
				c.R.Check(okAll, r, "releaseLocked: a failed parent call is recorded before returning", c.Pos(pc.Pos()), "m."+sticky.Name()+" set on the failure edge", "a failure of the parent Ack/Nack is not recorded in m."+sticky.Name()+" on every exit behind its failure edge: the next vote repeats the call", true)
			}
			c.WhoMayWrite(r, "multiAckNacker."+sticky.Name(), sticky, []string{pFunnel + ".(*multiAckNacker).releaseLocked"}, nil)
		}
	}
	// released advanced only after the parent call succeeded
	stores := storesToField(fn, releasedF, nil)
	if len(stores) < 2 {
		c.R.Fail(r, "releaseLocked: released updates", c.Pos(fn.Pos()), "expected the two updates of m.released")
	}
	c.Dominated(r, "releaseLocked: released advanced only after the parent call succeeded", stores, okGates(parentCalls, ""), "a parent.Ack/Nack success edge")
	// never past a non-terminal position: parent calls dominated by terminal[released]==true
	termF := c.Field(r, pFunnel, "multiAckNacker", "terminal")
	gT := kit.NewGates()
	for _, b := range fn.Blocks {
		for _, in := range b.Instrs {
			if u, ok := in.(*ssa.UnOp); ok && kit.IsElemLoadOfField(u, termF) {
				if ia, ok := u.X.(*ssa.IndexAddr); ok && kit.IsFieldLoad(ia.Index, releasedF) {
					gT.AddEdges(kit.CondEdges(u, true), "terminal[released]")
				}
			}
		}
	}
	c.Dominated(r, "releaseLocked: only a terminal head position is released", asInstrs(parentCalls), gT, "the m.terminal[m.released] edge")
	// the values stored: `to` (end of the acked run scanned from released under terminal&&acked) or idx+1
	for _, st := range stores {
		s := st.(*ssa.Store)
		ok := false
		switch v := s.Val.(type) {
		case *ssa.BinOp:
			ok = v.Op == token.ADD && kit.IsIntConst(v.Y, 1) && kit.IsFieldLoad(v.X, releasedF)
		case *ssa.Phi:
			// to := from; for ... to++ : phi rooted at a load of released, incremented by one
			root, inc := false, false
			for _, e := range v.Edges {
				if kit.IsFieldLoad(e, releasedF) {
					root = true
				}
				if b, isB := e.(*ssa.BinOp); isB && b.Op == token.ADD && kit.IsIntConst(b.Y, 1) && b.X == ssa.Value(v) {
					inc = true
				}
			}
			ok = root && inc
		case *ssa.Call:
			// the scan lives in a helper: `to := m.scanEnd(from)` — the helper returns a counter that starts
			// at its parameter and is incremented by one, and the argument is (a load of) released
			if h := v.Call.StaticCallee(); h != nil && h.Pkg == fn.Pkg && len(h.Blocks) > 0 {
				argOK := -1
				for i, a := range v.Call.Args {
					if kit.IsFieldLoad(a, releasedF) {
						argOK = i
					}
				}
				for _, ret := range kit.Returns(h) {
					if ph, isPhi := kit.RetVal(ret, 0).(*ssa.Phi); isPhi && argOK >= 0 && argOK < len(h.Params) {
						root, inc := false, false
						for _, e := range ph.Edges {
							if e == ssa.Value(h.Params[argOK]) {
								root = true
							}
							if b, isB := e.(*ssa.BinOp); isB && b.Op == token.ADD && kit.IsIntConst(b.Y, 1) && b.X == ssa.Value(ph) {
								inc = true
							}
						}
						ok = root && inc
					}
				}
			}
		}
		c.R.Check(ok, r, "releaseLocked: released moves forward contiguously", c.Pos(s.Pos()), "released+1 or the end of the contiguous acked run", "m.released is assigned a value that is not released+1 or the end of the contiguous run scanned from released", true)
	}
}

func c04R4(c *Ctx) {
	r := c.R.Rule("R4", "K3/K11 v2 sequential sub-batching: idx advances by a span read before any task sees the sub-batch; doTaskAttempt starts no goroutine; fan-out branches are joined before doNextTask returns", 5)
	fn := c.SSA(r, pFunnel, "(*Worker).doTaskAttempt")
	if fn != nil {
		sub := c.Fn(r, pFunnel, "(*Worker).subBatchByFlag")
		posF := c.Field(r, pFunnel, "Batch", "positions")
		nGo := len(kit.Instrs(fn, func(in ssa.Instruction) bool { _, ok := in.(*ssa.Go); return ok }))
		c.R.Check(nGo == 0, r, "doTaskAttempt: sub-batches are processed in the worker goroutine", c.Pos(fn.Pos()), "no go statement", "doTaskAttempt starts a goroutine: sub-batches of one source would no longer be handled left to right", true)
		for _, sc := range kit.CallsTo(fn, Set(sub)) {
			sb := sc.Value()
			// idx phi: the second argument of subBatchByFlag
			a := sc.Common().Args
			ph, isPhi := a[len(a)-1].(*ssa.Phi)
			if !isPhi {
				c.R.Undecided(r, "doTaskAttempt: idx", c.Pos(sc.Pos()), "the sub-batch start index is not a loop-carried variable")
				continue
			}
			for _, e := range ph.Edges {
				inc, isInc := e.(*ssa.BinOp)
				if !isInc {
					continue
				}
				if inc.Op != token.ADD || inc.X != ssa.Value(ph) {
					c.R.Fail(r, "doTaskAttempt: idx update", c.Pos(inc.Pos()), "idx is not advanced additively")
					continue
				}
				span := inc.Y
				// span = len(subBatch.positions) computed ...
				okSpan := kit.IsLenOf(span, func(v ssa.Value) bool {
					if !kit.IsFieldLoad(v, posF) {
						return false
					}
					base, _ := kit.FieldBase(v)
					return base == sb
				})
				c.R.Check(okSpan, r, "doTaskAttempt: idx advances by len(subBatch.positions)", c.Pos(inc.Pos()), "span", "idx is not advanced by the span of the sub-batch in the parent batch", true)
				// ... BEFORE any call that receives subBatch (a task may grow it): no path from a call taking subBatch to the len() call
				spanCall, _ := span.(*ssa.Call)
				if spanCall == nil {
					continue
				}
				bad := false
				for _, b := range fn.Blocks {
					for _, in := range b.Instrs {
						ci, ok := in.(ssa.CallInstruction)
						if !ok || in == ssa.Instruction(spanCall) {
							continue
						}
						uses := false
						for _, arg := range ci.Common().Args {
							if arg == sb {
								uses = true
							}
						}
						if !uses {
							continue
						}
						if f := kit.CalleeOf(ci.Common()); f != nil && (f.Name() == "HasActiveRecords") {
							continue // read-only predicate
						}
						if kit.Reaches(in, spanCall, kit.NewGates().AddInstr(sc, "next sub-batch")) {
							bad = true
						}
					}
				}
				c.R.Check(!bad, r, "doTaskAttempt: span captured before any task receives the sub-batch", c.Pos(spanCall.Pos()), "ok", "len(subBatch.positions) is read after a task/acker call that received the sub-batch: a split grows it and idx overshoots (records skipped, #2722)", true)
			}
		}
	}
	if fn := c.SSA(r, pFunnel, "(*Worker).doNextTask"); fn != nil {
		// every pool Go is followed on all paths by Wait before return
		var gos, waits []ssa.Instruction
		for _, b := range fn.Blocks {
			for _, in := range b.Instrs {
				call, ok := in.(*ssa.Call)
				if !ok {
					continue
				}
				f := kit.CalleeOf(call.Common())
				if f == nil || f.Pkg() == nil || f.Pkg().Path() != "github.com/sourcegraph/conc/pool" {
					continue
				}
				switch f.Name() {
				case "Go":
					gos = append(gos, in)
				case "Wait":
					waits = append(waits, in)
				}
			}
		}
		c.R.Check(len(gos) > 0 && len(waits) > 0, r, "doNextTask: pool Go/Wait present", c.Pos(fn.Pos()), "ok", "the fan-out pool's Go/Wait calls are not found", false)
		g := kit.NewGates()
		for _, w := range waits {
			g.AddInstr(w, "p.Wait()")
		}
		for _, gi := range gos {
			ok, exit := kit.AllExits(gi, kit.ExitSpec{Gates: g})
			c.R.Check(ok, r, "doNextTask: branches joined before returning", c.Pos(posOf(gi)), "every exit passes p.Wait()", "a path returns from doNextTask without joining the fan-out branches (exit block "+fmtInts(exit)+")", true)
		}
		nGo := len(kit.Instrs(fn, func(in ssa.Instruction) bool { _, ok := in.(*ssa.Go); return ok }))
		c.R.Check(nGo == 0, r, "doNextTask: no unjoined goroutine", c.Pos(fn.Pos()), "no bare go statement", "doNextTask starts a bare goroutine", true)
	}
}

func fmtInts(xs []int) string {
	s := "["
	for i, x := range xs {
		if i > 0 {
			s += " "
		}
		s += itoa(x)
	}
	return s + "]"
}

func itoa(x int) string {
	if x == 0 {
		return "0"
	}
	neg := x < 0
	if neg {
		x = -x
	}
	s := ""
	for x > 0 {
		s = string(rune('0'+x%10)) + s
		x /= 10
	}
	if neg {
		s = "-" + s
	}
	return s
}

func c04R5(c *Ctx) {
	r := c.R.Rule("R5", "K10 FIFO shape in connector.Source: pendingAcks/deferredAckQueue are appended at the tail, consumed from the head and swapped to nil (never resliced in place while a taken snapshot is being delivered); one delivery goroutine", 6)
	q := c.Field(r, pConn, "Source", "deferredAckQueue")
	pend := c.Field(r, pConn, "Source", "pendingAcks")
	classify := func(fn *ssa.Function, f *types.Var, st *ssa.Store) string {
		switch v := st.Val.(type) {
		case *ssa.Const:
			if v.IsNil() {
				return "nil"
			}
		case *ssa.Call:
			if b, ok := v.Call.Value.(*ssa.Builtin); ok && b.Name() == "append" && len(v.Call.Args) == 2 && kit.IsFieldLoad(v.Call.Args[0], f) {
				return "append-tail"
			}
		case *ssa.Slice:
			if kit.IsFieldLoad(v.X, f) && v.High == nil && v.Max == nil && v.Low != nil {
				return "drop-head"
			}
			if kit.IsFieldLoad(v.X, f) {
				return "reslice-in-place"
			}
		}
		return "other"
	}
	allowed := map[string]map[string]bool{
		"(*Source).Ack":                 {"pendingAcks:append-tail": true},
		"(*Source).onPersistFlushed":    {"pendingAcks:drop-head": true, "deferredAckQueue:append-tail": true},
		"(*Source).deliverDeferredAcks": {"deferredAckQueue:nil": true},
	}
	n := 0
	for m, okSet := range allowed {
		fn := c.SSA(r, pConn, m)
		if fn == nil {
			continue
		}
		for _, f := range []*types.Var{q, pend} {
			for _, st := range kit.FieldStores(fn, f) {
				n++
				kind := classify(fn, f, st)
				key := f.Name() + ":" + kind
				c.R.Check(okSet[key], r, m+": "+f.Name()+" update is "+kind, c.Pos(st.Pos()), "FIFO-preserving update", m+" updates "+f.Name()+" by `"+kind+"`: only append-at-tail, drop-from-head and (for the taken snapshot) reset-to-nil keep the plugin's ack order; an in-place reslice shares the backing array with the snapshot being delivered", true)
			}
		}
	}
	if n < 4 {
		c.R.Fail(r, "connector.Source queue updates", "", "fewer queue updates found than expected")
	}
	// delivery iterates the taken snapshot in index order
	if fn := c.SSA(r, pConn, "(*Source).deliverDeferredAcks"); fn != nil {
		nGo := len(kit.Instrs(fn, func(in ssa.Instruction) bool { _, ok := in.(*ssa.Go); return ok }))
		c.R.Check(nGo == 0, r, "deliverDeferredAcks: sequential delivery", c.Pos(fn.Pos()), "no go statement", "deliverDeferredAcks delivers acks from additional goroutines", true)
	}
	if fn := c.SSA(r, pConn, "(*Source).Open"); fn != nil {
		d := c.Fn(r, pConn, "(*Source).deliverDeferredAcks")
		cnt := 0
		for _, in := range kit.Instrs(fn, func(in ssa.Instruction) bool { _, ok := in.(*ssa.Go); return ok }) {
			if kit.CalleeOf(in.(*ssa.Go).Common()) == d {
				cnt++
			}
		}
		c.R.Check(cnt == 1, r, "Source.Open: exactly one delivery goroutine", c.Pos(fn.Pos()), "1", "Source.Open does not start exactly one deliverDeferredAcks goroutine", true)
	}
}

// capturedIs reports whether v, read inside a closure, is the enclosing
// function's value want: a free variable bound to it directly, or a load of a
// captured cell whose only stores put want into it (spilled parameter).
func capturedIs(v ssa.Value, want ssa.Value) bool {
	if want == nil {
		return false
	}
	if fv, ok := v.(*ssa.FreeVar); ok {
		return resolveFreeVar(fv) == want
	}
	u, ok := v.(*ssa.UnOp)
	if !ok || u.Op != token.MUL {
		return false
	}
	fv, ok := u.X.(*ssa.FreeVar)
	if !ok {
		return false
	}
	cell, ok := resolveFreeVar(fv).(*ssa.Alloc)
	if !ok {
		return false
	}
	stores, good := 0, 0
	for _, use := range kit.CellUses(cell) {
		if st, ok := use.Instr.(*ssa.Store); ok && (st.Addr == ssa.Value(cell) || isFreeVarOf(st.Addr, cell)) {
			stores++
			if st.Val == want {
				good++
			}
		}
	}
	return stores >= 1 && stores == good
}

func isFreeVarOf(addr ssa.Value, cell *ssa.Alloc) bool {
	fv, ok := addr.(*ssa.FreeVar)
	return ok && resolveFreeVar(fv) == ssa.Value(cell)
}

// c04R10: what the plugin has been told stays a PREFIX of the acked sequence (F26): once deliverOneAck gives up on a
// queued ack — whatever the reason — the delivery goroutine sends nothing that was queued behind it. deliverOneAck
// reports whether it delivered (true only behind the Send success edge), and in deliverDeferredAcks the call is
// guarded by a condition computed from the results of the earlier calls.
func c04R10(c *Ctx) {
	r := c.R.Rule("R10", "K3/K6 no ack is delivered past a dropped one: Source.deliverOneAck returns true only behind the stream.Send success edge, and in deliverDeferredAcks every deliverOneAck call lies behind a branch on a (loop-carried) value computed from deliverOneAck's own results", 3)
	one := c.SSA(r, pConn, "(*Source).deliverOneAck")
	loop := c.SSA(r, pConn, "(*Source).deliverDeferredAcks")
	if one == nil || loop == nil {
		return
	}
	res := one.Signature.Results()
	if res.Len() != 1 || !types.Identical(res.At(0).Type().Underlying(), types.Typ[types.Bool]) {
		c.R.Fail(r, "deliverOneAck: reports whether the ack was delivered", c.Pos(one.Pos()), "deliverOneAck has no bool result: the delivery loop cannot know that an ack was given up on, and goes on to deliver the acks queued behind it — the plugin is told about position k+1 without ever being told about k")
		return
	}
	var sends []ssa.CallInstruction
	for _, b := range one.Blocks {
		for _, in := range b.Instrs {
			if ci, ok := in.(ssa.CallInstruction); ok && ci.Common().IsInvoke() && ci.Common().Method.Name() == "Send" {
				sends = append(sends, ci)
			}
		}
	}
	g := kit.NewGates()
	for _, sd := range sends {
		g.AddEdges(kit.OKEdges(sd), "stream.Send succeeded")
	}
	var trues []ssa.Instruction
	for _, ret := range kit.Returns(one) {
		v := kit.RetVal(ret, 0)
		switch {
		case kit.IsBoolConst(v, true):
			trues = append(trues, ret)
		case kit.IsBoolConst(v, false):
		default:
			// a computed result: it must itself be the success of the send
			trues = append(trues, ret)
		}
	}
	c.R.Check(len(trues) >= 1 && len(sends) == 1, r, "deliverOneAck: a delivered return exists", c.Pos(one.Pos()), "found", "no `return true` / single stream.Send found in deliverOneAck", true)
	c.Dominated(r, "deliverOneAck: reports delivered only when the send succeeded", trues, g, "the stream.Send success edge")
	// the loop
	calls := kit.CallsTo(loop, Set(one.Object().(*types.Func)))
	c.R.Check(len(calls) >= 1, r, "deliverDeferredAcks: deliverOneAck call", c.Pos(loop.Pos()), "found", "no call of deliverOneAck in deliverDeferredAcks", true)
	for _, call := range calls {
		cv := call.Value()
		guarded := false
		if cv != nil {
			for _, b := range loop.Blocks {
				iff, ok := b.Instrs[len(b.Instrs)-1].(*ssa.If)
				if !ok {
					continue
				}
				if !boolDerivesFrom(iff.Cond, cv) {
					continue
				}
				// the flag survives from one drained batch to the next: its `false` comes from outside every loop
				// (a flag re-initialised inside the outer drain loop forgets a dropped ack as soon as the next
				// persister flush queues another one)
				if !flagInitOutsideLoops(loop, iff.Cond) {
					continue
				}
				for _, sc := range b.Succs {
					// the edge b→sc dominates the call (sc has no other predecessor)
					if (sc == call.Block() || sc.Dominates(call.Block())) && len(sc.Preds) == 1 && b.Succs[0] != b.Succs[1] {
						guarded = true
					}
				}
			}
		}
		c.R.Check(guarded, r, "deliverDeferredAcks: nothing is delivered behind an undelivered ack", c.Pos(call.Pos()), "guarded by the earlier results", "deliverDeferredAcks calls deliverOneAck for every queued entry regardless of whether an earlier entry was given up on (retries exhausted, stream torn down, back-off interrupted): when the stream recovers, the plugin receives position k+1 without k — a cumulative-position source commits past a record it was never told about", true)
	}
}

// boolDerivesFrom: v is computed from src through phis, negations and boolean/bitwise combinations.
func boolDerivesFrom(v, src ssa.Value) bool {
	seen := map[ssa.Value]bool{}
	var walk func(x ssa.Value) bool
	walk = func(x ssa.Value) bool {
		if x == nil || seen[x] {
			return false
		}
		seen[x] = true
		if x == src {
			return true
		}
		switch y := x.(type) {
		case *ssa.Phi:
			for _, e := range y.Edges {
				if walk(e) {
					return true
				}
			}
		case *ssa.UnOp:
			if y.Op == token.NOT {
				return walk(y.X)
			}
			return kit.DerivesFrom(x, func(z ssa.Value) bool { return z == src })
		case *ssa.BinOp:
			return walk(y.X) || walk(y.Y)
		default:
			return kit.DerivesFrom(x, func(z ssa.Value) bool { return z == src })
		}
		return false
	}
	return walk(v)
}

// flagInitOutsideLoops: every constant incoming edge of the phi web behind v comes from a block that lies in no loop.
func flagInitOutsideLoops(fn *ssa.Function, v ssa.Value) bool {
	loops := kit.Loops(fn)
	inLoop := func(b *ssa.BasicBlock) bool {
		for _, l := range loops {
			if l.Blocks[b] {
				return true
			}
		}
		return false
	}
	seen := map[ssa.Value]bool{}
	ok := true
	var walk func(x ssa.Value)
	walk = func(x ssa.Value) {
		if x == nil || seen[x] {
			return
		}
		seen[x] = true
		switch y := x.(type) {
		case *ssa.Phi:
			for i, e := range y.Edges {
				if _, isC := e.(*ssa.Const); isC {
					if inLoop(y.Block().Preds[i]) && kit.IsBoolConst(e, false) {
						ok = false
					}
					continue
				}
				walk(e)
			}
		case *ssa.UnOp:
			if y.Op == token.NOT {
				walk(y.X)
			}
		case *ssa.BinOp:
			walk(y.X)
			walk(y.Y)
		}
	}
	walk(v)
	return ok
}
