package rules

import (
	"fmt"
	"go/ast"
	"go/constant"
	"go/token"
	"go/types"
	"sort"
	"strings"

	"conduitlint/kit"

	"golang.org/x/tools/go/packages"
	"golang.org/x/tools/go/ssa"
)

const (
	pConduiterr = "pkg/foundation/cerrors/conduiterr"
	pExitcode   = "pkg/conduit/exitcode"
)

func init() {
	register(&Property{
		ID:          "C20",
		Run:         runC20,
		Explanation: "Decides the structural clauses that make error classification path-independent: (R1) every in-repo error type that stores an error exposes it through Unwrap (whole repo); (R2) on the packages between a node/worker/connector error and tomb.Kill / the API status mapping / ExitCode, every error-typed operand of Errorf is formatted with %w and no cerrors.Errorf (= xerrors.Errorf, single %w only) carries two; (R3) no identity comparison or type assertion classifies an error outside cerrors.Is/As (tabled never-wrapped exceptions); (R4) the classifiers IsFatalError / FatalError / conduiterr.Get / Wrap are errors.As based; (R5, exhaustive) the exit-code function is a total pure constant table and every conduiterr.Register-ed code lands in exactly one bucket, ExitCode consults the coded error before the gRPC status before the sentinels, and os.Exit is fed only by that classifier; (R6) ToStatus and FromStatus agree on metadata keys, domain and reason lookup. Rules added later (after independent seeded changes and defect hunts) are not all enumerated here: every armed rule is listed with its description, kind and instance count under coverage.rules.",
		NotDecided:  []string{"behaviour of errors.As/Is/Join and xerrors themselves", "protobuf encoding of the status details", "which bucket a code should be in (the property demands a fixed function, not a particular one)"},
		Assumptions: []string{"errors.As/Is walk Unwrap() error and Unwrap() []error chains", "xerrors.Errorf honours exactly one %w"},
	})
}

func runC20(c *Ctx) {
	c20R1(c)
	c20R2(c)
	c20R3(c)
	c20R4(c)
	c20R5(c)
	c20R6(c)
	c20R7(c)
	c20R8(c)
	c20R9(c)
	c20R10(c)
	c20R11(c)
}

// c20R9: the constructors never lose what they were given.
func c20R9(c *Ctx) {
	r := c.R.Rule("R9", "K6/K2 nothing is dropped: conduiterr.Wrap and WithCode return a fresh *ConduitError whose wrapped error is their whole argument (never an inner node of it), and cerrors.Join is errors.Join itself (every joined error stays reachable by Is/As)", 3)
	errF := c.Field(r, pConduiterr, "ConduitError", "err")
	for _, name := range []string{"WithCode", "Wrap"} {
		fn := c.SSA(r, pConduiterr, name)
		if fn == nil || errF == nil {
			continue
		}
		var errP ssa.Value
		for _, p := range fn.Params {
			if isErrorType(p.Type()) {
				errP = p
			}
		}
		for _, ret := range kit.Returns(fn) {
			v := kit.RetVal(ret, 0)
			if kit.IsNilConst(v) {
				continue
			}
			a, isAlloc := kit.Unwrap(v).(*ssa.Alloc)
			ok := false
			if isAlloc && errP != nil {
				for _, b := range fn.Blocks {
					for _, in := range b.Instrs {
						if st, isSt := in.(*ssa.Store); isSt {
							if fa, isFA := st.Addr.(*ssa.FieldAddr); isFA && fa.X == ssa.Value(a) && kit.SameField(kit.FieldOf(fa), errF) && (st.Val == errP || kit.IsVar(st.Val, errP)) {
								ok = true
							}
						}
					}
				}
			}
			c.R.Check(ok, r, "conduiterr."+name+": returns a fresh ConduitError wrapping the whole argument", c.Pos(posOf(ret)), "ok", "conduiterr."+name+" can return something other than a new ConduitError whose wrapped error is its argument (e.g. an inner node found by As): every layer between that node and the argument — a fatal marker, Join siblings, sentinels — is dropped", true)
		}
	}
	// cerrors.Join = errors.Join
	if p := c.W.Pkg(pCerrors); p != nil {
		okJoin := false
		for _, f := range p.Syntax {
			ast.Inspect(f, func(n ast.Node) bool {
				vs, ok := n.(*ast.ValueSpec)
				if !ok {
					return true
				}
				for i, nm := range vs.Names {
					if nm.Name != "Join" || i >= len(vs.Values) {
						continue
					}
					if se, ok := vs.Values[i].(*ast.SelectorExpr); ok {
						if obj, ok := p.TypesInfo.Uses[se.Sel].(*types.Func); ok && obj.Pkg() != nil && obj.Pkg().Path() == "errors" && obj.Name() == "Join" {
							okJoin = true
						}
					}
				}
				return true
			})
		}
		c.R.Check(okJoin, r, "cerrors.Join is errors.Join", "", "alias of errors.Join", "cerrors.Join is no longer errors.Join itself: a re-implementation that drops, truncates or flattens operands makes IsFatalError / conduiterr.Get / Is depend on the width and order of the join", false)
	}
}

// c20R8: which inner code survives, and how un-coded sentinels are found, does not depend on the
// shape of the error tree.
func c20R8(c *Ctx) {
	r := c.R.Rule("R8", "K3 outermost inner code wins, sentinels by Is: conduiterr.Wrap/WithCode look up the inner coded error with a single As (never descending further into the chain), and exitcode's environment-sentinel test finds each sentinel with Is (anywhere in the tree), not with a first-match As", 3)
	asVar := c.W.LookupObj(pCerrors, "As")
	isVar := c.W.LookupObj(pCerrors, "Is")
	errorsAs := c.W.ExtObj("errors", "As")
	errorsIs := c.W.ExtObj("errors", "Is")
	callsOf := func(fn *ssa.Function, v, ext types.Object) []*ssa.Call {
		var out []*ssa.Call
		for _, b := range fn.Blocks {
			for _, in := range b.Instrs {
				x, ok := in.(*ssa.Call)
				if !ok {
					continue
				}
				if u, ok := x.Call.Value.(*ssa.UnOp); ok {
					if g, ok := u.X.(*ssa.Global); ok && v != nil && g.Object() == v {
						out = append(out, x)
					}
				}
				if f := x.Call.StaticCallee(); f != nil && ext != nil && f.Object() == ext {
					out = append(out, x)
				}
			}
		}
		return out
	}
	inLoop := func(in ssa.Instruction) bool {
		b := in.Block()
		// b is in a cycle iff b is reachable from one of its successors
		seen := map[*ssa.BasicBlock]bool{}
		work := append([]*ssa.BasicBlock{}, b.Succs...)
		for len(work) > 0 {
			x := work[0]
			work = work[1:]
			if x == b {
				return true
			}
			if seen[x] {
				continue
			}
			seen[x] = true
			work = append(work, x.Succs...)
		}
		return false
	}
	for _, name := range []string{"Wrap", "WithCode"} {
		fn := c.SSA(r, pConduiterr, name)
		if fn == nil {
			continue
		}
		as := callsOf(fn, asVar, errorsAs)
		ok := len(as) >= 1
		for _, a := range as {
			if inLoop(a) {
				ok = false
			}
		}
		c.R.Check(ok, r, "conduiterr."+name+": one As lookup of the inner coded error, not a descent", c.Pos(fn.Pos()), "single As outside any loop", "conduiterr."+name+" walks further down the chain after the first coded error it finds (As inside a loop): a later plain Wrap then resurrects a code that WithCode had replaced, so the classification depends on how many wrappers were added", true)
	}
	const pExit = "pkg/conduit/exitcode"
	if fn := c.SSA(r, pExit, "isEnvironmentSentinel"); fn != nil {
		is := callsOf(fn, isVar, errorsIs)
		as := callsOf(fn, asVar, errorsAs)
		c.R.Check(len(is) >= 2 && len(as) == 0, r, "exitcode.isEnvironmentSentinel: sentinels found with Is", c.Pos(fn.Pos()), "Is per sentinel", "isEnvironmentSentinel no longer tests each sentinel with Is (it uses As, which stops at the first matching error of the tree): the exit code of a joined error then depends on the order of its parts", true)
	}
}

// c20R7: the wire category survives the round trip when the reason carries none (F23).
func c20R7(c *Ctx) {
	r := c.R.Rule("R7", "K3/K6 round trip of an unknown-reason error: in conduiterr.FromStatus, on the edges where the reason is not registered or is CodeUnknown's own reason, every exit has built the code from the wire status' code (st.Code())", 2)
	fn := c.SSA(r, pConduiterr, "FromStatus")
	lookup := c.Fn(r, pConduiterr, "LookupCode")
	unknown := c.W.LookupObj(pConduiterr, "CodeUnknown")
	grpcF := c.Field(r, pConduiterr, "Code", "grpcCode")
	stCode := c.W.ExtMethod("google.golang.org/grpc/internal/status", "Status", "Code")
	if stCode == nil {
		stCode = c.W.ExtMethod("google.golang.org/grpc/status", "Status", "Code")
	}
	if fn == nil || lookup == nil || unknown == nil || grpcF == nil {
		return
	}
	// stores of st.Code() into Code.grpcCode
	g := kit.NewGates()
	for _, st := range kit.FieldStores(fn, grpcF) {
		if call, ok := st.Val.(*ssa.Call); ok {
			if f := kit.CalleeOf(call.Common()); f != nil && f.Name() == "Code" && (stCode == nil || f == stCode) {
				g.AddInstr(st, "grpcCode: st.Code()")
			}
		}
	}
	if g.Empty() {
		c.R.Fail(r, "FromStatus: code built from the wire status", c.Pos(fn.Pos()), "no Code{grpcCode: st.Code()} construction found")
		return
	}
	var edges []kit.Edge
	for _, call := range kit.CallsTo(fn, Set(lookup)) {
		// not registered
		if ok := kit.ResultN(call, 1); ok != nil {
			edges = append(edges, kit.CondEdges(ok, false)...)
		}
	}
	nMiss := len(edges)
	// code == CodeUnknown (struct comparison against the package-level value)
	eq := kit.CmpEdges(fn, func(b *ssa.BinOp) (bool, bool) {
		if isGlobalLoad(b.X, unknown) || isGlobalLoad(b.Y, unknown) {
			switch b.Op {
			case token.EQL:
				return true, true
			case token.NEQ:
				return true, false
			}
		}
		return false, false
	})
	c.R.Check(nMiss > 0, r, "FromStatus: unregistered reason falls back to the wire category", c.Pos(fn.Pos()), "ok", "no test of LookupCode's ok result", true)
	c.R.Check(len(eq) > 0, r, "FromStatus: the unknown reason falls back to the wire category", c.Pos(fn.Pos()), "ok", "FromStatus no longer tests the looked-up code against CodeUnknown: an error sent as WithUnknownReason(err, category) decodes as Internal whatever its category was, so its exit code changes across the gRPC round trip", true)
	for _, e := range append(edges, eq...) {
		pass, _ := kit.AllExitsFromEdge(e, false, kit.ExitSpec{Gates: g})
		c.R.Check(pass, r, "FromStatus: wire category kept on the no-registered-reason edge", c.Pos(fn.Pos()), "every exit builds the code from st.Code()", "an exit behind the unregistered/unknown-reason edge does not build the code from the wire status' code", true)
	}
}

var errIface = types.Universe.Lookup("error").Type().Underlying().(*types.Interface)

func implementsError(t types.Type) bool {
	if t == nil {
		return false
	}
	if types.IsInterface(t) {
		return types.Implements(t, errIface)
	}
	return types.Implements(t, errIface) || types.Implements(types.NewPointer(t), errIface)
}

func c20R1(c *Ctx) {
	r := c.R.Rule("R1", "K12(b) wrapper transparency (whole repo): a named type implementing error that stores an error exposes it via Unwrap() error|[]error", 3)
	// types that deliberately terminate a chain (the inner value is rendered, never classified)
	exempt := map[string]string{}
	for _, p := range c.W.Pkgs {
		if kit.Generated(p.PkgPath) {
			continue
		}
		sc := p.Types.Scope()
		for _, name := range sc.Names() {
			tn, ok := sc.Lookup(name).(*types.TypeName)
			if !ok || tn.IsAlias() {
				continue
			}
			nt, ok := tn.Type().(*types.Named)
			if !ok {
				continue
			}
			st, ok := nt.Underlying().(*types.Struct)
			if !ok || !implementsError(nt) {
				continue
			}
			var inner []string
			for i := 0; i < st.NumFields(); i++ {
				ft := st.Field(i).Type()
				if isErrorType(ft) {
					inner = append(inner, st.Field(i).Name())
				} else if sl, ok := ft.Underlying().(*types.Slice); ok && isErrorType(sl.Elem()) {
					inner = append(inner, st.Field(i).Name())
				}
			}
			if len(inner) == 0 {
				continue
			}
			key := kit.RelPkg(p.PkgPath) + "." + name
			obj, _, _ := types.LookupFieldOrMethod(types.NewPointer(nt), true, p.Types, "Unwrap")
			okU := false
			if f, ok := obj.(*types.Func); ok {
				sig := f.Type().(*types.Signature)
				if sig.Params().Len() == 0 && sig.Results().Len() == 1 {
					rt := sig.Results().At(0).Type()
					if isErrorType(rt) {
						okU = true
					} else if sl, ok := rt.Underlying().(*types.Slice); ok && isErrorType(sl.Elem()) {
						okU = true
					}
				}
			}
			if why, ok := exempt[key]; ok && !okU {
				c.R.Pass(r, "error type "+key, c.Pos(tn.Pos()), "tabled: "+why, false)
				continue
			}
			c.R.Check(okU, r, "error type "+key+" unwraps "+strings.Join(inner, ","), c.Pos(tn.Pos()), "has Unwrap", "error type "+key+" stores an error ("+strings.Join(inner, ",")+") but has no Unwrap() error|[]error: everything wrapped in it loses its fatal mark, code and sentinels", false)
		}
	}
}

var c20Scope = []string{
	"pkg/lifecycle", "pkg/lifecycle-poc", "pkg/connector", "pkg/processor", "pkg/pipeline", "pkg/orchestrator", "pkg/provisioning",
	"pkg/plugin/connector", "pkg/conduit", "pkg/http/api", "pkg/foundation/cerrors",
}

func inC20Scope(rel string) bool {
	if rel == "." {
		return true
	}
	for _, s := range c20Scope {
		if rel == s || strings.HasPrefix(rel, s+"/") {
			return true
		}
	}
	return false
}

// verbsOf parses a printf format and returns, per consumed argument index, the verb.
func verbsOf(format string) []rune {
	var out []rune
	for i := 0; i < len(format); i++ {
		if format[i] != '%' {
			continue
		}
		i++
		if i >= len(format) {
			break
		}
		if format[i] == '%' {
			continue
		}
		// flags
		for i < len(format) && strings.ContainsRune("+-# 0", rune(format[i])) {
			i++
		}
		// explicit argument indexes are not used in this repo; treat as undecidable
		if i < len(format) && format[i] == '[' {
			return nil
		}
		// width
		for i < len(format) && (format[i] >= '0' && format[i] <= '9') {
			i++
		}
		if i < len(format) && format[i] == '*' {
			out = append(out, '*')
			i++
		}
		if i < len(format) && format[i] == '.' {
			i++
			for i < len(format) && (format[i] >= '0' && format[i] <= '9') {
				i++
			}
			if i < len(format) && format[i] == '*' {
				out = append(out, '*')
				i++
			}
		}
		if i < len(format) {
			out = append(out, rune(format[i]))
		}
	}
	return out
}

func c20R2(c *Ctx) {
	r := c.R.Rule("R2", "K12(a) %w discipline on the classification path: every error-typed operand of cerrors.Errorf/fmt.Errorf is formatted with %w; (a2) no cerrors.Errorf has more than one %w (xerrors.Errorf supports exactly one)", 150)
	// deliberate chain cuts, per enclosing function with a reason
	cuts := map[string]string{
		"pkg/conduit/dev.(*Watcher).applyPipeline": "formats a recovered panic value / rendered cause for the dev console",
	}
	cerrorsErrorf := c.W.LookupObj(pCerrors, "Errorf")
	fmtErrorf := c.W.ExtObj("fmt", "Errorf")
	xerrorsErrorf := c.W.ExtObj("golang.org/x/xerrors", "Errorf")
	if cerrorsErrorf == nil {
		c.R.Unresolved(r, pCerrors+".Errorf")
		return
	}
	n := 0
	for _, p := range c.W.Pkgs {
		rel := kit.RelPkg(p.PkgPath)
		if kit.Generated(p.PkgPath) || !inC20Scope(rel) {
			continue
		}
		info := p.TypesInfo
		for _, f := range p.Syntax {
			ast.Inspect(f, func(nd ast.Node) bool {
				call, ok := nd.(*ast.CallExpr)
				if !ok {
					return true
				}
				var obj types.Object
				switch fun := ast.Unparen(call.Fun).(type) {
				case *ast.SelectorExpr:
					obj = info.Uses[fun.Sel]
				case *ast.Ident:
					obj = info.Uses[fun]
				}
				if obj == nil || (obj != cerrorsErrorf && obj != fmtErrorf && obj != xerrorsErrorf) {
					return true
				}
				isX := obj == cerrorsErrorf || obj == xerrorsErrorf
				if len(call.Args) == 0 {
					return true
				}
				where := c.W.EnclosingKey(call.Pos())
				tv := info.Types[call.Args[0]]
				if tv.Value == nil || tv.Value.Kind() != constant.String {
					if call.Ellipsis.IsValid() || len(call.Args) == 1 {
						return true // forwarding wrapper / dynamic format with no operands
					}
					c.R.Undecided(r, "Errorf in "+where+": non-constant format", c.Pos(call.Pos()), "format string is not constant; cannot check %w discipline")
					return true
				}
				format := constant.StringVal(tv.Value)
				verbs := verbsOf(format)
				if verbs == nil && strings.Contains(format, "%[") {
					c.R.Undecided(r, "Errorf in "+where+": indexed verbs", c.Pos(call.Pos()), "explicit argument indexes")
					return true
				}
				n++
				args := call.Args[1:]
				nW := 0
				wIdx := -1
				for i, v := range verbs {
					if v == 'w' {
						nW++
						wIdx = i
					}
				}
				// which operand ends up reachable through Unwrap?
				wrapped := map[int]bool{}
				broken := ""
				if isX {
					// xerrors.Errorf: a ": %w" suffix wraps the LAST operand; otherwise a single %w wraps its own operand; more than one %w (without the suffix form) yields an unwrappable noWrapError.
					switch {
					case strings.HasSuffix(format, ": %w"):
						wrapped[len(args)-1] = true
					case nW == 1:
						wrapped[wIdx] = true
					case nW > 1:
						broken = fmt.Sprintf("cerrors.Errorf is xerrors.Errorf, which supports a single %%w: with %d (and no \": %%w\" suffix) the result is a noWrapError whose text starts with %%!w( and NO operand is reachable by Is/As/conduiterr.Get", nW)
					}
				} else {
					for i, v := range verbs {
						if v == 'w' {
							wrapped[i] = true
						}
					}
				}
				if broken != "" {
					c.R.Fail(r, "Errorf in "+where+": more than one %w", c.Pos(call.Pos()), broken)
					return true
				}
				bad := false
				for i := range wrapped {
					if i < 0 || i >= len(args) {
						continue
					}
					at := info.Types[args[i]].Type
					if at == nil || !implementsError(at) {
						bad = true
						c.R.Fail(r, "Errorf in "+where+": %w on a non-error operand", c.Pos(args[i].Pos()), "the operand wrapped by %w is not statically an error: the result is an unwrappable %!w(...) text")
					}
				}
				for i := range args {
					if wrapped[i] {
						continue
					}
					at := info.Types[args[i]].Type
					if at == nil || !implementsError(at) {
						continue
					}
					v := '?'
					if i < len(verbs) {
						v = verbs[i]
					}
					key := fmt.Sprintf("Errorf in %s: error operand %s formatted with %%%c", where, types.ExprString(args[i]), v)
					if why, ok := cuts[where]; ok {
						c.R.Pass(r, key, c.Pos(args[i].Pos()), "tabled chain cut: "+why, false)
						continue
					}
					if len(wrapped) > 0 {
						// a secondary error rendered as text next to the wrapped primary one: the primary chain is intact
						c.R.Pass(r, key+" (secondary)", c.Pos(args[i].Pos()), "secondary error rendered as text; the primary operand is wrapped", false)
						continue
					}
					bad = true
					c.R.Fail(r, key, c.Pos(args[i].Pos()), fmt.Sprintf("error value %s is formatted with %%%c and no operand is wrapped with %%w in %s: its fatal mark, conduit code and sentinels are cut off from everything above this call", types.ExprString(args[i]), v, where))
				}
				if !bad {
					c.R.Pass(r, "Errorf#"+fmt.Sprint(n), c.Pos(call.Pos()), where, false)
				}
				return true
			})
		}
	}
	c.R.Extra["errorf_calls_checked"] = n
}

func c20R3(c *Ctx) {
	r := c.R.Rule("R3", "K12(c) no identity classification: error values are compared/asserted only through cerrors.Is/As (tabled exceptions: values that are never wrapped at that point)", 5)
	// (enclosing function, compared object or asserted type) -> reason
	allowed := map[string]string{
		"pkg/lifecycle.(*Service).runPipeline|ErrStillAlive":        "tomb.Err() returns the sentinel itself while the tomb is alive, never wrapped",
		"pkg/lifecycle-poc.(*Service).runPipeline|ErrStillAlive":    "tomb.Err() returns the sentinel itself while the tomb is alive, never wrapped",
		"pkg/conduit.(*Runtime).serveHTTP|ErrServerClosed":          "http.Server.Serve returns http.ErrServerClosed verbatim (net/http contract)",
		"pkg/conduit.(*Runtime).registerCleanupV2|DeadlineExceeded": "lifecycle Service.Wait returns context.DeadlineExceeded verbatim on timeout; only selects a log message",
		"pkg/conduit.(*Runtime).registerCleanup|DeadlineExceeded":   "lifecycle Service.Wait returns context.DeadlineExceeded verbatim on timeout; only selects a log message",
	}
	n := 0
	for _, p := range c.W.Pkgs {
		rel := kit.RelPkg(p.PkgPath)
		if kit.Generated(p.PkgPath) || !inC20Scope(rel) {
			continue
		}
		if rel == pCerrors {
			continue // the forwarding layer itself
		}
		info := p.TypesInfo
		isErrExpr := func(e ast.Expr) bool {
			t := info.Types[e].Type
			return t != nil && isErrorType(t)
		}
		isNil := func(e ast.Expr) bool {
			tv := info.Types[e]
			return tv.IsNil()
		}
		name := func(e ast.Expr) string {
			switch x := ast.Unparen(e).(type) {
			case *ast.SelectorExpr:
				return x.Sel.Name
			case *ast.Ident:
				return x.Name
			case *ast.CallExpr:
				return types.ExprString(x.Fun) + "()"
			}
			return types.ExprString(e)
		}
		report := func(pos token.Pos, what, subject string) {
			where := c.W.EnclosingKey(pos)
			if strings.HasSuffix(where, ").Is") || strings.HasSuffix(where, ").As") {
				return // the errors.Is/As protocol methods themselves
			}
			n++
			for k, why := range allowed {
				parts := strings.SplitN(k, "|", 2)
				if parts[0] == where && strings.Contains(subject, parts[1]) {
					c.R.Pass(r, what+" in "+where+" vs "+subject, c.Pos(pos), "tabled: "+why, false)
					return
				}
			}
			c.R.Fail(r, what+" in "+where+" vs "+subject, c.Pos(pos), what+" on an error value ("+subject+") in "+where+": a wrapped instance of the same error is classified differently; use cerrors.Is/As")
		}
		for _, f := range p.Syntax {
			ast.Inspect(f, func(nd ast.Node) bool {
				switch x := nd.(type) {
				case *ast.BinaryExpr:
					if x.Op != token.EQL && x.Op != token.NEQ {
						return true
					}
					if isNil(x.X) || isNil(x.Y) {
						return true
					}
					if isErrExpr(x.X) && isErrExpr(x.Y) {
						report(x.Pos(), "identity comparison", name(x.X)+" / "+name(x.Y))
					}
				case *ast.SwitchStmt:
					if x.Tag != nil && isErrExpr(x.Tag) {
						for _, cl := range x.Body.List {
							cc := cl.(*ast.CaseClause)
							for _, e := range cc.List {
								if !isNil(e) {
									report(e.Pos(), "switch identity case", name(e))
								}
							}
						}
					}
				case *ast.TypeAssertExpr:
					if x.Type == nil {
						return true // type switch guard handled below
					}
					if isErrExpr(x.X) {
						at := info.Types[x.Type].Type
						if at != nil && implementsError(at) && !types.IsInterface(at) {
							report(x.Pos(), "type assertion", types.ExprString(x.Type))
						}
					}
				case *ast.TypeSwitchStmt:
					var subj ast.Expr
					switch a := x.Assign.(type) {
					case *ast.AssignStmt:
						if ta, ok := a.Rhs[0].(*ast.TypeAssertExpr); ok {
							subj = ta.X
						}
					case *ast.ExprStmt:
						if ta, ok := a.X.(*ast.TypeAssertExpr); ok {
							subj = ta.X
						}
					}
					if subj != nil && isErrExpr(subj) {
						for _, cl := range x.Body.List {
							cc := cl.(*ast.CaseClause)
							for _, e := range cc.List {
								at := info.Types[e].Type
								if at != nil && implementsError(at) && !types.IsInterface(at) {
									if nt, ok := derefNamed(at); ok && nt.Obj().Pkg() != nil && strings.HasPrefix(nt.Obj().Pkg().Path(), kit.Module) {
										report(e.Pos(), "type switch case", types.ExprString(e))
									}
								}
							}
						}
					}
				}
				return true
			})
		}
	}
	c.R.Extra["identity_sites"] = n
}

func derefNamed(t types.Type) (*types.Named, bool) {
	if p, ok := t.(*types.Pointer); ok {
		t = p.Elem()
	}
	n, ok := t.(*types.Named)
	return n, ok
}

func c20R4(c *Ctx) {
	r := c.R.Rule("R4", "K3 classifier shape: IsFatalError and conduiterr.Get are errors.As with the matching pointer type and contain no type assertion; FatalError returns its argument when already fatal and nil for nil; Wrap/WithCode look for an inner coded error with As", 5)
	as := c.W.LookupObj(pCerrors, "As")
	errorsAs := c.W.ExtObj("errors", "As")
	usesAs := func(fn *ssa.Function, targetType string) (bool, bool) {
		found, assert := false, false
		for _, b := range fn.Blocks {
			for _, in := range b.Instrs {
				switch x := in.(type) {
				case *ssa.TypeAssert:
					if isErrorType(x.X.Type()) {
						assert = true
					}
				case *ssa.Call:
					// As is a package-level func variable (cerrors.As = errors.As) or errors.As itself
					callee := false
					if u, ok := x.Call.Value.(*ssa.UnOp); ok {
						if g, ok := u.X.(*ssa.Global); ok && g.Object() == as {
							callee = true
						}
					}
					if f := x.Call.StaticCallee(); f != nil && f.Object() == errorsAs {
						callee = true
					}
					if callee && len(x.Call.Args) == 2 {
						t := kit.Unwrap(x.Call.Args[1]).Type().String()
						if strings.HasSuffix(t, targetType) {
							found = true
						}
					}
				}
			}
		}
		return found, assert
	}
	if fn := c.SSA(r, pCerrors, "IsFatalError"); fn != nil {
		ok, assert := usesAs(fn, "**"+kit.Module+"/"+pCerrors+".fatalError")
		c.R.Check(ok && !assert, r, "IsFatalError is As(err, **fatalError)", c.Pos(fn.Pos()), "errors.As based", "IsFatalError is no longer an errors.As lookup for *fatalError (or uses a type assertion): a wrapped fatal error would be classified as transient and the pipeline restarted", true)
	}
	if fn := c.SSA(r, pConduiterr, "Get"); fn != nil {
		ok, assert := usesAs(fn, "**"+kit.Module+"/"+pConduiterr+".ConduitError")
		c.R.Check(ok && !assert, r, "conduiterr.Get is As(err, **ConduitError)", c.Pos(fn.Pos()), "errors.As based", "conduiterr.Get is no longer an errors.As lookup for *ConduitError", true)
	}
	for _, name := range []string{"Wrap", "WithCode"} {
		if fn := c.SSA(r, pConduiterr, name); fn != nil {
			ok, assert := usesAs(fn, "**"+kit.Module+"/"+pConduiterr+".ConduitError")
			c.R.Check(ok && !assert, r, "conduiterr."+name+" finds an inner coded error with As", c.Pos(fn.Pos()), "errors.As based", "conduiterr."+name+" does not look for an inner *ConduitError with errors.As", true)
		}
	}
	if fn := c.SSA(r, pCerrors, "FatalError"); fn != nil {
		isFatal := c.Fn(r, pCerrors, "IsFatalError")
		var p ssa.Value
		if len(fn.Params) == 1 {
			p = fn.Params[0]
		}
		okSame, okNil := false, false
		for _, ret := range kit.Returns(fn) {
			v := kit.RetVal(ret, 0)
			if v == p {
				// must be dominated by IsFatalError(err)==true or err==nil
				g := kit.NewGates().AddEdges(condEdgesOfCalls(fn, Set(isFatal), true), "").AddEdges(kit.NilEdges(p, true), "")
				if ok, _ := kit.MustPass(ret, g); ok {
					okSame = true
				}
			}
			if kit.IsNilConst(v) {
				g := kit.NewGates().AddEdges(kit.NilEdges(p, true), "")
				if ok, _ := kit.MustPass(ret, g); ok {
					okNil = true
				}
			}
		}
		c.R.Check(okSame, r, "FatalError returns an already fatal error unchanged", c.Pos(fn.Pos()), "idempotent", "FatalError no longer returns an already-fatal argument unchanged under the IsFatalError test", true)
		c.R.Check(okNil || okSame, r, "FatalError(nil) is nil", c.Pos(fn.Pos()), "nil preserved", "FatalError no longer maps nil to nil: a nil error would become a fatal failure", true)
		// the wrapper stores its argument in the Unwrap-ed field
		errF := c.Field(r, pCerrors, "fatalError", "Err")
		stored := false
		for _, st := range kit.FieldStores(fn, errF) {
			if st.Val == p {
				stored = true
			}
		}
		c.R.Check(stored, r, "FatalError wraps its argument", c.Pos(fn.Pos()), "&fatalError{Err: err}", "FatalError does not store its argument in fatalError.Err", true)
	}
	if fn := c.SSA(r, pCerrors, "(*fatalError).Unwrap"); fn != nil {
		errF := c.Field(r, pCerrors, "fatalError", "Err")
		ok := false
		for _, ret := range kit.Returns(fn) {
			if kit.IsFieldLoad(kit.RetVal(ret, 0), errF) {
				ok = true
			}
		}
		c.R.Check(ok, r, "fatalError.Unwrap returns Err", c.Pos(fn.Pos()), "ok", "fatalError.Unwrap does not return the wrapped error", true)
	}
	if fn := c.SSA(r, pConduiterr, "(*ConduitError).Unwrap"); fn != nil {
		errF := c.Field(r, pConduiterr, "ConduitError", "err")
		ok := false
		for _, ret := range kit.Returns(fn) {
			if kit.IsFieldLoad(kit.RetVal(ret, 0), errF) {
				ok = true
			}
		}
		c.R.Check(ok, r, "ConduitError.Unwrap returns the cause", c.Pos(fn.Pos()), "ok", "ConduitError.Unwrap does not return the wrapped cause", true)
	}
}

func c20R5(c *Ctx) {
	r := c.R.Rule("R5", "K9 exit-code function (exhaustive): fromGRPCCode is a total pure constant table into {0,1,2,3}; every conduiterr.Register-ed code has a constant reason/category, reasons are unique and each lands in exactly one bucket; ExitCode consults conduiterr.Get, then the gRPC status, then the sentinels; os.Exit is fed only by the classifier", 40)
	p := c.W.Pkg(pExitcode)
	if p == nil {
		c.R.Unresolved(r, pExitcode)
		return
	}
	// (a) extract the switch table
	table := map[string]int64{} // constant exact string -> bucket
	var deflt *int64
	var fd *ast.FuncDecl
	for _, f := range p.Syntax {
		for _, d := range f.Decls {
			if x, ok := d.(*ast.FuncDecl); ok && x.Name.Name == "fromGRPCCode" && x.Recv == nil {
				fd = x
			}
		}
	}
	if fd == nil {
		c.R.Unresolved(r, pExitcode+".fromGRPCCode")
		return
	}
	okShape := true
	var sw *ast.SwitchStmt
	for _, s := range fd.Body.List {
		if x, ok := s.(*ast.SwitchStmt); ok {
			sw = x
		} else if _, ok := s.(*ast.ReturnStmt); !ok {
			okShape = false
		}
	}
	if sw == nil || sw.Tag == nil {
		c.R.Undecided(r, "fromGRPCCode: shape", c.Pos(fd.Pos()), "not a tag switch over the code")
		return
	}
	retConst := func(body []ast.Stmt) (int64, bool) {
		if len(body) != 1 {
			return 0, false
		}
		rs, ok := body[0].(*ast.ReturnStmt)
		if !ok || len(rs.Results) != 1 {
			return 0, false
		}
		tv := p.TypesInfo.Types[rs.Results[0]]
		if tv.Value == nil || tv.Value.Kind() != constant.Int {
			return 0, false
		}
		v, exact := constant.Int64Val(tv.Value)
		return v, exact
	}
	for _, cl := range sw.Body.List {
		cc := cl.(*ast.CaseClause)
		v, ok := retConst(cc.Body)
		if !ok || v < 0 || v > 3 {
			okShape = false
			c.R.Fail(r, "fromGRPCCode: case body", c.Pos(cc.Pos()), "a case does not return a constant in {0,1,2,3}")
			continue
		}
		if cc.List == nil {
			vv := v
			deflt = &vv
			continue
		}
		for _, e := range cc.List {
			tv := p.TypesInfo.Types[e]
			if tv.Value == nil {
				okShape = false
				c.R.Fail(r, "fromGRPCCode: case label", c.Pos(e.Pos()), "non-constant case label")
				continue
			}
			k := tv.Value.ExactString()
			if old, dup := table[k]; dup && old != v {
				c.R.Fail(r, "fromGRPCCode: duplicate label "+k, c.Pos(e.Pos()), "the same code is mapped to two buckets")
			}
			table[k] = v
		}
	}
	c.R.Check(deflt != nil, r, "fromGRPCCode: total (has default)", c.Pos(sw.Pos()), "default present", "fromGRPCCode has no default arm: an unlisted gRPC code has no defined exit code", false)
	c.R.Check(okShape, r, "fromGRPCCode: constant table", c.Pos(fd.Pos()), "switch of constant returns", "fromGRPCCode is not a pure constant table", false)
	// purity on SSA: no calls, no global loads
	if fn := c.SSA(r, pExitcode, "fromGRPCCode"); fn != nil {
		pure := true
		for _, b := range fn.Blocks {
			for _, in := range b.Instrs {
				switch x := in.(type) {
				case *ssa.Call, *ssa.Go, *ssa.Defer:
					pure = false
				case *ssa.UnOp:
					if _, ok := x.X.(*ssa.Global); ok {
						pure = false
					}
				}
			}
		}
		c.R.Check(pure, r, "fromGRPCCode: pure", c.Pos(fn.Pos()), "no call, no global read", "fromGRPCCode calls a function or reads a global: the exit code would depend on more than the classification", true)
	}
	// (b) registered codes
	register := c.Fn(r, pConduiterr, "Register")
	reasons := map[string]string{}
	nReg := 0
	if register != nil {
		for _, ref := range c.W.Refs(Set(register)) {
			if ref.Kind != "call" {
				c.R.Fail(r, "conduiterr.Register used as a value in "+ref.Where, c.Pos(ref.Pos), "Register is taken as a function value: registrations can no longer be enumerated")
				continue
			}
			pk := c.W.PkgOfPos(ref.Pos)
			call := findCallAt(pk, ref.Pos)
			if call == nil || len(call.Args) != 2 {
				c.R.Undecided(r, "Register call in "+ref.Where, c.Pos(ref.Pos), "cannot locate call")
				continue
			}
			rv := pk.TypesInfo.Types[call.Args[0]].Value
			cv := pk.TypesInfo.Types[call.Args[1]].Value
			if rv == nil || cv == nil {
				c.R.Fail(r, "Register call in "+ref.Where+": non-constant", c.Pos(ref.Pos), "reason or category of a registered code is not a constant: its exit bucket is not fixed")
				continue
			}
			nReg++
			reason := constant.StringVal(rv)
			if prev, dup := reasons[reason]; dup {
				c.R.Fail(r, "registered reason "+reason+" unique", c.Pos(ref.Pos), "reason "+reason+" is registered twice ("+prev+" and "+c.Pos(ref.Pos)+"): LookupCode is ambiguous")
				continue
			}
			reasons[reason] = c.Pos(ref.Pos)
			bucket, listed := table[cv.ExactString()]
			if !listed && deflt != nil {
				bucket = *deflt
			}
			c.R.Check(listed || deflt != nil, r, "code "+reason+" -> exit bucket", c.Pos(ref.Pos), fmt.Sprintf("grpc=%s bucket=%d", cv.ExactString(), bucket), "no exit bucket for this code", false)
		}
	}
	c.R.Extra["registered_codes"] = nReg
	c.R.Extra["exhaustive"] = true
	// (c) ExitCode order
	if fn := c.SSA(r, pExitcode, "ExitCode"); fn != nil {
		get := c.Fn(r, pConduiterr, "Get")
		fromErr := c.ExtFunc(r, "google.golang.org/grpc/status", "FromError")
		sent := c.Fn(r, pExitcode, "isEnvironmentSentinel")
		c.Sequence(r, "ExitCode", fn, []Event{
			{Name: "conduiterr.Get", Instrs: asInstrs(kit.CallsTo(fn, Set(get)))},
			{Name: "grpcstatus.FromError", Instrs: asInstrs(kit.CallsTo(fn, Set(fromErr)))},
			{Name: "isEnvironmentSentinel", Instrs: asInstrs(kit.CallsTo(fn, Set(sent)))},
		})
		// every return is a constant or fromGRPCCode(...)
		from := c.Fn(r, pExitcode, "fromGRPCCode")
		for i, ret := range kit.Returns(fn) {
			v := kit.RetVal(ret, 0)
			ok := false
			if _, isC := v.(*ssa.Const); isC {
				ok = true
			}
			if call, isCall := v.(*ssa.Call); isCall && kit.CalleeOf(call.Common()) == from {
				ok = true
			}
			c.R.Check(ok, r, fmt.Sprintf("ExitCode: return#%d is a bucket constant or fromGRPCCode(...)", i+1), c.Pos(posOf(ret)), "ok", "ExitCode returns something other than a bucket constant or fromGRPCCode(code)", true)
		}
		// the coded arm uses the coded error's own category
		gGet := kit.NewGates()
		for _, call := range kit.CallsTo(fn, Set(get)) {
			gGet.AddEdges(kit.OKEdges(call), "")
		}
		grpcCode := c.Fn(r, pConduiterr, "(Code).GRPCCode")
		for _, call := range kit.CallsTo(fn, Set(from)) {
			if a, ok := call.Common().Args[0].(*ssa.Call); ok && kit.CalleeOf(a.Common()) == grpcCode {
				c.Dominated(r, "ExitCode: coded arm taken on the conduiterr.Get hit", []ssa.Instruction{call}, gGet, "the conduiterr.Get ok edge")
			}
		}
	}
	// a coded error decides alone: on the conduiterr.Get hit edge neither the gRPC status nor the sentinels are consulted
	if fn := c.W.SSAFunc(c.W.LookupFunc(pExitcode, "ExitCode")); fn != nil {
		get := c.W.LookupFunc(pConduiterr, "Get")
		fromErr, _ := c.W.ExtObj("google.golang.org/grpc/status", "FromError").(*types.Func)
		sent := c.W.LookupFunc(pExitcode, "isEnvironmentSentinel")
		for _, gc := range kit.CallsTo(fn, Set(get)) {
			for _, e := range kit.OKEdges(gc) {
				bad := false
				for _, other := range kit.CallsTo(fn, Set(fromErr, sent)) {
					if kit.EdgeReaches(e, other, nil) {
						bad = true
					}
				}
				c.R.Check(!bad, r, "ExitCode: a coded error's exit code depends only on its code", c.Pos(gc.Pos()), "the Get-hit edge returns without consulting the cause", "on the conduiterr.Get hit edge ExitCode can still fall through to the gRPC-status / OS-sentinel checks: the same code would exit differently depending on what it wraps", true)
			}
		}
	}
	// (d) os.Exit callers
	osExit := c.ExtFunc(r, "os", "Exit")
	exitCodeFn := c.Fn(r, pExitcode, "ExitCode")
	tabled := map[string]string{
		"cmd/conduit/internal/llmsgen.main":           "documentation generator binary, not the conduit CLI",
		"pkg/registry.fireChaos":                      "env-gated crash-injection hook for the registry chaos tests (exit 137 simulates SIGKILL)",
		"pkg/conduit.(*Entrypoint).CancelOnInterrupt": "second-signal hard exit with the POSIX 128+signum code; not an error classification",
	}
	if osExit != nil {
		for _, ref := range c.W.Refs(Set(osExit)) {
			if why, ok := tabled[ref.Where]; ok {
				c.R.Pass(r, "os.Exit in "+ref.Where, c.Pos(ref.Pos), "tabled: "+why, false)
				continue
			}
			pk := c.W.PkgOfPos(ref.Pos)
			call := findCallAt(pk, ref.Pos)
			ok := false
			why := "os.Exit is called with a value that does not come from exitcode.ExitCode / an exitcode constant"
			if call != nil && len(call.Args) == 1 {
				arg := ast.Unparen(call.Args[0])
				switch a := arg.(type) {
				case *ast.CallExpr:
					if se, isSel := a.Fun.(*ast.SelectorExpr); isSel && pk.TypesInfo.Uses[se.Sel] == types.Object(exitCodeFn) {
						ok = true
					}
				case *ast.SelectorExpr:
					if o := pk.TypesInfo.Uses[a.Sel]; o != nil && o.Pkg() != nil && o.Pkg().Path() == kit.Module+"/"+pExitcode {
						if _, isConst := o.(*types.Const); isConst {
							ok = true
						}
					}
				case *ast.Ident:
					// a local assigned from cecdysis.ResultExitCode (decorated result code): tabled by provenance
					if v, isVar := pk.TypesInfo.Uses[a].(*types.Var); isVar {
						if src := localInit(pk, v); src != "" && strings.HasSuffix(src, "ResultExitCode") {
							ok = true
						}
					}
				}
			}
			c.R.Check(ok, r, "os.Exit in "+ref.Where+": fed by the classifier", c.Pos(ref.Pos), "exitcode.ExitCode(...)/constant/ResultExitCode", why, false)
		}
	}
}

// findCallAt returns the call expression whose function identifier is at pos.
func findCallAt(p *packages.Package, pos token.Pos) *ast.CallExpr {
	if p == nil {
		return nil
	}
	var out *ast.CallExpr
	for _, f := range p.Syntax {
		if f.Pos() > pos || pos >= f.End() {
			continue
		}
		ast.Inspect(f, func(n ast.Node) bool {
			call, ok := n.(*ast.CallExpr)
			if !ok {
				return true
			}
			switch fun := ast.Unparen(call.Fun).(type) {
			case *ast.Ident:
				if fun.Pos() == pos {
					out = call
				}
			case *ast.SelectorExpr:
				if fun.Sel.Pos() == pos {
					out = call
				}
			}
			return true
		})
	}
	return out
}

// localInit returns the rendered callee of the call that defines local v
// (v, ok := f(...) / v := f(...)), or "".
func localInit(p *packages.Package, v *types.Var) string {
	res := ""
	for _, f := range p.Syntax {
		if f.Pos() > v.Pos() || v.Pos() >= f.End() {
			continue
		}
		ast.Inspect(f, func(n ast.Node) bool {
			as, ok := n.(*ast.AssignStmt)
			if !ok || as.Tok != token.DEFINE || len(as.Rhs) != 1 {
				return true
			}
			for _, l := range as.Lhs {
				if id, ok := l.(*ast.Ident); ok && p.TypesInfo.Defs[id] == types.Object(v) {
					if call, ok := as.Rhs[0].(*ast.CallExpr); ok {
						res = types.ExprString(call.Fun)
					}
				}
			}
			return true
		})
	}
	return res
}

func c20R6(c *Ctx) {
	r := c.R.Rule("R6", "K8 status round trip: ToStatus writes and FromStatus reads the same metadata keys and domain constant; FromStatus resolves the reason through LookupCode", 6)
	p := c.W.Pkg(pConduiterr)
	if p == nil {
		c.R.Unresolved(r, pConduiterr)
		return
	}
	uses := func(fname string) map[types.Object]bool {
		out := map[types.Object]bool{}
		for _, f := range p.Syntax {
			for _, d := range f.Decls {
				fd, ok := d.(*ast.FuncDecl)
				if !ok || fd.Name.Name != fname || fd.Recv != nil {
					continue
				}
				ast.Inspect(fd, func(n ast.Node) bool {
					if id, ok := n.(*ast.Ident); ok {
						if o := p.TypesInfo.Uses[id]; o != nil {
							out[o] = true
						}
					}
					return true
				})
			}
		}
		return out
	}
	to, from := uses("ToStatus"), uses("FromStatus")
	if len(to) == 0 || len(from) == 0 {
		c.R.Unresolved(r, pConduiterr+".ToStatus/FromStatus")
		return
	}
	// every md* constant and the domain constant used by one side is used by the other
	var consts []types.Object
	sc := p.Types.Scope()
	for _, n := range sc.Names() {
		if k, ok := sc.Lookup(n).(*types.Const); ok && (strings.HasPrefix(n, "md") || n == "errorDomain") {
			consts = append(consts, k)
		}
	}
	sort.Slice(consts, func(i, j int) bool { return consts[i].Name() < consts[j].Name() })
	if len(consts) < 2 {
		c.R.Fail(r, "status metadata constants", "", "metadata key constants not found")
	}
	for _, k := range consts {
		c.R.Check(to[k] == from[k] && to[k], r, "status key "+k.Name()+" written and read", c.Pos(k.Pos()), "used by both ToStatus and FromStatus", fmt.Sprintf("constant %s is used by ToStatus=%v but FromStatus=%v: the field does not survive the gRPC round trip", k.Name(), to[k], from[k]), false)
	}
	lookup := c.W.LookupObj(pConduiterr, "LookupCode")
	c.R.Check(lookup != nil && from[lookup], r, "FromStatus resolves the reason via LookupCode", "", "ok", "FromStatus no longer resolves the reason through LookupCode: a coded error comes back with a different Code value", false)
	// ToStatus carries the code's own category and reason
	if fn := c.SSA(r, pConduiterr, "ToStatus"); fn != nil {
		grpc := c.Fn(r, pConduiterr, "(Code).GRPCCode")
		reason := c.Fn(r, pConduiterr, "(Code).Reason")
		c.R.Check(len(kit.CallsTo(fn, Set(grpc))) > 0 && len(kit.CallsTo(fn, Set(reason))) > 0, r, "ToStatus sends Code.GRPCCode() and Code.Reason()", c.Pos(fn.Pos()), "ok", "ToStatus no longer sends the code's own category/reason", true)
	}
}

// c20R10: F58. What a client observes (gRPC category, ErrorInfo detail, exit code) must not depend on which handler an
// error left through: a management API handler never returns a bare sentinel (a package-level error variable such as
// cerrors.ErrEmptyID) — the transport reports that as codes.Unknown / exit 1 while its sibling handlers, which pass the
// same sentinel through pkg/http/api/status, report InvalidArgument / exit 2.
func c20R10(c *Ctx) {
	r := c.R.Rule("R10", "K1 no bare sentinel leaves the API: no exported method of a *APIv1 handler type in pkg/http/api returns a package-level error variable directly (it goes through a pkg/http/api/status mapper)", 25)
	const pAPI = "pkg/http/api"
	p := c.W.Pkg(pAPI)
	if p == nil {
		c.R.Unresolved(r, pAPI)
		return
	}
	exempt := map[string]string{
		"ImportPipeline": "unimplemented endpoint returning cerrors.ErrNotImpl (same shape, not demonstrated through a client; not armed)",
		"ExportPipeline": "unimplemented endpoint returning cerrors.ErrNotImpl (same shape, not demonstrated through a client; not armed)",
	}
	for _, fn := range c.W.AllFuncs(c.W.SSA[p.Types]) {
		if fn.Parent() != nil || fn.Signature.Recv() == nil || kit.ErrIndex(fn) < 0 {
			continue
		}
		n, ok := derefNamed(fn.Signature.Recv().Type())
		if !ok || !strings.HasSuffix(n.Obj().Name(), "APIv1") || !fn.Object().Exported() {
			continue
		}
		if _, ex := exempt[fn.Name()]; ex {
			continue
		}
		ei := kit.ErrIndex(fn)
		bare := false
		var at token.Pos = fn.Pos()
		for _, ret := range kit.Returns(fn) {
			v := kit.Unwrap(kit.RetVal(ret, ei))
			if u, isU := v.(*ssa.UnOp); isU {
				if _, isG := u.X.(*ssa.Global); isG {
					bare = true
					at = posOf(ret)
				}
			}
		}
		c.R.Check(!bare, r, kit.FuncKey(fn)+": no bare sentinel is returned", c.Pos(at), "through a status mapper", "the handler returns a package-level sentinel error directly instead of through pkg/http/api/status: the transport reports it as codes.Unknown without ErrorInfo detail (exit code 1) while sibling handlers report the same sentinel with its registered category (InvalidArgument, exit code 2) — what a client observes depends on the handler", true)
	}
}

// c20R11: "the process exit code is a fixed function of that classification": for a coded error ExitCode maps the
// category the error CARRIES (ce.Code.GRPCCode()). Looking the reason up in the local registry instead coarsens every
// `internal.unknown` error (un-migrated sentinels, statuses decoded by FromStatus keep their wire category — F23) to
// Internal: NotFound/InvalidArgument exit 1 instead of 2 while the same error as a raw gRPC status exits 2.
func c20R11(c *Ctx) {
	r := c.R.Rule("R11", "K6 the exit code follows the code the error carries: in exitcode.ExitCode the category handed to fromGRPCCode on the conduiterr.Get hit edge is GRPCCode() of the found error's own Code (not of a registry lookup)", 1)
	fn := c.SSA(r, pExitcode, "ExitCode")
	get := c.Fn(r, pConduiterr, "Get")
	from := c.Fn(r, pExitcode, "fromGRPCCode")
	codeF := c.Field(r, pConduiterr, "ConduitError", "Code")
	if fn == nil || get == nil || from == nil || codeF == nil {
		return
	}
	n := 0
	for _, gc := range kit.CallsTo(fn, Set(get)) {
		for _, e := range kit.CondEdges(kit.ResultN(gc, 1), true) {
			for _, fc := range kit.CallsTo(fn, Set(from)) {
				if !(fc.Block() == e.To || e.To.Dominates(fc.Block())) {
					continue
				}
				n++
				arg := fc.Common().Args[0]
				call, ok := arg.(*ssa.Call)
				okCode := false
				if ok {
					if f := kit.CalleeOf(call.Common()); f != nil && f.Name() == "GRPCCode" && len(call.Call.Args) > 0 {
						recv := call.Call.Args[0]
						okCode = kit.IsFieldLoad(recv, codeF) || kit.SameField(kit.FieldOf(recv), codeF)
						if !okCode {
							// spilled receiver: a local holding a copy of the field
							okCode = kit.DerivesFrom(recv, func(x ssa.Value) bool { return kit.IsFieldLoad(x, codeF) }) && !kit.DerivesFrom(recv, func(x ssa.Value) bool {
								cl, isC := x.(*ssa.Call)
								return isC && kit.CalleeOf(cl.Common()) != nil && kit.CalleeOf(cl.Common()).Name() == "LookupCode"
							})
						}
					}
				}
				c.R.Check(okCode, r, "ExitCode: a coded error exits by the category it carries", c.Pos(fc.Pos()), "ce.Code.GRPCCode()", "ExitCode derives the exit code of a coded error from something other than the GRPCCode() of the error's own Code (e.g. a registry lookup by reason): errors whose reason is internal.unknown but that carry a specific category (un-migrated sentinels at the API boundary, statuses decoded by FromStatus) are coarsened to Internal — exit 1 instead of 2 or 3 — while the same error as a raw gRPC status still exits 2 or 3: the exit code depends on the path the error took", true)
			}
		}
	}
	c.R.Check(n >= 1, r, "ExitCode: fromGRPCCode on the coded-error edge", c.Pos(fn.Pos()), "found", "no fromGRPCCode call behind the conduiterr.Get hit edge", true)
}
