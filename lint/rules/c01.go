package rules

import (
	"go/token"
	"go/types"
	"strings"

	"conduitlint/kit"

	"golang.org/x/tools/go/ssa"
)

const (
	pStream  = "pkg/lifecycle/stream"
	pFunnel  = "pkg/lifecycle-poc/funnel"
	pLife    = "pkg/lifecycle"
	pLife2   = "pkg/lifecycle-poc"
	pConn    = "pkg/connector"
	pProc    = "pkg/processor"
	pPipe    = "pkg/pipeline"
	pOrch    = "pkg/orchestrator"
	pProv    = "pkg/provisioning"
	pCerrors = "pkg/foundation/cerrors"
)

func init() {
	register(&Property{
		ID:  "C01",
		Run: runC01,
		Explanation: "Decides structural necessary conditions of 'no source ack before every destination (or the DLQ) confirmed': " +
			"closed-world caller tables for Message.Ack / Source.Ack / ackNacker.Ack (K1), and dominance of every ack-forwarding call by the success edge of its confirmation test " +
			"(position-equality + nil ack error in the v1 destination acker and DLQ destination; remaining==0 or the Acked channel in the v1 fan-out; " +
			"confirmed-count vs expected-count before DestinationTask.Do returns nil; end-of-chain test before acker.Ack; per-position unanimity in multiAckNacker; " +
			"run completion in runAckNacker; DLQ-write success before the source ack in both engines; poison re-check under the shared-destination lock). Each holds on all paths of the analysed function, hence for every schedule and input.",
		NotDecided:  []string{"truthfulness of plugin confirmations", "liveness", "actual completion orders at run time", "correctness of third-party primitives (atomic, sync, conc pool)"},
		Assumptions: []string{"go/types and go/ssa model the program faithfully", "calls through function values other than the tabled handler closures do not reach Source.Ack (no such value exists in the caller table)"},
	})
}

func runC01(c *Ctx) {
	c01R1(c)
	c01R2(c)
	c01R3(c)
	c01R4(c)
	c01R5(c)
	c01R6(c)
	c01R7(c)
	c01R8(c)
	c08R12As(c, c.R.Rule("R10", "K9 (= C08.R12) the original of a split record is acked only when all its pieces are: the split ledger's member count starts at 1 and grows by len(recs)-1 per split, in SplitRecord only (never recounted from a sub-batch's local view)", 2))
	c08R15As(c, c.R.Rule("R11", "K3 (= C08.R15) no ack for a record the destination rejected: nacking a piece of a split run never re-activates a filtered sibling, so a rejection in a later ack response is not attributed to another record while the rejected one keeps its default Ack flag", 1))
	c05SharedDest(c, c.R.Rule("R9", "K4/K3 (= C05.R4) v2 shared destination: a worker enters a shared subtree only under sharedMu and re-checks the poison flag after acquiring it, so it never reads a failed pass's leftover destination replies as its own confirmation", 6))
}

// R1: closed caller tables for the ack entry points.
func c01R1(c *Ctx) {
	c01R1As(c, c.R.Rule("R1", "K1 who-may-ack: Message.Ack, Source.Ack and ackNacker.Ack are referenced only from the tabled ack-forwarding functions", 13))
}

func c01R1As(c *Ctx, r string) {
	c.WhoMayRef(r, "stream.Message.Ack", c.Fam(c.Fn(r, pStream, "(*Message).Ack")), []string{
		pStream + ".(*DestinationAckerNode).handleAck",
		pStream + ".(*FanoutNode).Run",
		pStream + ".(*Message).StatusError",
	})
	c.WhoMayRef(r, "Source.Ack", c.Fam(c.Fn(r, pConn, "(*Source).Ack")), []string{
		pStream + ".(*SourceAckerNode).registerAckHandler",
		pStream + ".(*SourceAckerNode).registerNackHandler",
		pFunnel + ".(*Worker).Ack",
		pFunnel + ".(*Worker).Nack",
	})
	c.WhoMayRef(r, "ackNacker.Ack", c.Fam(c.Fn(r, pFunnel, "ackNacker.Ack")), []string{
		pFunnel + ".(*Worker).doTaskAttempt",
		pFunnel + ".(*multiAckNacker).releaseLocked",
		pFunnel + ".(*runAckNacker).vote",
		pFunnel + ".(*runAckNacker).forward",
	})
	// StatusError may call Ack only to re-read the result of an already acked
	// message: its Ack call is dominated by Status()==MessageStatusAcked.
	if fn := c.SSA(r, pStream, "(*Message).StatusError"); fn != nil {
		acks := kit.CallsTo(fn, Set(c.Fn(r, pStream, "(*Message).Ack")))
		status := kit.CallsTo(fn, Set(c.Fn(r, pStream, "(*Message).Status")))
		acked := c.W.LookupObj(pStream, "MessageStatusAcked")
		g := kit.NewGates()
		for _, st := range status {
			v := st.Value()
			g.AddEdges(kit.CmpEdges(fn, func(b *ssa.BinOp) (bool, bool) {
				if b.Op != token.EQL {
					return false, false
				}
				if (b.X == ssa.Value(v) && isConstObj(b.Y, acked)) || (b.Y == ssa.Value(v) && isConstObj(b.X, acked)) {
					return true, true
				}
				return false, false
			}), "")
		}
		c.Dominated(r, "StatusError: Ack only when Status()==Acked", asInstrs(acks), g, "the Status()==MessageStatusAcked edge")
	}
}

// isConstObj reports whether v is a constant equal to the value of the
// declared constant obj.
func isConstObj(v ssa.Value, obj types.Object) bool {
	cst, ok := obj.(*types.Const)
	if !ok {
		return false
	}
	k, ok := v.(*ssa.Const)
	if !ok || k.Value == nil {
		return false
	}
	if k.Value.ExactString() != cst.Val().ExactString() {
		return false
	}
	if b, ok := cst.Type().Underlying().(*types.Basic); ok && b.Info()&types.IsUntyped != 0 {
		return true // untyped constant: the SSA constant carries the context type
	}
	return types.Identical(k.Type(), cst.Type())
}

// R2: v1 destination confirmation gates.
func c01R2(c *Ctx) {
	c01R2As(c, c.R.Rule("R2", "K3 v1: a message is acked only on the position-match edge with the destination's ack (or when filtered) and only when the ack carries no error; the DLQ destination returns nil only for one matching error-free ack", 5))
}

func c01R2As(c *Ctx, r string) {
	bytesEqual := c.ExtFunc(r, "bytes", "Equal")
	handleAck := c.Fn(r, pStream, "(*DestinationAckerNode).handleAck")
	msgAck := c.Fn(r, pStream, "(*Message).Ack")
	filtered := c.Field(r, pStream, "Message", "filtered")
	ackErrF := c.Field(r, pConn, "DestinationAck", "Error")
	ackPosF := c.Field(r, pConn, "DestinationAck", "Position")

	if w := c.SSA(r, pStream, "(*DestinationAckerNode).worker"); w != nil && handleAck != nil && bytesEqual != nil {
		for i, call := range kit.CallsTo(w, Set(handleAck)) {
			args := call.Common().Args // n, msg, err
			key := "worker:handleAck"
			if len(args) != 3 {
				c.R.Undecided(r, key, c.Pos(call.Pos()), "unexpected handleAck arity")
				continue
			}
			errArg := kit.Unwrap(args[2])
			if kit.IsNilConst(errArg) {
				// ack without destination confirmation: only for filtered messages
				g := kit.NewGates()
				for _, l := range kit.FieldLoads(w, filtered) {
					g.AddEdges(kit.CondEdges(l, true), "")
				}
				c.Dominated(r, key+"(nil) only for filtered", []ssa.Instruction{call}, g, "the msg.filtered==true edge")
				continue
			}
			// error argument must be the Error field of the ack whose Position was compared
			base, f := kit.FieldBase(errArg)
			if !kit.SameField(f, ackErrF) {
				c.R.Fail(r, key+":err-provenance", c.Pos(call.Pos()), "the error handed to handleAck is not the Error field of a destination ack")
				continue
			}
			g := kit.NewGates()
			for _, eq := range kit.CallsTo(w, Set(bytesEqual)) {
				ea := eq.Common().Args
				if len(ea) != 2 {
					continue
				}
				ok := false
				for _, a := range ea {
					b2, f2 := kit.FieldBase(kit.Unwrap(a))
					if kit.SameField(f2, ackPosF) && b2 == base {
						ok = true
					}
				}
				if ok {
					g.AddEdges(kit.CondEdges(eq.Value(), true), "")
				}
			}
			_ = i
			c.Dominated(r, key+"(ack.Error) after position match", []ssa.Instruction{call}, g, "the bytes.Equal(msg position, ack.Position)==true edge for the same ack value")
		}
	}
	if h := c.SSA(r, pStream, "(*DestinationAckerNode).handleAck"); h != nil {
		var errParam ssa.Value
		for _, p := range h.Params {
			if isErrorType(p.Type()) {
				errParam = p
			}
		}
		g := kit.NewGates()
		if errParam != nil {
			g.AddEdges(kit.NilEdges(errParam, true), "")
		}
		c.Dominated(r, "handleAck: msg.Ack only when err==nil", asInstrs(kit.CallsTo(h, Set(msgAck))), g, "the err==nil edge of the ack error parameter")
	}
	// DLQDestination.Write: `return nil` only after exactly one ack, matching position, nil ack error.
	if w := c.SSA(r, pLife, "(*DLQDestination).Write"); w != nil {
		nilRets, _ := kit.NilReturns(w)
		dstAck := c.Fam(c.Fn(r, pStream, "Destination.Ack"))
		dstWrite := c.Fam(c.Fn(r, pStream, "Destination.Write"))
		gWrite := okGates(kit.CallsTo(w, dstWrite), "Destination.Write ok")
		gAck := okGates(kit.CallsTo(w, dstAck), "Destination.Ack ok")
		gLen := kit.NewGates().AddEdges(kit.LenEdges(w, nil, 1, 1), "len(ack)==1")
		gPos := kit.NewGates()
		if bytesEqual != nil {
			for _, eq := range kit.CallsTo(w, Set(bytesEqual)) {
				gPos.AddEdges(kit.CondEdges(eq.Value(), true), "")
			}
		}
		gErr := kit.NewGates()
		for _, l := range kit.FieldLoads(w, ackErrF) {
			gErr.AddEdges(kit.NilEdges(l, true), "")
		}
		for _, ret := range nilRets {
			c.Dominated(r, "DLQDestination.Write: return nil after Write ok", []ssa.Instruction{ret}, gWrite, "Destination.Write success edge")
			c.Dominated(r, "DLQDestination.Write: return nil after Ack ok", []ssa.Instruction{ret}, gAck, "Destination.Ack success edge")
			c.Dominated(r, "DLQDestination.Write: return nil after len(ack)==1", []ssa.Instruction{ret}, gLen, "the len(ack)==1 edge")
			c.Dominated(r, "DLQDestination.Write: return nil after position match", []ssa.Instruction{ret}, gPos, "the bytes.Equal position edge")
			c.Dominated(r, "DLQDestination.Write: return nil after ack.Error==nil", []ssa.Instruction{ret}, gErr, "the ack.Error==nil edge")
		}
		if len(nilRets) == 0 {
			c.R.Fail(r, "DLQDestination.Write: return nil", c.Pos(w.Pos()), "no `return nil` found (shape changed)")
		}
	}
}

// R3: v1 fan-out unanimity.
func c01R3(c *Ctx) {
	c01R3As(c, c.R.Rule("R3", "K3/K6 v1 fan-out: the original message is acked only by the branch that brings the remaining-acks counter (initialised to len(out)) to zero, or after the message is already acked", 3))
}

func c01R3As(c *Ctx, r string) {
	run := c.SSA(r, pStream, "(*FanoutNode).Run")
	if run == nil {
		return
	}
	msgAck := Set(c.Fn(r, pStream, "(*Message).Ack"))
	acked := c.Fn(r, pStream, "(*Message).Acked")
	outF := c.Field(r, pStream, "FanoutNode", "out")
	addInt32 := c.ExtFunc(r, "sync/atomic", "AddInt32")
	found := 0
	for _, fn := range kit.WithAnon(run) {
		acks := kit.CallsTo(fn, msgAck)
		if len(acks) == 0 {
			continue
		}
		g := kit.NewGates()
		// remaining == 0 where remaining = atomic.AddInt32(&remainingAcks, -1)
		for _, add := range kit.CallsTo(fn, Set(addInt32)) {
			args := add.Common().Args
			if len(args) != 2 || !kit.IsIntConst(args[1], -1) {
				c.R.Fail(r, "fanout: counter decrement", c.Pos(add.Pos()), "atomic.AddInt32 on the remaining-acks counter is not a decrement by one")
				continue
			}
			v := add.Value()
			g.AddEdges(kit.CmpEdges(fn, func(b *ssa.BinOp) (bool, bool) {
				if b.Op == token.EQL && ((b.X == ssa.Value(v) && kit.IsIntConst(b.Y, 0)) || (b.Y == ssa.Value(v) && kit.IsIntConst(b.X, 0))) {
					return true, true
				}
				return false, false
			}), "remaining==0")
			// K6: counter cell initialised from len(n.out)
			c01CounterInit(c, r, run, args[0], outF)
		}
		// select arm receiving from msg.Acked()
		for _, sel := range kit.Selects(fn) {
			for i, st := range sel.States {
				if call, ok := st.Chan.(*ssa.Call); ok && st.Dir == types.RecvOnly && kit.CalleeOf(call.Common()) == acked {
					g.AddEdges(kit.SelectArmEdges(sel, i), "<-msg.Acked()")
				}
			}
		}
		found += len(acks)
		c.Dominated(r, "fanout ack handler: msg.Ack", asInstrs(acks), g, "the remaining==0 edge or the <-msg.Acked() select arm")
	}
	if found == 0 {
		c.R.Fail(r, "fanout ack handler", c.Pos(run.Pos()), "no Message.Ack call found in FanoutNode.Run's handlers (shape changed)")
	}
	// a branch that gives up on ctx.Done() must nack its clone on every path
	// (it never counts as an ack share)
	msgNack := Set(c.Fn(r, pStream, "(*Message).Nack"))
	ctxDone := c.W.ExtMethod("context", "Context", "Done")
	for _, fn := range kit.WithAnon(run)[1:] {
		for _, sel := range kit.Selects(fn) {
			hasSend := false
			for _, st := range sel.States {
				if st.Dir == types.SendOnly {
					hasSend = true
				}
			}
			if !hasSend {
				continue
			}
			for i, st := range sel.States {
				call, ok := st.Chan.(*ssa.Call)
				if !ok || st.Dir != types.RecvOnly || kit.CalleeOf(call.Common()) != ctxDone {
					continue
				}
				g := kit.NewGates()
				for _, nk := range kit.CallsTo(fn, msgNack) {
					g.AddInstr(nk, "newMsg.Nack")
				}
				for _, e := range kit.SelectArmEdges(sel, i) {
					ok2, _ := kit.AllExitsFromEdge(e, false, kit.ExitSpec{Gates: g})
					// also: no conditional in front of the nack (the nack dominates every exit from the arm)
					c.R.Check(ok2, r, "fanout branch: ctx.Done arm nacks the clone on every path", c.Pos(sel.Pos()), "every exit from the ctx.Done() arm passes Message.Nack",
						"a path leaves the branch goroutine's ctx.Done() arm without nacking the undelivered clone: the branch silently stops counting and the remaining branches can ack the original", true)
				}
			}
		}
	}
}

func c01CounterInit(c *Ctx, r string, run *ssa.Function, cell ssa.Value, outF *types.Var) {
	// cell is a FreeVar in the closure; find the Alloc in an enclosing function bound to it
	fv, ok := cell.(*ssa.FreeVar)
	var alloc ssa.Value
	if ok {
		alloc = resolveFreeVar(fv)
	} else {
		alloc = cell
	}
	a, ok := alloc.(*ssa.Alloc)
	if !ok {
		c.R.Undecided(r, "fanout: counter cell", c.Pos(cell.Pos()), "cannot resolve the remaining-acks counter to a local variable")
		return
	}
	stores := 0
	good := 0
	if refs := a.Referrers(); refs != nil {
		for _, ref := range *refs {
			st, ok := ref.(*ssa.Store)
			if !ok || st.Addr != ssa.Value(a) {
				continue
			}
			stores++
			if kit.IsLenOf(kit.Unwrap(st.Val), func(x ssa.Value) bool { return kit.IsFieldLoad(x, outF) }) {
				good++
			}
		}
	}
	// every other use of the counter is the single decrement inside the ack handler
	addInt32 := c.W.ExtObj("sync/atomic", "AddInt32")
	msgAck := Set(c.W.LookupFunc(pStream, "(*Message).Ack"))
	for _, u := range kit.CellUses(a) {
		if st, ok := u.Instr.(*ssa.Store); ok && st.Addr == ssa.Value(a) && u.Fn == a.Parent() {
			continue // initialisation, checked below
		}
		okUse := false
		if call, ok := u.Instr.(*ssa.Call); ok && kit.CalleeOf(call.Common()) == addInt32 && len(kit.CallsTo(u.Fn, msgAck)) > 0 {
			okUse = true
		}
		if _, ok := u.Instr.(*ssa.DebugRef); ok {
			continue
		}
		c.R.Check(okUse, r, "fanout: counter used only by the ack handler's decrement ("+kit.FuncKey(u.Fn)+")", c.Pos(posOf(u.Instr)), "atomic decrement in the ack handler",
			"the remaining-acks counter is read or modified outside the ack handler's single decrement: a branch can reduce the number of acks owed without having acked", true)
	}
	c.R.Check(stores >= 1 && stores == good, r, "fanout: counter initialised to len(n.out)", c.Pos(a.Pos()),
		"every store to the counter is int32(len(n.out))", "the remaining-acks counter is initialised from something other than len(n.out)", true)
}

// resolveFreeVar follows a free variable to the value bound at closure
// creation (through nested closures).
func resolveFreeVar(fv *ssa.FreeVar) ssa.Value {
	fn := fv.Parent()
	idx := -1
	for i, f := range fn.FreeVars {
		if f == fv {
			idx = i
		}
	}
	parent := fn.Parent()
	if parent == nil || idx < 0 {
		return nil
	}
	for _, b := range parent.Blocks {
		for _, in := range b.Instrs {
			mc, ok := in.(*ssa.MakeClosure)
			if !ok || mc.Fn != ssa.Value(fn) {
				continue
			}
			v := mc.Bindings[idx]
			if inner, ok := v.(*ssa.FreeVar); ok {
				return resolveFreeVar(inner)
			}
			return v
		}
	}
	return nil
}

// R4: v2 destination confirmation count.
func c01R4(c *Ctx) {
	c01R4As(c, c.R.Rule("R4", "K3 v2: DestinationTask.Do returns nil only on an edge where the confirmed-ack count reached the number of written positions; acks are validated (count bound + per-position equality) before records are marked", 4))
}

func c01R4As(c *Ctx, r string) {
	do := c.SSA(r, pFunnel, "(*DestinationTask).Do")
	validate := c.Fn(r, pFunnel, "(*DestinationTask).validateAcks")
	mark := c.Fn(r, pFunnel, "(*DestinationTask).markBatchRecords")
	dstAck := c.Fam(c.Fn(r, pFunnel, "Destination.Ack"))
	if do != nil {
		// accumulator values: x + len(acks) (acks = result of Destination.Ack), closed under phi
		acc := map[ssa.Value]bool{}
		ackVals := map[ssa.Value]bool{}
		for _, call := range kit.CallsTo(do, dstAck) {
			if v := kit.ResultN(call, 0); v != nil {
				ackVals[v] = true
			}
		}
		changed := true
		for changed {
			changed = false
			for _, b := range do.Blocks {
				for _, in := range b.Instrs {
					switch x := in.(type) {
					case *ssa.BinOp:
						if x.Op == token.ADD && !acc[x] {
							if kit.IsLenOf(x.X, func(v ssa.Value) bool { return ackVals[v] }) || kit.IsLenOf(x.Y, func(v ssa.Value) bool { return ackVals[v] }) {
								acc[x] = true
								changed = true
							}
						}
					case *ssa.Phi:
						if !acc[x] {
							for _, e := range x.Edges {
								if acc[e] {
									acc[x] = true
									changed = true
								}
							}
						}
					}
				}
			}
		}
		isPosLen := func(v ssa.Value) bool {
			return kit.IsLenOf(v, func(x ssa.Value) bool {
				s, ok := x.Type().Underlying().(*types.Slice)
				if !ok {
					return false
				}
				n, ok := s.Elem().(*types.Named)
				return ok && n.Obj().Name() == "Position"
			})
		}
		g := kit.NewGates().AddEdges(kit.CmpEdges(do, func(b *ssa.BinOp) (bool, bool) {
			switch {
			case acc[b.X] && isPosLen(b.Y):
				switch b.Op {
				case token.GEQ, token.EQL:
					return true, true
				case token.LSS, token.NEQ:
					return true, false
				}
			case acc[b.Y] && isPosLen(b.X):
				switch b.Op {
				case token.LEQ, token.EQL:
					return true, true
				case token.GTR, token.NEQ:
					return true, false
				}
			}
			return false, false
		}), "ackCount >= len(positions)")
		// an empty write (no active records) needs no confirmation: len(positions)==0 edges
		g.AddEdges(kit.RangeEdges(do, isPosLen, 0, 0), "")
		nilRets, _ := kit.NilReturns(do)
		if len(nilRets) == 0 {
			c.R.Fail(r, "DestinationTask.Do: return nil", c.Pos(do.Pos()), "no `return nil` found (shape changed)")
		}
		c.Dominated(r, "DestinationTask.Do: return nil only when every written position was confirmed", asInstrs(nilRets), g,
			"an edge on which the accumulated ack count is >= len(positions)")
		// markBatchRecords after validateAcks ok
		if validate != nil && mark != nil {
			c.Dominated(r, "DestinationTask.Do: markBatchRecords after validateAcks ok", asInstrs(kit.CallsTo(do, Set(mark))),
				okGates(kit.CallsTo(do, Set(validate)), "validateAcks ok"), "the validateAcks success edge")
		}
		if len(acc) == 0 {
			c.R.Fail(r, "DestinationTask.Do: ack accumulator", c.Pos(do.Pos()), "no accumulated ack count (x + len(acks)) found")
		}
	}
	if v := c.SSA(r, pFunnel, "(*DestinationTask).validateAcks"); v != nil {
		bytesEqual := c.ExtFunc(r, "bytes", "Equal")
		nilRets, _ := kit.NilReturns(v)
		// len(acks) > len(positions) refused
		ackP, posP := v.Params[len(v.Params)-2], v.Params[len(v.Params)-1]
		if len(v.Params) >= 2 {
			// positional: validateAcks(acks, positions)
			for _, p := range v.Params {
				if s, ok := p.Type().Underlying().(*types.Slice); ok {
					if n, ok := s.Elem().(*types.Named); ok && n.Obj().Name() == "Position" {
						posP = p
					} else {
						ackP = p
					}
				}
			}
		}
		g := kit.NewGates().AddEdges(kit.RelEdges(v,
			func(x ssa.Value) bool { return kit.IsLenOf(x, func(y ssa.Value) bool { return kit.IsVar(y, ackP) }) },
			func(x ssa.Value) bool { return kit.IsLenOf(x, func(y ssa.Value) bool { return kit.IsVar(y, posP) }) },
			kit.RelLE), "len(acks) <= len(positions)")
		c.Dominated(r, "validateAcks: return nil only when len(acks) <= len(positions)", asInstrs(nilRets), g, "the len(acks) <= len(positions) edge")
		// a position mismatch never reaches `return nil`
		eqs := kit.CallsTo(v, Set(bytesEqual))
		if len(eqs) == 0 {
			c.R.Fail(r, "validateAcks: position comparison", c.Pos(v.Pos()), "validateAcks no longer compares ack positions with bytes.Equal")
		}
		for _, eq := range eqs {
			bad := false
			for _, e := range kit.CondEdges(eq.Value(), false) {
				for _, ret := range nilRets {
					if kit.EdgeReaches(e, ret, nil) {
						bad = true
					}
				}
			}
			c.R.Check(!bad, r, "validateAcks: mismatch refuses", c.Pos(eq.Pos()), "a position mismatch cannot reach `return nil`", "a path from the position-mismatch edge reaches `return nil`", true)
		}
	}
}

// R5: v2 end-of-chain ack.
func c01R5(c *Ctx) {
	c01R5As(c, c.R.Rule("R5", "K3 v2: Worker.doTaskAttempt hands a batch to acker.Ack only when no task follows or the batch has no active records", 2))
}

func c01R5As(c *Ctx, r string) {
	fn := c.SSA(r, pFunnel, "(*Worker).doTaskAttempt")
	if fn == nil {
		return
	}
	ackM := c.Fn(r, pFunnel, "ackNacker.Ack")
	hasNext := c.Fn(r, pFunnel, "(*TaskNode).HasNext")
	hasActive := c.Fn(r, pFunnel, "(*Batch).HasActiveRecords")
	for _, call := range kit.CallsTo(fn, Set(ackM)) {
		args := call.Common().Args
		if len(args) != 2 {
			c.R.Undecided(r, "doTaskAttempt: acker.Ack", c.Pos(call.Pos()), "unexpected arity")
			continue
		}
		batch := args[1]
		g := kit.NewGates()
		for _, hn := range kit.CallsTo(fn, Set(hasNext)) {
			g.AddEdges(kit.CondEdges(hn.Value(), false), "!HasNext()")
		}
		for _, ha := range kit.CallsTo(fn, Set(hasActive)) {
			if a := ha.Common().Args; len(a) == 1 && a[0] == batch {
				g.AddEdges(kit.CondEdges(ha.Value(), false), "!batch.HasActiveRecords()")
			}
		}
		c.Dominated(r, "doTaskAttempt: acker.Ack at end of chain", []ssa.Instruction{call}, g, "the !taskNode.HasNext() or !batch.HasActiveRecords() edge for the acked batch")
	}
}

// R6: v2 fan-out unanimity.
func c01R6(c *Ctx) {
	r := c.R.Rule("R6", "K3/K6 v2 fan-out: a position becomes acked only on the ackVotes==branches edge; branches is len(taskNode.Next) of the fan-out; whole-run validation precedes the fan-out", 5)
	ack := c.SSA(r, pFunnel, "(*multiAckNacker).Ack")
	ackedF := c.Field(r, pFunnel, "multiAckNacker", "acked")
	votesF := c.Field(r, pFunnel, "multiAckNacker", "ackVotes")
	branchesF := c.Field(r, pFunnel, "multiAckNacker", "branches")
	nextF := c.Field(r, pFunnel, "TaskNode", "Next")
	if ack != nil {
		var targets []ssa.Instruction
		for _, b := range ack.Blocks {
			for _, in := range b.Instrs {
				if st, ok := in.(*ssa.Store); ok && kit.IsElemOfField(st.Addr, ackedF) && kit.IsBoolConst(st.Val, true) {
					targets = append(targets, st)
				}
			}
		}
		g := kit.NewGates().AddEdges(kit.CmpEdges(ack, func(b *ssa.BinOp) (bool, bool) {
			v := func(x ssa.Value) bool { return kit.IsElemLoadOfField(x, votesF) }
			br := func(x ssa.Value) bool { return kit.IsFieldLoad(x, branchesF) }
			if (v(b.X) && br(b.Y)) || (v(b.Y) && br(b.X)) {
				switch b.Op {
				case token.EQL:
					return true, true
				case token.NEQ:
					return true, false
				}
			}
			return false, false
		}), "ackVotes[idx]==branches")
		if len(targets) == 0 {
			c.R.Fail(r, "multiAckNacker.Ack: acked[idx]=true", c.Pos(ack.Pos()), "no store acked[idx]=true found (shape changed)")
		}
		c.Dominated(r, "multiAckNacker.Ack: acked[idx]=true only when unanimous", targets, g, "the ackVotes[idx]==branches edge")
		// votes are incremented by exactly one per call and position
		okInc := false
		for _, b := range ack.Blocks {
			for _, in := range b.Instrs {
				if st, ok := in.(*ssa.Store); ok && kit.IsElemOfField(st.Addr, votesF) {
					if bo, ok := st.Val.(*ssa.BinOp); ok && bo.Op == token.ADD && kit.IsIntConst(bo.Y, 1) && kit.IsElemLoadOfField(bo.X, votesF) {
						okInc = true
					} else {
						c.R.Fail(r, "multiAckNacker.Ack: vote increment", c.Pos(st.Pos()), "ackVotes is updated by something other than +1")
					}
				}
			}
		}
		c.R.Check(okInc, r, "multiAckNacker.Ack: vote increment by one", c.Pos(ack.Pos()), "ackVotes[idx]++", "no ackVotes increment found", true)
	}
	// only Ack may set acked[...] = true
	for _, fname := range []string{"(*multiAckNacker).Nack", "(*multiAckNacker).releaseLocked"} {
		if fn := c.SSA(r, pFunnel, fname); fn != nil {
			for _, b := range fn.Blocks {
				for _, in := range b.Instrs {
					if st, ok := in.(*ssa.Store); ok && kit.IsElemOfField(st.Addr, ackedF) && !kit.IsBoolConst(st.Val, false) {
						c.R.Fail(r, fname+": sets acked", c.Pos(st.Pos()), "acked[...] is set to a non-false value outside multiAckNacker.Ack")
					}
				}
			}
		}
	}
	c.WhoMayWrite(r, "multiAckNacker.acked", ackedF, []string{pFunnel + ".(*multiAckNacker).Ack", pFunnel + ".(*multiAckNacker).Nack", pFunnel + ".newMultiAckNacker"}, nil)
	c.WhoMayWrite(r, "multiAckNacker.branches", branchesF, []string{pFunnel + ".newMultiAckNacker"}, nil)
	// branches provenance
	if next := c.SSA(r, pFunnel, "(*Worker).doNextTask"); next != nil {
		newM := c.Fn(r, pFunnel, "newMultiAckNacker")
		valRuns := c.Fn(r, pFunnel, "validateRunsWholeBeforeFanOut")
		calls := kit.CallsTo(next, Set(newM))
		if len(calls) != 1 {
			c.R.Fail(r, "doNextTask: newMultiAckNacker call", c.Pos(next.Pos()), "expected exactly one newMultiAckNacker call in doNextTask")
		}
		for _, call := range calls {
			a := call.Common().Args
			ok := len(a) == 3 && kit.IsLenOf(a[1], func(x ssa.Value) bool { return kit.IsFieldLoad(x, nextF) })
			c.R.Check(ok, r, "doNextTask: branches == len(taskNode.Next)", c.Pos(call.Pos()), "branches argument is len(taskNode.Next)", "the branches argument of newMultiAckNacker is not len(taskNode.Next): unanimity would be counted against the wrong number of branches", true)
			c.Dominated(r, "doNextTask: validateRunsWholeBeforeFanOut ok before fan-out", []ssa.Instruction{call},
				okGates(kit.CallsTo(next, Set(valRuns)), ""), "the validateRunsWholeBeforeFanOut success edge")
		}
		c.WhoMayRef(r, "newMultiAckNacker", Set(newM), []string{pFunnel + ".(*Worker).doNextTask"})
	}
	if nm := c.SSA(r, pFunnel, "newMultiAckNacker"); nm != nil {
		// the literal's branches field is the parameter
		okP := false
		for _, st := range kit.FieldStores(nm, branchesF) {
			if st.Val == argParam(nm, 1) {
				okP = true
			} else {
				c.R.Fail(r, "newMultiAckNacker: branches field", c.Pos(st.Pos()), "branches field is not initialised from the branches parameter")
			}
		}
		c.R.Check(okP, r, "newMultiAckNacker: branches from parameter", c.Pos(nm.Pos()), "branches: branches", "no initialisation of the branches field found", false)
	}
}

// R7: v2 split-run withholding.
func c01R7(c *Ctx) {
	c01R7As(c, c.R.Rule("R7", "K3 v2: runAckNacker forwards a split run to the parent only on the run-complete edge, marks it released first, and refuses votes on a released run", 3))
}

func c01R7As(c *Ctx, r string) {
	vote := c.SSA(r, pFunnel, "(*runAckNacker).vote")
	if vote == nil {
		return
	}
	complete := c.Fn(r, pFunnel, "(*splitRun).complete")
	releasedF := c.Field(r, pFunnel, "splitRun", "released")
	termF := c.Field(r, pFunnel, "splitRun", "terminalCount")
	ackM := c.Fn(r, pFunnel, "ackNacker.Ack")
	nackM := c.Fn(r, pFunnel, "ackNacker.Nack")
	g := kit.NewGates()
	for _, call := range kit.CallsTo(vote, Set(complete)) {
		if d := kit.ResultN(call, 0); d != nil {
			g.AddEdges(kit.CondEdges(d, true), "run.complete() == true")
		}
	}
	// where a completed run is handed to the parent: direct parent.Ack/Nack calls, or calls of a
	// dispatcher helper (a method that calls parent.Ack under a bool parameter and parent.Nack otherwise)
	// that lie behind the run-complete edge
	nackedF := c.Field(r, pFunnel, "splitRun", "nacked")
	isNackedLoad := func(v ssa.Value) bool { return nackedF != nil && kit.IsFieldLoad(v, nackedF) }
	var fwd []ssa.CallInstruction
	behind := func(in ssa.Instruction) bool {
		ok, _ := kit.MustPass(in, g)
		return ok && !g.Empty()
	}
	for _, call := range kit.CallsTo(vote, Set(ackM, nackM)) {
		fwd = append(fwd, call)
		isAckCall := kit.CalleeOf(call.Common()) == ackM
		gk := kit.NewGates()
		for _, l := range kit.FieldLoads(vote, nackedF) {
			gk.AddEdges(kit.CondEdges(l, !isAckCall), "")
		}
		what := "parent.Ack only for a run without a nacked piece"
		if !isAckCall {
			what = "parent.Nack only for a run with a nacked piece"
		}
		c.Dominated(r, "vote: "+what, []ssa.Instruction{call}, gk, "the run.nacked edge (the sticky flag, not the current vote)")
	}
	for _, b := range vote.Blocks {
		for _, in := range b.Instrs {
			call, ok := in.(*ssa.Call)
			if !ok || !behind(call) {
				continue
			}
			h := call.Call.StaticCallee()
			if h == nil || h.Pkg != vote.Pkg || len(kit.CallsTo(h, Set(ackM))) == 0 || len(kit.CallsTo(h, Set(nackM))) == 0 {
				continue
			}
			fwd = append(fwd, call)
			// which bool parameter of the dispatcher selects Ack
			okDispatch := false
			for i, p := range h.Params {
				if bt, isB := p.Type().Underlying().(*types.Basic); !isB || bt.Kind() != types.Bool {
					continue
				}
				for _, pol := range []bool{true, false} {
					ga := kit.NewGates().AddEdges(kit.CondEdges(p, pol), "")
					gn := kit.NewGates().AddEdges(kit.CondEdges(p, !pol), "")
					all := !ga.Empty()
					for _, a := range kit.CallsTo(h, Set(ackM)) {
						if ok, _ := kit.MustPass(a, ga); !ok {
							all = false
						}
					}
					for _, n := range kit.CallsTo(h, Set(nackM)) {
						if ok, _ := kit.MustPass(n, gn); !ok {
							all = false
						}
					}
					if !all || i >= len(call.Call.Args) {
						continue
					}
					// Ack is selected when the parameter == pol: the argument must be (pol ? !run.nacked : run.nacked)
					arg := call.Call.Args[i]
					if pol {
						if u, isU := arg.(*ssa.UnOp); isU && u.Op == token.NOT && isNackedLoad(u.X) {
							okDispatch = true
						}
					} else if isNackedLoad(arg) {
						okDispatch = true
					}
				}
			}
			c.R.Check(okDispatch, r, "vote: a completed run is dispatched by its sticky nacked flag", c.Pos(call.Pos()), "ok", "a completed split run is handed to "+h.Name()+" with a selector that is not derived from run.nacked: a run with an earlier nacked piece whose last vote is an ack would be acked to the source and never dead-lettered", true)
		}
	}
	if len(fwd) == 0 {
		c.R.Fail(r, "vote: parent forward calls", c.Pos(vote.Pos()), "no hand-off of a completed run to the parent found in runAckNacker.vote")
	}
	// every hand-off to the parent (completed runs AND standalone records) happens inside the per-record
	// walk `for i < len(batch.records)`: an empty batch forwards nothing (Source.Ack indexes p[len(p)-1])
	{
		recordsF := c.Field(r, pFunnel, "Batch", "records")
		gLoop := kit.NewGates().AddEdges(kit.RelEdges(vote,
			func(v ssa.Value) bool { _, isPhi := v.(*ssa.Phi); return isPhi },
			func(v ssa.Value) bool { return kit.IsLenOf(v, func(x ssa.Value) bool { return kit.IsFieldLoad(x, recordsF) }) },
			kit.RelLT), "i < len(batch.records)")
		var all []ssa.Instruction
		for _, b := range vote.Blocks {
			for _, in := range b.Instrs {
				call, ok := in.(*ssa.Call)
				if !ok {
					continue
				}
				f := kit.CalleeOf(call.Common())
				if f == ackM || f == nackM {
					all = append(all, call)
					continue
				}
				if h := call.Call.StaticCallee(); h != nil && h.Pkg == vote.Pkg && (len(kit.CallsTo(h, Set(ackM))) > 0 || len(kit.CallsTo(h, Set(nackM))) > 0) {
					all = append(all, call)
				}
			}
		}
		c.Dominated(r, "vote: the parent is reached only from inside the per-record walk", all, gLoop, "the i < len(batch.records) edge (an empty batch forwards nothing)")
	}
	c.Dominated(r, "vote: parent.Ack/Nack only when the run completed", asInstrs(fwd), g, "the done==true edge of run.complete()")
	// released=true store precedes the forward
	gRel := kit.NewGates()
	for _, st := range kit.FieldStores(vote, releasedF) {
		if kit.IsBoolConst(st.Val, true) {
			gRel.AddInstr(st, "run.released = true")
		}
	}
	c.Dominated(r, "vote: run.released=true before forwarding", asInstrs(fwd), gRel, "the store run.released = true")
	// credit only when not released
	gNot := kit.NewGates()
	for _, l := range kit.FieldLoads(vote, releasedF) {
		gNot.AddEdges(kit.CondEdges(l, false), "!run.released")
	}
	var credits []ssa.Instruction
	for _, st := range kit.FieldStores(vote, termF) {
		credits = append(credits, st)
	}
	if len(credits) == 0 {
		c.R.Fail(r, "vote: terminalCount credit", c.Pos(vote.Pos()), "no terminalCount update found")
	}
	c.Dominated(r, "vote: credit only for an unreleased run", credits, gNot, "the !run.released edge")
}

// R8: DLQ write before the source ack.
func c01R8(c *Ctx) {
	c01R8As(c, c.R.Rule("R8", "K3/K6 DLQ-before-ack: the source ack of a nacked record is dominated by the DLQ write's success edge (v1) / covers exactly the stored prefix positions[:n] with n the DLQ's stored count (v2)", 6))
}

func c01R8As(c *Ctx, r string) {
	srcAck := c.Fam(c.Fn(r, pConn, "(*Source).Ack"))
	// v1
	if reg := c.SSA(r, pStream, "(*SourceAckerNode).registerNackHandler"); reg != nil {
		dlqNack := c.Fn(r, pStream, "(*DLQHandlerNode).Nack")
		n := 0
		for _, fn := range kit.WithAnon(reg) {
			acks := kit.CallsTo(fn, srcAck)
			if len(acks) == 0 {
				continue
			}
			n += len(acks)
			// DLQHandlerNode.Nack itself, or a helper whose success implies its success
			c.Dominated(r, "v1 nack handler: Source.Ack after DLQHandlerNode.Nack ok", asInstrs(acks), okGates(kit.CallsToOK(fn, Set(dlqNack), 1), ""), "the DLQHandlerNode.Nack success edge")
			// a failed DLQ hand-off always fails the nack: behind the failure edge of DLQHandlerNode.Nack
			// every return hands back an error that is non-nil by construction (the DLQ error itself or an
			// error constructor), never the result of something that may turn it into nil
			for _, dn := range kit.CallsToOK(fn, Set(dlqNack), 1) {
				derr := kit.ErrResult(dn)
				for _, e := range kit.FailEdges(dn) {
					for _, ret := range kit.Returns(fn) {
						if !kit.EdgeReaches(e, ret, nil) || !(ret.Block() == e.To || e.To.Dominates(ret.Block())) {
							continue
						}
						v := kit.RetVal(ret, len(ret.Results)-1)
						ok := v == derr
						if u, isU := v.(*ssa.UnOp); isU && u.Op == token.MUL && derr != nil {
							// load of the cell the DLQ error was stored to, not reassigned since
							if du, isDU := derr.(*ssa.UnOp); isDU && du.X == u.X {
								ok = true
							}
							for _, cu := range kit.CellUses(u.X) {
								if st, isSt := cu.Instr.(*ssa.Store); isSt && st.Val == derr && kit.Reaches(st, ret, nil) {
									ok = true
								}
							}
						}
						if cl, isCall := v.(*ssa.Call); isCall {
							if f := kit.CalleeOf(cl.Common()); f != nil && f.Pkg() != nil && (strings.HasSuffix(f.Pkg().Path(), "/cerrors") || strings.HasSuffix(f.Pkg().Path(), "/conduiterr") || f.Pkg().Path() == "errors" || f.Pkg().Path() == "fmt") {
								ok = true
							}
							if cl.Call.Value != nil {
								if ld, isLd := cl.Call.Value.(*ssa.UnOp); isLd {
									if gl, isG := ld.X.(*ssa.Global); isG && gl.Pkg != nil && strings.HasSuffix(gl.Pkg.Pkg.Path(), "/cerrors") {
										ok = true // cerrors.Errorf etc. are package-level function variables
									}
								}
							}
						}
						c.R.Check(ok, r, "v1 nack handler: a failed DLQ hand-off fails the nack", c.Pos(posOf(ret)), "returns the DLQ error (wrapped)", "behind the failure edge of DLQHandlerNode.Nack the handler returns a value that is not the DLQ error or a freshly constructed error (e.g. it passes the error through a filter that can return nil): a record that was neither delivered nor dead-lettered would count as handled and a later ack moves the position past it", true)
					}
				}
			}
		}
		if n == 0 {
			c.R.Fail(r, "v1 nack handler: Source.Ack", c.Pos(reg.Pos()), "no Source.Ack call found in the nack handler")
		}
	}
	// v2 Worker.Nack
	positionsF := c.Field(r, pFunnel, "Batch", "positions")
	if nack := c.SSA(r, pFunnel, "(*Worker).Nack"); nack != nil {
		dlqNack := c.Fn(r, pFunnel, "(*DLQ).Nack")
		orig := c.Fn(r, pFunnel, "(*Batch).originalBatch")
		var nVal ssa.Value
		for _, call := range kit.CallsTo(nack, Set(dlqNack)) {
			nVal = kit.ResultN(call, 0)
		}
		for _, call := range kit.CallsTo(nack, srcAck) {
			args := call.Common().Args
			ok := false
			detail := "the positions handed to Source.Ack are not originalBatch().positions[:n] with n the count returned by DLQ.Nack"
			if len(args) == 2 && nVal != nil {
				if sl, isSl := args[1].(*ssa.Slice); isSl && sl.High == nVal && sl.Low == nil && kit.IsFieldLoad(sl.X, positionsF) {
					if base, _ := kit.FieldBase(sl.X); base != nil {
						if oc, isCall := base.(*ssa.Call); isCall && kit.CalleeOf(oc.Common()) == orig {
							ok = true
						}
					}
				}
			}
			c.R.Check(ok, r, "v2 Worker.Nack: acks exactly the stored prefix", c.Pos(call.Pos()), "Source.Ack(originalBatch.positions[:n]) with n from DLQ.Nack", detail, true)
			// n > 0
			// n is a count (never negative): n != 0 and n > 0 are the same test
			g := kit.NewGates().AddEdges(kit.RangeEdges(nack, func(x ssa.Value) bool { return x == nVal }, 1, -1), "n>0")
			c.Dominated(r, "v2 Worker.Nack: Source.Ack only when n>0", []ssa.Instruction{call}, g, "the n>0 edge")
		}
	}
	// v2 DLQ.Nack: a non-constant count other than sendToDLQ's own result is returned only after sendToDLQ succeeded (or nothing was accepted)
	if dn := c.SSA(r, pFunnel, "(*DLQ).Nack"); dn != nil {
		send := c.Fn(r, pFunnel, "(*DLQ).sendToDLQ")
		winNack := c.Fn(r, pFunnel, "(*dlqWindow).Nack")
		var sendCalls = kit.CallsTo(dn, Set(send))
		var nacked ssa.Value
		for _, wc := range kit.CallsTo(dn, Set(winNack)) {
			nacked = wc.Value()
		}
		g := okGates(sendCalls, "sendToDLQ ok")
		if nacked != nil {
			g.AddEdges(kit.RangeEdges(dn, func(x ssa.Value) bool { return x == nacked }, 0, 0), "nacked==0")
		}
		var sendCount ssa.Value
		for _, sc := range sendCalls {
			sendCount = kit.ResultN(sc, 0)
		}
		cnt := 0
		for _, ret := range kit.Returns(dn) {
			if len(ret.Results) != 2 {
				continue
			}
			v := kit.RetVal(ret, 0)
			if _, isConst := v.(*ssa.Const); isConst || v == sendCount {
				continue
			}
			cnt++
			c.Dominated(r, "v2 DLQ.Nack: window-accepted count returned only after the DLQ write succeeded", []ssa.Instruction{ret}, g, "the sendToDLQ success edge (or nacked==0)")
		}
		if cnt == 0 {
			c.R.Fail(r, "v2 DLQ.Nack: returns", c.Pos(dn.Pos()), "no return of the accepted count found (shape changed)")
		}
	}
	// v2 sendToDLQ: a non-zero count only after task.Do ok
	if sd := c.SSA(r, pFunnel, "(*DLQ).sendToDLQ"); sd != nil {
		do := c.Fam(c.Fn(r, pFunnel, "(*DestinationTask).Do"))
		g := okGates(kit.CallsTo(sd, do), "task.Do ok")
		var targets []ssa.Instruction
		for _, ret := range kit.Returns(sd) {
			if len(ret.Results) == 2 && !kit.IsIntConst(kit.RetVal(ret, 0), 0) {
				targets = append(targets, ret)
			}
		}
		c.Dominated(r, "v2 sendToDLQ: stored count only after the DLQ write call succeeded", targets, g, "the task.Do success edge")
		// the stored count is a PREFIX length: it is incremented only on the
		// edge where recordStatuses[count].Flag == RecordFlagAck, indexed by the
		// count itself (Worker.Nack acks positions[:n]).
		flagF := c.Field(r, pFunnel, "RecordStatus", "Flag")
		ackConst := c.W.LookupObj(pFunnel, "RecordFlagAck")
		nInc := 0
		var counterIn func(f *ssa.Function, nres int)
		counterIn = func(f *ssa.Function, nres int) {
			for _, b := range f.Blocks {
				for _, in := range b.Instrs {
					ph, ok := in.(*ssa.Phi)
					if !ok {
						continue
					}
					isRet := false
					for _, ret := range kit.Returns(f) {
						if len(ret.Results) == nres && kit.RetVal(ret, 0) == ssa.Value(ph) {
							isRet = true
						}
					}
					if !isRet {
						continue
					}
					for _, e := range ph.Edges {
						inc, ok := e.(*ssa.BinOp)
						if !ok || inc.Op != token.ADD {
							continue
						}
						nInc++
						gp := kit.NewGates().AddEdges(kit.CmpEdges(f, func(b *ssa.BinOp) (bool, bool) {
							if b.Op != token.EQL && b.Op != token.NEQ {
								return false, false
							}
							x, y := b.X, b.Y
							if isConstObj(x, ackConst) {
								x, y = y, x
							}
							if !isConstObj(y, ackConst) || !kit.IsFieldLoad(x, flagF) {
								return false, false
							}
							base, _ := kit.FieldBase(x)
							ia, ok := base.(*ssa.IndexAddr)
							if !ok || ia.Index != ssa.Value(ph) {
								return false, false
							}
							return true, b.Op == token.EQL
						}), "recordStatuses[count].Flag == RecordFlagAck")
						c.Dominated(r, "v2 sendToDLQ: stored count is the acked PREFIX length", []ssa.Instruction{inc}, gp, "the recordStatuses[count].Flag==RecordFlagAck edge indexed by the count itself")
					}
				}
			}
		}
		counterIn(sd, 2)
		if nInc == 0 {
			// the counting loop may live in a helper whose result is returned as the count
			seenH := map[*ssa.Function]bool{}
			for _, ret := range kit.Returns(sd) {
				if len(ret.Results) != 2 {
					continue
				}
				var visit func(v ssa.Value, d int)
				visit = func(v ssa.Value, d int) {
					if d > 4 {
						return
					}
					switch x := v.(type) {
					case *ssa.Phi:
						for _, e := range x.Edges {
							visit(e, d+1)
						}
					case *ssa.Call:
						if h := x.Call.StaticCallee(); h != nil && h.Pkg == sd.Pkg && len(h.Blocks) > 0 && h.Signature.Results().Len() == 1 && !seenH[h] {
							seenH[h] = true
							counterIn(h, 1)
						}
					}
				}
				visit(kit.RetVal(ret, 0), 0)
			}
		}
		if nInc == 0 {
			c.R.Fail(r, "v2 sendToDLQ: prefix counter", c.Pos(sd.Pos()), "the returned count is not a loop counter incremented under the prefix test (shape changed)")
		}
	}
}
