package rules

import (
	"conduitlint/kit"

	"golang.org/x/tools/go/ssa"
)

func init() {
	register(&Property{
		ID:          "C03",
		Run:         runC03,
		Explanation: "The crash-point quantifier cannot be enumerated statically; what is decided is the chain of structural links every one of which is necessary for at-least-once across a crash: (R1–R4 = C02.R1–R4, re-evaluated) the upstream system hears an ack only on the success edge of a store commit that contains it; (R5 = C17.R5) a pipeline stored as Running is rewritten to the status both engines restart; (R6) a source is reopened with exactly the stored position — the Open request's Position is state().Position and state() reads Instance.State; (R7) connector state reaches the store only through the persister and the tabled service methods; (R8 = C01.R8) a nacked record is acked to the source only after its DLQ write succeeded and only for the stored prefix; (R9) the v2 worker's 'stop arrived before processing' branch discards the batch without acking or nacking anything. Rules added later (after independent seeded changes and defect hunts) are not all enumerated here: every armed rule is listed with its description, kind and instance count under coverage.rules.",
		NotDecided:  []string{"any particular crash instant", "the store's own crash consistency", "plugin behaviour (pruning upstreams)", "the v1 nodes' cancellation arms (decided under C12.R4)"},
		Assumptions: []string{"a committed store transaction is durable", "C02's assumptions"},
	})
}

func runC03(c *Ctx) {
	c02R1(c)
	c02R2(c)
	c02R3(c)
	c02R4(c)
	c17R5(c)
	r6 := c.R.Rule("R6", "K6 restart position: Source.open sends state().Position and state() reads Instance.State", 3)
	posF := c.W.ExtField(pPconn, "SourceOpenRequest", "Position")
	if posF == nil {
		c.R.Unresolved(r6, pPconn+".SourceOpenRequest.Position")
	}
	stateFn := c.Fn(r6, pConn, "(*Source).state")
	statePos := c.Field(r6, pConn, "SourceState", "Position")
	if fn := c.SSA(r6, pConn, "(*Source).open"); fn != nil && posF != nil {
		n := 0
		for _, st := range kit.FieldStores(fn, posF) {
			n++
			ok := false
			if kit.IsFieldLoad(st.Val, statePos) || kit.DerivesFrom(st.Val, func(v ssa.Value) bool { return kit.IsFieldLoad(v, statePos) }) {
				base, _ := kit.FieldBase(st.Val)
				ok = kit.DerivesFrom(base, func(v ssa.Value) bool {
					call, isCall := v.(*ssa.Call)
					return isCall && kit.CalleeOf(call.Common()) == stateFn
				}) || kit.DerivesFrom(st.Val, func(v ssa.Value) bool {
					call, isCall := v.(*ssa.Call)
					return isCall && kit.CalleeOf(call.Common()) == stateFn
				})
			}
			c.R.Check(ok, r6, "Source.open: reopens at the stored position", c.Pos(st.Pos()), "Position: s.state().Position", "the position sent to the plugin on Open is not s.state().Position: after a restart the source would resume from somewhere other than the stored position (records skipped or the whole upstream re-read)", true)
		}
		c.R.Check(n == 1, r6, "Source.open: sets the open position", c.Pos(fn.Pos()), "ok", "Source.open no longer sets SourceOpenRequest.Position", true)
	}
	if fn := c.SSA(r6, pConn, "(*Source).state"); fn != nil {
		stateF := c.Field(r6, pConn, "Instance", "State")
		c.R.Check(len(kit.FieldLoads(fn, stateF)) >= 1, r6, "Source.state reads Instance.State", c.Pos(fn.Pos()), "ok", "Source.state() no longer reads Instance.State", true)
	}
	r7 := c.R.Rule("R7", "K1 persisted-state writers: connector instances reach the store only through the persister and the tabled service methods", 9)
	c.WhoMayRef(r7, "connector.Store.PrepareSet", Set(c.Fn(r7, pConn, "(*Store).PrepareSet")), []string{pConn + ".(*Persister).Persist", pConn + ".(*Store).Set"})
	c.WhoMayRef(r7, "connector.Store.Set", Set(c.Fn(r7, pConn, "(*Store).Set")), []string{
		pConn + ".(*Service).Create", pConn + ".(*Service).Update", pConn + ".(*Service).AddProcessor", pConn + ".(*Service).RemoveProcessor", pConn + ".(*Service).SetState", pConn + ".(*Store).migratePre041",
	})
	c.WhoMayRef(r7, "connector.Store.Delete", Set(c.Fn(r7, pConn, "(*Store).Delete")), []string{pConn + ".(*Service).Init", pConn + ".(*Service).Delete"})
	c.WhoMayRef(r7, "connector.Persister.Persist", Set(c.Fn(r7, pConn, "(*Persister).Persist")), []string{pConn + ".(*Source).Open", pConn + ".(*Source).Ack", pConn + ".(*Destination).Open"})

	c01R8(c) // C03.R8 = C01.R8: the stored position only moves past records whose DLQ write succeeded (prefix count)
	r8 := c.R.Rule("R9", "K3 v2 discard path: when the stop flag is found set after the processing lock was taken, the batch is dropped without any ack or nack", 1)
	if fn := c.SSA(r8, pFunnel, "(*Worker).doTaskAttempt"); fn != nil {
		stopF := c.Field(r8, pFunnel, "Worker", "stop")
		acq := Set(c.Fn(r8, pFunnel, "(*Worker).acquireProcessingLock"))
		ackM := c.Fn(r8, pFunnel, "ackNacker.Ack")
		nackM := c.Fn(r8, pFunnel, "ackNacker.Nack")
		next := c.Fn(r8, pFunnel, "(*Worker).doNextTask")
		var sinks []ssa.Instruction
		sinks = append(sinks, asInstrs(kit.CallsTo(fn, Set(ackM, nackM, next)))...)
		n := 0
		for _, l := range atomicCalls(fn, stopF, "Load") {
			ok, _ := kit.MustPass(l, okGates(kit.CallsTo(fn, acq), ""))
			if !ok {
				continue // not the post-lock check
			}
			n++
			bad := false
			for _, e := range kit.CondEdges(l.Value(), true) {
				for _, s := range sinks {
					if kit.EdgeReaches(e, s, kit.NewGates().AddEdges(loopBackEdges(fn), "")) {
						bad = true
					}
				}
			}
			c.R.Check(!bad, r8, "doTaskAttempt: a batch discarded at stop is neither acked nor nacked nor passed on", c.Pos(l.Pos()), "ok", "on the stop-already-armed edge the batch can still reach an ack/nack/next-task call although the source is already torn down", true)
		}
		c.R.Check(n == 1, r8, "doTaskAttempt: post-lock stop check present", c.Pos(fn.Pos()), "ok", "the stop check after the processing lock is gone", true)
	}
	c09R10As(c, c.R.Rule("R13", "K3 (= C09.R10) v2: only the source read may end a pass quietly — a destination or processor error wrapping context.Canceled still fails the pass instead of dropping the batch and moving the position on with the next one", 1))
	c01R3As(c, c.R.Rule("R12", "K3/K6 (= C01.R3) v1 fan-out: the original message is acked (and its position then persisted) only by the branch that brings the remaining-acks counter, initialised to len(out) when the message is fanned out, to zero", 3))
	c01R4As(c, c.R.Rule("R10", "K3 (= C01.R4) v2: DestinationTask.Do returns nil only when every written position was confirmed — otherwise the restart position moves past records no destination confirmed", 4))
	livePersisted(c, c.R.Rule("R11", "K8 (= C17.R7) the stored records the restart reads are persisted from the live instance or a complete copy", 10))
}
