package rules

import (
	"go/token"
	"go/types"
	"strings"

	"conduitlint/kit"

	"golang.org/x/tools/go/ssa"
)

func init() {
	register(&Property{
		ID:          "C13",
		Run:         runC13,
		Explanation: "Decides the structural clauses of a lossless live processor swap: (R1) the node's processor is replaced only inside applyPendingSwap; (R2) which runs only in the node's Run goroutine, once per loop iteration, before the next record is received; (R3) open-before-teardown — the replacement happens only on the new processor's Open success edge, the old processor is torn down after the replacement, and on the failure edge the current processor is kept, the failed one is torn down and the caller receives a non-nil error; (R4) the hand-off state is mutex-guarded, a cancelled Reconfigure withdraws only its own request, a second concurrent request is refused; (R5) neither TeardownForReconfigure nor MakeRunnableProcessorForReconfigure touches the instance's running flag; (R6) live-swap entry points have closed caller sets, the store is updated before nodes are swapped, and a rollback restores the store before it re-swaps. Rules added later (after independent seeded changes and defect hunts) are not all enumerated here: every armed rule is listed with its description, kind and instance count under coverage.rules.",
		NotDecided:  []string{"which configuration handled a given record at run time", "liveness of the hand-off when the node's Run has already returned"},
		Assumptions: []string{"sync.Mutex; buffered channel semantics"},
	})
	register(&Property{
		ID:          "C16",
		Run:         runC16,
		Explanation: "Decides the structural clauses of a safe live apply: (R1) ApplyPlan/ApplyPlanLive take the per-pipeline lock (deferred unlock) before they re-plan, and every mutating call is dominated by the re-plan's success and the presented-hash == fresh-hash edge; (R2) on a running pipeline nothing is touched unless the restart authorisation flag is set, and the non-live ApplyPlan refuses a running pipeline; (R3) the authorisation flag reaches ApplyPlanLive only as a constant or a constructor-initialised server field, never from a request; (R4) the restart path is StopAndWait[ok] → transactionalImport[ok] → Start and provisioning never calls the non-draining Stop; (R5) the in-place path runs only for a live-eligible diff, updates the store before swapping, rolls back on any swap error, and the rollback always restores the store first; (R6) the not-running import is preceded by a second running check. Rules added later (after independent seeded changes and defect hunts) are not all enumerated here: every armed rule is listed with its description, kind and instance count under coverage.rules.",
		NotDecided:  []string{"the concurrent behaviour itself (composes C06/C15/C03 clauses)", "that the hash covers every relevant part of the state"},
		Assumptions: []string{"pipelineLocks.Lock is a per-id mutex"},
	})
}

func runC13(c *Ctx) {
	c13R13(c)
	r1 := c.R.Rule("R1", "K2 ProcessorNode.Processor is assigned only in applyPendingSwap (and the node constructor)", 2)
	procF := c.Field(r1, pStream, "ProcessorNode", "Processor")
	c.WhoMayWrite(r1, "ProcessorNode.Processor", procF, []string{pStream + ".(*ProcessorNode).applyPendingSwap", pLife + ".(*Service).buildProcessorNode"}, nil)

	r2 := c.R.Rule("R2", "K1/K3 record boundary: applyPendingSwap is called only from ProcessorNode.Run, once, in the node goroutine, and every receive of a message is preceded by it in the same iteration", 3)
	aps := c.Fn(r2, pStream, "(*ProcessorNode).applyPendingSwap")
	c.WhoMayRef(r2, "ProcessorNode.applyPendingSwap", Set(aps), []string{pStream + ".(*ProcessorNode).Run"})
	if run := c.SSA(r2, pStream, "(*ProcessorNode).Run"); run != nil {
		calls := kit.CallsTo(run, Set(aps))
		c.R.Check(len(calls) == 1 && len(kit.CallsToDeep(run, Set(aps))) == 1, r2, "ProcessorNode.Run: one swap point in the Run goroutine", c.Pos(run.Pos()), "ok", "applyPendingSwap is not called exactly once, directly in Run", true)
		// the select that receives messages: every path from one receive to the next passes applyPendingSwap
		for _, sel := range kit.Selects(run) {
			g := kit.NewGates()
			for _, cl := range calls {
				g.AddInstr(cl, "applyPendingSwap")
			}
			isRecv := false
			for _, st := range sel.States {
				if st.Dir == types.RecvOnly && isMsgChanType(st.Chan.Type()) {
					isRecv = true
				}
			}
			if !isRecv {
				continue
			}
			c.R.Check(!kit.Reaches(sel, sel, g), r2, "ProcessorNode.Run: swap point between any two receives", c.Pos(sel.Pos()), "ok", "two messages can be received without passing the swap point in between", true)
			ok, _ := kit.MustPass(sel, g)
			c.R.Check(ok, r2, "ProcessorNode.Run: swap point before the first receive", c.Pos(sel.Pos()), "ok", "the first receive is not preceded by the swap point", true)
			// between the swap point and the receive no record is processed
			proc := c.Fam(c.Fn(r2, pStream, "Processor.Process"))
			for _, cl := range calls {
				for _, pc := range kit.CallsTo(run, proc) {
					c.R.Check(!kit.Reaches(cl, pc, kit.NewGates().AddInstr(sel, "")), r2, "ProcessorNode.Run: no record processed between the swap point and the next receive", c.Pos(pc.Pos()), "ok", "a record can be processed between the swap point and the next receive", true)
				}
			}
		}
	}

	r3 := c.R.Rule("R3", "K3 open-before-teardown in applyPendingSwap", 6)
	if fn := c.SSA(r3, pStream, "(*ProcessorNode).applyPendingSwap"); fn != nil {
		open := c.Fam(c.Fn(r3, pStream, "Processor.Open"))
		tdr := Set(c.Fn(r3, pStream, "teardownForReconfigure"))
		newF := c.Field(r3, pStream, "pendingSwap", "newProcessor")
		opens := kit.CallsTo(fn, open)
		c.R.Check(len(opens) == 1, r3, "applyPendingSwap: opens the new processor", c.Pos(fn.Pos()), "ok", "expected exactly one Open call", true)
		stores := storesToField(fn, procF, nil)
		c.Dominated(r3, "applyPendingSwap: processor replaced only after the new one opened", stores, okGates(opens, ""), "the newProcessor.Open success edge")
		for _, st := range stores {
			s := st.(*ssa.Store)
			c.R.Check(kit.IsFieldLoad(s.Val, newF), r3, "applyPendingSwap: installs the pending processor", c.Pos(s.Pos()), "n.Processor = p.newProcessor", "the installed processor is not the pending one", true)
		}
		// old torn down after the store; its argument is the value loaded before the store
		for _, t := range kit.CallsTo(fn, tdr) {
			arg := t.Common().Args[len(t.Common().Args)-1]
			if kit.IsFieldLoad(arg, procF) {
				// old processor: the load precedes the store, the teardown follows it
				g := kit.NewGates()
				for _, st := range stores {
					g.AddInstr(st, "")
				}
				c.Dominated(r3, "applyPendingSwap: old processor torn down only after the replacement", []ssa.Instruction{t}, g, "the store n.Processor = p.newProcessor")
				for _, st := range stores {
					c.R.Check(kit.InstrDominates(arg.(ssa.Instruction), st), r3, "applyPendingSwap: the torn-down processor is the previous one", c.Pos(t.Pos()), "old := n.Processor before the store", "the processor that is torn down is read after the replacement (it would be the new one)", true)
				}
			} else if kit.IsFieldLoad(arg, newF) {
				// failed new processor: only on the Open failure edge
				gFail := kit.NewGates()
				for _, o := range opens {
					gFail.AddEdges(kit.FailEdges(o), "")
				}
				c.Dominated(r3, "applyPendingSwap: the new processor is torn down only when its Open failed", []ssa.Instruction{t}, gFail, "the Open failure edge")
			}
		}
		// the answer agrees with what runs: once the new processor is switched in the caller is answered nil (an
		// error — e.g. the old processor's teardown failing — makes provisioning roll the store back to the old
		// configuration while the node keeps running the new one)
		for _, b := range fn.Blocks {
			for _, in := range b.Instrs {
				sd, ok := in.(*ssa.Send)
				if !ok {
					continue
				}
				for _, st := range stores {
					if kit.InstrDominates(st, sd) {
						c.R.Check(kit.IsNilConst(sd.X), r3, "applyPendingSwap: after the replacement the caller is answered nil", c.Pos(sd.Pos()), "nil", "an error is answered although the new processor is already switched in: Reconfigure reports a failed swap, applyInPlace rolls the store back to the old configuration and skips re-swapping this node, which keeps processing every later record with the new one — store and running node disagree", true)
					}
				}
			}
		}
		// failure edge: no replacement reachable, error answer non-nil
		for _, o := range opens {
			for _, e := range kit.FailEdges(o) {
				bad := false
				for _, st := range stores {
					if kit.EdgeReaches(e, st, nil) {
						bad = true
					}
				}
				c.R.Check(!bad, r3, "applyPendingSwap: a failed Open keeps the current processor", c.Pos(o.Pos()), "ok", "the processor can be replaced on the Open failure edge", true)
				for _, b := range fn.Blocks {
					for _, in := range b.Instrs {
						if s, ok := in.(*ssa.Send); ok && (b == e.To || e.To.Dominates(b)) {
							c.R.Check(!kit.IsNilConst(s.X), r3, "applyPendingSwap: the caller gets the Open error", c.Pos(s.Pos()), "non-nil error", "nil is answered on the Open failure edge: the caller would believe the new configuration is live", true)
						}
					}
				}
			}
		}
	}

	r4 := c.R.Rule("R4", "K5/K3 hand-off state: pending/wakeCh under swapMu; a cancelled Reconfigure withdraws only its own request; a concurrent request is refused", 8)
	pendF := c.Field(r4, pStream, "ProcessorNode", "pending")
	wakeF := c.Field(r4, pStream, "ProcessorNode", "wakeCh")
	for _, m := range []string{"(*ProcessorNode).Reconfigure", "(*ProcessorNode).applyPendingSwap", "(*ProcessorNode).wake"} {
		if fn := c.SSA(r4, pStream, m); fn != nil {
			c.Guarded(r4, fn, nil, "swapMu", []*types.Var{pendF, wakeF}, nil)
		}
	}
	if fn := c.SSA(r4, pStream, "(*ProcessorNode).Reconfigure"); fn != nil {
		doneF := c.Field(r4, pStream, "pendingSwap", "done")
		var mk ssa.Value
		for _, b := range fn.Blocks {
			for _, in := range b.Instrs {
				if mc, ok := in.(*ssa.MakeChan); ok && isErrChan(mc.Type()) {
					mk = mc
				}
			}
		}
		// withdraw (pending = nil) only when pending.done == done
		gOwn := kit.NewGates().AddEdges(kit.CmpEdges(fn, func(b *ssa.BinOp) (bool, bool) {
			if b.Op == token.EQL && ((kit.IsFieldLoad(b.X, doneF) && kit.IsVar(b.Y, mk)) || (kit.IsFieldLoad(b.Y, doneF) && kit.IsVar(b.X, mk))) {
				return true, true
			}
			return false, false
		}), "pending.done == done")
		c.Dominated(r4, "Reconfigure: a cancelled caller withdraws only its own request", storesToField(fn, pendF, kit.IsNilConst), gOwn, "the n.pending.done == done edge")
		// staging only when no request is pending
		gFree := kit.NewGates()
		for _, l := range kit.FieldLoads(fn, pendF) {
			gFree.AddEdges(kit.NilEdges(l, true), "pending == nil")
		}
		c.Dominated(r4, "Reconfigure: a second concurrent request is refused", storesToField(fn, pendF, func(v ssa.Value) bool { return !kit.IsNilConst(v) }), gFree, "the n.pending == nil edge")
	}

	c13R11(c)
	c13R12(c)

	r5 := c.R.Rule("R5", "K2 running flag untouched by the reconfigure helpers", 2)
	runningF := c.Field(r5, pProc, "Instance", "running")
	for _, m := range []string{"(*RunnableProcessor).TeardownForReconfigure", "(*Service).MakeRunnableProcessorForReconfigure"} {
		fn := c.SSA(r5, pProc, m)
		if fn == nil {
			continue
		}
		bad := false
		// direct and one level of in-package callees
		// the function, its literals, and two levels of in-package callees (with their literals)
		seenF := map[*ssa.Function]bool{}
		var check func(f *ssa.Function, depth int)
		check = func(f *ssa.Function, depth int) {
			if f == nil || seenF[f] || len(f.Blocks) == 0 {
				return
			}
			seenF[f] = true
			for _, ff := range kit.WithAnon(f) {
				for _, meth := range []string{"Store", "Swap", "CompareAndSwap"} {
					if len(atomicCalls(ff, runningF, meth)) > 0 {
						bad = true
					}
				}
				if depth <= 0 {
					continue
				}
				for _, b := range ff.Blocks {
					for _, in := range b.Instrs {
						if ci, ok := in.(ssa.CallInstruction); ok {
							if callee := ci.Common().StaticCallee(); callee != nil && callee.Pkg == fn.Pkg {
								check(callee, depth-1)
							}
						}
					}
				}
			}
		}
		check(fn, 2)
		c.R.Check(!bad, r5, m+" leaves Instance.running alone", c.Pos(fn.Pos()), "ok", m+" writes Instance.running: after a live swap the instance would look stopped (or a failed swap would mark it running twice)", true)
	}

	r7 := c.R.Rule("R7", "K6 the swap is awaited, not abandoned: lifecycle.ReconfigureProcessor hands ProcessorNode.Reconfigure a context without a deadline of its own (a timed-out wait returns an error while the node may still complete the swap: store and node then disagree)", 1)
	if fn := c.SSA(r7, pLife, "(*Service).ReconfigureProcessor"); fn != nil {
		recon := c.Fn(r7, pStream, "(*ProcessorNode).Reconfigure")
		wt := c.W.ExtObj("context", "WithTimeout")
		wd := c.W.ExtObj("context", "WithDeadline")
		calls := kit.CallsTo(fn, Set(recon))
		if len(calls) == 0 {
			c.R.Fail(r7, "ReconfigureProcessor: node.Reconfigure", c.Pos(fn.Pos()), "no call of ProcessorNode.Reconfigure found")
		}
		for _, call := range calls {
			a := call.Common().Args
			bad := len(a) < 2 || kit.DerivesFrom(a[1], func(v ssa.Value) bool {
				if ex, ok := v.(*ssa.Extract); ok {
					v = ex.Tuple
				}
				cl, ok := v.(*ssa.Call)
				if !ok {
					return false
				}
				f := kit.CalleeOf(cl.Common())
				return f != nil && (types.Object(f) == wt || types.Object(f) == wd)
			})
			c.R.Check(!bad, r7, "ReconfigureProcessor: waits for the node without a deadline of its own", c.Pos(call.Pos()), "caller's context", "ReconfigureProcessor bounds its wait for ProcessorNode.Reconfigure with context.WithTimeout/WithDeadline: when the bound expires while the node is already opening the new processor, the caller gets an error and rolls the store back while the node completes the swap", true)
		}
	}
	r8 := c.R.Rule("R8", "K3 what 'not live-reconfigurable' means: lifecycle.ReconfigureProcessor reports ErrProcessorNotLiveReconfigurable only when the pipeline has no such processor node (never for a build or swap failure, which must reach the caller as a failure so the stored config is rolled back)", 1)
	if fn := c.SSA(r8, pLife, "(*Service).ReconfigureProcessor"); fn != nil {
		sentinel := c.W.LookupObj(pLife, "ErrProcessorNotLiveReconfigurable")
		n := 0
		for _, ret := range kit.Returns(fn) {
			v := kit.RetVal(ret, len(ret.Results)-1)
			if kit.IsNilConst(v) || !kit.DerivesFrom(v, func(x ssa.Value) bool { return isGlobalLoad(x, sentinel) }) {
				continue
			}
			n++
			// behind the edge on which the node lookup found nothing
			g := kit.NewGates()
			for _, b := range fn.Blocks {
				for _, in := range b.Instrs {
					if v2, ok := in.(ssa.Value); ok {
						if pt, ok := v2.Type().(*types.Pointer); ok {
							if nt, ok := pt.Elem().(*types.Named); ok && nt.Obj().Name() == "ProcessorNode" {
								g.AddEdges(kit.NilEdges(v2, true), "node == nil")
							}
						}
					}
				}
			}
			c.Dominated(r8, "ReconfigureProcessor: ErrProcessorNotLiveReconfigurable only when there is no such node", []ssa.Instruction{ret}, g, "the node == nil edge")
		}
		c.R.Check(n >= 1, r8, "ReconfigureProcessor: reports a missing node as not live-reconfigurable", c.Pos(fn.Pos()), "ok", "no return of ErrProcessorNotLiveReconfigurable found", false)
	}
	r9 := c.R.Rule("R9", "K4 a staged request is always seen: every exit of ProcessorNode.applyPendingSwap has looked at the pending slot under swapMu (no shortcut in front of the lock can make it skip a request that was staged concurrently)", 1)
	if fn := c.SSA(r9, pStream, "(*ProcessorNode).applyPendingSwap"); fn != nil && len(fn.Blocks) > 0 {
		pendF := c.Field(r9, pStream, "ProcessorNode", "pending")
		ls := kit.Locksets(fn, c.W.StdLockSpec(), nil)
		g := kit.NewGates()
		for _, l := range kit.FieldLoads(fn, pendF) {
			if in, ok := l.(ssa.Instruction); ok && containsLock(ls[in], "recv.swapMu") {
				g.AddInstr(in, "pending read under swapMu")
			}
		}
		ok, _ := kit.AllExitsFromEdge(kit.Edge{To: fn.Blocks[0]}, false, kit.ExitSpec{Gates: g})
		c.R.Check(ok && !g.Empty(), r9, "applyPendingSwap: every exit has read the pending slot under swapMu", c.Pos(fn.Pos()), "ok", "applyPendingSwap can return without reading the pending slot under swapMu (a flag or other shortcut in front of the lock): a request staged while a swap is in flight is never applied and its caller blocks", true)
	}
	rollbackSnapshotAs(c, c.R.Rule("R10", "K6/K3 a failed in-place apply really rolls back: the config rollbackInPlace re-imports flows from an Export taken before transactionalImport(desired) committed the new one (never from an export/callback evaluated on the failure path)", 3))
	r6 := c.R.Rule("R6", "K1/K3 live-swap pairing: closed callers; the store is updated before any node is swapped; a rollback restores the store before re-swapping and always restores it", 8)
	c.WhoMayRef(r6, "processor.Service.UpdateWhileRunning", c.Fam(c.Fn(r6, pProc, "(*Service).UpdateWhileRunning")), []string{pProv + ".(updateProcessorAction).update"})
	reconf := c.Fam(c.Fn(r6, pProv, "LifecycleService.ReconfigureProcessor"))
	c.WhoMayRef(r6, "LifecycleService.ReconfigureProcessor", reconf, []string{pProv + ".(*Service).applyInPlace", pProv + ".(*Service).rollbackInPlace"}, pLife, pLife2)
	ti := Set(c.Fn(r6, pProv, "(*Service).transactionalImport"))
	if fn := c.SSA(r6, pProv, "(*Service).applyInPlace"); fn != nil {
		c.Dominated(r6, "applyInPlace: nodes swapped only after the store holds the new config", asInstrs(kit.CallsTo(fn, reconf)), okGates(kit.CallsTo(fn, ti), ""), "the transactionalImport success edge")
		// any swap error other than not-live-reconfigurable rolls back before returning
		rb := Set(c.Fn(r6, pProv, "(*Service).rollbackInPlace"))
		c.R.Check(len(kit.CallsTo(fn, rb)) >= 1, r6, "applyInPlace: rolls back on a failed swap", c.Pos(fn.Pos()), "ok", "applyInPlace no longer rolls back when a swap fails", true)
	}
	if fn := c.SSA(r6, pProv, "(*Service).rollbackInPlace"); fn != nil {
		imports := kit.CallsTo(fn, ti)
		c.R.Check(len(imports) == 1, r6, "rollbackInPlace: restores the stored config", c.Pos(fn.Pos()), "ok", "rollbackInPlace no longer restores the previous config in the store", true)
		c.Dominated(r6, "rollbackInPlace: store restored before nodes are re-swapped", asInstrs(kit.CallsTo(fn, reconf)), okGates(imports, ""), "the transactionalImport(oldConfig) success edge")
		// restored on every path: every return passes the import call
		g := kit.NewGates()
		for _, i := range imports {
			g.AddInstr(i, "")
		}
		var rets []ssa.Instruction
		for _, ret := range kit.Returns(fn) {
			rets = append(rets, ret)
		}
		c.Dominated(r6, "rollbackInPlace: the store is restored on every path", rets, g, "transactionalImport(oldConfig)")
		// with the old config parameter
		for _, i := range imports {
			a := i.Common().Args
			c.R.Check(fromParam(a[len(a)-1], argParam(fn, 2)), r6, "rollbackInPlace: restores the OLD config", c.Pos(i.Pos()), "ok", "rollbackInPlace imports something other than the old config", true)
		}
	}
}

// rollbackSnapshotAs: the in-place apply commits the desired config first and swaps the nodes afterwards; when a swap
// fails it imports the previous config again. That previous config has to be a snapshot exported BEFORE the commit —
// an export taken afterwards (lazily, on the failure path) is the desired config, the rollback a no-op: the caller
// gets the error, the store keeps the rejected config and the nodes swapped so far keep running it.
func rollbackSnapshotAs(c *Ctx, r string) {
	ti := c.Fn(r, pProv, "(*Service).transactionalImport")
	exp := c.Fn(r, pProv, "(*Service).Export")
	live := c.SSA(r, pProv, "(*Service).ApplyPlanLive")
	apply := c.SSA(r, pProv, "(*Service).applyInPlace")
	rb := c.SSA(r, pProv, "(*Service).rollbackInPlace")
	if ti == nil || exp == nil || live == nil || apply == nil || rb == nil {
		return
	}
	fns := []*ssa.Function{live, apply, rb}
	isCfg := func(t types.Type) bool {
		n, ok := t.(*types.Named)
		return ok && n.Obj().Name() == "Pipeline" && n.Obj().Pkg() != nil && strings.HasSuffix(n.Obj().Pkg().Path(), "/provisioning/config")
	}
	type origin struct {
		kind string // "entry", "export", "other"
		call ssa.CallInstruction
		fn   *ssa.Function
	}
	var originOf func(v ssa.Value, fn *ssa.Function, depth int) origin
	originOf = func(v ssa.Value, fn *ssa.Function, depth int) origin {
		if depth <= 0 {
			return origin{kind: "other"}
		}
		for _, e := range kit.CallsToOK(fn, Set(exp), 2) {
			ev := e.Value()
			if ev != nil && kit.DerivesFrom(v, func(x ssa.Value) bool {
				if x == ssa.Value(ev) {
					return true
				}
				ex, ok := x.(*ssa.Extract)
				return ok && ex.Tuple == ssa.Value(ev)
			}) {
				return origin{kind: "export", call: e, fn: fn}
			}
		}
		for i, prm := range fn.Params {
			if !isCfg(prm.Type()) || !fromParam(v, prm) {
				continue
			}
			if fn == live {
				return origin{kind: "entry"}
			}
			var got *origin
			for _, caller := range fns {
				for _, fl := range kit.WithAnon(caller) {
					for _, call := range kit.CallsTo(fl, Set(fn.Object().(*types.Func))) {
						a := call.Common().Args
						if i >= len(a) {
							continue
						}
						o := originOf(a[i], fl, depth-1)
						if got == nil {
							got = &o
						} else if got.kind != o.kind || got.call != o.call {
							return origin{kind: "other"}
						}
					}
				}
			}
			if got != nil {
				return *got
			}
			return origin{kind: "other"}
		}
		return origin{kind: "other"}
	}
	var commits = map[*ssa.Function][]ssa.CallInstruction{}
	type rbImport struct {
		call ssa.CallInstruction
		fn   *ssa.Function
		o    origin
	}
	var rollbacks []rbImport
	for _, fn := range []*ssa.Function{apply, rb} {
		for _, call := range kit.CallsTo(fn, Set(ti)) {
			a := call.Common().Args
			o := originOf(a[len(a)-1], fn, 4)
			if o.kind == "entry" {
				commits[fn] = append(commits[fn], call)
			} else {
				rollbacks = append(rollbacks, rbImport{call, fn, o})
			}
		}
	}
	c.R.Check(len(commits[apply]) >= 1, r, "applyInPlace: commits the desired config", c.Pos(apply.Pos()), "found", "no transactionalImport of the desired config found in applyInPlace", true)
	c.R.Check(len(rollbacks) >= 1, r, "in-place apply: a rollback import exists", c.Pos(rb.Pos()), "found", "no transactionalImport of a previous config found in applyInPlace / rollbackInPlace", true)
	for _, x := range rollbacks {
		key := kit.FuncKey(x.fn) + ": the restored config is a snapshot exported before the commit"
		switch {
		case x.o.kind == "export" && x.o.fn == live:
			c.R.Pass(r, key, c.Pos(x.call.Pos()), "exported in ApplyPlanLive at "+c.Pos(x.o.call.Pos())+", before applyInPlace is entered", true)
		case x.o.kind == "export" && x.o.fn == apply:
			ok := true
			for _, cm := range commits[apply] {
				if !kit.InstrDominates(x.o.call, cm) {
					ok = false
				}
			}
			c.R.Check(ok, r, key, c.Pos(x.o.call.Pos()), "exported before the commit import", "the config the rollback restores is exported after the desired config was committed: it IS the desired config — the rollback is a no-op, the failed apply leaves the rejected config stored and partly running", true)
		default:
			c.R.Fail(r, key, c.Pos(x.call.Pos()), "the config the rollback restores is not a value exported before transactionalImport(desired) (it is produced on the failure path — a lazy export, a callback, or an export inside rollbackInPlace — i.e. after the commit): it equals the desired config, the rollback is a no-op, and the failed apply leaves the rejected config stored and partly running while the caller is told it failed")
		}
	}
}

func isMsgChanType(t types.Type) bool {
	ch, ok := t.Underlying().(*types.Chan)
	if !ok {
		return false
	}
	pt, ok := ch.Elem().(*types.Pointer)
	if !ok {
		return false
	}
	n, ok := pt.Elem().(*types.Named)
	return ok && n.Obj().Name() == "Message"
}

func runC16(c *Ctx) {
	c16R13(c)
	c06StopAndWait(c, c.R.Rule("R9", "K3 (= C06.R3) what the restart path relies on: StopAndWait returns nil only after Stop[ok] → WaitPipeline[ok] → WaitPersisted[completed], in both engines", 8))
	r8 := c.R.Rule("R8", "K8 what counts as running: provisioning.isRunningStatus answers true for StatusRunning and StatusRecovering (a pipeline parked in its recovery back-off is about to restart: it needs the authorisation and the drain like a running one)", 2)
	if fn := c.SSA(r8, pProv, "isRunningStatus"); fn != nil && len(fn.Params) == 1 {
		st := ssa.Value(fn.Params[0])
		for _, name := range []string{"StatusRunning", "StatusRecovering"} {
			k := c.W.LookupObj(pPipe, name)
			edges := kit.CmpEdges(fn, func(b *ssa.BinOp) (bool, bool) {
				if (b.X == st && isConstObj(b.Y, k)) || (b.Y == st && isConstObj(b.X, k)) {
					switch b.Op {
					case token.EQL:
						return true, true
					case token.NEQ:
						return true, false
					}
				}
				return false, false
			})
			ok := len(edges) > 0
			for _, e := range edges {
				for _, ret := range kit.Returns(fn) {
					if kit.IsBoolConst(kit.RetVal(ret, 0), false) && kit.EdgeReaches(e, ret, nil) {
						ok = false
					}
				}
			}
			c.R.Check(ok, r8, "isRunningStatus("+name+") is true", c.Pos(fn.Pos()), "true", "isRunningStatus no longer answers true for pipeline."+name+": ApplyPlanLive takes its not-running branch for such a pipeline — no operator authorisation, no StopAndWait — while the run (or its recovery restart) is live", true)
		}
	}
	r7 := c.R.Rule("R7", "K5 frozen guarded-by table: the per-pipeline lock registry (pipelineLocks.locks) is accessed only under its mu — the premise of 'one apply per pipeline at a time'", 2)
	c.guardTable(r7, guardEntry{Rel: pProv, Struct: "pipelineLocks", Mutex: "mu", Fields: []string{"locks"}, Min: 2})
	c16R10(c)
	c16R11(c)
	c16R12(c)
	r1 := c.R.Rule("R1", "K3/K4 lock, re-plan, hash: the per-pipeline lock is taken (deferred unlock) before the re-plan; every mutating call is dominated by Plan[ok] and the hash-equal edge", 14)
	r2 := c.R.Rule("R2", "K3 authorisation: a running pipeline is touched only on the allowRestartOnRunning edge; ApplyPlan refuses a running pipeline", 5)
	r4 := c.R.Rule("R4", "K3 drain before mutate: StopAndWait[ok] → transactionalImport[ok] → Start; provisioning never calls the non-draining Stop", 4)
	r5 := c.R.Rule("R5", "K3 in-place only when live-eligible; store first; rollback restores the store on every path before re-swapping", 4)
	r6 := c.R.Rule("R6", "K3 TOCTOU: the not-running import is preceded by a second running check", 1)
	lockFn := c.Fn(r1, pProv, "(*pipelineLocks).Lock")
	plan := Set(c.Fn(r1, pProv, "(*Service).Plan"))
	ti := Set(c.Fn(r1, pProv, "(*Service).transactionalImport"))
	inPlace := Set(c.Fn(r1, pProv, "(*Service).applyInPlace"))
	stopWait := c.Fam(c.Fn(r1, pProv, "LifecycleService.StopAndWait"))
	start := c.Fam(c.Fn(r1, pProv, "LifecycleService.Start"))
	isRunning := Set(c.Fn(r1, pProv, "(*Service).isRunning"))
	hashF := c.Field(r1, pProv, "Diff", "Hash")
	for _, name := range []string{"(*Service).ApplyPlan", "(*Service).ApplyPlanLive"} {
		fn := c.SSA(r1, pProv, name)
		if fn == nil {
			continue
		}
		locks := kit.CallsTo(fn, Set(lockFn))
		c.R.Check(len(locks) == 1, r1, name+": takes the per-pipeline lock", c.Pos(fn.Pos()), "ok", name+" does not take the per-pipeline lock exactly once", true)
		gLock := kit.NewGates()
		for _, l := range locks {
			gLock.AddInstr(l, "pipelineLocks.Lock(id)")
			// the unlock func is deferred
			deferred := false
			for _, b := range fn.Blocks {
				for _, in := range b.Instrs {
					if d, ok := in.(*ssa.Defer); ok && d.Call.Value == l.Value() {
						deferred = true
					}
				}
			}
			c.R.Check(deferred, r1, name+": lock released by defer", c.Pos(l.Pos()), "defer unlock()", "the per-pipeline lock is not released by a deferred call (or is released early): two applies to one pipeline can interleave", true)
			// locked on the desired pipeline's ID
			c.R.Check(kit.DerivesFromPath(l.Common().Args[len(l.Common().Args)-1], "ID"), r1, name+": lock keyed by the pipeline ID", c.Pos(l.Pos()), "ok", "the lock is not keyed by desired.ID", true)
		}
		plans := kit.CallsTo(fn, plan)
		c.Dominated(r1, name+": re-plan happens under the lock", asInstrs(plans), gLock, "pipelineLocks.Lock(desired.ID)")
		hashParam := argParam(fn, 2)
		gHash := kit.NewGates().AddEdges(kit.CmpEdges(fn, func(b *ssa.BinOp) (bool, bool) {
			if (kit.IsFieldLoad(b.X, hashF) && kit.IsVar(b.Y, hashParam)) || (kit.IsFieldLoad(b.Y, hashF) && kit.IsVar(b.X, hashParam)) {
				switch b.Op {
				case token.NEQ:
					return true, false
				case token.EQL:
					return true, true
				}
			}
			return false, false
		}), "fresh.Hash == hash")
		var mutating []ssa.Instruction
		for _, set := range []kit.FuncSet{ti, inPlace, stopWait, start} {
			mutating = append(mutating, asInstrs(kit.CallsTo(fn, set))...)
		}
		if len(mutating) == 0 {
			c.R.Fail(r1, name+": mutating calls", c.Pos(fn.Pos()), "no mutating call found")
		}
		c.Dominated(r1, name+": nothing is mutated unless the presented hash equals the fresh plan's", mutating, gHash, "the fresh.Hash == hash edge")
		c.Dominated(r1, name+": nothing is mutated unless the re-plan succeeded", mutating, okGates(plans, ""), "the Plan success edge")
		// the compared hash belongs to the fresh plan
		for _, p := range plans {
			_ = p
		}
		// R2
		runs := kit.CallsTo(fn, isRunning)
		if name == "(*Service).ApplyPlan" {
			g := kit.NewGates()
			for _, rc := range runs {
				if v := kit.ResultN(rc, 0); v != nil {
					g.AddEdges(kit.CondEdges(v, false), "!running")
				}
			}
			c.Dominated(r2, "ApplyPlan: a running pipeline is refused", asInstrs(kit.CallsTo(fn, ti)), g, "the !running edge")
			c.Dominated(r2, "ApplyPlan: running state checked (success) before importing", asInstrs(kit.CallsTo(fn, ti)), okGates(runs, ""), "the isRunning success edge")
			c.R.Check(len(kit.CallsTo(fn, stopWait))+len(kit.CallsTo(fn, start))+len(kit.CallsTo(fn, inPlace)) == 0, r2, "ApplyPlan never stops, starts or live-swaps a pipeline", c.Pos(fn.Pos()), "ok", "the non-live ApplyPlan touches a pipeline's lifecycle", true)
			continue
		}
		allowP := argParam(fn, 3)
		gAuth := kit.NewGates()
		if allowP != nil {
			gAuth.AddEdges(kit.CondEdges(allowP, true), "allowRestartOnRunning")
			if refs := allowP.Referrers(); refs != nil {
				for _, rr := range *refs {
					if st, ok := rr.(*ssa.Store); ok {
						for _, l := range kit.ReachingLoads(st) {
							gAuth.AddEdges(kit.CondEdges(l, true), "")
						}
					}
				}
			}
		}
		// `running` is one SSA value tested twice (`running && !allow` and `!running`): a path that saw running==false at the first test cannot see it true at the second, so every running==false edge discharges the obligation
		for _, blk := range fn.Blocks {
			if len(blk.Instrs) == 0 {
				continue
			}
			iff, ok := blk.Instrs[len(blk.Instrs)-1].(*ssa.If)
			if !ok {
				continue
			}
			cond := iff.Cond
			neg := false
			if u, ok := cond.(*ssa.UnOp); ok && u.Op == token.NOT {
				cond, neg = u.X, true
			}
			isRun := kit.DerivesFrom(cond, func(v ssa.Value) bool {
				ex, ok := v.(*ssa.Extract)
				if !ok || ex.Index != 0 {
					return false
				}
				call, ok := ex.Tuple.(*ssa.Call)
				return ok && isRunning.Has(kit.CalleeOf(call.Common()))
			})
			if !isRun {
				continue
			}
			if neg {
				gAuth.Edges[kit.Edge{From: blk, To: blk.Succs[0]}] = true
			} else {
				gAuth.Edges[kit.Edge{From: blk, To: blk.Succs[1]}] = true
			}
		}
		var touching []ssa.Instruction
		touching = append(touching, asInstrs(kit.CallsTo(fn, inPlace))...)
		touching = append(touching, asInstrs(kit.CallsTo(fn, stopWait))...)
		touching = append(touching, asInstrs(kit.CallsTo(fn, start))...)
		c.Dominated(r2, "ApplyPlanLive: a running pipeline is touched only with operator authorisation", touching, gAuth, "the allowRestartOnRunning edge")
		// imports: either the not-running arm, or after StopAndWait
		for _, ic := range kit.CallsTo(fn, ti) {
			g := kit.NewGates()
			for _, sw := range kit.CallsTo(fn, stopWait) {
				g.AddEdges(kit.OKEdges(sw), "StopAndWait ok")
			}
			// the running variable is a phi/cell of isRunning results: accept any !running edge on a value derived from isRunning
			g.AddEdges(kit.CmpEdges(fn, func(b *ssa.BinOp) (bool, bool) { return false, false }), "")
			for _, blk := range fn.Blocks {
				if len(blk.Instrs) == 0 {
					continue
				}
				iff, ok := blk.Instrs[len(blk.Instrs)-1].(*ssa.If)
				if !ok {
					continue
				}
				isRun := kit.DerivesFrom(iff.Cond, func(v ssa.Value) bool {
					ex, ok := v.(*ssa.Extract)
					if !ok || ex.Index != 0 {
						return false
					}
					call, ok := ex.Tuple.(*ssa.Call)
					return ok && isRunning.Has(kit.CalleeOf(call.Common()))
				})
				if !isRun {
					continue
				}
				if u, ok := iff.Cond.(*ssa.UnOp); ok && u.Op == token.NOT {
					g.Edges[kit.Edge{From: blk, To: blk.Succs[0]}] = true // !running true edge
				} else {
					g.Edges[kit.Edge{From: blk, To: blk.Succs[1]}] = true // running false edge
				}
			}
			c.Dominated(r4, "ApplyPlanLive: the store is changed only for a not-running pipeline or after StopAndWait succeeded", []ssa.Instruction{ic}, g, "the !running edge or the StopAndWait success edge")
		}
		// R4 restart order
		sws := kit.CallsTo(fn, stopWait)
		sts := kit.CallsTo(fn, start)
		c.R.Check(len(sws) == 1 && len(sts) == 1, r4, "ApplyPlanLive: one drain and one restart", c.Pos(fn.Pos()), "ok", "expected exactly one StopAndWait and one Start", true)
		// Start after an import that followed StopAndWait
		gImp := kit.NewGates()
		for _, ic := range kit.CallsTo(fn, ti) {
			for _, sw := range sws {
				if kit.InstrDominates(sw, ic) {
					gImp.AddEdges(kit.OKEdges(ic), "import ok")
				}
			}
		}
		c.Dominated(r4, "ApplyPlanLive: restart only after the import that followed the drain succeeded", asInstrs(sts), gImp, "the transactionalImport success edge after StopAndWait")
		// R5
		le := Set(c.Fn(r5, pProv, "(Diff).LiveEligible"))
		c.Dominated(r5, "ApplyPlanLive: in-place apply only for a live-eligible diff", asInstrs(kit.CallsTo(fn, inPlace)), kit.NewGates().AddEdges(condEdgesOfCalls(fn, le, true), ""), "the fresh.LiveEligible() edge")
		// StopAndWait (restart path) is not reachable from a successful full in-place swap
		for _, ip := range kit.CallsTo(fn, inPlace) {
			if sw := kit.ResultN(ip, 0); sw != nil {
				bad := false
				for _, e := range kit.CondEdges(sw, true) {
					for _, s := range sws {
						if kit.EdgeReaches(e, s, nil) {
							bad = true
						}
					}
				}
				c.R.Check(!bad, r5, "ApplyPlanLive: a completed in-place apply does not also restart", c.Pos(ip.Pos()), "ok", "the restart path is reachable after all processors were swapped in place", true)
			}
		}
		// R6
		if len(runs) >= 2 {
			c.R.Pass(r6, "ApplyPlanLive: running state re-checked", c.Pos(fn.Pos()), "2 isRunning calls", false)
		} else {
			c.R.Fail(r6, "ApplyPlanLive: running state re-checked", c.Pos(fn.Pos()), "the second isRunning check before the not-running import is gone")
		}
	}
	c.WhoMayRef(r4, "LifecycleService.Stop (non-draining) from provisioning", c.Fam(c.Fn(r4, pProv, "LifecycleService.Stop")), []string{pLife + ".(*Service).StopAndWait", pLife2 + ".(*Service).StopAndWait"})
	// rollback restores on every path (shared with C13.R6)
	if fn := c.SSA(r5, pProv, "(*Service).rollbackInPlace"); fn != nil {
		imports := kit.CallsTo(fn, ti)
		g := kit.NewGates()
		for _, i := range imports {
			g.AddInstr(i, "")
		}
		var rets []ssa.Instruction
		for _, ret := range kit.Returns(fn) {
			rets = append(rets, ret)
		}
		c.Dominated(r5, "rollbackInPlace: the stored config is restored on every path", rets, g, "transactionalImport(oldConfig)")
		reconf := c.Fam(c.Fn(r5, pProv, "LifecycleService.ReconfigureProcessor"))
		c.Dominated(r5, "rollbackInPlace: store restored before nodes are re-swapped", asInstrs(kit.CallsTo(fn, reconf)), okGates(imports, ""), "the transactionalImport(oldConfig) success edge")
	}
	// R3 flag provenance
	r3 := c.R.Rule("R3", "K6/K1 authorisation flag provenance: ApplyPlanLive is called only from the API handler and the dev watcher, with a constant or a constructor-initialised server field as the authorisation flag", 4)
	apl := c.Fn(r3, pProv, "(*Service).ApplyPlanLive")
	c.WhoMayRef(r3, "ApplyPlanLive", c.Fam(apl), []string{"pkg/http/api.(*PipelineAPIv1).ApplyPipeline", "pkg/conduit/dev.(*Watcher).applyPipeline"})
	allowF := c.Field(r3, "pkg/http/api", "PipelineAPIv1", "allowLiveRestartApply")
	c.WhoMayWrite(r3, "PipelineAPIv1.allowLiveRestartApply", allowF, []string{"pkg/http/api.NewPipelineAPIv1"}, nil)
	for _, t := range [][2]string{{"pkg/http/api", "(*PipelineAPIv1).ApplyPipeline"}, {"pkg/conduit/dev", "(*Watcher).applyPipeline"}} {
		fn := c.SSA(r3, t[0], t[1])
		if fn == nil {
			continue
		}
		for _, call := range kit.CallsToDeep(fn, c.Fam(apl)) {
			a := call.Common().Args
			flag := a[len(a)-1]
			_, isConst := flag.(*ssa.Const)
			ok := isConst || kit.IsFieldLoad(flag, allowF)
			c.R.Check(ok, r3, t[1]+": authorisation flag is a constant or the server's own setting", c.Pos(call.Pos()), "ok", "the restart authorisation passed to ApplyPlanLive in "+t[1]+" is neither a constant nor the constructor-initialised server field: a request could authorise its own live apply", true)
		}
	}
}

// c16R10: "one apply per pipeline at a time" holds only while every apply to a pipeline locks the SAME mutex: an
// entry of the lock registry is never forgotten while it may be held (no delete, the map is never replaced), and Lock
// locks the mutex that is in the registry.
func c16R10(c *Ctx) {
	r := c.R.Rule("R10", "K2 a pipeline's apply mutex is never forgotten: no delete from pipelineLocks.locks, the map is assigned only by its constructor, and Lock locks (and returns the Unlock of) the mutex stored in the map", 3)
	locksF := c.Field(r, pProv, "pipelineLocks", "locks")
	lock := c.SSA(r, pProv, "(*pipelineLocks).Lock")
	pkg := c.W.Pkg(pProv)
	if locksF == nil || lock == nil || pkg == nil {
		return
	}
	n := 0
	for _, fn := range c.W.AllFuncs(c.W.SSA[pkg.Types]) {
		for _, b := range fn.Blocks {
			for _, in := range b.Instrs {
				if call, ok := in.(*ssa.Call); ok {
					if bi, ok := call.Call.Value.(*ssa.Builtin); ok && (bi.Name() == "delete" || bi.Name() == "clear") && len(call.Call.Args) > 0 && kit.IsFieldLoad(call.Call.Args[0], locksF) {
						n++
						c.R.Fail(r, kit.FuncKey(fn)+": entry removed from the lock registry", c.Pos(call.Pos()), "an entry of pipelineLocks.locks is deleted: an apply that still holds (or waits for) that mutex no longer excludes a later apply to the same pipeline, which gets a fresh mutex — two applies re-plan, drain, import and restart the same pipeline concurrently, and a plan the first one is about to make stale is still accepted")
					}
				}
				if st, ok := in.(*ssa.Store); ok && kit.SameField(kit.FieldOf(st.Addr), locksF) {
					okc := fn.Name() == "newPipelineLocks"
					c.R.Check(okc, r, kit.FuncKey(fn)+": the lock registry map is assigned", c.Pos(st.Pos()), "constructor", "pipelineLocks.locks is replaced outside its constructor: mutexes that are held are forgotten", true)
				}
			}
		}
	}
	if n == 0 {
		c.R.Pass(r, "pipelineLocks.locks: no entry is ever removed", c.Pos(lock.Pos()), "no delete/clear", true)
	}
	// Lock locks a mutex that is in the map: the locked value is the looked-up entry or the one just inserted
	mLock := c.W.ExtMethod("sync", "Mutex", "Lock")
	okLock := false
	for _, call := range kit.CallsTo(lock, Set(mLock)) {
		recv := call.Common().Args[0]
		if kit.IsFieldLoad(recv, c.Field(r, pProv, "pipelineLocks", "mu")) || kit.FieldOf(recv) != nil {
			continue
		}
		var inRegistry func(x ssa.Value, depth int) bool
		inRegistry = func(x ssa.Value, depth int) bool {
			if lk, ok := x.(*ssa.Lookup); ok && kit.IsFieldLoad(lk.X, locksF) {
				return true
			}
			if refs := x.Referrers(); refs != nil {
				for _, u := range *refs {
					if mu, ok := u.(*ssa.MapUpdate); ok && mu.Value == x && kit.IsFieldLoad(mu.Map, locksF) {
						return true
					}
				}
			}
			// the result of a same-package helper all of whose returns hand out a registered mutex
			if cl, ok := x.(*ssa.Call); ok && depth > 0 {
				if h := cl.Call.StaticCallee(); h != nil && h.Pkg == lock.Pkg && len(h.Blocks) > 0 {
					rets := kit.Returns(h)
					okAll := len(rets) > 0
					for _, rt := range rets {
						if !kit.DerivesFrom(kit.RetVal(rt, 0), func(y ssa.Value) bool { return inRegistry(y, depth-1) }) {
							okAll = false
						}
					}
					return okAll
				}
			}
			return false
		}
		inMap := kit.DerivesFrom(recv, func(x ssa.Value) bool {
			if inRegistry(x, 2) {
				return true
			}
			if lk, ok := x.(*ssa.Lookup); ok && kit.IsFieldLoad(lk.X, locksF) {
				return true
			}
			// inserted: some MapUpdate on the registry stores x
			refs := x.Referrers()
			if refs != nil {
				for _, u := range *refs {
					if mu, ok := u.(*ssa.MapUpdate); ok && mu.Value == x && kit.IsFieldLoad(mu.Map, locksF) {
						return true
					}
				}
			}
			return false
		})
		c.R.Check(inMap, r, "pipelineLocks.Lock: locks the registered mutex", c.Pos(call.Pos()), "the looked-up / inserted entry", "Lock locks a mutex that is not the one stored in the registry for this id", true)
		okLock = okLock || inMap
	}
	c.R.Check(okLock, r, "pipelineLocks.Lock: a per-id mutex is locked", c.Pos(lock.Pos()), "found", "no Lock of a per-id mutex found in pipelineLocks.Lock", true)
}

// c16R11: a failed (re)start leaves the pipeline cleanly stopped (v2): when a worker fails to open, every worker
// opened before it and the shared sink are closed before Start returns the error — otherwise the connector stays
// 'running', every later Start fails and the persister never quiesces.
func c16R11(c *Ctx) {
	r := c.R.Rule("R11", "K4/K9 v2 failed start leaves nothing open: behind the failure edge of Worker.Open in runPipeline every exit closes the sink, and the workers opened so far are closed by a loop that covers all of them (index span [0, len(opened)-1] or [0, i-1] of the opened prefix)", 3)
	fn := c.SSA(r, pLife2, "(*Service).runPipeline")
	wOpen := c.Fn(r, pFunnel, "(*Worker).Open")
	wClose := c.Fn(r, pFunnel, "(*Worker).Close")
	sClose := c.Fn(r, pFunnel, "(*Sink).Close")
	if fn == nil || wOpen == nil || wClose == nil || sClose == nil {
		return
	}
	opens := kit.CallsTo(fn, Set(wOpen))
	c.R.Check(len(opens) == 1, r, "v2 runPipeline: Worker.Open", c.Pos(fn.Pos()), "found", "expected exactly one Worker.Open call in runPipeline", true)
	for _, o := range opens {
		// the opening loop: index and slice of the worker that is opened
		oSlice, oIdx := elemOf(o.Common().Args[0])
		for _, e := range kit.FailEdges(o) {
			g := kit.NewGates()
			for _, sc := range kit.CallsTo(fn, Set(sClose)) {
				g.AddInstr(sc, "rp.sink.Close")
			}
			ok, exit := kit.AllExitsFromEdge(e, false, kit.ExitSpec{Gates: g})
			c.R.Check(ok && !g.Empty(), r, "v2 runPipeline: a failed Worker.Open closes the sink on every exit", c.Pos(o.Pos()), "sink.Close", "an exit (block "+fmtInts(exit)+") behind the Worker.Open failure edge does not close the shared sink", true)
			found := false
			for _, cl := range kit.CallsTo(fn, Set(wClose)) {
				if !(cl.Block() == e.To || e.To.Dominates(cl.Block())) {
					continue
				}
				found = true
				cSlice, cIdx := elemOf(cl.Common().Args[0])
				if cSlice == nil {
					c.R.Fail(r, "v2 runPipeline: opened workers are closed by a covering loop", c.Pos(cl.Pos()), "the closed worker is not an element of a slice indexed by a loop counter: cannot show that every opened worker is closed")
					continue
				}
				sp, okSp := kit.IndexSpan(cIdx)
				cov := false
				why := "the loop closing the opened workers is not a recognised counting loop"
				if okSp {
					why = "the loop closing the workers opened so far does not cover all of them (its index does not run over [0, len(opened)-1] / [0, i-1]): a worker that was opened stays open — its source plugin and DLQ keep running, nothing in runningPipelines can reach them, every later Start fails with 'connector is running' and the persister never quiesces"
					loOK := sp.Lo.Base == nil && sp.Lo.Off == 0
					hiOK := false
					if sp.Hi.Off == -1 && sp.Hi.Base != nil {
						// len(S) - 1 with S the indexed slice
						if lc, ok := sp.Hi.Base.(*ssa.Call); ok {
							if bi, ok := lc.Call.Value.(*ssa.Builtin); ok && bi.Name() == "len" && sameSlice(lc.Call.Args[0], cSlice) {
								hiOK = openedPrefix(cSlice, o, oSlice, oIdx)
							}
						}
						// i - 1 with i the index of the opening loop over the same slice
						if sp.Hi.Base == oIdx && oIdx != nil && sameSlice(cSlice, oSlice) {
							if osp, ok := kit.IndexSpan(oIdx); ok && osp.Lo.Base == nil && osp.Lo.Off == 0 && !osp.Down {
								hiOK = true
							}
						}
					}
					cov = loOK && hiOK
				}
				c.R.Check(cov, r, "v2 runPipeline: opened workers are closed by a covering loop", c.Pos(cl.Pos()), "[0, n-1]", why, true)
			}
			if !found {
				// a same-package helper that closes every element of the slice it is handed
				for _, b := range fn.Blocks {
					if !(b == e.To || e.To.Dominates(b)) {
						continue
					}
					for _, in := range b.Instrs {
						call, ok := in.(*ssa.Call)
						if !ok {
							continue
						}
						h := call.Call.StaticCallee()
						if h == nil || h.Pkg != fn.Pkg || len(h.Blocks) == 0 {
							continue
						}
						for _, cl := range kit.CallsTo(h, Set(wClose)) {
							hs, hi := elemOf(cl.Common().Args[0])
							prm, isPrm := hs.(*ssa.Parameter)
							if !isPrm {
								continue
							}
							sp, okSp := kit.IndexSpan(hi)
							covers := okSp && sp.Lo.Base == nil && sp.Lo.Off == 0 && sp.Hi.Off == -1
							if covers {
								lc, isLen := sp.Hi.Base.(*ssa.Call)
								covers = isLen && len(lc.Call.Args) == 1 && lc.Call.Args[0] == ssa.Value(prm)
							}
							for i, hp := range h.Params {
								if hp == prm && i < len(call.Call.Args) {
									found = true
									c.R.Check(covers && openedPrefix(call.Call.Args[i], o, oSlice, oIdx), r, "v2 runPipeline: opened workers are closed by a covering loop", c.Pos(call.Pos()), "helper closes [0, len-1] of the opened prefix", "the helper that closes the workers opened so far does not cover all of them, or is not handed the opened prefix", true)
								}
							}
						}
					}
				}
			}
			c.R.Check(found, r, "v2 runPipeline: a failed Worker.Open closes the workers opened before", c.Pos(o.Pos()), "Worker.Close", "no Worker.Close behind the Worker.Open failure edge: workers opened before the failing one stay open", true)
		}
	}
}

// elemOf: v == s[i] → (s, i).
func elemOf(v ssa.Value) (ssa.Value, ssa.Value) {
	u, ok := v.(*ssa.UnOp)
	if !ok || u.Op != token.MUL {
		return nil, nil
	}
	ia, ok := u.X.(*ssa.IndexAddr)
	if !ok {
		return nil, nil
	}
	return ia.X, ia.Index
}

func sameSlice(a, b ssa.Value) bool {
	if a == nil || b == nil {
		return false
	}
	if a == b {
		return true
	}
	pa, pb := kit.PathOf(a), kit.PathOf(b)
	return pa != "" && pa == pb && kit.FieldOf(a) != nil
}

// openedPrefix: s holds exactly the workers opened so far — a local slice that is appended to on Open's success
// path, or the prefix workers[:i] of the slice the opening loop ranges over (i its index).
func openedPrefix(s ssa.Value, open ssa.CallInstruction, oSlice, oIdx ssa.Value) bool {
	if appendedOnSuccess(open.Parent(), s, open) {
		return true
	}
	if sl, ok := s.(*ssa.Slice); ok && oIdx != nil && sl.High == oIdx && (sl.Low == nil || kit.IsIntConst(sl.Low, 0)) && sameSlice(sl.X, oSlice) {
		return true
	}
	return false
}

// appendedOnSuccess: s is a local slice (a loop phi) that receives the opened worker by append on the path that
// continues the opening loop.
func appendedOnSuccess(fn *ssa.Function, s ssa.Value, open ssa.CallInstruction) bool {
	phi, ok := s.(*ssa.Phi)
	if !ok {
		return false
	}
	for _, e := range phi.Edges {
		call, ok := e.(*ssa.Call)
		if !ok {
			continue
		}
		if bi, ok := call.Call.Value.(*ssa.Builtin); !ok || bi.Name() != "append" || call.Call.Args[0] != ssa.Value(phi) {
			continue
		}
		// on the success side of Open
		for _, oe := range kit.OKEdges(open) {
			if oe.To == call.Block() || oe.To.Dominates(call.Block()) {
				return true
			}
		}
	}
	return false
}

// c13R11: F31. A staged swap is applied only by the node's Run goroutine. Once Run has returned (the run failed and
// sits in its recovery back-off, or it is ending) nobody will ever apply it: a deferred function of Run marks the
// node stopped under swapMu and answers a request that is still pending, and Reconfigure refuses to stage a request
// on a stopped node — otherwise applyInPlace (which calls with a context that cannot be cancelled) waits for ever
// with the per-pipeline apply lock held and the new configuration already committed.
func c13R11(c *Ctx) {
	r := c.R.Rule("R11", "K4/K3 a staged swap is always answered: a deferred function of ProcessorNode.Run sets a stopped flag under swapMu and answers the pending request; Reconfigure stages a request only behind the !stopped edge (read under swapMu)", 4)
	run := c.SSA(r, pStream, "(*ProcessorNode).Run")
	rec := c.SSA(r, pStream, "(*ProcessorNode).Reconfigure")
	pendF := c.Field(r, pStream, "ProcessorNode", "pending")
	doneF := c.Field(r, pStream, "pendingSwap", "done")
	T := c.W.LookupType(pStream, "ProcessorNode")
	if run == nil || rec == nil || pendF == nil || doneF == nil || T == nil {
		return
	}
	// the flag: a bool field of ProcessorNode stored true in a deferred closure of Run
	var flag *types.Var
	var closure *ssa.Function
	st := T.Underlying().(*types.Struct)
	for _, b := range run.Blocks {
		for _, in := range b.Instrs {
			d, ok := in.(*ssa.Defer)
			if !ok {
				continue
			}
			cl := closureOf(d)
			if cl == nil {
				continue
			}
			for i := 0; i < st.NumFields(); i++ {
				f := st.Field(i)
				if b, ok := f.Type().Underlying().(*types.Basic); !ok || b.Kind() != types.Bool {
					continue
				}
				for _, s2 := range kit.FieldStores(cl, f) {
					if kit.IsBoolConst(s2.Val, true) {
						flag, closure = f, cl
					}
				}
			}
		}
	}
	if flag == nil {
		c.R.Fail(r, "ProcessorNode.Run: marks the node stopped on exit", c.Pos(run.Pos()), "no deferred function of ProcessorNode.Run sets a stopped flag: a Reconfigure issued after Run returned (the pipeline is Recovering — provisioning counts that as running — or the run is ending) stages its request and waits for a goroutine that no longer exists; applyInPlace calls it with context.WithoutCancel, so the apply never returns, keeps the per-pipeline lock, and has already committed the new configuration")
		return
	}
	c.R.Pass(r, "ProcessorNode.Run: marks the node stopped on exit", c.Pos(closure.Pos()), "n."+flag.Name()+" = true in a deferred function", true)
	// under swapMu in both functions
	c.Guarded(r, closure, nil, "swapMu", []*types.Var{flag, pendF}, nil)
	c.Guarded(r, rec, nil, "swapMu", []*types.Var{flag}, nil)
	// the deferred function answers a pending request
	answered := false
	for _, b := range closure.Blocks {
		for _, in := range b.Instrs {
			if sd, ok := in.(*ssa.Send); ok && kit.IsFieldLoad(sd.Chan, doneF) && !kit.IsNilConst(sd.X) {
				answered = true
			}
		}
	}
	c.R.Check(answered, r, "ProcessorNode.Run: a request still pending at exit is answered with an error", c.Pos(closure.Pos()), "p.done <- err", "the deferred function of Run does not answer the request that is still pending when Run returns: its Reconfigure caller waits for ever", true)
	// Reconfigure stages only on a node that is not stopped
	g := kit.NewGates()
	for _, l := range kit.FieldLoads(rec, flag) {
		g.AddEdges(kit.CondEdges(l, false), "!n."+flag.Name())
	}
	c.Dominated(r, "Reconfigure: a request is staged only on a node whose Run is alive", storesToField(rec, pendF, func(v ssa.Value) bool { return !kit.IsNilConst(v) }), g, "the !n."+flag.Name()+" edge")
}

// c16R12: F32. applyInPlace commits the desired configuration BEFORE it swaps the nodes. Whenever it does not end
// with every change applied in place it must have put the old configuration back — also on the "not live
// reconfigurable, fall back to a restart" arm: the fallback's StopAndWait can fail before anything was stopped, and
// then the pipeline keeps running the old processors while the store holds the new configuration (and a re-plan is
// empty, so a retry is a no-op).
func c16R12(c *Ctx) {
	r := c.R.Rule("R12", "K4 an in-place apply that is not completed is undone: behind the success edge of the commit import in applyInPlace every return other than `true, nil` lies behind a rollbackInPlace call", 2)
	fn := c.SSA(r, pProv, "(*Service).applyInPlace")
	ti := c.Fn(r, pProv, "(*Service).transactionalImport")
	rb := c.Fn(r, pProv, "(*Service).rollbackInPlace")
	if fn == nil || ti == nil || rb == nil {
		return
	}
	g := kit.NewGates()
	for _, call := range kit.CallsTo(fn, Set(rb)) {
		g.AddInstr(call, "rollbackInPlace")
	}
	n := 0
	for _, commit := range kit.CallsTo(fn, Set(ti)) {
		for _, e := range kit.OKEdges(commit) {
			for _, ret := range kit.Returns(fn) {
				if !(ret.Block() == e.To || e.To.Dominates(ret.Block())) {
					continue
				}
				if kit.IsBoolConst(kit.RetVal(ret, 0), true) {
					continue
				}
				n++
				ok, path := kit.MustPass(ret, g)
				_ = path
				// only paths behind the commit count: the return is dominated by the success edge, so a path that
				// avoids every rollback call inside that region is a real one
				c.R.Check(ok, r, "applyInPlace: a return that did not apply everything has rolled back", c.Pos(posOf(ret)), "behind rollbackInPlace", "applyInPlace returns without having applied every change in place and without rolling back (e.g. the ErrProcessorNotLiveReconfigurable arm that falls back to a restart): the desired config stays committed while the pipeline runs the old processors; if the restart fallback then fails before stopping anything (StopAndWait error) the failed apply has changed the stored configuration, and Plan is empty so a retry does nothing", true)
			}
		}
	}
	c.R.Check(n >= 1, r, "applyInPlace: incomplete returns behind the commit", c.Pos(fn.Pos()), "found", "no return other than `true, nil` found behind the commit import", true)
}

// c13R12: F76. A live reconfigure builds the replacement processor while the one it replaces is still running
// (open-before-teardown) — for a standalone (WASM) processor that means two module instances for the SAME processor id
// are alive at once, and the wazero runtime refuses a second live module with the same name. The instance name must
// therefore not be the bare processor id.
func c13R12(c *Ctx) {
	r := c.R.Rule("R12", "K6 a standalone processor can be reconfigured live: the wazero module instance name newWASMProcessor configures (ModuleConfig.WithName) is computed per instantiation, not the bare processor id parameter", 1)
	const pStandalone = "pkg/plugin/processor/standalone"
	fn := c.SSA(r, pStandalone, "newWASMProcessor")
	if fn == nil {
		return
	}
	var idParam ssa.Value
	for _, prm := range fn.Params {
		if prm.Name() == "id" {
			idParam = prm
		}
	}
	n := 0
	for _, b := range fn.Blocks {
		for _, in := range b.Instrs {
			ci, ok := in.(ssa.CallInstruction)
			if !ok || !ci.Common().IsInvoke() || ci.Common().Method.Name() != "WithName" {
				continue
			}
			n++
			arg := ci.Common().Args[0]
			bare := idParam != nil && (arg == idParam || kit.IsVar(arg, idParam))
			c.R.Check(!bare, r, "newWASMProcessor: the module instance name is unique per instantiation", c.Pos(ci.Pos()), "computed name", "the WASM module instance is named after the processor id alone: a live reconfigure instantiates the replacement for the same id while the old module is still running, wazero refuses it ('module[<id>] has already been instantiated'), MakeRunnableProcessorForReconfigure always fails and the in-place apply is rolled back — a standalone processor can never be reconfigured live", true)
		}
	}
	c.R.Check(n >= 1, r, "newWASMProcessor: ModuleConfig.WithName", c.Pos(fn.Pos()), "found", "no WithName call found in newWASMProcessor", true)
}
