package rules

import (
	"go/token"
	"go/types"

	"conduitlint/kit"

	"golang.org/x/tools/go/ssa"
)

const pPconn = "github.com/conduitio/conduit-connector-protocol/pconnector"

func init() {
	register(&Property{
		ID:  "C02",
		Run: runC02,
		Explanation: "Decides the structural chain behind 'position durable before the connector is told, only forward': the only place that puts AckPositions on the plugin stream is the delivery goroutine fed from the deferred-ack queue (K1/K2); " +
			"that queue is appended only in the persist callback, on its err==nil edge and under the seq<=durable test (K3); the persist callback's error argument carries the result of every store write and of the commit, and callbacks start only after the commit call (K6/K7/K3 in Persister.flushNow); " +
			"every access to the ack bookkeeping and to the persister's batch state is under its mutex (K5 lockset); Instance.State has a closed writer set and Source.Ack stores the last position of its argument; empty positions are refused before Source.Ack in the v2 worker; Source.Teardown performs flush → wait → close queue → drain → stop stream → join → plugin teardown in that order.",
		NotDecided:  []string{"'advances in read order' as a value property of opaque positions", "debounce timing", "that the store's Commit is durable", "what the delivery goroutine interleaves with at run time"},
		Assumptions: []string{"database.Transaction.Commit returning nil means the batch is durable", "sync.Mutex semantics"},
	})
}

func runC02(c *Ctx) {
	c02R1(c)
	c02R2(c)
	c02R3(c)
	c02R4(c)
	c02R5(c)
	c02R6(c)
	c02R7(c)
	c02R8(c)
	c01R8As(c, c.R.Rule("R9", "K3/K6 (= C01.R8) nothing is acked past an unhandled record: the source ack of a nacked record lies behind the DLQ write's success edge, a failed DLQ hand-off fails the nack (v1), and the v2 ack covers exactly the stored prefix", 6))
	c04R3As(c, c.R.Rule("R10", "K5/K2/K3 (= C04.R3) v2 fan-out release cursor: `released` advances only after the parent call for that position succeeded, under m.mu, never past a non-terminal position", 30))
	c05SharedDest(c, c.R.Rule("R12", "K4/K3 (= C05.R4) v2 shared destination: a worker enters a shared subtree only under sharedMu and re-checks the poison flag after acquiring it — it never takes a failed pass's leftover reply as the confirmation of its own record", 6))
	livePersisted(c, c.R.Rule("R11", "K8 (= C17.R7) the connector record that carries the position is persisted from the live instance or a complete copy", 10))
}

// c02R8: flush transactions of one persister never overlap.
func c02R8(c *Ctx) {
	r := c.R.Rule("R8", "K3 flush serialisation: Persister.triggerFlush starts the next flush (go flushNow, publication of the new generation) only after an unconditional wait for the previous generation's writeDone, or when there is no previous generation", 2)
	fn := c.SSA(r, pConn, "(*Persister).triggerFlush")
	flushNow := c.Fn(r, pConn, "(*Persister).flushNow")
	flushF := c.Field(r, pConn, "Persister", "flush")
	wdF := c.Field(r, pConn, "flushState", "writeDone")
	if fn == nil || flushNow == nil || flushF == nil || wdF == nil {
		return
	}
	g := kit.NewGates()
	for _, b := range fn.Blocks {
		for _, in := range b.Instrs {
			switch x := in.(type) {
			case *ssa.UnOp:
				// a plain (blocking, unconditional) receive from the previous generation's writeDone
				if x.Op == token.ARROW && kit.IsFieldLoad(x.X, wdF) {
					g.AddInstr(x, "<-p.flush.writeDone")
				}
			case *ssa.Select:
				// a select counts only when writeDone is its sole way out
				if x.Blocking && len(x.States) == 1 && x.States[0].Dir == types.RecvOnly && kit.IsFieldLoad(x.States[0].Chan, wdF) {
					g.AddInstr(x, "select { case <-p.flush.writeDone }")
				}
			}
		}
	}
	for _, l := range kit.FieldLoads(fn, flushF) {
		g.AddEdges(kit.NilEdges(l, true), "p.flush == nil")
	}
	var starts []ssa.Instruction
	for _, b := range fn.Blocks {
		for _, in := range b.Instrs {
			if gi, ok := in.(*ssa.Go); ok && kit.CalleeOf(&gi.Call) == flushNow {
				starts = append(starts, in)
			}
		}
	}
	for _, st := range kit.FieldStores(fn, flushF) {
		starts = append(starts, st)
	}
	if len(starts) < 2 {
		c.R.Fail(r, "triggerFlush: start of the next flush", c.Pos(fn.Pos()), "expected `go p.flushNow(...)` and the publication p.flush = st")
	}
	c.Dominated(r, "triggerFlush: next flush only after the previous one wrote", starts, g, "the unconditional receive from the previous generation's writeDone (or the p.flush == nil edge)")
}

func c02R1(c *Ctx) {
	r := c.R.Rule("R1", "K1/K2 who-may-send: AckPositions is put on the source stream only by Source.deliverOneAck, reached only from the delivery goroutine started in Source.Open", 4)
	f := c.W.ExtField(pPconn, "SourceRunRequest", "AckPositions")
	if f == nil {
		c.R.Unresolved(r, pPconn+".SourceRunRequest.AckPositions")
	} else {
		// product writers outside the wire-conversion layer (pkg/plugin/connector/**/fromproto|toproto)
		allow := []string{pConn + ".(*Source).deliverOneAck"}
		n := 0
		for _, ref := range c.W.FieldWrites(f) {
			if ref.Pkg != pConn {
				// wire codecs translate requests built elsewhere; they are not originators
				if len(ref.Pkg) >= len("pkg/plugin/connector") && ref.Pkg[:len("pkg/plugin/connector")] == "pkg/plugin/connector" {
					continue
				}
			}
			n++
			ok := false
			for _, a := range allow {
				if ref.Where == a {
					ok = true
				}
			}
			c.R.Check(ok, r, "AckPositions set in "+ref.Where, c.Pos(ref.Pos), "tabled originator", "a SourceRunRequest carrying AckPositions is built in "+ref.Where+", outside the deferred-ack delivery path: the plugin could hear an ack that no commit covers", false)
		}
		if n == 0 {
			c.R.Fail(r, "AckPositions originator", "", "no originator of AckPositions found")
		}
	}
	c.WhoMayRef(r, "Source.deliverOneAck", Set(c.Fn(r, pConn, "(*Source).deliverOneAck")), []string{pConn + ".(*Source).deliverDeferredAcks"})
	c.WhoMayRef(r, "Source.deliverDeferredAcks", Set(c.Fn(r, pConn, "(*Source).deliverDeferredAcks")), []string{pConn + ".(*Source).Open"})
	// deliverOneAck sends exactly the positions it was given
	if fn := c.SSA(r, pConn, "(*Source).deliverOneAck"); fn != nil && f != nil {
		ok := false
		for _, st := range kit.FieldStores(fn, f) {
			if st.Val == argParam(fn, 0) {
				ok = true
			} else {
				c.R.Fail(r, "deliverOneAck: AckPositions value", c.Pos(st.Pos()), "AckPositions is not the positions parameter")
			}
		}
		c.R.Check(ok, r, "deliverOneAck: sends its parameter", c.Pos(fn.Pos()), "AckPositions: positions", "no AckPositions store found", true)
	}
	// the delivery goroutine only delivers what it took from the deferred queue
	if fn := c.SSA(r, pConn, "(*Source).deliverDeferredAcks"); fn != nil {
		q := c.Field(r, pConn, "Source", "deferredAckQueue")
		for _, call := range kit.CallsTo(fn, Set(c.Fn(r, pConn, "(*Source).deliverOneAck"))) {
			a := call.Common().Args
			ok := false
			if len(a) == 2 {
				// positions = element of a range over the queue snapshot (a load of s.deferredAckQueue)
				v := a[1]
				if u, isU := v.(*ssa.UnOp); isU && u.Op == token.MUL {
					if ia, isIA := u.X.(*ssa.IndexAddr); isIA && kit.IsFieldLoad(ia.X, q) {
						ok = true
					}
				}
			}
			c.R.Check(ok, r, "deliverDeferredAcks: delivers only queued acks", c.Pos(call.Pos()), "argument is an element of the deferredAckQueue snapshot", "deliverOneAck is called with something other than an element of the deferred-ack queue", true)
		}
	}
}

func c02R2(c *Ctx) {
	r := c.R.Rule("R2", "K2/K3 queue discipline: deferredAckQueue is appended only in onPersistFlushed, on the err==nil edge and under pendingAcks[i].seq<=durableAckSeq; pendingAcks only grows in Source.Ack", 8)
	q := c.Field(r, pConn, "Source", "deferredAckQueue")
	pend := c.Field(r, pConn, "Source", "pendingAcks")
	dur := c.Field(r, pConn, "Source", "durableAckSeq")
	next := c.Field(r, pConn, "Source", "nextAckSeq")
	seqF := c.Field(r, pConn, "pendingAck", "seq")
	c.WhoMayWrite(r, "Source.deferredAckQueue", q, []string{pConn + ".(*Source).onPersistFlushed", pConn + ".(*Source).deliverDeferredAcks"}, nil)
	c.WhoMayWrite(r, "Source.pendingAcks", pend, []string{pConn + ".(*Source).Ack", pConn + ".(*Source).onPersistFlushed"}, nil)
	c.WhoMayWrite(r, "Source.durableAckSeq", dur, []string{pConn + ".(*Source).onPersistFlushed"}, nil)
	c.WhoMayWrite(r, "Source.nextAckSeq", next, []string{pConn + ".(*Source).Ack"}, nil)
	fn := c.SSA(r, pConn, "(*Source).onPersistFlushed")
	if fn == nil {
		return
	}
	var errP ssa.Value
	for _, p := range fn.Params {
		if isErrorType(p.Type()) {
			errP = p
		}
	}
	gErr := kit.NewGates()
	if errP != nil {
		gErr.AddEdges(kit.NilEdges(errP, true), "err==nil")
	}
	appends := storesToField(fn, q, nil)
	if len(appends) == 0 {
		c.R.Fail(r, "onPersistFlushed: queue append", c.Pos(fn.Pos()), "no append to deferredAckQueue found")
	}
	c.Dominated(r, "onPersistFlushed: queue append only when the flush succeeded", appends, gErr, "the err==nil edge of the flush result")
	// the durable watermark only moves for a flush that succeeded (a failed flush must not make older
	// queued acks look durable to a later success callback)
	if dF := c.Field(r, pConn, "Source", "durableAckSeq"); dF != nil {
		c.Dominated(r, "onPersistFlushed: durableAckSeq advanced only when the flush succeeded", storesToField(fn, dF, nil), gErr, "the err==nil edge of the flush result")
	}
	gSeq := kit.NewGates().AddEdges(kit.CmpEdges(fn, func(b *ssa.BinOp) (bool, bool) {
		isSeq := func(v ssa.Value) bool { return kit.IsFieldLoad(v, seqF) }
		isDur := func(v ssa.Value) bool { return kit.IsFieldLoad(v, dur) }
		switch {
		case isSeq(b.X) && isDur(b.Y):
			switch b.Op {
			case token.LEQ:
				return true, true
			case token.GTR:
				return true, false
			}
		case isDur(b.X) && isSeq(b.Y):
			switch b.Op {
			case token.GEQ:
				return true, true
			case token.LSS:
				return true, false
			}
		}
		return false, false
	}), "seq<=durableAckSeq")
	c.Dominated(r, "onPersistFlushed: queue append only for seq<=durableAckSeq", appends, gSeq, "the pendingAcks[i].seq <= durableAckSeq edge")
	// the queued value is the pending entry's own positions
	posF := c.Field(r, pConn, "pendingAck", "positions")
	for _, st := range kit.FieldStores(fn, q) {
		ok := false
		if call, isCall := st.Val.(*ssa.Call); isCall {
			if b, isB := call.Call.Value.(*ssa.Builtin); isB && b.Name() == "append" && len(call.Call.Args) == 2 {
				// second arg: slice literal holding pendingAcks[i].positions
				ok = kit.DerivesFrom(call.Call.Args[1], func(v ssa.Value) bool { return kit.IsFieldLoad(v, posF) })
			}
		}
		c.R.Check(ok, r, "onPersistFlushed: queues the pending entry's positions", c.Pos(st.Pos()), "append(queue, pendingAcks[i].positions)", "the value appended to deferredAckQueue is not a pendingAck's positions", true)
	}
	// durableAckSeq only moves forward: its store is dominated by seq > durableAckSeq
	gFwd := kit.NewGates().AddEdges(kit.CmpEdges(fn, func(b *ssa.BinOp) (bool, bool) {
		isDur := func(v ssa.Value) bool { return kit.IsFieldLoad(v, dur) }
		_, xp := b.X.(*ssa.Parameter)
		_, yp := b.Y.(*ssa.Parameter)
		switch {
		case xp && isDur(b.Y) && b.Op == token.GTR:
			return true, true
		case yp && isDur(b.X) && b.Op == token.LSS:
			return true, true
		}
		return false, false
	}), "seq>durableAckSeq")
	c.Dominated(r, "onPersistFlushed: durableAckSeq only increases", storesToField(fn, dur, nil), gFwd, "the seq > durableAckSeq edge")
}

func c02R3(c *Ctx) {
	r := c.R.Rule("R3", "K1 callback provenance: onPersistFlushed is referenced only from the persist callback built in Source.Ack, with that call's own sequence number", 2)
	opf := c.Fn(r, pConn, "(*Source).onPersistFlushed")
	c.WhoMayRef(r, "Source.onPersistFlushed", Set(opf), []string{pConn + ".(*Source).Ack"})
	ack := c.SSA(r, pConn, "(*Source).Ack")
	next := c.Field(r, pConn, "Source", "nextAckSeq")
	seqF := c.Field(r, pConn, "pendingAck", "seq")
	if ack == nil || opf == nil {
		return
	}
	// the seq handed to onPersistFlushed (inside the callback literal) must be the value read under the lock in this Ack call: a captured local whose only store is a load of s.nextAckSeq in Ack itself — not a field read at callback time.
	found := false
	for _, fn := range kit.WithAnon(ack) {
		for _, call := range kit.CallsTo(fn, Set(opf)) {
			found = true
			a := call.Common().Args
			ok := false
			why := "the sequence number passed to onPersistFlushed is not the per-call value captured in Source.Ack"
			if len(a) == 3 {
				v := a[1]
				// closure: either a FreeVar of the value itself or a load from a captured cell
				switch x := v.(type) {
				case *ssa.FreeVar:
					if bound := resolveFreeVar(x); bound != nil {
						ok = isLocalCopyOfField(bound, next)
					}
				case *ssa.UnOp:
					if fv, isFV := x.X.(*ssa.FreeVar); isFV && x.Op == token.MUL {
						if bound := resolveFreeVar(fv); bound != nil {
							ok = isLocalCopyOfField(bound, next)
						}
					}
				}
			}
			c.R.Check(ok, r, "Source.Ack callback: per-call sequence number", c.Pos(call.Pos()), "seq captured from s.nextAckSeq inside Source.Ack", why, true)
		}
	}
	if !found {
		c.R.Fail(r, "Source.Ack callback", c.Pos(ack.Pos()), "no onPersistFlushed call in Source.Ack's callback")
	}
	// the pendingAck appended carries the same seq
	_ = seqF
}

// isLocalCopyOfField reports whether v (a value or an alloc cell bound into a
// closure) holds a copy of field read in the enclosing function.
func isLocalCopyOfField(v ssa.Value, field *types.Var) bool {
	if kit.IsFieldLoad(v, field) {
		return true
	}
	a, ok := v.(*ssa.Alloc)
	if !ok {
		return false
	}
	refs := a.Referrers()
	if refs == nil {
		return false
	}
	stores, good := 0, 0
	for _, r := range *refs {
		if st, ok := r.(*ssa.Store); ok && st.Addr == ssa.Value(a) {
			stores++
			if kit.IsFieldLoad(st.Val, field) {
				good++
			}
		}
	}
	return stores >= 1 && stores == good
}

func c02R4(c *Ctx) {
	r := c.R.Rule("R4", "K7/K3 commit gate in Persister.flushNow: the error handed to every persist callback carries the result of every store write and of the commit; callbacks are started only after the commit call (or on a path where an earlier error skipped it)", 3)
	fn := c.SSA(r, pConn, "(*Persister).flushNow")
	if fn == nil {
		return
	}
	storeFuncF := c.Field(r, pConn, "persistData", "storeFunc")
	commit := c.W.ExtMethod("github.com/conduitio/conduit-commons/database", "Transaction", "Commit")
	if commit == nil {
		c.R.Unresolved(r, "database.Transaction.Commit")
		return
	}
	// sink: an invocation cb(x) of a PersistCallback-typed function value — wherever it happens
	// (a literal of flushNow, or a helper flushNow hands the error to)
	isCb := func(cc *ssa.CallCommon) bool {
		if cc.IsInvoke() {
			return false
		}
		n, ok := cc.Value.Type().(*types.Named)
		return ok && n.Obj().Name() == "PersistCallback"
	}
	sink := func(in ssa.Instruction, x ssa.Value) bool {
		ci, ok := in.(ssa.CallInstruction)
		if !ok || !isCb(ci.Common()) {
			return false
		}
		a := ci.Common().Args
		return len(a) == 1 && a[0] == x
	}
	reaches := func(v ssa.Value) bool { return kit.FlowsTo(v, sink) }
	// reachesVar: v is (a load of) the variable whose value the callbacks receive
	reachesVar := func(v ssa.Value) bool {
		if reaches(v) {
			return true
		}
		if u, ok := v.(*ssa.UnOp); ok && u.Op == token.MUL {
			if a, ok := u.X.(*ssa.Alloc); ok {
				for _, cu := range kit.CellUses(a) {
					if l, ok := cu.Instr.(*ssa.UnOp); ok && l.Op == token.MUL && l != u && reaches(l) {
						return true
					}
				}
			}
		}
		return false
	}
	// commit result
	commits := kit.CallsTo(fn, Set(commit))
	if len(commits) == 0 {
		c.R.Fail(r, "flushNow: tx.Commit", c.Pos(fn.Pos()), "no Commit call found")
	}
	for _, cm := range commits {
		e := kit.ErrResult(cm)
		c.R.Check(e != nil && reaches(e), r, "flushNow: Commit error reaches the callbacks", c.Pos(cm.Pos()), "the commit result is what the callbacks receive", "the result of tx.Commit() does not flow into the error the persist callbacks receive: a failed commit would be reported as success and the plugin acked", true)
	}
	// storeFunc results
	sf := callsOfFieldFunc(fn, storeFuncF)
	if len(sf) == 0 {
		c.R.Fail(r, "flushNow: storeFunc calls", c.Pos(fn.Pos()), "no data.storeFunc call found")
	}
	for _, in := range sf {
		call := in.(ssa.CallInstruction)
		e := kit.ErrResult(call)
		c.R.Check(e != nil && reaches(e), r, "flushNow: store-write error reaches the callbacks", c.Pos(call.Pos()), "a failed store write is reported to the callbacks",
			"the error of data.storeFunc(ctx) is only logged: it never flows into the error the persist callbacks receive, so a failed store write is followed by Commit and a nil callback — the plugin is acked for a position that was never stored", true)
	}
	// callbacks start after the commit call, or on an edge where the error the callbacks receive is already non-nil
	g := kit.NewGates()
	for _, cm := range commits {
		g.AddInstr(cm, "tx.Commit()")
	}
	for _, b := range fn.Blocks {
		for _, in := range b.Instrs {
			v, ok := in.(ssa.Value)
			if !ok || !isErrorType(v.Type()) {
				continue
			}
			if es := kit.NilEdges(v, false); len(es) > 0 && reachesVar(v) {
				g.AddEdges(es, "err!=nil (commit skipped)")
			}
		}
	}
	// where flushNow starts the callbacks: a goroutine invoking a PersistCallback, or a call to a
	// helper that does (bounded depth)
	var invokes func(f *ssa.Function, depth int) bool
	invokes = func(f *ssa.Function, depth int) bool {
		for _, ff := range kit.WithAnon(f) {
			for _, b := range ff.Blocks {
				for _, in := range b.Instrs {
					ci, ok := in.(ssa.CallInstruction)
					if !ok {
						continue
					}
					if isCb(ci.Common()) {
						return true
					}
					if callee := ci.Common().StaticCallee(); callee != nil && depth > 0 && callee.Pkg == fn.Pkg && callee != f && len(callee.Blocks) > 0 {
						if invokes(callee, depth-1) {
							return true
						}
					}
				}
			}
		}
		return false
	}
	var gos []ssa.Instruction
	for _, b := range fn.Blocks {
		for _, in := range b.Instrs {
			ci, ok := in.(ssa.CallInstruction)
			if !ok {
				continue
			}
			switch f := ci.Common().Value.(type) {
			case *ssa.MakeClosure:
				if invokes(f.Fn.(*ssa.Function), 1) {
					gos = append(gos, in)
				}
			case *ssa.Function:
				if f.Pkg == fn.Pkg && len(f.Blocks) > 0 && invokes(f, 2) {
					gos = append(gos, in)
				}
			}
		}
	}
	if len(gos) == 0 {
		c.R.Fail(r, "flushNow: callback goroutines", c.Pos(fn.Pos()), "no callback goroutine found")
	}
	c.Dominated(r, "flushNow: callbacks start after Commit", gos, g, "the tx.Commit() call (or an edge where an earlier error skipped it)")
}

func c02R5(c *Ctx) {
	r := c.R.Rule("R5", "K5 guarded-by: Source.ackMu guards the ack bookkeeping, Persister.m guards the batch state, and Source.Ack holds the Instance write lock across the State store and Persist", 20)
	var srcFields, perFields []*types.Var
	for _, f := range []string{"pendingAcks", "nextAckSeq", "durableAckSeq", "deferredAckQueue", "deferredAckClosed"} {
		if v := c.Field(r, pConn, "Source", f); v != nil {
			srcFields = append(srcFields, v)
		}
	}
	for _, f := range []string{"bundleCount", "batch", "flushTimer", "flush"} {
		if v := c.Field(r, pConn, "Persister", f); v != nil {
			perFields = append(perFields, v)
		}
	}
	conn := c.W.Pkg(pConn)
	if conn == nil {
		c.R.Unresolved(r, pConn)
		return
	}
	sp := c.W.SSA[conn.Types]
	srcT := c.Type(r, pConn, "Source")
	perT := c.Type(r, pConn, "Persister")
	requires := map[string][]string{
		"(*" + pConn + ".Persister).triggerFlush": {"recv.m"},
	}
	exempt := map[string]string{
		// constructor before publication
		pConn + ".NewPersister:flush": "constructor, value not yet shared",
	}
	for _, T := range []*types.Named{srcT, perT} {
		if T == nil {
			continue
		}
		fields, mu := srcFields, "ackMu"
		if T == perT {
			fields, mu = perFields, "m"
		}
		ms := c.W.Prog.MethodSets.MethodSet(types.NewPointer(T))
		for i := 0; i < ms.Len(); i++ {
			fn := c.W.Prog.MethodValue(ms.At(i))
			if fn == nil || fn.Pkg != sp {
				continue
			}
			for _, f := range kit.WithAnon(fn) {
				c.Guarded(r, f, requires[kit.FuncKey(fn)], mu, fields, exempt)
			}
		}
	}
	// triggerFlush requires-lock: every caller holds p.m
	tf := c.Fn(r, pConn, "(*Persister).triggerFlush")
	if tf != nil {
		spec := c.W.StdLockSpec()
		for _, m := range []string{"(*Persister).Flush", "(*Persister).Persist", "(*Persister).ConnectorStopped"} {
			fn := c.SSA(r, pConn, m)
			if fn == nil {
				continue
			}
			ls := kit.Locksets(fn, spec, nil)
			for _, call := range kit.CallsTo(fn, Set(tf)) {
				held := ls[call]
				c.R.Check(containsLock(held, "recv.m"), r, m+": triggerFlush called with p.m held", c.Pos(call.Pos()), "held "+held, "triggerFlush (requires p.m) is called without p.m held: "+held, true)
			}
		}
		c.WhoMayRef(r, "Persister.triggerFlush", Set(tf), []string{pConn + ".(*Persister).Flush", pConn + ".(*Persister).Persist", pConn + ".(*Persister).ConnectorStopped"})
	}
	// Source.Ack: Instance lock held at the State store and the Persist call
	if ack := c.SSA(r, pConn, "(*Source).Ack"); ack != nil {
		spec := c.W.StdLockSpec()
		ls := kit.Locksets(ack, spec, nil)
		stateF := c.Field(r, pConn, "Instance", "State")
		persist := c.Fn(r, pConn, "(*Persister).Persist")
		for _, st := range kit.FieldStores(ack, stateF) {
			held := ls[st]
			c.R.Check(containsLock(held, "recv.Instance.RWMutex"), r, "Source.Ack: State store under the Instance lock", c.Pos(st.Pos()), "held "+held, "Instance.State is written without the Instance lock: "+held, true)
		}
		for _, call := range kit.CallsTo(ack, Set(persist)) {
			held := ls[call]
			c.R.Check(containsLock(held, "recv.Instance.RWMutex"), r, "Source.Ack: Persist under the Instance lock", c.Pos(call.Pos()), "held "+held, "Persist (which snapshots the instance) is called without the Instance lock: "+held, true)
		}
	}
}

func containsLock(set, lock string) bool {
	if len(set) < 2 {
		return false
	}
	for _, p := range splitSet(set) {
		if p == lock {
			return true
		}
	}
	return false
}

func splitSet(s string) []string {
	s = s[1 : len(s)-1]
	if s == "" {
		return nil
	}
	var out []string
	cur := ""
	for _, ch := range s {
		if ch == ',' {
			out = append(out, cur)
			cur = ""
		} else {
			cur += string(ch)
		}
	}
	return append(out, cur)
}

func c02R6(c *Ctx) {
	r := c.R.Rule("R6", "K2/K6/K3 position writers: Instance.State has a closed writer set; Source.Ack stores the last element of its argument; the v2 worker refuses empty positions before every Source.Ack and the fan-out tally refuses empty and duplicate positions", 9)
	stateF := c.Field(r, pConn, "Instance", "State")
	stateWriterTable(c, r, stateF)
	if ack := c.SSA(r, pConn, "(*Source).Ack"); ack != nil {
		posF := c.Field(r, pConn, "SourceState", "Position")
		okAny := false
		// State = SourceState{Position: p[len(p)-1]}
		for _, b := range ack.Blocks {
			for _, in := range b.Instrs {
				st, ok := in.(*ssa.Store)
				if !ok || !kit.SameField(kit.FieldOf(st.Addr), posF) {
					continue
				}
				good := false
				if u, ok := st.Val.(*ssa.UnOp); ok && u.Op == token.MUL {
					if ia, ok := u.X.(*ssa.IndexAddr); ok {
						if p := argParam(ack, 1); p != nil && ia.X == p {
							if bo, ok := ia.Index.(*ssa.BinOp); ok && bo.Op == token.SUB && kit.IsIntConst(bo.Y, 1) && kit.IsLenOf(bo.X, func(v ssa.Value) bool { return v == p }) {
								good = true
							}
						}
					}
				}
				okAny = okAny || good
				c.R.Check(good, r, "Source.Ack: stores the last acked position", c.Pos(st.Pos()), "Position: p[len(p)-1]", "the position stored by Source.Ack is not p[len(p)-1] of its argument", true)
			}
		}
		if !okAny {
			c.R.Fail(r, "Source.Ack: position store", c.Pos(ack.Pos()), "no store of SourceState.Position found in Source.Ack")
		}
	}
	// v2 guards
	val := c.Fn(r, pFunnel, "validateAckPositions")
	srcAck := c.Fam(c.Fn(r, pConn, "(*Source).Ack"))
	for _, m := range []string{"(*Worker).Ack", "(*Worker).Nack"} {
		fn := c.SSA(r, pFunnel, m)
		if fn == nil || val == nil {
			continue
		}
		// Source.Ack called directly or through a pass-through helper of the worker
		acks := kit.CallsVia(fn, srcAck, 1)
		if len(acks) == 0 {
			c.R.Fail(r, m+": Source.Ack", c.Pos(fn.Pos()), "no Source.Ack call found")
		}
		for _, a := range acks {
			// the validated slice must be the acked slice
			g := kit.NewGates()
			for _, vc := range kit.CallsTo(fn, Set(val)) {
				if len(vc.Common().Args) == 1 && len(a.Args) == 2 && a.Args[1] != nil && sameSliceExpr(vc.Common().Args[0], a.Args[1]) {
					g.AddEdges(kit.OKEdges(vc), "")
				}
			}
			c.Dominated(r, m+": validateAckPositions ok before Source.Ack (same positions)", []ssa.Instruction{a.Site}, g, "the validateAckPositions success edge for the very slice that is acked")
		}
	}
	if v := c.SSA(r, pFunnel, "validateAckPositions"); v != nil {
		nilRets, _ := kit.NilReturns(v)
		// an empty element never reaches return nil: from the len(p)!=0 false edge
		bad := false
		cnt := 0
		for _, e := range kit.LenEdges(v, nil, 0, 0) {
			cnt++
			for _, ret := range nilRets {
				if kit.EdgeReaches(e, ret, nil) {
					bad = true
				}
			}
		}
		c.R.Check(cnt > 0 && !bad, r, "validateAckPositions: empty position refuses", c.Pos(v.Pos()), "len(p)==0 cannot reach return nil", "an empty position can reach `return nil` in validateAckPositions (or the emptiness test is gone)", true)
	}
	if nm := c.SSA(r, pFunnel, "newMultiAckNacker"); nm != nil {
		// map insert dominated by the not-empty and not-duplicate edges
		var inserts []ssa.Instruction
		for _, b := range nm.Blocks {
			for _, in := range b.Instrs {
				if mu, ok := in.(*ssa.MapUpdate); ok {
					inserts = append(inserts, mu)
				}
			}
		}
		gEmpty := kit.NewGates().AddEdges(kit.LenEdges(nm, nil, 1, -1), "len(p)!=0")
		gDup := kit.NewGates()
		for _, b := range nm.Blocks {
			for _, in := range b.Instrs {
				if lk, ok := in.(*ssa.Lookup); ok && lk.CommaOk {
					if refs := lk.Referrers(); refs != nil {
						for _, rr := range *refs {
							if ex, ok := rr.(*ssa.Extract); ok && ex.Index == 1 {
								gDup.AddEdges(kit.CondEdges(ex, false), "!dup")
							}
						}
					}
				}
			}
		}
		if len(inserts) == 0 {
			c.R.Fail(r, "newMultiAckNacker: index insert", c.Pos(nm.Pos()), "no map insert found")
		}
		c.Dominated(r, "newMultiAckNacker: empty position refused before indexing", inserts, gEmpty, "the len(p)!=0 edge")
		c.Dominated(r, "newMultiAckNacker: duplicate position refused before indexing", inserts, gDup, "the not-a-duplicate edge of the map lookup")
	}
}

// sameSliceExpr reports whether a and b denote the same slice expression
// structurally (same base load of the same field of the same value, same
// bounds).
func sameSliceExpr(a, b ssa.Value) bool {
	if a == b {
		return true
	}
	sa, ok1 := a.(*ssa.Slice)
	sb, ok2 := b.(*ssa.Slice)
	if ok1 && ok2 {
		return sameSliceExpr(sa.X, sb.X) && sa.Low == sb.Low && sa.High == sb.High && sa.Max == sb.Max
	}
	if ok1 != ok2 {
		return false
	}
	ba, fa := kit.FieldBase(a)
	bb, fb := kit.FieldBase(b)
	if fa != nil && fb != nil {
		return kit.SameField(fa, fb) && ba == bb
	}
	return false
}

func c02R7(c *Ctx) {
	c02TeardownOrder(c, c.R.Rule("R7", "K3 teardown order in Source.Teardown: flush → wait for pending writes → close the deferred queue → drain delivery → stop the stream → join delivery → wait readers → plugin teardown → ConnectorStopped", 9))
}

func c02TeardownOrder(c *Ctx, r string) {
	fn := c.SSA(r, pConn, "(*Source).Teardown")
	if fn == nil {
		return
	}
	calls := func(rel, name string) []ssa.Instruction {
		return asInstrs(kit.CallsTo(fn, Set(c.Fn(r, rel, name))))
	}
	closedF := c.Field(r, pConn, "Source", "deferredAckClosed")
	stopF := c.Field(r, pConn, "Source", "stopStream")
	doneF := c.Field(r, pConn, "Source", "deliveryDone")
	wgWait := c.ExtMethod(r, "sync", "WaitGroup", "Wait")
	var teardown []ssa.Instruction
	if m := c.W.ExtMethod("github.com/conduitio/conduit/pkg/plugin/connector", "SourcePlugin", "Teardown"); m != nil {
		teardown = asInstrs(kit.CallsTo(fn, c.Fam(m)))
	} else {
		c.R.Unresolved(r, "plugin/connector.SourcePlugin.Teardown")
	}
	c.Sequence(r, "Source.Teardown", fn, []Event{
		{Name: "persister.Flush", Instrs: calls(pConn, "(*Persister).Flush")},
		{Name: "persister.WaitPendingWritesContext", Instrs: calls(pConn, "(*Persister).WaitPendingWritesContext")},
		{Name: "deferredAckClosed = true", Instrs: storesToField(fn, closedF, func(v ssa.Value) bool { return kit.IsBoolConst(v, true) })},
		{Name: "waitDeliveryDrain", Instrs: calls(pConn, "(*Source).waitDeliveryDrain")},
		{Name: "stopStream()", Instrs: callsOfFieldFunc(fn, stopF), Skip: nilFieldEdges(fn, stopF)},
		{Name: "<-deliveryDone", Instrs: recvsFromField(fn, doneF), Skip: nilFieldEdges(fn, doneF)},
		{Name: "wg.Wait", Instrs: asInstrs(kit.CallsTo(fn, Set(wgWait)))},
		{Name: "plugin.Teardown", Instrs: teardown},
		{Name: "persister.ConnectorStopped", Instrs: calls(pConn, "(*Persister).ConnectorStopped")},
	})
}
