// Package rules holds the per-property rule tables of conduitlint. Every rule
// is keyed by resolved objects of /repo's current source (functions, fields,
// constants), never by text or position.
package rules

import (
	"fmt"
	"go/token"
	"go/types"
	"sort"
	"strings"

	"conduitlint/kit"

	"golang.org/x/tools/go/ssa"
)

// Ctx is what a property's rule function gets.
type Ctx struct {
	W    *kit.World
	R    *kit.Report
	Tier string
}

// Property is a registered property check.
type Property struct {
	ID          string
	Run         func(c *Ctx)
	Explanation string
	NotDecided  []string
	Assumptions []string
}

var Registry = map[string]*Property{}

func register(p *Property) { Registry[p.ID] = p }

// ---- anchor resolution (unresolved anchors fail the run) -------------------

func (c *Ctx) Fn(rule, rel, name string) *types.Func {
	f := c.W.LookupFunc(rel, name)
	if f == nil {
		c.R.Unresolved(rule, rel+"."+name)
	}
	return f
}

func (c *Ctx) SSA(rule, rel, name string) *ssa.Function {
	f := c.Fn(rule, rel, name)
	if f == nil {
		return nil
	}
	s := c.W.SSAFunc(f)
	if s == nil || len(s.Blocks) == 0 {
		c.R.Unresolved(rule, rel+"."+name+" (no SSA body)")
		return nil
	}
	return s
}

func (c *Ctx) Field(rule, rel, tname, fname string) *types.Var {
	v := c.W.LookupField(rel, tname, fname)
	if v == nil {
		c.R.Unresolved(rule, rel+"."+tname+"."+fname)
	}
	return v
}

func (c *Ctx) Type(rule, rel, tname string) *types.Named {
	t := c.W.LookupType(rel, tname)
	if t == nil {
		c.R.Unresolved(rule, rel+"."+tname)
	}
	return t
}

func (c *Ctx) Ext(rule, path, name string) types.Object {
	o := c.W.ExtObj(path, name)
	if o == nil {
		c.R.Unresolved(rule, path+"."+name)
	}
	return o
}

func (c *Ctx) ExtFunc(rule, path, name string) *types.Func {
	o, _ := c.Ext(rule, path, name).(*types.Func)
	return o
}

func (c *Ctx) ExtMethod(rule, path, tname, mname string) *types.Func {
	f := c.W.ExtMethod(path, tname, mname)
	if f == nil {
		c.R.Unresolved(rule, path+"."+tname+"."+mname)
	}
	return f
}

// Set builds a FuncSet from functions (nil entries ignored).
func Set(fs ...*types.Func) kit.FuncSet {
	s := kit.FuncSet{}
	for _, f := range fs {
		if f != nil {
			s[f] = true
		}
	}
	return s
}

// Fam is the dispatch family of a function (see kit.World.Family).
func (c *Ctx) Fam(fs ...*types.Func) kit.FuncSet {
	s := kit.FuncSet{}
	for _, f := range fs {
		for g := range c.W.Family(f) {
			s[g] = true
		}
	}
	return s
}

func (c *Ctx) Pos(p token.Pos) string { return c.W.Pos(p) }

// ---- K1 who-may-reference ---------------------------------------------------

// WhoMayRef checks that every reference (call, method value, function value)
// to a function of set in product code is lexically inside one of the allowed
// declared functions. skipPkgs lists module-relative package prefixes whose
// references are not product callers for this rule (generated mocks are
// always skipped).
func (c *Ctx) WhoMayRef(rule, what string, set kit.FuncSet, allowed []string, skipPkgs ...string) int {
	allow := map[string]bool{}
	for _, a := range allowed {
		allow[a] = true
	}
	n := 0
	seen := map[string]int{}
refs:
	for _, ref := range c.W.Refs(set) {
		if kit.Generated(kit.Module + "/" + ref.Pkg) {
			continue
		}
		for _, sp := range skipPkgs {
			if ref.Pkg == sp || strings.HasPrefix(ref.Pkg, sp+"/") {
				continue refs
			}
		}
		n++
		seen[ref.Where]++
		key := fmt.Sprintf("%s <- %s#%d", what, ref.Where, seen[ref.Where])
		if allow[ref.Where] {
			c.R.Pass(rule, key, c.Pos(ref.Pos), ref.Kind+" from tabled caller", false)
		} else if via, ok := c.privateHelperOf(ref.Where, allow, 2); ok && ref.Kind == "call" {
			// an unexported helper that is only ever called (never used as a value) by tabled
			// callers is part of them: the callee stays reachable from the tabled functions only
			c.R.Pass(rule, key, c.Pos(ref.Pos), ref.Kind+" from "+ref.Where+", an unexported helper called only by "+via, false)
		} else {
			c.R.Fail(rule, fmt.Sprintf("%s <- %s", what, ref.Where), c.Pos(ref.Pos),
				fmt.Sprintf("%s of %s from %s, which is not in the closed caller table {%s}", ref.Kind, what, ref.Where, strings.Join(allowed, ", ")))
		}
	}
	return n
}

// privateHelperOf reports whether the function containing ref is an unexported
// declared function whose every reference in product code is a call from an
// allowed function (or from another such helper, bounded depth).
func (c *Ctx) privateHelperOf(where string, allow map[string]bool, depth int) (string, bool) {
	if depth <= 0 {
		return "", false
	}
	i := strings.Index(where, ".(")
	var rel, name string
	if i >= 0 {
		rel, name = where[:i], where[i+1:]
	} else if j := strings.LastIndex(where, "."); j >= 0 {
		rel, name = where[:j], where[j+1:]
	} else {
		return "", false
	}
	f := c.W.LookupFunc(rel, name)
	if f == nil || f.Exported() {
		return "", false
	}
	callers := map[string]bool{}
	refs := c.W.Refs(Set(f))
	if len(refs) == 0 {
		return "", false
	}
	for _, r2 := range refs {
		if r2.Kind != "call" {
			return "", false
		}
		if allow[r2.Where] || r2.Where == where {
			callers[r2.Where] = true
			continue
		}
		if _, ok := c.privateHelperOf(r2.Where, allow, depth-1); ok {
			callers[r2.Where] = true
			continue
		}
		return "", false
	}
	return strings.Join(sortedKeys(callers), ", "), true
}

// ---- K2 who-may-write -------------------------------------------------------

// WhoMayWrite checks that every syntactic write of field is inside an allowed
// function. methodIsWrite classifies method calls on the field (atomics,
// maps); nil means method calls are not writes.
func (c *Ctx) WhoMayWrite(rule, what string, field *types.Var, allowed []string, methodIsWrite func(m string) bool) int {
	if field == nil {
		return 0
	}
	allow := map[string]bool{}
	for _, a := range allowed {
		allow[a] = true
	}
	n := 0
	seen := map[string]int{}
	for _, ref := range c.W.FieldWrites(field) {
		if strings.HasPrefix(ref.Kind, "call:") {
			if methodIsWrite == nil || !methodIsWrite(strings.TrimPrefix(ref.Kind, "call:")) {
				continue
			}
		}
		n++
		seen[ref.Where]++
		if allow[ref.Where] {
			c.R.Pass(rule, fmt.Sprintf("write %s <- %s#%d", what, ref.Where, seen[ref.Where]), c.Pos(ref.Pos), ref.Kind+" in tabled writer", false)
		} else if via, ok := c.privateHelperOf(ref.Where, allow, 2); ok {
			// an unexported helper that is only ever called, and only by tabled writers, does not widen the table
			c.R.Pass(rule, fmt.Sprintf("write %s <- %s#%d", what, ref.Where, seen[ref.Where]), c.Pos(ref.Pos), ref.Kind+" in a private helper of "+via, false)
		} else {
			c.R.Fail(rule, fmt.Sprintf("write %s <- %s", what, ref.Where), c.Pos(ref.Pos),
				fmt.Sprintf("%s of %s in %s, which is not in the closed writer table {%s}", ref.Kind, what, ref.Where, strings.Join(allowed, ", ")))
		}
	}
	return n
}

// ---- K3 dominated-by --------------------------------------------------------

// Dominated checks, for each target instruction, that every path from the
// function entry crosses one of the gates.
func (c *Ctx) Dominated(rule, keyPrefix string, targets []ssa.Instruction, g *kit.Gates, what string) {
	for i, t := range targets {
		key := keyPrefix
		if len(targets) > 1 {
			key = fmt.Sprintf("%s#%d", keyPrefix, i+1)
		}
		if g == nil || g.Empty() {
			c.R.Fail(rule, key, c.Pos(posOf(t)), "no gate found: "+what+" — the guarding test is missing or not in a recognised form")
			continue
		}
		ok, path := kit.MustPass(t, g)
		if ok {
			c.R.Pass(rule, key, c.Pos(posOf(t)), what, true)
		} else {
			c.R.Fail(rule, key, c.Pos(posOf(t)), fmt.Sprintf("a path reaches this point without %s (entry→blocks %v of %s)", what, path, kit.FuncKey(t.Parent())))
		}
	}
}

func posOf(in ssa.Instruction) token.Pos {
	if in == nil {
		return token.NoPos
	}
	if p := in.Pos(); p.IsValid() {
		return p
	}
	// fall back to the nearest instruction with a position in the block
	b := in.Block()
	if b != nil {
		idx := -1
		for i, x := range b.Instrs {
			if x == in {
				idx = i
			}
		}
		for i := idx; i >= 0; i-- {
			if p := b.Instrs[i].Pos(); p.IsValid() {
				return p
			}
		}
		for i := idx + 1; i < len(b.Instrs) && i >= 0; i++ {
			if p := b.Instrs[i].Pos(); p.IsValid() {
				return p
			}
		}
	}
	if in.Parent() != nil {
		return in.Parent().Pos()
	}
	return token.NoPos
}

// asInstrs converts call instructions to instructions.
func asInstrs[T ssa.Instruction](xs []T) []ssa.Instruction {
	out := make([]ssa.Instruction, len(xs))
	for i, x := range xs {
		out[i] = x
	}
	return out
}

// okGates builds gates from the success edges of calls.
func okGates(calls []ssa.CallInstruction, why string) *kit.Gates {
	g := kit.NewGates()
	for _, cl := range calls {
		g.AddEdges(kit.OKEdges(cl), "")
	}
	g.Why = append(g.Why, why)
	return g
}

// sortedKeys returns map keys sorted.
func sortedKeys[V any](m map[string]V) []string {
	var ks []string
	for k := range m {
		ks = append(ks, k)
	}
	sort.Strings(ks)
	return ks
}

// paramNamed returns the parameter of fn called name.
func paramNamed(fn *ssa.Function, name string) *ssa.Parameter {
	for _, p := range fn.Params {
		if p.Name() == name {
			return p
		}
	}
	return nil
}

// paramOfType returns the first parameter of fn whose type string (relative to
// the module) equals ts.
func paramOfType(fn *ssa.Function, pred func(types.Type) bool) *ssa.Parameter {
	for _, p := range fn.Params {
		if pred(p.Type()) {
			return p
		}
	}
	return nil
}

func isErrorType(t types.Type) bool {
	return types.Identical(t, types.Universe.Lookup("error").Type())
}

// Event is a named set of instructions in one function.
type Event struct {
	Name   string
	Instrs []ssa.Instruction
	// Skip: edges on which the step is legitimately not applicable (e.g. the
	// `field == nil` edge of an `if field != nil { step }` guard); crossing
	// one counts as having passed the step.
	Skip []kit.Edge
}

// Sequence checks that in fn every instruction of each event is preceded on
// all paths by some instruction of the previous event (a chain of
// must-pass-through obligations). Missing events fail.
func (c *Ctx) Sequence(rule, keyPrefix string, fn *ssa.Function, events []Event) {
	for i, ev := range events {
		if len(ev.Instrs) == 0 {
			c.R.Fail(rule, keyPrefix+": "+ev.Name, c.Pos(fn.Pos()), "step `"+ev.Name+"` not found in "+kit.FuncKey(fn)+" (removed or no longer recognisable)")
			continue
		}
		if i == 0 {
			c.R.Pass(rule, keyPrefix+": "+ev.Name, c.Pos(posOf(ev.Instrs[0])), "first step present", false)
			continue
		}
		prev := events[i-1]
		if len(prev.Instrs) == 0 {
			continue
		}
		g := kit.NewGates()
		for _, p := range prev.Instrs {
			g.AddInstr(p, "")
		}
		g.AddEdges(prev.Skip, "")
		c.Dominated(rule, keyPrefix+": "+prev.Name+" -> "+ev.Name, ev.Instrs, g, "passing `"+prev.Name+"` first")
	}
}

// callsOfFieldFunc lists calls in fn whose callee is the function value loaded
// from field (e.g. s.stopStream()).
func callsOfFieldFunc(fn *ssa.Function, field *types.Var) []ssa.Instruction {
	return kit.Instrs(fn, func(in ssa.Instruction) bool {
		ci, ok := in.(ssa.CallInstruction)
		if !ok {
			return false
		}
		cm := ci.Common()
		return !cm.IsInvoke() && kit.IsFieldLoad(cm.Value, field)
	})
}

// recvsFromField lists receive operations on the channel loaded from field.
func recvsFromField(fn *ssa.Function, field *types.Var) []ssa.Instruction {
	return kit.Instrs(fn, func(in ssa.Instruction) bool {
		u, ok := in.(*ssa.UnOp)
		return ok && u.Op == token.ARROW && kit.IsFieldLoad(u.X, field)
	})
}

// storesToField lists stores to field with a value accepted by pred (nil = any).
func storesToField(fn *ssa.Function, field *types.Var, pred func(ssa.Value) bool) []ssa.Instruction {
	var out []ssa.Instruction
	for _, st := range kit.FieldStores(fn, field) {
		if pred == nil || pred(st.Val) {
			out = append(out, st)
		}
	}
	return out
}

// Guarded runs the lockset rule for one function.
func (c *Ctx) Guarded(rule string, fn *ssa.Function, entry []string, mutexField string, fields []*types.Var, exempt map[string]string) int {
	if fn == nil {
		return 0
	}
	spec := c.W.StdLockSpec()
	n := 0
	per := map[string]int{}
	for _, a := range kit.CheckGuarded(fn, spec, entry, mutexField, fields) {
		n++
		id := kit.FuncKey(fn) + ": " + a.Base + "." + a.Field.Name()
		per[id]++
		key := fmt.Sprintf("%s#%d", id, per[id])
		if a.OK {
			c.R.Pass(rule, key, c.Pos(posOf(a.Instr)), "held "+a.Held, true)
			continue
		}
		if why, ok := exempt[kit.FuncKey(fn)+":"+a.Field.Name()]; ok {
			c.R.Pass(rule, key, c.Pos(posOf(a.Instr)), "tabled exception: "+why, false)
			continue
		}
		c.R.Fail(rule, id, c.Pos(posOf(a.Instr)), fmt.Sprintf("%s.%s accessed without %s.%s held on every path (held: %s)", a.Base, a.Field.Name(), a.Base, mutexField, a.Held))
	}
	return n
}

// nilFieldEdges returns the edges of fn on which a load of field is nil.
func nilFieldEdges(fn *ssa.Function, field *types.Var) []kit.Edge {
	var out []kit.Edge
	for _, l := range kit.FieldLoads(fn, field) {
		out = append(out, kit.NilEdges(l, true)...)
	}
	return out
}

// argParam returns the i-th declared parameter of fn (0-based, receiver excluded).
func argParam(fn *ssa.Function, i int) ssa.Value {
	if fn == nil {
		return nil
	}
	if fn.Signature.Recv() != nil {
		i++
	}
	if i < len(fn.Params) {
		return fn.Params[i]
	}
	return nil
}

// paramOfNamed returns the parameter of fn whose (dereferenced) type is the named type called name.
func paramOfNamed(fn *ssa.Function, name string) ssa.Value {
	if fn == nil {
		return nil
	}
	for _, p := range fn.Params {
		t := p.Type()
		if pt, ok := t.(*types.Pointer); ok {
			t = pt.Elem()
		}
		if n, ok := t.(*types.Named); ok && n.Obj().Name() == name {
			return p
		}
	}
	return nil
}

// fromParam reports whether v is computed from parameter prm (directly or through its closure-captured cell).
func fromParam(v, prm ssa.Value) bool {
	if prm == nil {
		return false
	}
	pp := kit.PathOf(prm)
	return kit.DerivesFrom(v, func(x ssa.Value) bool {
		if x == prm || kit.IsVar(x, prm) {
			return true
		}
		// a field (of a field ...) of the parameter
		xp := kit.PathOf(x)
		return xp == pp || strings.HasPrefix(xp, pp+".")
	})
}
