package main

// Mutation self-test of the thorough tier.
//
// For every function that holds at least one obligation of the property, small
// structural mutants of the REAL source are generated (a call statement or a
// defer deleted, an if-condition negated, a guard `if … { return … }` removed,
// two adjacent simple statements swapped). Each mutant is handed to the loader
// through packages.Config.Overlay in a sub-process (no copy of /repo is made,
// nothing is executed), the property's rules are evaluated on it, and the
// mutant counts as killed when an obligation that is discharged on the real
// tree is reported on the mutant. Mutants that do not type-check are discarded
// and counted. This validates that the rules react to changes of the code they
// talk about; it does not decide the property, and survivors (e.g. a deleted
// metrics call) are expected.

import (
	"bytes"
	"encoding/json"
	"fmt"
	"go/ast"
	"go/parser"
	"go/printer"
	"go/token"
	"os"
	"os/exec"
	"path/filepath"
	"sort"
	"strconv"
	"strings"
	"sync"
	"time"

	"conduitlint/kit"
)

type mutant struct {
	File string `json:"file"`
	Func string `json:"func"`
	Op   string `json:"op"`
	Line int    `json:"line"`
	src  []byte
}

type mutantResult struct {
	File     string   `json:"file"`
	Func     string   `json:"func"`
	Op       string   `json:"op"`
	Line     int      `json:"line"`
	Status   string   `json:"status"` // killed | survived | discarded
	KilledBy []string `json:"killed_by,omitempty"`
}

// anchorFuncs maps file -> set of function names that hold obligations.
func anchorFuncs(repo string, obs []kit.Ob) map[string]map[int]bool {
	out := map[string]map[int]bool{}
	for _, o := range obs {
		i := strings.LastIndex(o.Pos, ":")
		if i <= 0 {
			continue
		}
		line, err := strconv.Atoi(o.Pos[i+1:])
		if err != nil {
			continue
		}
		f := filepath.Join(repo, o.Pos[:i])
		if !strings.HasSuffix(f, ".go") {
			continue
		}
		if out[f] == nil {
			out[f] = map[int]bool{}
		}
		out[f][line] = true
	}
	return out
}

func isLogCall(e ast.Expr) bool {
	// x.logger.…().Msg(…) chains and similar: any selector chain mentioning logger/Logger
	s := exprString(e)
	return strings.Contains(s, "logger.") || strings.Contains(s, "Logger.") || strings.Contains(s, ".Msg(") || strings.Contains(s, ".Msgf(")
}

func exprString(e ast.Expr) string {
	var b bytes.Buffer
	_ = printer.Fprint(&b, token.NewFileSet(), e)
	return b.String()
}

// genMutants produces mutants of the functions of file that contain one of lines.
func genMutants(file string, lines map[int]bool, perFunc int) []mutant {
	src, err := os.ReadFile(file)
	if err != nil {
		return nil
	}
	var out []mutant
	// enumerate candidate sites on a pristine parse, then re-parse for every mutant (simplest way to get an independent tree)
	type site struct {
		fn   string
		op   string
		line int
		idx  int // ordinal of the site within the function for the given op
	}
	fset := token.NewFileSet()
	f, err := parser.ParseFile(fset, file, src, parser.ParseComments)
	if err != nil {
		return nil
	}
	var sites []site
	for _, d := range f.Decls {
		fd, ok := d.(*ast.FuncDecl)
		if !ok || fd.Body == nil {
			continue
		}
		s, e := fset.Position(fd.Pos()).Line, fset.Position(fd.End()).Line
		hit := false
		for l := range lines {
			if l >= s && l <= e {
				hit = true
			}
		}
		if !hit {
			continue
		}
		name := fd.Name.Name
		if fd.Recv != nil && len(fd.Recv.List) == 1 {
			name = exprString(fd.Recv.List[0].Type) + "." + name
		}
		counts := map[string]int{}
		var fnSites []site
		walkBlocks(fd.Body, func(list []ast.Stmt) {
			for i, st := range list {
				ln := fset.Position(st.Pos()).Line
				switch x := st.(type) {
				case *ast.ExprStmt:
					if _, ok := x.X.(*ast.CallExpr); ok && !isLogCall(x.X) && len(list) > 1 {
						fnSites = append(fnSites, site{name, "DEL-CALL", ln, counts["DEL-CALL"]})
						counts["DEL-CALL"]++
					}
				case *ast.DeferStmt:
					fnSites = append(fnSites, site{name, "DEL-DEFER", ln, counts["DEL-DEFER"]})
					counts["DEL-DEFER"]++
				case *ast.IfStmt:
					fnSites = append(fnSites, site{name, "NEG-IF", ln, counts["NEG-IF"]})
					counts["NEG-IF"]++
					if x.Else == nil && endsInReturn(x.Body) && x.Init == nil {
						fnSites = append(fnSites, site{name, "DEL-GUARD", ln, counts["DEL-GUARD"]})
						counts["DEL-GUARD"]++
					}
				}
				if i+1 < len(list) && simpleStmt(st) && simpleStmt(list[i+1]) {
					fnSites = append(fnSites, site{name, "SWAP", ln, counts["SWAP"]})
					counts["SWAP"]++
				}
			}
		})
		// deterministic thinning: keep at most perFunc sites, spread over the function
		if len(fnSites) > perFunc {
			step := float64(len(fnSites)) / float64(perFunc)
			var kept []site
			for k := 0; k < perFunc; k++ {
				kept = append(kept, fnSites[int(float64(k)*step)])
			}
			fnSites = kept
		}
		sites = append(sites, fnSites...)
	}
	for _, s := range sites {
		fs2 := token.NewFileSet()
		f2, err := parser.ParseFile(fs2, file, src, parser.ParseComments)
		if err != nil {
			continue
		}
		applied := false
		for _, d := range f2.Decls {
			fd, ok := d.(*ast.FuncDecl)
			if !ok || fd.Body == nil {
				continue
			}
			name := fd.Name.Name
			if fd.Recv != nil && len(fd.Recv.List) == 1 {
				name = exprString(fd.Recv.List[0].Type) + "." + name
			}
			if name != s.fn {
				continue
			}
			n := 0
			walkBlocksMut(fd.Body, func(list []ast.Stmt) []ast.Stmt {
				if applied {
					return list
				}
				for i, st := range list {
					switch s.op {
					case "DEL-CALL":
						if x, ok := st.(*ast.ExprStmt); ok {
							if _, ok := x.X.(*ast.CallExpr); ok && !isLogCall(x.X) && len(list) > 1 {
								if n == s.idx {
									applied = true
									return append(append([]ast.Stmt{}, list[:i]...), list[i+1:]...)
								}
								n++
							}
						}
					case "DEL-DEFER":
						if _, ok := st.(*ast.DeferStmt); ok {
							if n == s.idx {
								applied = true
								return append(append([]ast.Stmt{}, list[:i]...), list[i+1:]...)
							}
							n++
						}
					case "NEG-IF":
						if x, ok := st.(*ast.IfStmt); ok {
							if n == s.idx {
								x.Cond = &ast.UnaryExpr{Op: token.NOT, X: &ast.ParenExpr{X: x.Cond}}
								applied = true
								return list
							}
							n++
						}
					case "DEL-GUARD":
						if x, ok := st.(*ast.IfStmt); ok && x.Else == nil && endsInReturn(x.Body) && x.Init == nil {
							if n == s.idx {
								applied = true
								return append(append([]ast.Stmt{}, list[:i]...), list[i+1:]...)
							}
							n++
						}
					case "SWAP":
						if i+1 < len(list) && simpleStmt(st) && simpleStmt(list[i+1]) {
							if n == s.idx {
								nl := append([]ast.Stmt{}, list...)
								nl[i], nl[i+1] = nl[i+1], nl[i]
								applied = true
								return nl
							}
							n++
						}
					}
				}
				return list
			})
		}
		if !applied {
			continue
		}
		var b bytes.Buffer
		// comments are dropped on purpose: moving statements with attached comments confuses the printer
		f2.Comments = nil
		if err := printer.Fprint(&b, fs2, f2); err != nil {
			continue
		}
		out = append(out, mutant{File: file, Func: s.fn, Op: s.op, Line: s.line, src: b.Bytes()})
	}
	return out
}

func endsInReturn(b *ast.BlockStmt) bool {
	if len(b.List) == 0 {
		return false
	}
	_, ok := b.List[len(b.List)-1].(*ast.ReturnStmt)
	return ok
}

func simpleStmt(s ast.Stmt) bool {
	switch x := s.(type) {
	case *ast.ExprStmt:
		return !isLogCall(x.X)
	case *ast.AssignStmt:
		return x.Tok != token.DEFINE // swapping definitions mostly breaks compilation
	}
	return false
}

func walkBlocks(b *ast.BlockStmt, f func([]ast.Stmt)) {
	ast.Inspect(b, func(n ast.Node) bool {
		switch x := n.(type) {
		case *ast.BlockStmt:
			f(x.List)
		case *ast.CaseClause:
			f(x.Body)
		case *ast.CommClause:
			f(x.Body)
		case *ast.FuncLit:
			return true
		}
		return true
	})
}

func walkBlocksMut(b *ast.BlockStmt, f func([]ast.Stmt) []ast.Stmt) {
	ast.Inspect(b, func(n ast.Node) bool {
		switch x := n.(type) {
		case *ast.BlockStmt:
			x.List = f(x.List)
		case *ast.CaseClause:
			x.Body = f(x.Body)
		case *ast.CommClause:
			x.Body = f(x.Body)
		}
		return true
	})
}

// runMutants evaluates the mutants in sub-processes and returns the results.
func runMutants(self, repo, verif, prop string, baselineBad map[string]bool, ms []mutant, par int) []mutantResult {
	tmp, err := os.MkdirTemp(filepath.Join(verif, "bin"), "mut-"+prop+"-")
	if err != nil {
		return nil
	}
	defer os.RemoveAll(tmp)
	res := make([]mutantResult, len(ms))
	var wg sync.WaitGroup
	sem := make(chan struct{}, par)
	for i := range ms {
		wg.Add(1)
		sem <- struct{}{}
		go func(i int) {
			defer wg.Done()
			defer func() { <-sem }()
			m := ms[i]
			res[i] = mutantResult{File: strings.TrimPrefix(m.File, repo+"/"), Func: m.Func, Op: m.Op, Line: m.Line}
			mf := filepath.Join(tmp, fmt.Sprintf("m%d.go", i))
			if err := os.WriteFile(mf, m.src, 0o644); err != nil {
				res[i].Status = "discarded"
				return
			}
			cmd := exec.Command(self, "-repo", repo, "-verif", verif, "-prop", prop, "-overlay", m.File+"="+mf, "-mutantrun")
			cmd.Env = os.Environ()
			out, _ := cmd.Output()
			var sum struct {
				LoadError string   `json:"load_error"`
				Bad       []string `json:"bad"`
			}
			if err := json.Unmarshal(out, &sum); err != nil || sum.LoadError != "" {
				res[i].Status = "discarded"
				return
			}
			for _, k := range sum.Bad {
				if !baselineBad[k] {
					res[i].KilledBy = append(res[i].KilledBy, k)
				}
			}
			if len(res[i].KilledBy) > 0 {
				res[i].Status = "killed"
				sort.Strings(res[i].KilledBy)
				if len(res[i].KilledBy) > 3 {
					res[i].KilledBy = res[i].KilledBy[:3]
				}
			} else {
				res[i].Status = "survived"
			}
		}(i)
	}
	wg.Wait()
	return res
}

// mutationSelfTest is called at the end of a thorough run.
func mutationSelfTest(self, repo, verif, prop string, obs []kit.Ob, seed int) map[string]any {
	t0 := time.Now()
	baselineBad := map[string]bool{}
	var okObs []kit.Ob
	for _, o := range obs {
		if o.Status != kit.OK {
			baselineBad[o.Rule+"|"+o.Key] = true
		} else {
			okObs = append(okObs, o)
		}
	}
	anchors := anchorFuncs(repo, okObs)
	var files []string
	for f := range anchors {
		files = append(files, f)
	}
	sort.Strings(files)
	var ms []mutant
	for _, f := range files {
		ms = append(ms, genMutants(f, anchors[f], 4)...)
	}
	// cap the total, deterministically (rotated by the seed)
	const maxMutants = 12
	if len(ms) > maxMutants {
		step := float64(len(ms)) / float64(maxMutants)
		var kept []mutant
		off := 0
		if seed > 0 {
			off = seed % len(ms)
		}
		for k := 0; k < maxMutants; k++ {
			kept = append(kept, ms[(off+int(float64(k)*step))%len(ms)])
		}
		ms = kept
	}
	res := runMutants(self, repo, verif, prop, baselineBad, ms, 8)
	killed, survived, discarded := 0, 0, 0
	byOp := map[string][2]int{}
	var survivors, samples []mutantResult
	for _, r := range res {
		switch r.Status {
		case "killed":
			killed++
			v := byOp[r.Op]
			v[0]++
			v[1]++
			byOp[r.Op] = v
			if len(samples) < 8 {
				samples = append(samples, r)
			}
		case "survived":
			survived++
			v := byOp[r.Op]
			v[1]++
			byOp[r.Op] = v
			survivors = append(survivors, r)
		default:
			discarded++
		}
	}
	if len(survivors) > 40 {
		survivors = survivors[:40]
	}
	ops := map[string]string{}
	for op, v := range byOp {
		ops[op] = fmt.Sprintf("%d/%d", v[0], v[1])
	}
	return map[string]any{
		"what":              "structural mutants of the real anchored functions, type-checked and analysed through packages.Config.Overlay in sub-processes (no code executed); killed = an obligation discharged on the real tree is reported on the mutant",
		"generated":         len(ms),
		"discarded_no_type": discarded,
		"killed":            killed,
		"survived":          survived,
		"killed_per_op":     ops,
		"killed_samples":    samples,
		"survivors":         survivors,
		"seconds":           time.Since(t0).Seconds(),
	}
}
