// conduitlint decides the structural clauses of the conduit properties
// (C01..C20) by static analysis of /repo's current working tree.
//
//	conduitlint -repo /repo -verif /verif -prop C01 -tier quick
//	conduitlint -explain /verif/evidence/C01.violations.json
package main

import (
	"encoding/json"
	"flag"
	"fmt"
	"os"
	"runtime/debug"
	"sort"
	"strconv"
	"strings"

	"conduitlint/kit"
	"conduitlint/rules"
)

func main() {
	repo := flag.String("repo", "/repo", "repository to analyse")
	verif := flag.String("verif", "/verif", "verification directory (evidence, known findings)")
	prop := flag.String("prop", "", "property id (C01..C20)")
	tier := flag.String("tier", "quick", "quick|thorough")
	explain := flag.String("explain", "", "print a violations file with source excerpts")
	list := flag.Bool("list", false, "list registered properties")
	goos := flag.String("goos", "", "GOOS for the load")
	goarch := flag.String("goarch", "", "GOARCH for the load")
	refs := flag.String("refs", "", "debug: list references to rel/pkg:Func (with dispatch family)")
	writes := flag.String("writes", "", "debug: list writes of rel/pkg:Type:field")
	dump := flag.String("dump", "", "debug: dump SSA of rel/pkg:Func")
	overlay := flag.String("overlay", "", "file=replacement: analyse with the file's content replaced (mutation self-test)")
	mutantRun := flag.Bool("mutantrun", false, "internal: evaluate one mutant and print a JSON summary")
	genTol := flag.Bool("gentolerated", false, "discovery: print the error sites of all anchor files that are not propagated (JSON for rules/tolerated_errors.json)")
	infer := flag.String("inferguards", "", "discovery: comma-separated rel packages; print guarded-by statistics per struct field")
	warm := flag.Bool("warm", false, "load the repository once (builds export data into the go build cache) and exit")
	flag.Parse()
	if *warm {
		w, err := kit.Load(*repo, "", "", true)
		if err != nil {
			fmt.Fprintln(os.Stderr, "warm-up load failed:", err)
			os.Exit(1)
		}
		fmt.Printf("warm: %d product packages, load %.1fs, ssa %.1fs\n", len(w.Pkgs), w.LoadSeconds, w.SSASeconds)
		return
	}
	if *refs != "" || *writes != "" || *dump != "" {
		os.Exit(debugCmd(*repo, *refs, *writes, *dump))
	}

	if *list {
		var ids []string
		for id := range rules.Registry {
			ids = append(ids, id)
		}
		sort.Strings(ids)
		fmt.Println(strings.Join(ids, " "))
		return
	}
	if *explain != "" {
		os.Exit(doExplain(*repo, *explain))
	}
	rules.LoadAnchors(*verif)
	if *genTol {
		w, err := kit.Load(*repo, *goos, *goarch, true)
		if err != nil {
			fmt.Fprintln(os.Stderr, "load failed:", err)
			os.Exit(2)
		}
		rules.GenTolerated(w)
		os.Exit(0)
	}
	if *infer != "" {
		w, err := kit.Load(*repo, *goos, *goarch, true)
		if err != nil {
			fmt.Fprintln(os.Stderr, "load failed:", err)
			os.Exit(2)
		}
		for _, g := range w.InferGuards(strings.Split(*infer, ",")) {
			fmt.Printf("%s.%s.%s guarded by %s: %d/%d held, %d writes\n", g.Pkg, g.Struct, g.Field, g.Mutex, g.Held, g.Total, g.Writes)
			for _, u := range g.Unheld {
				fmt.Printf("    unheld: %s\n", u)
			}
		}
		os.Exit(0)
	}
	if *overlay != "" {
		parts := strings.SplitN(*overlay, "=", 2)
		b, err := os.ReadFile(parts[1])
		if err != nil {
			fmt.Fprintln(os.Stderr, err)
			os.Exit(2)
		}
		kit.Overlay = map[string][]byte{parts[0]: b}
	}
	if *mutantRun {
		os.Exit(doMutantRun(*repo, *verif, *prop))
	}
	if *prop == "ALL" {
		// dry run of every property on one load; writes no evidence (matrix tools)
		w, err := kit.Load(*repo, *goos, *goarch, true)
		if err != nil {
			// a tree that does not load is undecided for every property (the matrix tools grep these lines)
			fmt.Fprintln(os.Stderr, "load failed:", err)
			var all []string
			for id := range rules.Registry {
				all = append(all, id)
			}
			sort.Strings(all)
			for _, id := range all {
				fmt.Printf("  UNDECIDED %s.R0 [load] : the repository could not be loaded/type-checked\n", id)
			}
			os.Exit(1)
		}
		var ids []string
		for id := range rules.Registry {
			ids = append(ids, id)
		}
		sort.Strings(ids)
		rc := 0
		for _, id := range ids {
			pp := rules.Registry[id]
			r := kit.NewReport(id, "quick")
			r.NoWrite = true
			func() {
				defer func() {
					if e := recover(); e != nil {
						r.Undecided(id+".R0", "checker-panic", "", fmt.Sprintf("the analysis panicked: %v", e))
					}
				}()
				rules.RunAll(pp, &rules.Ctx{W: w, R: r, Tier: "quick"}, *verif)
			}()
			if r.Finish(*verif, w, pp.Explanation, pp.NotDecided, pp.Assumptions, 0) != 0 {
				rc = 1
			}
		}
		os.Exit(rc)
	}
	p := rules.Registry[*prop]
	if p == nil {
		fmt.Fprintf(os.Stderr, "unknown property %q\n", *prop)
		os.Exit(2)
	}
	seed := 0
	if s := os.Getenv("VERIF_SEED"); s != "" {
		seed, _ = strconv.Atoi(s)
	}
	os.Exit(run(p, *repo, *verif, *tier, *goos, *goarch, seed))
}

func run(p *rules.Property, repo, verif, tier, goos, goarch string, seed int) (code int) {
	r := kit.NewReport(p.ID, tier)
	var w *kit.World
	defer func() {
		if e := recover(); e != nil {
			// a panic in the analysis is a failed check, never a pass
			fmt.Fprintf(os.Stderr, "conduitlint panic: %v\n%s\n", e, debug.Stack())
			r.Undecided(p.ID+".R0", "checker-panic", "", fmt.Sprintf("the analysis panicked: %v", e))
			code = r.Finish(verif, w, p.Explanation, p.NotDecided, p.Assumptions, seed)
			if code == 0 {
				code = 1
			}
		}
	}()
	var err error
	w, err = kit.Load(repo, goos, goarch, true)
	if err != nil {
		fmt.Fprintf(os.Stderr, "load failed: %v\n", err)
		r.Undecided(p.ID+".R0", "load", "", "the repository could not be loaded/type-checked: "+err.Error())
		return r.Finish(verif, nil, p.Explanation, p.NotDecided, p.Assumptions, seed)
	}
	c := &rules.Ctx{W: w, R: r, Tier: tier}
	rules.RunAll(p, c, verif)
	variants := []string{"host"}
	if tier == "thorough" && goos == "" && goarch == "" {
		// build-variant matrix: the same rules on the windows and 386 file sets
		// (build-tagged files). Obligations of a variant are kept only when
		// they differ from the host run (new key or non-ok status).
		host := map[string]bool{}
		for _, o := range r.Obs {
			host[o.Rule+"|"+o.Key] = true
		}
		for _, v := range [][2]string{{"windows", ""}, {"", "386"}} {
			name := v[0] + v[1]
			vw, err := kit.Load(repo, v[0], v[1], true)
			if err != nil {
				r.Undecided(p.ID+".R0", "load:"+name, "", "build variant "+name+" could not be loaded: "+err.Error())
				continue
			}
			vr := kit.NewReport(p.ID, tier)
			rules.RunAll(p, &rules.Ctx{W: vw, R: vr, Tier: tier}, verif)
			kept := 0
			for _, o := range vr.Obs {
				if o.Status != kit.OK || !host[o.Rule+"|"+o.Key] {
					o.Key = "[" + name + "] " + o.Key
					r.Obs = append(r.Obs, o)
					kept++
				}
			}
			variants = append(variants, fmt.Sprintf("%s: %d obligations, %d differing from host", name, len(vr.Obs), kept))
		}
	}
	r.Extra["build_variants"] = variants
	if tier == "thorough" && os.Getenv("CONDUITLINT_MUTATE") == "1" {
		if self, err := os.Executable(); err == nil {
			r.Extra["mutation_self_test"] = mutationSelfTest(self, repo, verif, p.ID, r.Obs, seed)
		}
	}
	return r.Finish(verif, w, p.Explanation, p.NotDecided, p.Assumptions, seed)
}

func doExplain(repo, path string) int {
	b, err := os.ReadFile(path)
	if err != nil {
		fmt.Fprintln(os.Stderr, err)
		return 2
	}
	var obs []kit.Ob
	if err := json.Unmarshal(b, &obs); err != nil {
		fmt.Fprintln(os.Stderr, err)
		return 2
	}
	for _, o := range obs {
		fmt.Printf("%s %s [%s]\n  at %s\n  %s\n", strings.ToUpper(o.Status), o.Rule, o.Key, o.Pos, o.Detail)
		if i := strings.LastIndex(o.Pos, ":"); i > 0 {
			file := repo + "/" + o.Pos[:i]
			line, _ := strconv.Atoi(o.Pos[i+1:])
			if src, err := os.ReadFile(file); err == nil {
				lines := strings.Split(string(src), "\n")
				for l := line - 3; l <= line+2; l++ {
					if l >= 1 && l <= len(lines) {
						mark := "  "
						if l == line {
							mark = "=>"
						}
						fmt.Printf("  %s %5d  %s\n", mark, l, lines[l-1])
					}
				}
			}
		}
		fmt.Println()
	}
	if len(obs) > 0 {
		return 1
	}
	return 0
}

func debugCmd(repo, refs, writes, dump string) int {
	w, err := kit.Load(repo, "", "", dump != "")
	if err != nil {
		fmt.Fprintln(os.Stderr, err)
		return 2
	}
	fmt.Fprintf(os.Stderr, "loaded %d packages in %.1fs (ssa %.1fs)\n", len(w.Pkgs), w.LoadSeconds, w.SSASeconds)
	if refs != "" {
		for _, one := range strings.Split(refs, ",") {
			parts := strings.SplitN(one, ":", 2)
			f := w.LookupFunc(parts[0], parts[1])
			if f == nil {
				fmt.Println("unresolved", one)
				continue
			}
			fam := w.Family(f)
			fmt.Println("==", one, "family:", fam.Names())
			for _, r := range w.Refs(fam) {
				fmt.Printf("  %-6s %-70s %s\n", r.Kind, r.Where, w.Pos(r.Pos))
			}
		}
	}
	if writes != "" {
		for _, one := range strings.Split(writes, ",") {
			parts := strings.SplitN(one, ":", 3)
			v := w.LookupField(parts[0], parts[1], parts[2])
			if v == nil {
				fmt.Println("unresolved", one)
				continue
			}
			fmt.Println("==", one)
			for _, r := range w.FieldWrites(v) {
				fmt.Printf("  %-12s %-70s %s\n", r.Kind, r.Where, w.Pos(r.Pos))
			}
		}
	}
	if dump != "" {
		parts := strings.SplitN(dump, ":", 2)
		f := w.SSAFunc(w.LookupFunc(parts[0], parts[1]))
		if f == nil {
			fmt.Println("unresolved", dump)
			return 1
		}
		for _, fn := range kit.WithAnon(f) {
			fn.WriteTo(os.Stdout)
		}
	}
	return 0
}

func doMutantRun(repo, verif, prop string) int {
	out := map[string]any{}
	defer func() {
		b, _ := json.Marshal(out)
		fmt.Println(string(b))
	}()
	p := rules.Registry[prop]
	if p == nil {
		out["load_error"] = "unknown property"
		return 2
	}
	w, err := kit.Load(repo, "", "", true)
	if err != nil {
		out["load_error"] = err.Error()
		return 0
	}
	r := kit.NewReport(prop, "thorough")
	r.NoWrite = true
	func() {
		defer func() {
			if e := recover(); e != nil {
				r.Undecided(prop+".R0", "checker-panic", "", fmt.Sprint(e))
			}
		}()
		rules.RunAll(p, &rules.Ctx{W: w, R: r, Tier: "thorough"}, verif)
	}()
	// include instance-count failures
	devnull, _ := os.Open(os.DevNull)
	_ = devnull
	old := os.Stdout
	os.Stdout, _ = os.OpenFile(os.DevNull, os.O_WRONLY, 0)
	r.Finish(verif, w, "", nil, nil, 0)
	os.Stdout = old
	var bad []string
	for _, o := range r.Obs {
		if o.Status != kit.OK {
			bad = append(bad, o.Rule+"|"+o.Key)
		}
	}
	out["bad"] = bad
	return 0
}
