package kit

import (
	"fmt"
	"go/types"
	"sort"
	"strings"

	"golang.org/x/tools/go/ssa"
)

// GuardStat is the result of the guarded-by discovery for one (struct, field).
type GuardStat struct {
	Pkg, Struct, Field, Mutex string
	Total, Held               int
	Unheld                    []string // "func: pos"
	Writes                    int
}

func isMutexType(t types.Type) bool {
	if p, ok := t.(*types.Pointer); ok {
		t = p.Elem()
	}
	n, ok := t.(*types.Named)
	if !ok || n.Obj().Pkg() == nil || n.Obj().Pkg().Path() != "sync" {
		return false
	}
	return n.Obj().Name() == "Mutex" || n.Obj().Name() == "RWMutex"
}

// AllFuncs lists every function of the SSA package (members, methods, literals).
func (w *World) AllFuncs(sp *ssa.Package) []*ssa.Function {
	var out []*ssa.Function
	seen := map[*ssa.Function]bool{}
	add := func(f *ssa.Function) {
		if f == nil || seen[f] {
			return
		}
		for _, ff := range WithAnon(f) {
			if !seen[ff] {
				seen[ff] = true
				out = append(out, ff)
			}
		}
	}
	for _, m := range sp.Members {
		switch x := m.(type) {
		case *ssa.Function:
			add(x)
		case *ssa.Type:
			for _, t := range []types.Type{x.Type(), types.NewPointer(x.Type())} {
				ms := w.Prog.MethodSets.MethodSet(t)
				for i := 0; i < ms.Len(); i++ {
					if f := w.Prog.MethodValue(ms.At(i)); f != nil && f.Pkg == sp {
						add(f)
					}
				}
			}
		}
	}
	sort.Slice(out, func(i, j int) bool { return FuncKey(out[i]) < FuncKey(out[j]) })
	return out
}

// RequiresLock computes, for the functions of sp, the "requires-lock" entry
// locksets: a function every static caller of which (inside the package) holds
// `<receiver-or-arg>.mutex` at the call gets `recv.mutex`/`arg<i>.mutex` as its
// entry lockset. Two rounds (helpers of helpers).
func (w *World) RequiresLock(sp *ssa.Package, spec LockSpec) map[*ssa.Function][]string {
	funcs := w.AllFuncs(sp)
	entry := map[*ssa.Function][]string{}
	for round := 0; round < 3; round++ {
		type site struct {
			held string
			args []string
		}
		callers := map[*ssa.Function][]site{}
		for _, f := range funcs {
			ls := Locksets(f, spec, entry[f])
			for _, b := range f.Blocks {
				for _, in := range b.Instrs {
					ci, ok := in.(ssa.CallInstruction)
					if !ok {
						continue
					}
					callee := ci.Common().StaticCallee()
					if callee == nil || callee.Pkg != sp {
						if mc, ok := ci.Common().Value.(*ssa.MakeClosure); ok {
							callee, _ = mc.Fn.(*ssa.Function)
						}
						if callee == nil {
							continue
						}
					}
					if _, isGo := in.(*ssa.Go); isGo {
						callers[callee] = append(callers[callee], site{held: "{}"})
						continue
					}
					var args []string
					for _, a := range ci.Common().Args {
						args = append(args, PathOf(a))
					}
					callers[callee] = append(callers[callee], site{held: ls[in], args: args})
				}
			}
		}
		changed := false
		for _, f := range funcs {
			sites := callers[f]
			if len(sites) == 0 || f.Parent() != nil {
				continue
			}
			// exported methods can be called from outside
			if f.Object() != nil && f.Object().Exported() {
				continue
			}
			// candidate locks: for each param i, any lock "<arg_i path>.X" held at all sites
			var req []string
			for i := range f.Params {
				pname := PathOf(f.Params[i])
				cands := map[string]int{}
				for _, s := range sites {
					if i >= len(s.args) {
						continue
					}
					prefix := s.args[i] + "."
					for _, l := range strings.Split(strings.Trim(s.held, "{}"), ",") {
						if strings.HasPrefix(l, prefix) && !strings.Contains(strings.TrimPrefix(l, prefix), ".") || (strings.HasPrefix(l, prefix) && strings.HasSuffix(l, "Mutex")) {
							cands[strings.TrimPrefix(l, prefix)]++
						}
					}
				}
				for suffix, n := range cands {
					if n == len(sites) {
						req = append(req, pname+"."+suffix)
					}
				}
			}
			sort.Strings(req)
			if strings.Join(req, ",") != strings.Join(entry[f], ",") {
				entry[f] = req
				changed = true
			}
		}
		if !changed {
			break
		}
	}
	return entry
}

// InferGuards prints, for every struct with a mutex field in the given
// packages, how often each sibling field is accessed with that mutex held.
func (w *World) InferGuards(rels []string) []GuardStat {
	spec := w.StdLockSpec()
	var out []GuardStat
	for _, rel := range rels {
		p := w.Pkg(rel)
		if p == nil {
			continue
		}
		sp := w.SSA[p.Types]
		entry := w.RequiresLock(sp, spec)
		funcs := w.AllFuncs(sp)
		scope := p.Types.Scope()
		for _, name := range scope.Names() {
			tn, ok := scope.Lookup(name).(*types.TypeName)
			if !ok {
				continue
			}
			st, ok := tn.Type().Underlying().(*types.Struct)
			if !ok {
				continue
			}
			var mutexes []*types.Var
			for i := 0; i < st.NumFields(); i++ {
				if isMutexType(st.Field(i).Type()) {
					mutexes = append(mutexes, st.Field(i))
				}
			}
			for _, mu := range mutexes {
				for i := 0; i < st.NumFields(); i++ {
					f := st.Field(i)
					if f == mu || isMutexType(f.Type()) {
						continue
					}
					gs := GuardStat{Pkg: rel, Struct: name, Field: f.Name(), Mutex: mu.Name()}
					for _, fn := range funcs {
						root := fn
						for root.Parent() != nil {
							root = root.Parent()
						}
						for _, a := range CheckGuarded(fn, spec, entry[fn], mu.Name(), []*types.Var{f}) {
							gs.Total++
							if isStoreAddr(a.Instr) {
								gs.Writes++
							}
							if a.OK {
								gs.Held++
							} else {
								gs.Unheld = append(gs.Unheld, fmt.Sprintf("%s @%s (held %s)", FuncKey(fn), w.Pos(a.Instr.Pos()), a.Held))
							}
						}
						_ = root
					}
					if gs.Total > 0 {
						out = append(out, gs)
					}
				}
			}
		}
	}
	return out
}

func isStoreAddr(in ssa.Instruction) bool {
	v, ok := in.(ssa.Value)
	if !ok {
		return false
	}
	refs := v.Referrers()
	if refs == nil {
		return false
	}
	for _, r := range *refs {
		if st, ok := r.(*ssa.Store); ok && st.Addr == v {
			return true
		}
	}
	return false
}
