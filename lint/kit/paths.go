package kit

import (
	"strings"
	"go/constant"
	"go/token"
	"go/types"

	"golang.org/x/tools/go/ssa"
)

// Edge is a control-flow edge.
type Edge struct{ From, To *ssa.BasicBlock }

// Gates is a set of program points (edges and instructions). The path rules
// ask whether every path must cross one of them.
type Gates struct {
	Edges  map[Edge]bool
	Instrs map[ssa.Instruction]bool
	Why    []string // human description of what the gates are
}

func NewGates() *Gates {
	return &Gates{Edges: map[Edge]bool{}, Instrs: map[ssa.Instruction]bool{}}
}

func (g *Gates) AddEdges(es []Edge, why string) *Gates {
	for _, e := range es {
		g.Edges[e] = true
	}
	if why != "" {
		g.Why = append(g.Why, why)
	}
	return g
}

func (g *Gates) AddInstr(i ssa.Instruction, why string) *Gates {
	if i != nil {
		g.Instrs[i] = true
	}
	if why != "" {
		g.Why = append(g.Why, why)
	}
	return g
}

func (g *Gates) Empty() bool { return len(g.Edges) == 0 && len(g.Instrs) == 0 }

// Union merges other into g.
func (g *Gates) Union(o *Gates) *Gates {
	if o == nil {
		return g
	}
	for e := range o.Edges {
		g.Edges[e] = true
	}
	for i := range o.Instrs {
		g.Instrs[i] = true
	}
	g.Why = append(g.Why, o.Why...)
	return g
}

// MustPass reports whether every path from the entry of target's function to
// target crosses at least one gate. When it does not, the second result is a
// witness: the block indices of a gate-free path.
func MustPass(target ssa.Instruction, g *Gates) (bool, []int) {
	fn := target.Parent()
	if fn == nil || len(fn.Blocks) == 0 {
		return false, nil
	}
	return mustPassFrom(fn.Blocks[0], 0, target, g)
}

func mustPassFrom(start *ssa.BasicBlock, idx int, target ssa.Instruction, g *Gates) (bool, []int) {
	if g == nil {
		g = NewGates()
	}
	type item struct {
		b    *ssa.BasicBlock
		from int
	}
	prev := map[*ssa.BasicBlock]*ssa.BasicBlock{}
	seen := map[*ssa.BasicBlock]bool{}
	queue := []item{{start, idx}}
	seenStart := false
	for len(queue) > 0 {
		it := queue[0]
		queue = queue[1:]
		b := it.b
		if it.from == 0 {
			if seen[b] {
				continue
			}
			seen[b] = true
		} else {
			if seenStart {
				continue
			}
			seenStart = true
		}
		blocked := false
		for i := it.from; i < len(b.Instrs); i++ {
			in := b.Instrs[i]
			if in == target {
				var path []int
				for x := b; x != nil; x = prev[x] {
					path = append([]int{x.Index}, path...)
					if x == start {
						break
					}
				}
				return false, path
			}
			if g.Instrs[in] {
				blocked = true
				break
			}
		}
		if blocked {
			continue
		}
		for _, s := range b.Succs {
			if g.Edges[Edge{b, s}] {
				continue
			}
			if !seen[s] {
				if _, ok := prev[s]; !ok {
					prev[s] = b
				}
				queue = append(queue, item{s, 0})
			}
		}
	}
	return true, nil
}

// PassesBetween reports whether every path from just after `from` to target
// crosses a gate (used for "A ... gate ... B" orderings).
func PassesBetween(from, target ssa.Instruction, g *Gates) (bool, []int) {
	b := from.Block()
	for i, in := range b.Instrs {
		if in == from {
			return mustPassFrom(b, i+1, target, g)
		}
	}
	return false, nil
}

// Reaches reports whether target is reachable from just after `from` without
// crossing a gate.
func Reaches(from, target ssa.Instruction, g *Gates) bool {
	ok, _ := PassesBetween(from, target, g)
	return !ok
}

// ExitSpec describes what discharges an exit in AllExits.
type ExitSpec struct {
	Gates *Gates
	// DeferGates: once one of these defer instructions has executed on the
	// path, every later RunDefers (function exit, including via panic) counts
	// as a gate.
	DeferGates map[*ssa.Defer]bool
	// IncludePanic makes explicit panic instructions count as exits that need
	// a gate (with an armed defer they are discharged).
	IncludePanic bool
	// AlsoExits: reaching one of these instructions counts as an exit that
	// needs a gate (e.g. the next receive of a loop).
	AlsoExits map[ssa.Instruction]bool
}

// AllExits reports whether every path from just after `from` to a function
// exit crosses a gate. The witness is the block index of the offending exit.
func AllExits(from ssa.Instruction, spec ExitSpec) (bool, []int) {
	b := from.Block()
	idx := -1
	for i, in := range b.Instrs {
		if in == from {
			idx = i + 1
		}
	}
	if idx < 0 {
		return false, nil
	}
	armed := false
	for d := range spec.DeferGates {
		if InstrDominates(d, from) {
			armed = true
		}
	}
	return allExitsFrom(b, idx, armed, spec)
}

// AllExitsFromEdge is AllExits starting at the head of edge.To.
func AllExitsFromEdge(e Edge, armed bool, spec ExitSpec) (bool, []int) {
	return allExitsFrom(e.To, 0, armed, spec)
}

func allExitsFrom(start *ssa.BasicBlock, idx int, armed bool, spec ExitSpec) (bool, []int) {
	type state struct {
		b     *ssa.BasicBlock
		armed bool
	}
	type item struct {
		s    state
		from int
	}
	g := spec.Gates
	if g == nil {
		g = NewGates()
	}
	seen := map[state]bool{}
	queue := []item{{state{start, armed}, idx}}
	first := true
	for len(queue) > 0 {
		it := queue[0]
		queue = queue[1:]
		if !(first && it.from > 0) {
			if seen[it.s] {
				continue
			}
			seen[it.s] = true
		}
		first = false
		b := it.s.b
		arm := it.s.armed
		blocked := false
	instrs:
		for i := it.from; i < len(b.Instrs); i++ {
			in := b.Instrs[i]
			if g.Instrs[in] {
				blocked = true
				break
			}
			if spec.AlsoExits[in] {
				return false, []int{b.Index}
			}
			switch x := in.(type) {
			case *ssa.Defer:
				if spec.DeferGates[x] {
					arm = true
				}
			case *ssa.RunDefers:
				if arm {
					blocked = true
					break instrs
				}
			case *ssa.Return:
				return false, []int{b.Index}
			case *ssa.Panic:
				if arm {
					blocked = true
					break instrs
				}
				if spec.IncludePanic {
					return false, []int{b.Index}
				}
				blocked = true
				break instrs
			}
		}
		if blocked {
			continue
		}
		for _, s := range b.Succs {
			if g.Edges[Edge{b, s}] {
				continue
			}
			queue = append(queue, item{state{s, arm}, 0})
		}
	}
	return true, nil
}

// InstrDominates reports whether a dominates b (same function).
func InstrDominates(a, b ssa.Instruction) bool {
	if a.Parent() != b.Parent() {
		return false
	}
	ab, bb := a.Block(), b.Block()
	if ab == bb {
		for _, in := range ab.Instrs {
			if in == a {
				return true
			}
			if in == b {
				return false
			}
		}
		return false
	}
	return ab.Dominates(bb)
}

// ---------------------------------------------------------------------------
// Conditions

// CondEdges returns the edges on which boolean value cond is known to equal
// want. It follows negations.
func CondEdges(cond ssa.Value, want bool) []Edge {
	var out []Edge
	refs := cond.Referrers()
	if refs == nil {
		return nil
	}
	for _, r := range *refs {
		switch x := r.(type) {
		case *ssa.If:
			b := x.Block()
			if len(b.Succs) == 2 {
				if want {
					out = append(out, Edge{b, b.Succs[0]})
				} else {
					out = append(out, Edge{b, b.Succs[1]})
				}
			}
		case *ssa.UnOp:
			if x.Op == token.NOT {
				out = append(out, CondEdges(x, !want)...)
			}
		}
	}
	return out
}

// IsNilConst reports whether v is the nil constant.
func IsNilConst(v ssa.Value) bool {
	c, ok := v.(*ssa.Const)
	return ok && c.Value == nil && c.IsNil()
}

// IsIntConst reports whether v is an integer constant equal to n.
func IsIntConst(v ssa.Value, n int64) bool {
	c, ok := v.(*ssa.Const)
	if !ok || c.Value == nil || c.Value.Kind() != constant.Int {
		return false
	}
	x, exact := constant.Int64Val(c.Value)
	return exact && x == n
}

// IsBoolConst reports whether v is the boolean constant b.
func IsBoolConst(v ssa.Value, b bool) bool {
	c, ok := v.(*ssa.Const)
	if !ok || c.Value == nil || c.Value.Kind() != constant.Bool {
		return false
	}
	return constant.BoolVal(c.Value) == b
}

// NilEdges returns the edges on which v (a pointer/interface/slice value) is
// known to be nil (wantNil) or non-nil (!wantNil). It follows stores into
// local cells (captured variables, named results) to the loads they reach,
// and interface conversions.
func NilEdges(v ssa.Value, wantNil bool) []Edge {
	return nilEdges(v, wantNil, map[ssa.Value]bool{})
}

func nilEdges(v ssa.Value, wantNil bool, seen map[ssa.Value]bool) []Edge {
	if v == nil || seen[v] {
		return nil
	}
	seen[v] = true
	var out []Edge
	refs := v.Referrers()
	if refs == nil {
		return nil
	}
	for _, r := range *refs {
		switch x := r.(type) {
		case *ssa.BinOp:
			if x.Op != token.EQL && x.Op != token.NEQ {
				continue
			}
			other := x.Y
			if x.Y == v {
				other = x.X
			}
			if !IsNilConst(other) {
				continue
			}
			// x true means: EQL -> v==nil ; NEQ -> v!=nil
			want := (x.Op == token.EQL) == wantNil
			out = append(out, CondEdges(x, want)...)
		case *ssa.Store:
			if x.Val != v {
				continue
			}
			for _, l := range ReachingLoads(x) {
				out = append(out, nilEdges(l, wantNil, seen)...)
			}
		case *ssa.ChangeInterface:
			out = append(out, nilEdges(x, wantNil, seen)...)
		case *ssa.ChangeType:
			out = append(out, nilEdges(x, wantNil, seen)...)
		case *ssa.Phi:
			// a phi merging v with other values: a nil test on the phi says
			// something about v only on paths where v flowed in; accepted as
			// a gate only when every other incoming edge is the nil constant
			// (the `var err error; if c { err = f() }` idiom is NOT accepted).
		}
	}
	return out
}

// ReachingLoads returns the loads of the stored-to address that the store
// reaches without an intervening store to the same address (same SSA address
// value). Only local allocs and identical address values are matched.
func ReachingLoads(st *ssa.Store) []ssa.Value {
	addr := st.Addr
	var out []ssa.Value
	b := st.Block()
	start := -1
	for i, in := range b.Instrs {
		if in == ssa.Instruction(st) {
			start = i + 1
		}
	}
	if start < 0 {
		return nil
	}
	type item struct {
		b    *ssa.BasicBlock
		from int
	}
	seen := map[*ssa.BasicBlock]bool{}
	queue := []item{{b, start}}
	first := true
	for len(queue) > 0 {
		it := queue[0]
		queue = queue[1:]
		if !first {
			if seen[it.b] {
				continue
			}
			seen[it.b] = true
		}
		first = false
		killed := false
		for i := it.from; i < len(it.b.Instrs); i++ {
			switch x := it.b.Instrs[i].(type) {
			case *ssa.Store:
				if x.Addr == addr {
					killed = true
				}
			case *ssa.UnOp:
				if x.Op == token.MUL && x.X == addr {
					out = append(out, x)
				}
			}
			if killed {
				break
			}
		}
		if killed {
			continue
		}
		for _, s := range it.b.Succs {
			queue = append(queue, item{s, 0})
		}
	}
	return out
}

// ---------------------------------------------------------------------------
// Calls and values

// CalleeOf resolves the called function object of a call (static callee or
// interface method); nil for calls of function values.
func CalleeOf(c *ssa.CallCommon) *types.Func {
	if c.IsInvoke() {
		return c.Method
	}
	if f := c.StaticCallee(); f != nil {
		if o, ok := f.Object().(*types.Func); ok {
			return o.Origin()
		}
		if f.Origin() != nil {
			if o, ok := f.Origin().Object().(*types.Func); ok {
				return o.Origin()
			}
		}
	}
	return nil
}

// CallsTo lists the call instructions (call, go, defer) in fn whose callee is
// in set. Function literals are not descended into; use WithAnon.
func CallsTo(fn *ssa.Function, set FuncSet) []ssa.CallInstruction {
	var out []ssa.CallInstruction
	if fn == nil {
		return nil
	}
	for _, b := range fn.Blocks {
		for _, in := range b.Instrs {
			ci, ok := in.(ssa.CallInstruction)
			if !ok {
				continue
			}
			if set.Has(CalleeOf(ci.Common())) {
				out = append(out, ci)
			}
		}
	}
	return out
}

// CallsToDeep is CallsTo over fn and all its function literals.
func CallsToDeep(fn *ssa.Function, set FuncSet) []ssa.CallInstruction {
	var out []ssa.CallInstruction
	for _, f := range WithAnon(fn) {
		out = append(out, CallsTo(f, set)...)
	}
	return out
}

var errorType = types.Universe.Lookup("error").Type()

// ErrResult returns the SSA value holding the error result of call (the last
// result if it has type error); nil when the call has no error result or the
// result is discarded.
func ErrResult(call ssa.CallInstruction) ssa.Value {
	v := call.Value()
	if v == nil {
		return nil
	}
	sig := call.Common().Signature()
	res := sig.Results()
	if res.Len() == 0 {
		return nil
	}
	last := res.Len() - 1
	if !types.Identical(res.At(last).Type(), errorType) {
		return nil
	}
	if res.Len() == 1 {
		return v
	}
	refs := v.Referrers()
	if refs == nil {
		return nil
	}
	for _, r := range *refs {
		if e, ok := r.(*ssa.Extract); ok && e.Index == last {
			return e
		}
	}
	return nil
}

// ResultN returns the SSA value of result i of a multi-result call.
func ResultN(call ssa.CallInstruction, i int) ssa.Value {
	v := call.Value()
	if v == nil {
		return nil
	}
	if call.Common().Signature().Results().Len() == 1 {
		if i == 0 {
			return v
		}
		return nil
	}
	refs := v.Referrers()
	if refs == nil {
		return nil
	}
	for _, r := range *refs {
		if e, ok := r.(*ssa.Extract); ok && e.Index == i {
			return e
		}
	}
	return nil
}

// OKEdges returns the edges on which call is known to have succeeded: its
// error result is nil, or (for a bool-returning call) its result is true.
func OKEdges(call ssa.CallInstruction) []Edge {
	if e := ErrResult(call); e != nil {
		return NilEdges(e, true)
	}
	v := call.Value()
	if v == nil {
		return nil
	}
	sig := call.Common().Signature()
	if sig.Results().Len() == 1 {
		if b, ok := sig.Results().At(0).Type().Underlying().(*types.Basic); ok && b.Kind() == types.Bool {
			return CondEdges(v, true)
		}
	}
	// (T, bool) idiom
	if n := sig.Results().Len(); n >= 2 {
		if b, ok := sig.Results().At(n - 1).Type().Underlying().(*types.Basic); ok && b.Kind() == types.Bool {
			if e := ResultN(call, n-1); e != nil {
				return CondEdges(e, true)
			}
		}
	}
	return nil
}

// FailEdges is the complement of OKEdges.
func FailEdges(call ssa.CallInstruction) []Edge {
	if e := ErrResult(call); e != nil {
		return NilEdges(e, false)
	}
	v := call.Value()
	if v == nil {
		return nil
	}
	sig := call.Common().Signature()
	if sig.Results().Len() == 1 {
		if b, ok := sig.Results().At(0).Type().Underlying().(*types.Basic); ok && b.Kind() == types.Bool {
			return CondEdges(v, false)
		}
	}
	return nil
}

// FieldOf returns the struct field object addressed by a FieldAddr / Field
// instruction.
func FieldOf(v ssa.Value) *types.Var {
	switch x := v.(type) {
	case *ssa.FieldAddr:
		st := structOf(x.X.Type())
		if st != nil && x.Field < st.NumFields() {
			return st.Field(x.Field)
		}
	case *ssa.Field:
		st := structOf(x.X.Type())
		if st != nil && x.Field < st.NumFields() {
			return st.Field(x.Field)
		}
	}
	return nil
}

func structOf(t types.Type) *types.Struct {
	if p, ok := t.Underlying().(*types.Pointer); ok {
		t = p.Elem()
	}
	st, _ := t.Underlying().(*types.Struct)
	return st
}

// SameField compares field objects modulo generic instantiation.
func SameField(a, b *types.Var) bool {
	if a == nil || b == nil {
		return false
	}
	return a == b || a.Origin() == b.Origin()
}

// FieldLoads returns every value in fn that reads field (load through a
// FieldAddr, or a Field extraction from a struct value).
func FieldLoads(fn *ssa.Function, field *types.Var) []ssa.Value {
	var out []ssa.Value
	for _, b := range fn.Blocks {
		for _, in := range b.Instrs {
			switch x := in.(type) {
			case *ssa.UnOp:
				if x.Op == token.MUL && SameField(FieldOf(x.X), field) {
					out = append(out, x)
				}
			case *ssa.Field:
				if SameField(FieldOf(x), field) {
					out = append(out, x)
				}
			}
		}
	}
	return out
}

// FieldStores returns the stores in fn whose address is field.
func FieldStores(fn *ssa.Function, field *types.Var) []*ssa.Store {
	var out []*ssa.Store
	for _, b := range fn.Blocks {
		for _, in := range b.Instrs {
			if st, ok := in.(*ssa.Store); ok && SameField(FieldOf(st.Addr), field) {
				out = append(out, st)
			}
		}
	}
	return out
}

// Instrs returns all instructions of fn matching pred.
func Instrs(fn *ssa.Function, pred func(ssa.Instruction) bool) []ssa.Instruction {
	var out []ssa.Instruction
	if fn == nil {
		return nil
	}
	for _, b := range fn.Blocks {
		for _, in := range b.Instrs {
			if pred(in) {
				out = append(out, in)
			}
		}
	}
	return out
}

// Returns lists the return instructions of fn.
func Returns(fn *ssa.Function) []*ssa.Return {
	var out []*ssa.Return
	for _, b := range fn.Blocks {
		if len(b.Instrs) == 0 {
			continue
		}
		if fn.Recover != nil && b == fn.Recover {
			continue // the synthetic recover block re-returns the result cells
		}
		if r, ok := b.Instrs[len(b.Instrs)-1].(*ssa.Return); ok {
			out = append(out, r)
		}
	}
	return out
}

// Unwrap strips conversions that do not change identity for our purposes.
func Unwrap(v ssa.Value) ssa.Value {
	for {
		switch x := v.(type) {
		case *ssa.ChangeType:
			v = x.X
		case *ssa.ChangeInterface:
			v = x.X
		case *ssa.MakeInterface:
			v = x.X
		case *ssa.Convert:
			v = x.X
		default:
			return v
		}
	}
}

// IsLenOf reports whether v is len(x) for some x satisfying pred.
func IsLenOf(v ssa.Value, pred func(ssa.Value) bool) bool {
	c, ok := v.(*ssa.Call)
	if !ok {
		return false
	}
	b, ok := c.Call.Value.(*ssa.Builtin)
	if !ok || b.Name() != "len" || len(c.Call.Args) != 1 {
		return false
	}
	return pred == nil || pred(c.Call.Args[0])
}

// ---------------------------------------------------------------------------
// More matchers

// IsFieldLoad reports whether v reads field (through a FieldAddr load or a
// Field extraction).
func IsFieldLoad(v ssa.Value, field *types.Var) bool {
	switch x := v.(type) {
	case *ssa.UnOp:
		return x.Op == token.MUL && SameField(FieldOf(x.X), field)
	case *ssa.Field:
		return SameField(FieldOf(x), field)
	}
	return false
}

// FieldBase returns the struct value/pointer a field read is based on.
func FieldBase(v ssa.Value) (ssa.Value, *types.Var) {
	switch x := v.(type) {
	case *ssa.UnOp:
		if x.Op == token.MUL {
			if fa, ok := x.X.(*ssa.FieldAddr); ok {
				return fa.X, FieldOf(fa)
			}
		}
	case *ssa.Field:
		return x.X, FieldOf(x)
	case *ssa.FieldAddr:
		return x.X, FieldOf(x)
	}
	return nil, nil
}

// IsElemOfField reports whether addr is &X.f[i] (IndexAddr over a load of
// field f).
func IsElemOfField(addr ssa.Value, field *types.Var) bool {
	ia, ok := addr.(*ssa.IndexAddr)
	if !ok {
		return false
	}
	return IsFieldLoad(ia.X, field)
}

// IsElemLoadOfField reports whether v is X.f[i].
func IsElemLoadOfField(v ssa.Value, field *types.Var) bool {
	u, ok := v.(*ssa.UnOp)
	if !ok || u.Op != token.MUL {
		return false
	}
	return IsElemOfField(u.X, field)
}

// SelectArmEdges returns the edges taken when state idx of sel fires.
func SelectArmEdges(sel *ssa.Select, idx int) []Edge {
	var out []Edge
	refs := sel.Referrers()
	if refs == nil {
		return nil
	}
	for _, r := range *refs {
		ex, ok := r.(*ssa.Extract)
		if !ok || ex.Index != 0 {
			continue
		}
		er := ex.Referrers()
		if er == nil {
			continue
		}
		for _, rr := range *er {
			b, ok := rr.(*ssa.BinOp)
			if !ok || b.Op != token.EQL {
				continue
			}
			if IsIntConst(b.Y, int64(idx)) || IsIntConst(b.X, int64(idx)) {
				out = append(out, CondEdges(b, true)...)
			}
		}
	}
	return out
}

// Selects lists the select instructions of fn.
func Selects(fn *ssa.Function) []*ssa.Select {
	var out []*ssa.Select
	for _, b := range fn.Blocks {
		for _, in := range b.Instrs {
			if s, ok := in.(*ssa.Select); ok {
				out = append(out, s)
			}
		}
	}
	return out
}

// EdgeReaches reports whether target is reachable from the head of e.To
// without crossing a gate.
func EdgeReaches(e Edge, target ssa.Instruction, g *Gates) bool {
	if g == nil {
		g = NewGates()
	}
	ok, _ := mustPassFrom(e.To, 0, target, g)
	return !ok
}

// CmpEdges returns the edges on which the comparison `x op y` described by
// pred holds. pred receives each integer/string comparison BinOp of fn and
// returns (matches, holdsWhenTrue): when matches, the true edge is returned
// if holdsWhenTrue else the false edge.
func CmpEdges(fn *ssa.Function, pred func(b *ssa.BinOp) (bool, bool)) []Edge {
	// the comparison may sit in fn itself or in a bool-returning predicate helper fn calls
	// (DeepCondEdges maps the helper's parameters back to fn's arguments)
	return DeepCondEdges(fn, func(f *ssa.Function, orig func(ssa.Value) ssa.Value) []CondGate {
		return cmpGates(f, orig, pred)
	})
}

// cmpGates presents every comparison of f to pred — as written and in its
// equivalent spellings (operands swapped, operator negated) — with operands
// mapped through orig, and returns the matched conditions.
func cmpGates(f *ssa.Function, orig func(ssa.Value) ssa.Value, pred func(b *ssa.BinOp) (bool, bool)) []CondGate {
	var out []CondGate
	for _, blk := range f.Blocks {
		for _, in := range blk.Instrs {
			b, ok := in.(*ssa.BinOp)
			if !ok {
				continue
			}
			switch b.Op {
			case token.EQL, token.NEQ, token.LSS, token.LEQ, token.GTR, token.GEQ:
			default:
				continue
			}
			view := b
			if ox, oy := orig(b.X), orig(b.Y); ox != b.X || oy != b.Y {
				cp := *b
				cp.X, cp.Y = ox, oy
				view = &cp
			}
			if m, whenTrue := pred(view); m {
				out = append(out, CondGate{Cond: b, Want: whenTrue})
				continue
			}
			sw := *view
			sw.X, sw.Y, sw.Op = view.Y, view.X, flipOp(view.Op)
			if m, whenTrue := pred(&sw); m {
				out = append(out, CondGate{Cond: b, Want: whenTrue})
				continue
			}
			ng := *view
			ng.Op = negOp(view.Op)
			if m, whenTrue := pred(&ng); m {
				out = append(out, CondGate{Cond: b, Want: !whenTrue})
				continue
			}
			ns := sw
			ns.Op = negOp(sw.Op)
			if m, whenTrue := pred(&ns); m {
				out = append(out, CondGate{Cond: b, Want: !whenTrue})
			}
		}
	}
	return out
}

// RetVal resolves result i of ret. In functions with a defer the SSA builder
// spills results to locals (`*t0 = v; rundefers; t9 = *t0; return t9`); RetVal
// looks through that spill (and through named-result cells) to the value
// stored on the way to this return, when it is unique: the last store to the
// cell in the return's block, else along the chain of single predecessors.
func RetVal(ret *ssa.Return, i int) ssa.Value {
	if i >= len(ret.Results) {
		return nil
	}
	v := ret.Results[i]
	u, ok := v.(*ssa.UnOp)
	if !ok || u.Op != token.MUL {
		return v
	}
	cell, ok := u.X.(*ssa.Alloc)
	if !ok {
		return v
	}
	b := ret.Block()
	idx := len(b.Instrs)
	for hops := 0; hops < 64; hops++ {
		for k := idx - 1; k >= 0; k-- {
			if st, ok := b.Instrs[k].(*ssa.Store); ok && st.Addr == ssa.Value(cell) {
				return st.Val
			}
		}
		if len(b.Preds) != 1 {
			return v
		}
		b = b.Preds[0]
		idx = len(b.Instrs)
	}
	return v
}

// RetNil reports whether result i of ret is the nil constant.
func RetNil(ret *ssa.Return, i int) bool {
	return i < len(ret.Results) && IsNilConst(RetVal(ret, i))
}

// ErrIndex returns the index of the last result of fn if it is an error, else -1.
func ErrIndex(fn *ssa.Function) int {
	res := fn.Signature.Results()
	if res.Len() == 0 {
		return -1
	}
	if types.Identical(res.At(res.Len()-1).Type(), errorType) {
		return res.Len() - 1
	}
	return -1
}

// NilReturns lists the returns of fn whose error result is the nil constant.
// With named results / defers the result may be a load from the result cell;
// those returns are reported in the second list (undetermined).
func NilReturns(fn *ssa.Function) (nilRets []*ssa.Return, other []*ssa.Return) {
	ei := ErrIndex(fn)
	if ei < 0 {
		return nil, nil
	}
	for _, r := range Returns(fn) {
		if RetNil(r, ei) {
			nilRets = append(nilRets, r)
		} else {
			other = append(other, r)
		}
	}
	return
}

// FlowsTo reports whether value v can flow, through conversions, phis,
// variadic packing, error-wrapping calls (a call taking the value as an
// argument and returning an error) and local cells, into an instruction
// accepted by sink. The search is a forward slice over referrers within the
// function (bounded).
func FlowsTo(v ssa.Value, sink func(ssa.Instruction, ssa.Value) bool) bool {
	seen := map[ssa.Value]bool{}
	var visit func(x ssa.Value, depth int) bool
	visit = func(x ssa.Value, depth int) bool {
		if x == nil || seen[x] || depth > 12 {
			return false
		}
		seen[x] = true
		refs := x.Referrers()
		if refs == nil {
			return false
		}
		for _, r := range *refs {
			if sink(r, x) {
				return true
			}
			switch y := r.(type) {
			case *ssa.Phi:
				if visit(y, depth+1) {
					return true
				}
			case *ssa.MakeInterface:
				if visit(y, depth+1) {
					return true
				}
			case *ssa.ChangeInterface:
				if visit(y, depth+1) {
					return true
				}
			case *ssa.ChangeType:
				if visit(y, depth+1) {
					return true
				}
			case *ssa.Extract:
				if visit(y, depth+1) {
					return true
				}
			case *ssa.Store:
				if y.Val != x {
					continue
				}
				switch a := y.Addr.(type) {
				case *ssa.IndexAddr: // varargs packing: continue from the backing array's slices
					if al, ok := a.X.(*ssa.Alloc); ok {
						if ar := al.Referrers(); ar != nil {
							for _, rr := range *ar {
								if sl, ok := rr.(*ssa.Slice); ok {
									if visit(sl, depth+1) {
										return true
									}
								}
							}
						}
					}
				case *ssa.Alloc: // local cell: continue from the loads the store reaches
					for _, l := range ReachingLoads(y) {
						if visit(l, depth+1) {
							return true
						}
					}
					// ... and from the loads in the function literals that capture the cell
					for _, u := range CellUses(a) {
						if l, ok := u.Instr.(*ssa.UnOp); ok && l.Op == token.MUL && l.Parent() != y.Parent() {
							if visit(l, depth+1) {
								return true
							}
						}
					}
				}
			case *ssa.Go:
				if flowIntoCallee(&y.Call, x, func(p ssa.Value) bool { return visit(p, depth+1) }) {
					return true
				}
			case *ssa.Defer:
				if flowIntoCallee(&y.Call, x, func(p ssa.Value) bool { return visit(p, depth+1) }) {
					return true
				}
			case *ssa.Call:
				// a statically resolved product function / literal: the value arrives as its parameter
				if flowIntoCallee(&y.Call, x, func(p ssa.Value) bool { return visit(p, depth+1) }) {
					return true
				}
				// wrapper: value passed as argument, call returns an error
				isArg := false
				for _, a := range y.Call.Args {
					if a == x {
						isArg = true
					}
				}
				if isArg && y.Call.Signature().Results().Len() >= 1 {
					res := y.Call.Signature().Results()
					if types.Identical(res.At(res.Len()-1).Type(), errorType) {
						if res.Len() == 1 {
							if visit(y, depth+1) {
								return true
							}
						} else if e := ErrResult(y); e != nil && visit(e, depth+1) {
							return true
						}
					}
				}
			}
		}
		return false
	}
	return visit(v, 0)
}

// flowIntoCallee continues a forward value flow into the body of a statically
// resolved callee (a declared function of the analysed module or a function
// literal called/spawned in place): the argument equal to x arrives as the
// corresponding parameter.
func flowIntoCallee(c *ssa.CallCommon, x ssa.Value, visit func(ssa.Value) bool) bool {
	if c.IsInvoke() {
		return false
	}
	var callee *ssa.Function
	switch f := c.Value.(type) {
	case *ssa.Function:
		callee = f
	case *ssa.MakeClosure:
		callee, _ = f.Fn.(*ssa.Function)
	}
	if callee == nil || len(callee.Blocks) == 0 {
		return false
	}
	pkg := callee.Pkg
	for p := callee.Parent(); pkg == nil && p != nil; p = p.Parent() {
		pkg = p.Pkg
	}
	if pkg == nil || !strings.HasPrefix(pkg.Pkg.Path(), Module) {
		return false
	}
	for i, a := range c.Args {
		if a == x && i < len(callee.Params) {
			if visit(callee.Params[i]) {
				return true
			}
		}
	}
	return false
}

// DerivesFrom reports whether v is computed from a value accepted by pred,
// looking backwards through conversions, phis, slicing, composite/variadic
// packing into local arrays, append arguments and local cells (bounded).
func DerivesFrom(v ssa.Value, pred func(ssa.Value) bool) bool {
	seen := map[ssa.Value]bool{}
	var visit func(x ssa.Value, d int) bool
	visit = func(x ssa.Value, d int) bool {
		if x == nil || seen[x] || d > 14 {
			return false
		}
		seen[x] = true
		if pred(x) {
			return true
		}
		switch y := x.(type) {
		case *ssa.Phi:
			for _, e := range y.Edges {
				if visit(e, d+1) {
					return true
				}
			}
		case *ssa.ChangeType:
			return visit(y.X, d+1)
		case *ssa.ChangeInterface:
			return visit(y.X, d+1)
		case *ssa.MakeInterface:
			return visit(y.X, d+1)
		case *ssa.Convert:
			return visit(y.X, d+1)
		case *ssa.Slice:
			return visit(y.X, d+1)
		case *ssa.Extract:
			return visit(y.Tuple, d+1)
		case *ssa.UnOp:
			if y.Op == token.MUL {
				if a, ok := y.X.(*ssa.Alloc); ok {
					return visit(a, d+1)
				}
			}
		case *ssa.Alloc:
			if refs := y.Referrers(); refs != nil {
				for _, r := range *refs {
					switch z := r.(type) {
					case *ssa.Store:
						if z.Addr == ssa.Value(y) && visit(z.Val, d+1) {
							return true
						}
					case *ssa.IndexAddr:
						if ir := z.Referrers(); ir != nil {
							for _, rr := range *ir {
								if st, ok := rr.(*ssa.Store); ok && st.Addr == ssa.Value(z) && visit(st.Val, d+1) {
									return true
								}
							}
						}
					case *ssa.FieldAddr:
						if ir := z.Referrers(); ir != nil {
							for _, rr := range *ir {
								if st, ok := rr.(*ssa.Store); ok && st.Addr == ssa.Value(z) && visit(st.Val, d+1) {
									return true
								}
							}
						}
					}
				}
			}
		case *ssa.Call:
			// builtins (append) and ordinary calls: the result is taken to
			// derive from every argument (over-approximation; used only for
			// positive provenance checks)
			for _, a := range y.Call.Args {
				if visit(a, d+1) {
					return true
				}
			}
		}
		return false
	}
	return visit(v, 0)
}

// CellUse is one use of a local variable cell, possibly inside a closure that
// captured it.
type CellUse struct {
	Fn    *ssa.Function
	Instr ssa.Instruction
}

// CellUses lists every instruction using the local cell (an Alloc), following
// the cell into the function literals that capture it.
func CellUses(cell ssa.Value) []CellUse {
	var out []CellUse
	seen := map[ssa.Value]bool{}
	var visit func(v ssa.Value)
	visit = func(v ssa.Value) {
		if v == nil || seen[v] {
			return
		}
		seen[v] = true
		refs := v.Referrers()
		if refs == nil {
			return
		}
		for _, r := range *refs {
			if mc, ok := r.(*ssa.MakeClosure); ok {
				fn := mc.Fn.(*ssa.Function)
				for i, b := range mc.Bindings {
					if b == v && i < len(fn.FreeVars) {
						visit(fn.FreeVars[i])
					}
				}
				continue
			}
			out = append(out, CellUse{Fn: r.Parent(), Instr: r})
		}
	}
	visit(cell)
	return out
}

// DerivesFromPath reports whether the access path of v (see PathOf) mentions
// the field/variable name seg.
func DerivesFromPath(v ssa.Value, seg string) bool {
	p := PathOf(v)
	for _, part := range splitPath(p) {
		if i := indexByte(part, '@'); i >= 0 {
			part = part[:i]
		}
		if part == seg {
			return true
		}
	}
	return false
}

func indexByte(s string, c byte) int {
	for i := 0; i < len(s); i++ {
		if s[i] == c {
			return i
		}
	}
	return -1
}

func splitPath(p string) []string {
	var out []string
	cur := ""
	for _, ch := range p {
		if ch == '.' {
			out = append(out, cur)
			cur = ""
		} else {
			cur += string(ch)
		}
	}
	return append(out, cur)
}

// IsVar reports whether v denotes the single-assignment variable initialised
// with src: v is src itself, or a load of a local cell (a variable spilled
// because a closure captures it) whose every store — in the function and in
// the literals capturing it — stores src.
func IsVar(v ssa.Value, src ssa.Value) bool {
	if v == nil || src == nil {
		return false
	}
	if v == src {
		return true
	}
	u, ok := v.(*ssa.UnOp)
	if !ok || u.Op != token.MUL {
		return false
	}
	var cell ssa.Value = u.X
	if fv, ok := cell.(*ssa.FreeVar); ok {
		cell = ResolveFreeVar(fv)
	}
	a, ok := cell.(*ssa.Alloc)
	if !ok {
		return false
	}
	stores, good := 0, 0
	for _, use := range CellUses(a) {
		st, ok := use.Instr.(*ssa.Store)
		if !ok {
			continue
		}
		addr := st.Addr
		if fv, ok := addr.(*ssa.FreeVar); ok {
			addr = ResolveFreeVar(fv)
		}
		if addr != ssa.Value(a) {
			continue
		}
		stores++
		if st.Val == src {
			good++
		}
	}
	return stores >= 1 && stores == good
}

// ResolveFreeVar follows a free variable to the value bound at closure creation.
func ResolveFreeVar(fv *ssa.FreeVar) ssa.Value {
	fn := fv.Parent()
	idx := -1
	for i, f := range fn.FreeVars {
		if f == fv {
			idx = i
		}
	}
	parent := fn.Parent()
	if parent == nil || idx < 0 {
		return nil
	}
	for _, b := range parent.Blocks {
		for _, in := range b.Instrs {
			mc, ok := in.(*ssa.MakeClosure)
			if !ok || mc.Fn != ssa.Value(fn) {
				continue
			}
			v := mc.Bindings[idx]
			if inner, ok := v.(*ssa.FreeVar); ok {
				return ResolveFreeVar(inner)
			}
			return v
		}
	}
	return nil
}

// ---------------------------------------------------------------------------
// Comparison edges independent of how the source spells the test

func flipOp(op token.Token) token.Token {
	switch op {
	case token.LSS:
		return token.GTR
	case token.GTR:
		return token.LSS
	case token.LEQ:
		return token.GEQ
	case token.GEQ:
		return token.LEQ
	}
	return op
}

func negOp(op token.Token) token.Token {
	switch op {
	case token.EQL:
		return token.NEQ
	case token.NEQ:
		return token.EQL
	case token.LSS:
		return token.GEQ
	case token.GEQ:
		return token.LSS
	case token.GTR:
		return token.LEQ
	case token.LEQ:
		return token.GTR
	}
	return op
}

func intConst(v ssa.Value) (int64, bool) {
	c, ok := v.(*ssa.Const)
	if !ok || c.Value == nil {
		return 0, false
	}
	if b, ok := c.Type().Underlying().(*types.Basic); !ok || b.Info()&types.IsInteger == 0 {
		return 0, false
	}
	return c.Int64(), true
}

// rangeOf returns the set of non-negative integers n with `n op k` as an
// interval [lo,hi] (hi<0 = unbounded); ok=false when the set is not an
// interval (n != k with k>0) or is empty.
func rangeOf(op token.Token, k int64) (lo, hi int64, ok bool) {
	switch op {
	case token.EQL:
		if k < 0 {
			return 0, 0, false
		}
		return k, k, true
	case token.NEQ:
		if k == 0 {
			return 1, -1, true
		}
		if k < 0 {
			return 0, -1, true
		}
		return 0, 0, false
	case token.LSS:
		if k <= 0 {
			return 0, 0, false
		}
		return 0, k - 1, true
	case token.LEQ:
		if k < 0 {
			return 0, 0, false
		}
		return 0, k, true
	case token.GTR:
		if k < 0 {
			return 0, -1, true
		}
		return k + 1, -1, true
	case token.GEQ:
		if k < 0 {
			k = 0
		}
		return k, -1, true
	}
	return 0, 0, false
}

// RangeEdges returns the branch edges of fn on which a non-negative integer
// value satisfying isV (typically a len(...)) is known to lie in [lo,hi]
// (hi<0 = unbounded), whatever comparison operator, constant and operand
// order the source uses: `len(x)==0`, `len(x)<1`, `0==len(x)`, the false
// edge of `len(x)>0`, ... all give the [0,0] edge.
func RangeEdges(fn *ssa.Function, isV func(ssa.Value) bool, lo, hi int64) []Edge {
	var out []Edge
	within := func(l, h int64) bool {
		if l < lo {
			return false
		}
		if hi < 0 {
			return true
		}
		return h >= 0 && h <= hi
	}
	for _, blk := range fn.Blocks {
		for _, in := range blk.Instrs {
			b, ok := in.(*ssa.BinOp)
			if !ok {
				continue
			}
			op := b.Op
			switch op {
			case token.EQL, token.NEQ, token.LSS, token.LEQ, token.GTR, token.GEQ:
			default:
				continue
			}
			var k int64
			if kv, isC := intConst(b.Y); isC && isV(b.X) {
				k = kv
			} else if kv, isC := intConst(b.X); isC && isV(b.Y) {
				k = kv
				op = flipOp(op)
			} else {
				continue
			}
			if l, h, ok := rangeOf(op, k); ok && within(l, h) {
				out = append(out, CondEdges(b, true)...)
			}
			if l, h, ok := rangeOf(negOp(op), k); ok && within(l, h) {
				out = append(out, CondEdges(b, false)...)
			}
		}
	}
	return out
}

// LenEdges is RangeEdges for len(x) with x satisfying pred (nil = any).
func LenEdges(fn *ssa.Function, pred func(ssa.Value) bool, lo, hi int64) []Edge {
	return RangeEdges(fn, func(v ssa.Value) bool { return IsLenOf(v, pred) }, lo, hi)
}

// Relations between two integer values.
const (
	RelLE = iota
	RelGE
	RelEQ
	RelNE
	RelLT
	RelGT
)

func relImplies(op token.Token, want int) bool {
	switch op {
	case token.EQL:
		return want == RelEQ || want == RelLE || want == RelGE
	case token.NEQ:
		return want == RelNE
	case token.LSS:
		return want == RelLT || want == RelLE || want == RelNE
	case token.LEQ:
		return want == RelLE
	case token.GTR:
		return want == RelGT || want == RelGE || want == RelNE
	case token.GEQ:
		return want == RelGE
	}
	return false
}

// RelEdges returns the branch edges of fn on which `x want y` is known for
// an x satisfying isX and a y satisfying isY, for every spelling of the test
// (either operand order, negated operator on the other edge).
func RelEdges(fn *ssa.Function, isX, isY func(ssa.Value) bool, want int) []Edge {
	var out []Edge
	for _, blk := range fn.Blocks {
		for _, in := range blk.Instrs {
			b, ok := in.(*ssa.BinOp)
			if !ok {
				continue
			}
			op := b.Op
			switch op {
			case token.EQL, token.NEQ, token.LSS, token.LEQ, token.GTR, token.GEQ:
			default:
				continue
			}
			switch {
			case isX(b.X) && isY(b.Y):
			case isX(b.Y) && isY(b.X):
				op = flipOp(op)
			default:
				continue
			}
			if relImplies(op, want) {
				out = append(out, CondEdges(b, true)...)
			}
			if relImplies(negOp(op), want) {
				out = append(out, CondEdges(b, false)...)
			}
		}
	}
	return out
}

// IntRangeEdges is RangeEdges for a signed integer value: the branch edges on
// which the value is known to lie in [lo,hi]; use math.MinInt64 / math.MaxInt64
// for an open end.
func IntRangeEdges(fn *ssa.Function, isV func(ssa.Value) bool, lo, hi int64) []Edge {
	const minI, maxI = -1 << 63, 1<<63 - 1
	rng := func(op token.Token, k int64) (int64, int64, bool) {
		switch op {
		case token.EQL:
			return k, k, true
		case token.LSS:
			if k == minI {
				return 0, 0, false
			}
			return minI, k - 1, true
		case token.LEQ:
			return minI, k, true
		case token.GTR:
			if k == maxI {
				return 0, 0, false
			}
			return k + 1, maxI, true
		case token.GEQ:
			return k, maxI, true
		}
		return 0, 0, false
	}
	var out []Edge
	for _, blk := range fn.Blocks {
		for _, in := range blk.Instrs {
			b, ok := in.(*ssa.BinOp)
			if !ok {
				continue
			}
			op := b.Op
			switch op {
			case token.EQL, token.NEQ, token.LSS, token.LEQ, token.GTR, token.GEQ:
			default:
				continue
			}
			var k int64
			if kv, isC := intConst(b.Y); isC && isV(b.X) {
				k = kv
			} else if kv, isC := intConst(b.X); isC && isV(b.Y) {
				k = kv
				op = flipOp(op)
			} else {
				continue
			}
			if l, h, ok := rng(op, k); ok && l >= lo && h <= hi {
				out = append(out, CondEdges(b, true)...)
			}
			if l, h, ok := rng(negOp(op), k); ok && l >= lo && h <= hi {
				out = append(out, CondEdges(b, false)...)
			}
		}
	}
	return out
}

// ---------------------------------------------------------------------------
// Must-do summaries (extract-function tolerant gates)

// MustDo reports whether every path from the entry of fn to a return passes an
// instruction accepted by isGate, or a call to a statically resolved function
// of the analysed module that itself must-does (bounded depth). It is the
// summary "calling fn implies the gate happened".
func MustDo(fn *ssa.Function, isGate func(ssa.Instruction) bool, depth int) bool {
	if fn == nil || len(fn.Blocks) == 0 {
		return false
	}
	g := NewGates()
	for _, in := range GateInstrs(fn, isGate, depth) {
		g.AddInstr(in, "")
	}
	if g.Empty() {
		return false
	}
	for _, ret := range Returns(fn) {
		if ok, _ := MustPass(ret, g); !ok {
			return false
		}
	}
	return len(Returns(fn)) > 0
}

// GateInstrs lists the instructions of fn accepted by isGate plus the calls
// to module functions that must-do the gate on all their paths.
func GateInstrs(fn *ssa.Function, isGate func(ssa.Instruction) bool, depth int) []ssa.Instruction {
	var out []ssa.Instruction
	for _, b := range fn.Blocks {
		for _, in := range b.Instrs {
			if isGate(in) {
				out = append(out, in)
				continue
			}
			if depth <= 0 {
				continue
			}
			call, ok := in.(*ssa.Call)
			if !ok {
				continue
			}
			callee := call.Call.StaticCallee()
			if callee == nil || callee == fn || callee.Pkg == nil || !strings.HasPrefix(callee.Pkg.Pkg.Path(), Module) {
				continue
			}
			if MustDo(callee, isGate, depth-1) {
				out = append(out, in)
			}
		}
	}
	return out
}

// ---------------------------------------------------------------------------
// Conditions seen through boolean helper functions (extract-predicate tolerant)

// CondGate is "the boolean value Cond equals Want".
type CondGate struct {
	Cond ssa.Value
	Want bool
}

// CondMatcher finds, in function f, the conditions that establish some fact.
// orig maps a value of f back to the value the analysed function passed for
// it (a parameter of a helper maps to the caller's argument; everything else
// maps to itself), so a matcher written against the analysed function's
// values also recognises the test inside a helper.
type CondMatcher func(f *ssa.Function, orig func(ssa.Value) ssa.Value) []CondGate

// DeepCondEdges returns the branch edges of fn on which the fact recognised
// by m holds: the edges of the conditions m finds in fn itself, plus, for a
// call b := h(args) to a bool-returning function of the analysed module, the
// b==true (b==false) edges when h returning true (false) implies the fact —
// decided by a summary of h: every way h can return that value either
// returns the matched condition itself or lies behind one of its edges.
func DeepCondEdges(fn *ssa.Function, m CondMatcher) []Edge {
	return deepCondEdges(fn, m, func(v ssa.Value) ssa.Value { return v }, 2)
}

func deepCondEdges(fn *ssa.Function, m CondMatcher, orig func(ssa.Value) ssa.Value, depth int) []Edge {
	var out []Edge
	for _, g := range m(fn, orig) {
		out = append(out, CondEdges(g.Cond, g.Want)...)
	}
	if depth <= 0 {
		return out
	}
	for _, b := range fn.Blocks {
		for _, in := range b.Instrs {
			call, ok := in.(*ssa.Call)
			if !ok {
				continue
			}
			h := call.Call.StaticCallee()
			if h == nil || h == fn || len(h.Blocks) == 0 || h.Pkg == nil || !strings.HasPrefix(h.Pkg.Pkg.Path(), Module) {
				continue
			}
			res := h.Signature.Results()
			if res.Len() != 1 {
				continue
			}
			if bt, ok := res.At(0).Type().Underlying().(*types.Basic); !ok || bt.Kind() != types.Bool {
				continue
			}
			if len(CondEdges(call, true))+len(CondEdges(call, false)) == 0 {
				continue
			}
			args := call.Call.Args
			horig := func(v ssa.Value) ssa.Value {
				if p, ok := v.(*ssa.Parameter); ok && p.Parent() == h {
					for i, hp := range h.Params {
						if hp == p && i < len(args) {
							return orig(args[i])
						}
					}
				}
				return v
			}
			for _, want := range []bool{true, false} {
				if returnImplies(h, want, m, horig, depth-1) {
					out = append(out, CondEdges(call, want)...)
				}
			}
		}
	}
	return out
}

// returnImplies: h returning `ret` implies the fact recognised by m.
func returnImplies(h *ssa.Function, ret bool, m CondMatcher, orig func(ssa.Value) ssa.Value, depth int) bool {
	gates := m(h, orig)
	edges := deepCondEdges(h, m, orig, depth)
	if len(gates) == 0 && len(edges) == 0 {
		return false
	}
	g := NewGates().AddEdges(edges, "")
	rets := Returns(h)
	if len(rets) == 0 {
		return false
	}
	type src struct {
		v    ssa.Value
		at   ssa.Instruction // where this source is selected: the terminator of the phi's predecessor, or the return
		edge *Edge           // the phi's incoming edge, when the source comes through a phi
	}
	for _, r := range rets {
		var srcs []src
		seen := map[ssa.Value]bool{}
		var expand func(v ssa.Value, at ssa.Instruction, edge *Edge)
		expand = func(v ssa.Value, at ssa.Instruction, edge *Edge) {
			if ph, ok := v.(*ssa.Phi); ok && !seen[v] {
				seen[v] = true
				for i, e := range ph.Edges {
					pred := ph.Block().Preds[i]
					expand(e, pred.Instrs[len(pred.Instrs)-1], &Edge{pred, ph.Block()})
				}
				return
			}
			srcs = append(srcs, src{v, at, edge})
		}
		expand(RetVal(r, 0), r, nil)
		for _, s := range srcs {
			if k, ok := s.v.(*ssa.Const); ok && k.Value != nil && k.Value.Kind() == constant.Bool {
				if constant.BoolVal(k.Value) != ret {
					continue // this source cannot produce the value in question
				}
			}
			isGate := false
			for _, gt := range gates {
				if s.v == gt.Cond && ret == gt.Want {
					isGate = true
				}
				if u, ok := s.v.(*ssa.UnOp); ok && u.Op == token.NOT && u.X == gt.Cond && ret == !gt.Want {
					isGate = true
				}
			}
			if isGate {
				continue
			}
			if s.edge != nil && g.Edges[*s.edge] {
				continue // the value is selected on a gate edge itself
			}
			if ok, _ := MustPass(s.at, g); !ok || g.Empty() {
				return false
			}
		}
	}
	return true
}

// ---------------------------------------------------------------------------
// Success-wrappers (extract-step tolerant success gates)

// OKWrapper reports whether h is a function of the analysed module with an
// error result such that every `return ..., nil` of h lies behind the success
// edge of a call to one of set (directly or through another such wrapper):
// "h succeeded" implies "the step succeeded".
func OKWrapper(h *ssa.Function, set FuncSet, depth int) bool {
	if h == nil || len(h.Blocks) == 0 || h.Pkg == nil || !strings.HasPrefix(h.Pkg.Pkg.Path(), Module) || ErrIndex(h) < 0 {
		return false
	}
	calls := CallsToOK(h, set, depth)
	if len(calls) == 0 {
		return false
	}
	g := NewGates()
	for _, c := range calls {
		g.AddEdges(OKEdges(c), "")
	}
	if g.Empty() {
		return false
	}
	nilRets, _ := NilReturns(h)
	if len(nilRets) == 0 {
		return false
	}
	for _, r := range nilRets {
		if ok, _ := MustPass(r, g); !ok {
			return false
		}
	}
	return true
}

// CallsToOK lists the calls in fn to a function of set plus the calls to
// success-wrappers of set (bounded depth). The success edge of any of them
// implies that the step in set succeeded.
func CallsToOK(fn *ssa.Function, set FuncSet, depth int) []ssa.CallInstruction {
	out := CallsTo(fn, set)
	if depth <= 0 {
		return out
	}
	for _, b := range fn.Blocks {
		for _, in := range b.Instrs {
			call, ok := in.(*ssa.Call)
			if !ok {
				continue
			}
			h := call.Call.StaticCallee()
			if h == nil || h == fn || set.Has(CalleeOf(call.Common())) {
				continue
			}
			if OKWrapper(h, set, depth-1) {
				out = append(out, call)
			}
		}
	}
	return out
}

// ---------------------------------------------------------------------------
// Calls seen through pass-through helpers

// Via is a call of a target function as seen from the analysed function: the
// call site in that function (the target call itself, or the call of a helper
// that makes it) and the target's arguments expressed as values of the
// analysed function (nil where the helper computes the argument itself).
type Via struct {
	Site   ssa.CallInstruction
	Args   []ssa.Value
	Helper *ssa.Function // nil for a direct call
}

// CallsVia lists the calls of set made by fn directly or through statically
// called functions of the same package (bounded depth), mapping the helper's
// parameters back to fn's arguments.
func CallsVia(fn *ssa.Function, set FuncSet, depth int) []Via {
	var out []Via
	if fn == nil {
		return nil
	}
	for _, b := range fn.Blocks {
		for _, in := range b.Instrs {
			ci, ok := in.(ssa.CallInstruction)
			if !ok {
				continue
			}
			if set.Has(CalleeOf(ci.Common())) {
				out = append(out, Via{Site: ci, Args: ci.Common().Args})
				continue
			}
			if depth <= 0 {
				continue
			}
			if _, isCall := in.(*ssa.Call); !isCall {
				continue
			}
			h := ci.Common().StaticCallee()
			if h == nil || h == fn || h.Pkg != fn.Pkg || len(h.Blocks) == 0 {
				continue
			}
			for _, inner := range CallsVia(h, set, depth-1) {
				args := make([]ssa.Value, len(inner.Args))
				for i, a := range inner.Args {
					if a == nil {
						continue
					}
					for pi, p := range h.Params {
						if (a == ssa.Value(p) || IsVar(a, p)) && pi < len(ci.Common().Args) {
							args[i] = ci.Common().Args[pi]
						}
					}
				}
				out = append(out, Via{Site: ci, Args: args, Helper: h})
			}
		}
	}
	return out
}

// ErrIndexOfCall returns the index of the error result of the call's
// signature (the last result when it has type error), -1 otherwise.
func ErrIndexOfCall(call ssa.CallInstruction) int {
	res := call.Common().Signature().Results()
	if res.Len() == 0 {
		return -1
	}
	if types.Identical(res.At(res.Len()-1).Type(), errorType) {
		return res.Len() - 1
	}
	return -1
}

// Loop is a natural loop of a function's CFG: the header and the blocks that
// can reach one of its back edges without leaving through the header.
type Loop struct {
	Header *ssa.BasicBlock
	Blocks map[*ssa.BasicBlock]bool
}

// Loops lists the natural loops of fn (loops sharing a header are merged).
func Loops(fn *ssa.Function) []Loop {
	var out []Loop
	for _, h := range fn.Blocks {
		var l *Loop
		for _, p := range h.Preds {
			if !h.Dominates(p) {
				continue
			}
			if l == nil {
				l = &Loop{Header: h, Blocks: map[*ssa.BasicBlock]bool{h: true}}
			}
			stack := []*ssa.BasicBlock{p}
			for len(stack) > 0 {
				b := stack[len(stack)-1]
				stack = stack[:len(stack)-1]
				if l.Blocks[b] {
					continue
				}
				l.Blocks[b] = true
				stack = append(stack, b.Preds...)
			}
		}
		if l != nil {
			out = append(out, *l)
		}
	}
	return out
}

// Contains reports whether in lies in the loop.
func (l Loop) Contains(in ssa.Instruction) bool { return l.Blocks[in.Block()] }

// Direct reports whether in lies in l but in none of the loops nested in it.
func (l Loop) Direct(in ssa.Instruction, all []Loop) bool {
	if !l.Contains(in) {
		return false
	}
	for _, o := range all {
		if o.Header != l.Header && l.Blocks[o.Header] && o.Blocks[in.Block()] {
			return false
		}
	}
	return true
}

// EarlyExits lists the edges that leave the loop from a block other than its
// header (break, return, goto out of the body).
func (l Loop) EarlyExits() []Edge {
	var out []Edge
	for b := range l.Blocks {
		if b == l.Header {
			continue
		}
		for _, s := range b.Succs {
			if !l.Blocks[s] {
				out = append(out, Edge{From: b, To: s})
			}
		}
		if len(b.Succs) == 0 {
			out = append(out, Edge{From: b})
		}
	}
	return out
}

// EveryIterationPasses reports whether every path of one iteration — from the
// header into the body and back to the header — passes the block blk.
func (l Loop) EveryIterationPasses(blk *ssa.BasicBlock) bool {
	if blk == l.Header {
		return true
	}
	seen := map[*ssa.BasicBlock]bool{}
	var stack []*ssa.BasicBlock
	for _, s := range l.Header.Succs {
		if l.Blocks[s] {
			stack = append(stack, s)
		}
	}
	for len(stack) > 0 {
		b := stack[len(stack)-1]
		stack = stack[:len(stack)-1]
		if b == blk || seen[b] {
			continue
		}
		if b == l.Header {
			return false
		}
		seen[b] = true
		for _, s := range b.Succs {
			if l.Blocks[s] {
				stack = append(stack, s)
			}
		}
	}
	return true
}

// Bound is the value Base+Off (Base == nil: the constant Off).
type Bound struct {
	Base ssa.Value
	Off  int64
}

// Span is the set of values [Lo, Hi] (both inclusive) a loop index takes in
// the loop body.
type Span struct {
	Lo, Hi Bound
	Down   bool
	Header *ssa.BasicBlock
}

// DecomposeInt writes v as base+off, folding additions/subtractions of
// constants.
func DecomposeInt(v ssa.Value) Bound {
	if k, ok := intConst(v); ok {
		return Bound{Off: k}
	}
	if b, ok := v.(*ssa.BinOp); ok && (b.Op == token.ADD || b.Op == token.SUB) {
		if k, ok := intConst(b.Y); ok {
			in := DecomposeInt(b.X)
			if b.Op == token.SUB {
				k = -k
			}
			return Bound{Base: in.Base, Off: in.Off + k}
		}
		if k, ok := intConst(b.X); ok && b.Op == token.ADD {
			in := DecomposeInt(b.Y)
			return Bound{Base: in.Base, Off: in.Off + k}
		}
	}
	return Bound{Base: v}
}

// IndexSpan recognises the counting loops of go/ssa and returns the values the
// index idx takes in the loop body:
//
//	for j := init; j >= lo; j--      idx = phi[init, idx-1]       [lo, init]
//	for j := init; j <  hi; j++      idx = phi[init, idx+1]       [init, hi-1]
//	for i := range s / range n       idx = phi[-1, idx'] + 1      [0, len-1]
//
// ok is false for any other shape (non-unit step, condition not on idx, index
// assigned in the body).
func IndexSpan(idx ssa.Value) (Span, bool) {
	var phi *ssa.Phi
	rangeForm := false
	switch x := idx.(type) {
	case *ssa.Phi:
		phi = x
	case *ssa.BinOp:
		if p, ok := x.X.(*ssa.Phi); ok && x.Op == token.ADD && IsIntConst(x.Y, 1) {
			phi, rangeForm = p, true
		}
	}
	if phi == nil || len(phi.Edges) != 2 {
		return Span{}, false
	}
	hdr := phi.Block()
	// which edge is the step
	var init ssa.Value
	step := int64(0)
	for i, e := range phi.Edges {
		o := phi.Edges[1-i]
		if rangeForm {
			if e == idx {
				init, step = o, 1
			}
			continue
		}
		if b, ok := e.(*ssa.BinOp); ok && b.X == ssa.Value(phi) && IsIntConst(b.Y, 1) {
			switch b.Op {
			case token.ADD:
				init, step = o, 1
			case token.SUB:
				init, step = o, -1
			}
		}
	}
	if step == 0 {
		return Span{}, false
	}
	iff, ok := hdr.Instrs[len(hdr.Instrs)-1].(*ssa.If)
	if !ok {
		return Span{}, false
	}
	cmp, ok := iff.Cond.(*ssa.BinOp)
	if !ok {
		return Span{}, false
	}
	// the successor that stays in the loop
	var loop *Loop
	for _, l := range Loops(hdr.Parent()) {
		if l.Header == hdr {
			ll := l
			loop = &ll
		}
	}
	if loop == nil {
		return Span{}, false
	}
	inT, inF := loop.Blocks[hdr.Succs[0]], loop.Blocks[hdr.Succs[1]]
	if inT == inF {
		return Span{}, false
	}
	op, x, y := cmp.Op, cmp.X, cmp.Y
	if y == idx {
		op, x, y = flipOp(op), y, x
	}
	if x != idx {
		return Span{}, false
	}
	if !inT {
		op = negOp(op)
	}
	sp := Span{Down: step < 0, Header: hdr}
	if step < 0 {
		k, isK := intConst(y)
		if !isK {
			return Span{}, false
		}
		switch op {
		case token.GEQ:
			sp.Lo = Bound{Off: k}
		case token.GTR:
			sp.Lo = Bound{Off: k + 1}
		case token.NEQ:
			sp.Lo = Bound{Off: k + 1}
		default:
			return Span{}, false
		}
		sp.Hi = DecomposeInt(init)
		return sp, true
	}
	if rangeForm {
		if !IsIntConst(init, -1) {
			return Span{}, false
		}
		sp.Lo = Bound{Off: 0}
	} else {
		lo := DecomposeInt(init)
		sp.Lo = lo
	}
	hi := DecomposeInt(y)
	switch op {
	case token.LSS, token.NEQ:
		hi.Off--
	case token.LEQ:
	default:
		return Span{}, false
	}
	sp.Hi = hi
	return sp, true
}
