package kit

import (
	"go/ast"
	"go/token"
	"go/types"
	"sort"

	"golang.org/x/tools/go/ast/inspector"
)

// Ref is a reference to a function or a write to a field found in product
// source.
type Ref struct {
	Pos   token.Pos
	Where string // DeclKey of the enclosing declared function
	Kind  string // call | value | assign | elem | nested | incdec | addr | lit | call:<M>
	Pkg   string // module-relative package of the reference
}

// Refs returns every identifier in product code that refers to a function in
// set (calls, method values, function values), with the enclosing function.
func (w *World) Refs(set FuncSet) []Ref {
	var out []Ref
	for _, p := range w.Pkgs {
		info := p.TypesInfo
		// classify call positions first
		callFun := map[*ast.Ident]bool{}
		for _, f := range p.Syntax {
			ast.Inspect(f, func(n ast.Node) bool {
				ce, ok := n.(*ast.CallExpr)
				if !ok {
					return true
				}
				switch fun := ast.Unparen(ce.Fun).(type) {
				case *ast.Ident:
					callFun[fun] = true
				case *ast.SelectorExpr:
					callFun[fun.Sel] = true
				case *ast.IndexExpr:
					if id, ok := fun.X.(*ast.Ident); ok {
						callFun[id] = true
					}
					if se, ok := fun.X.(*ast.SelectorExpr); ok {
						callFun[se.Sel] = true
					}
				}
				return true
			})
		}
		for id, obj := range info.Uses {
			fn, ok := obj.(*types.Func)
			if !ok || !set.Has(fn) {
				continue
			}
			kind := "value"
			if callFun[id] {
				kind = "call"
			}
			out = append(out, Ref{Pos: id.Pos(), Where: w.EnclosingKey(id.Pos()), Kind: kind, Pkg: RelPkg(p.PkgPath)})
		}
	}
	sort.Slice(out, func(i, j int) bool { return out[i].Pos < out[j].Pos })
	return out
}

// FieldWrites returns every syntactic write to field in product code:
// assignments (whole, element, nested), inc/dec, address-taken, composite
// literal initialisation, and method calls on the field (Kind "call:<M>") so
// that rules can classify mutating methods of atomics/maps themselves.
func (w *World) FieldWrites(field *types.Var) []Ref {
	var out []Ref
	for _, p := range w.Pkgs {
		info := p.TypesInfo
		isField := func(e ast.Expr) bool {
			se, ok := ast.Unparen(e).(*ast.SelectorExpr)
			if !ok {
				return false
			}
			v, ok := info.Uses[se.Sel].(*types.Var)
			return ok && SameField(v, field)
		}
		// rootKind: how e relates to the field: "" none, "assign" exact,
		// "elem" index of field, "nested" sub-field of field
		var rootKind func(e ast.Expr) string
		rootKind = func(e ast.Expr) string {
			e = ast.Unparen(e)
			if isField(e) {
				return "assign"
			}
			switch x := e.(type) {
			case *ast.IndexExpr:
				if k := rootKind(x.X); k != "" {
					return "elem"
				}
			case *ast.SelectorExpr:
				if k := rootKind(x.X); k != "" {
					return "nested"
				}
			case *ast.StarExpr:
				if k := rootKind(x.X); k != "" {
					return "nested"
				}
			}
			return ""
		}
		add := func(pos token.Pos, kind string) {
			out = append(out, Ref{Pos: pos, Where: w.EnclosingKey(pos), Kind: kind, Pkg: RelPkg(p.PkgPath)})
		}
		ins := inspector.New(p.Syntax)
		ins.Preorder([]ast.Node{(*ast.AssignStmt)(nil), (*ast.IncDecStmt)(nil), (*ast.UnaryExpr)(nil), (*ast.CompositeLit)(nil), (*ast.CallExpr)(nil), (*ast.RangeStmt)(nil)}, func(n ast.Node) {
			switch x := n.(type) {
			case *ast.AssignStmt:
				for _, l := range x.Lhs {
					if k := rootKind(l); k != "" {
						add(l.Pos(), k)
					}
				}
			case *ast.RangeStmt:
				for _, l := range []ast.Expr{x.Key, x.Value} {
					if l != nil {
						if k := rootKind(l); k != "" {
							add(l.Pos(), k)
						}
					}
				}
			case *ast.IncDecStmt:
				if k := rootKind(x.X); k != "" {
					add(x.X.Pos(), "incdec")
				}
			case *ast.UnaryExpr:
				if x.Op == token.AND {
					if k := rootKind(x.X); k != "" {
						add(x.X.Pos(), "addr")
					}
				}
			case *ast.CompositeLit:
				tv, ok := info.Types[x]
				if !ok {
					return
				}
				st, ok := derefType(tv.Type).Underlying().(*types.Struct)
				if !ok {
					return
				}
				for i, el := range x.Elts {
					if kv, ok := el.(*ast.KeyValueExpr); ok {
						if id, ok := kv.Key.(*ast.Ident); ok {
							if v, ok := info.Uses[id].(*types.Var); ok && SameField(v, field) {
								add(kv.Pos(), "lit")
							}
						}
					} else if i < st.NumFields() && SameField(st.Field(i), field) {
						add(el.Pos(), "lit")
					}
				}
			case *ast.CallExpr:
				se, ok := ast.Unparen(x.Fun).(*ast.SelectorExpr)
				if !ok {
					return
				}
				if isField(se.X) {
					add(x.Pos(), "call:"+se.Sel.Name)
				}
			}
		})
	}
	sort.Slice(out, func(i, j int) bool { return out[i].Pos < out[j].Pos })
	return out
}
