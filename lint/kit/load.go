// Package kit is the analysis kit shared by all conduitlint rules: loading the
// type-checked program and its SSA form, resolving anchors by object (never by
// position), enumerating references / writes / calls, and the path primitives
// (must-pass-through, all-exits, lockset) the rules are built from.
package kit

import (
	"fmt"
	"go/ast"
	"go/token"
	"go/types"
	"os"
	"sort"
	"strings"
	"time"

	"golang.org/x/tools/go/packages"
	"golang.org/x/tools/go/ssa"
	"golang.org/x/tools/go/ssa/ssautil"
)

// Module is the import path prefix of the analysed repository.
const Module = "github.com/conduitio/conduit"

// World is the loaded, type-checked program.
type World struct {
	Repo   string
	Fset   *token.FileSet
	Pkgs   []*packages.Package          // product packages (caller universe), sorted by path
	ByPath map[string]*packages.Package // import path -> package
	Prog   *ssa.Program
	SSA    map[*types.Package]*ssa.Package

	LoadSeconds float64
	SSASeconds  float64

	declIndex map[*ast.File][]*ast.FuncDecl
	fileOf    map[*token.File]*ast.File
	pkgOfFile map[*ast.File]*packages.Package
}

// universePatterns is the caller universe of the closed-world rules: product
// code of the main module. Harness trees (tests/, examples/, benchi/), the
// tools module and scaffold testdata are separate programs and are not product
// callers (DESIGN §3 K1).
var universePatterns = []string{".", "./cmd/...", "./pkg/..."}

// excludedPkg reports packages that are loaded but are not rule sources
// (generated mocks and protobuf code). They still count as callers for K1.
func Generated(path string) bool {
	return strings.HasSuffix(path, "/mock") || strings.Contains(path, "/mock/") || strings.HasPrefix(path, Module+"/proto")
}

// Overlay, when set, replaces the content of the named source files for the
// loader (used by the mutation self-test; nothing is written to /repo).
var Overlay map[string][]byte

// Load type-checks every product package of repo from source (dependencies come
// from export data) with the given GOOS/GOARCH ("" = host) and builds SSA for
// them when withSSA is set.
func Load(repo string, goos, goarch string, withSSA bool) (*World, error) {
	t0 := time.Now()
	env := os.Environ()
	var filtered []string
	for _, e := range env {
		if strings.HasPrefix(e, "GOWORK=") || strings.HasPrefix(e, "GOFLAGS=") || strings.HasPrefix(e, "GOOS=") || strings.HasPrefix(e, "GOARCH=") {
			continue
		}
		filtered = append(filtered, e)
	}
	filtered = append(filtered, "GOWORK=off", "GOFLAGS=-mod=mod", "GOPROXY=off", "CGO_ENABLED=0")
	if goos != "" {
		filtered = append(filtered, "GOOS="+goos)
	}
	if goarch != "" {
		filtered = append(filtered, "GOARCH="+goarch)
	}
	fset := token.NewFileSet()
	cfg := &packages.Config{
		Mode:    packages.LoadSyntax | packages.NeedModule,
		Dir:     repo,
		Fset:    fset,
		Env:     filtered,
		Tests:   false,
		Overlay: Overlay,
	}
	pkgs, err := packages.Load(cfg, universePatterns...)
	if err != nil {
		return nil, fmt.Errorf("packages.Load: %w", err)
	}
	if len(pkgs) == 0 {
		return nil, fmt.Errorf("packages.Load: zero packages matched in %s", repo)
	}
	var errs []string
	packages.Visit(pkgs, nil, func(p *packages.Package) {
		for _, e := range p.Errors {
			errs = append(errs, fmt.Sprintf("%s: %s", p.PkgPath, e.Error()))
		}
	})
	if len(errs) > 0 {
		sort.Strings(errs)
		if len(errs) > 20 {
			errs = errs[:20]
		}
		return nil, fmt.Errorf("type-check/load errors (the tree must build):\n  %s", strings.Join(errs, "\n  "))
	}
	w := &World{
		Repo:      repo,
		Fset:      fset,
		ByPath:    map[string]*packages.Package{},
		declIndex: map[*ast.File][]*ast.FuncDecl{},
		fileOf:    map[*token.File]*ast.File{},
		pkgOfFile: map[*ast.File]*packages.Package{},
	}
	for _, p := range pkgs {
		if !strings.HasPrefix(p.PkgPath, Module) {
			continue
		}
		if strings.Contains(p.PkgPath, "/testdata/") {
			continue
		}
		w.Pkgs = append(w.Pkgs, p)
		w.ByPath[p.PkgPath] = p
		for _, f := range p.Syntax {
			tf := fset.File(f.Pos())
			w.fileOf[tf] = f
			w.pkgOfFile[f] = p
			for _, d := range f.Decls {
				if fd, ok := d.(*ast.FuncDecl); ok {
					w.declIndex[f] = append(w.declIndex[f], fd)
				}
			}
		}
	}
	sort.Slice(w.Pkgs, func(i, j int) bool { return w.Pkgs[i].PkgPath < w.Pkgs[j].PkgPath })
	if len(w.Pkgs) < 50 {
		return nil, fmt.Errorf("only %d product packages loaded from %s; expected the whole repository", len(w.Pkgs), repo)
	}
	w.LoadSeconds = time.Since(t0).Seconds()
	if withSSA {
		t1 := time.Now()
		prog, spkgs := ssautil.Packages(w.Pkgs, ssa.InstantiateGenerics)
		w.Prog = prog
		w.SSA = map[*types.Package]*ssa.Package{}
		for i, sp := range spkgs {
			if sp == nil {
				return nil, fmt.Errorf("no SSA for %s", w.Pkgs[i].PkgPath)
			}
			w.SSA[w.Pkgs[i].Types] = sp
		}
		prog.Build()
		w.SSASeconds = time.Since(t1).Seconds()
	}
	return w, nil
}

// Pos renders a position as repo-relative file:line.
func (w *World) Pos(p token.Pos) string {
	if !p.IsValid() {
		return "?"
	}
	pos := w.Fset.Position(p)
	f := strings.TrimPrefix(pos.Filename, w.Repo+"/")
	return fmt.Sprintf("%s:%d", f, pos.Line)
}

// FileOf returns the syntax file containing p (nil if not a product file).
func (w *World) FileOf(p token.Pos) *ast.File {
	tf := w.Fset.File(p)
	if tf == nil {
		return nil
	}
	return w.fileOf[tf]
}

// EnclosingDecl returns the declared function lexically containing p, or nil
// for package-level code.
func (w *World) EnclosingDecl(p token.Pos) *ast.FuncDecl {
	f := w.FileOf(p)
	if f == nil {
		return nil
	}
	for _, d := range w.declIndex[f] {
		if d.Pos() <= p && p < d.End() {
			return d
		}
	}
	return nil
}

// DeclKey is the stable key of a declared function: "pkg/rel/path.(*T).M" or
// "pkg/rel/path.F", relative to the module.
func (w *World) DeclKey(fd *ast.FuncDecl, pkg *packages.Package) string {
	rel := RelPkg(pkg.PkgPath)
	if fd.Recv != nil && len(fd.Recv.List) > 0 {
		return rel + "." + recvString(fd.Recv.List[0].Type) + "." + fd.Name.Name
	}
	return rel + "." + fd.Name.Name
}

func recvString(e ast.Expr) string {
	switch t := e.(type) {
	case *ast.StarExpr:
		return "(*" + baseName(t.X) + ")"
	default:
		return "(" + baseName(e) + ")"
	}
}

func baseName(e ast.Expr) string {
	switch t := e.(type) {
	case *ast.Ident:
		return t.Name
	case *ast.IndexExpr:
		return baseName(t.X)
	case *ast.IndexListExpr:
		return baseName(t.X)
	case *ast.ParenExpr:
		return baseName(t.X)
	}
	return "?"
}

// RelPkg strips the module prefix ("" -> "." for the root package).
func RelPkg(path string) string {
	if path == Module {
		return "."
	}
	return strings.TrimPrefix(path, Module+"/")
}

// EnclosingKey is the DeclKey of the function containing p ("<pkg>.<init>"
// for package-level initialisers).
func (w *World) EnclosingKey(p token.Pos) string {
	f := w.FileOf(p)
	if f == nil {
		return "?"
	}
	pkg := w.pkgOfFile[f]
	if fd := w.EnclosingDecl(p); fd != nil {
		return w.DeclKey(fd, pkg)
	}
	return RelPkg(pkg.PkgPath) + ".<package-level>"
}

// PkgOfPos returns the product package containing p.
func (w *World) PkgOfPos(p token.Pos) *packages.Package {
	f := w.FileOf(p)
	if f == nil {
		return nil
	}
	return w.pkgOfFile[f]
}
