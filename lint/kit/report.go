package kit

import (
	"encoding/json"
	"fmt"
	"os"
	"path/filepath"
	"sort"
	"strings"
	"time"
)

// Status of an obligation.
const (
	OK         = "ok"
	Violation  = "violation"
	Undecided  = "undecided"
	Unresolved = "unresolved"
)

// Ob is one obligation: a rule instance evaluated at one construct.
type Ob struct {
	Rule       string `json:"rule"`   // e.g. "C01.R2"
	Key        string `json:"key"`    // stable instance key (function + construct), no line numbers
	Pos        string `json:"pos"`    // file:line, informational
	Status     string `json:"status"` // ok | violation | undecided | unresolved
	Detail     string `json:"detail,omitempty"`
	NonTrivial bool   `json:"nontrivial"` // needed a path/dataflow argument rather than a lookup
	Known      bool   `json:"known_finding,omitempty"`
}

// KnownFinding is an entry of /verif/known-findings.json.
type KnownFinding struct {
	Property string `json:"property"`
	Rule     string `json:"rule"`
	Key      string `json:"key"`
	What     string `json:"what"`
	Status   string `json:"status"` // known | fixed
	Commit   string `json:"commit,omitempty"`
}

// Report collects the obligations of one property run.
type Report struct {
	Property string
	Tier     string
	Obs      []Ob
	mins     map[string]int
	notes    []string
	Rules    map[string]string // rule id -> one-line description
	order    []string
	start    time.Time
	Extra    map[string]any
	// NoWrite: do not touch evidence/violation files (used by the all-properties dry run of the matrix tools)
	NoWrite bool
}

func NewReport(prop, tier string) *Report {
	return &Report{Property: prop, Tier: tier, mins: map[string]int{}, Rules: map[string]string{}, start: time.Now(), Extra: map[string]any{}}
}

// Rule declares a rule (id relative to the property, e.g. "R2"), its
// description and the minimum number of instances confirmed by hand: the run
// fails when fewer instances are found (a rule matching nothing passes
// vacuously forever otherwise).
func (r *Report) Rule(id, desc string, min int) string {
	full := r.Property + "." + id
	if _, ok := r.Rules[full]; !ok {
		r.order = append(r.order, full)
	}
	r.Rules[full] = desc
	r.mins[full] = min
	return full
}

func (r *Report) add(rule, key, pos, status, detail string, nontrivial bool) {
	r.Obs = append(r.Obs, Ob{Rule: rule, Key: key, Pos: pos, Status: status, Detail: detail, NonTrivial: nontrivial})
}

// Pass records a discharged obligation.
func (r *Report) Pass(rule, key, pos, detail string, nontrivial bool) {
	r.add(rule, key, pos, OK, detail, nontrivial)
}

// Fail records a violated obligation.
func (r *Report) Fail(rule, key, pos, detail string) {
	r.add(rule, key, pos, Violation, detail, true)
}

// Check records ok/violation depending on cond.
func (r *Report) Check(cond bool, rule, key, pos, okDetail, failDetail string, nontrivial bool) bool {
	if cond {
		r.Pass(rule, key, pos, okDetail, nontrivial)
	} else {
		r.Fail(rule, key, pos, failDetail)
	}
	return cond
}

// Undecided records a construct the recognisers could not classify. It fails
// the run (never silently passed).
func (r *Report) Undecided(rule, key, pos, detail string) {
	r.add(rule, key, pos, Undecided, detail, true)
}

// Unresolved records an anchor that no longer resolves.
func (r *Report) Unresolved(rule, what string) {
	r.add(rule, "anchor:"+what, "", Unresolved, "anchor does not resolve in the current tree: "+what, false)
}

func (r *Report) Note(s string) { r.notes = append(r.notes, s) }

// Evidence is the JSON written to /verif/evidence/<id>.json.
type Evidence struct {
	PropertyID  string         `json:"property_id"`
	Tier        string         `json:"tier"`
	Seed        int            `json:"seed"`
	Level       string         `json:"level"`
	Coverage    map[string]any `json:"coverage"`
	Assumptions []string       `json:"assumptions"`
	WallS       float64        `json:"wall_s"`
	Violations  int            `json:"violations"`
}

// Finish evaluates minimum counts and known findings, writes evidence and the
// violations file, prints the verdict lines and returns the exit code.
func (r *Report) Finish(verifDir string, w *World, explanation string, notDecided []string, assumptions []string, seed int) int {
	// minimum instance counts
	counts := map[string]int{}
	for _, o := range r.Obs {
		if o.Status != Unresolved {
			counts[o.Rule]++
		}
	}
	for _, rule := range r.order {
		if counts[rule] < r.mins[rule] {
			r.add(rule, "instance-count", "", Violation,
				fmt.Sprintf("rule matched %d instance(s), fewer than the %d confirmed by hand on the reference tree: the construct this rule guards was removed or can no longer be recognised", counts[rule], r.mins[rule]), false)
		}
	}
	if os.Getenv("CONDUITLINT_OBS") == "1" {
		// debug: list every obligation
		for _, o := range r.Obs {
			fmt.Printf("  OB %s [%s] %s %s: %s\n", o.Rule, o.Key, o.Status, o.Pos, oneLine(o.Detail))
		}
	}
	// known findings
	known := loadKnown(filepath.Join(verifDir, "known-findings.json"))
	usedKnown := map[int]bool{}
	for i := range r.Obs {
		o := &r.Obs[i]
		if o.Status != Violation {
			continue
		}
		for ki, k := range known {
			if k.Status == "known" && k.Property == r.Property && k.Rule == o.Rule && k.Key == stripVariant(o.Key) {
				o.Known = true
				usedKnown[ki] = true
			}
		}
	}
	sort.SliceStable(r.Obs, func(i, j int) bool {
		if r.Obs[i].Rule != r.Obs[j].Rule {
			return ruleLess(r.Obs[i].Rule, r.Obs[j].Rule)
		}
		return r.Obs[i].Key < r.Obs[j].Key
	})
	var bad []Ob
	discharged := 0
	nontrivial := map[string]bool{}
	for _, o := range r.Obs {
		switch {
		case o.Status == OK:
			discharged++
		case o.Known:
		default:
			bad = append(bad, o)
		}
		if o.NonTrivial {
			nontrivial[o.Rule+"|"+o.Key] = true
		}
	}
	// samples: up to 3 per rule
	perRule := map[string]int{}
	var samples []any
	for _, o := range r.Obs {
		if perRule[o.Rule] < 3 {
			perRule[o.Rule]++
			samples = append(samples, o)
		}
	}
	ruleList := []map[string]any{}
	for _, id := range r.order {
		ruleList = append(ruleList, map[string]any{"rule": id, "what": r.Rules[id], "instances": counts[id], "min_instances": r.mins[id]})
	}
	nfuncs, npk := 0, 0
	if w != nil {
		npk = len(w.Pkgs)
		if w.Prog != nil {
			for _, p := range w.Pkgs {
				if sp := w.SSA[p.Types]; sp != nil {
					for _, m := range sp.Members {
						_ = m
						nfuncs++
					}
				}
			}
		}
	}
	cov := map[string]any{
		"explanation":         explanation,
		"not_decided":         notDecided,
		"obligations":         len(r.Obs),
		"discharged":          discharged,
		"evaluations":         len(r.Obs),
		"distinct_nontrivial": len(nontrivial),
		"rule":                "one obligation per (rule, construct) found in /repo's current source by the resolved-object tables; non-trivial = the obligation needed a path, dominance, lockset or value-flow argument over the SSA/CFG rather than a table lookup; distinct = distinct (rule, instance key)",
		"rules":               ruleList,
		"samples":             samples,
		"packages_loaded":     npk,
		"ssa_package_members": nfuncs,
		"known_findings":      countKnown(r.Obs),
		"notes":               r.notes,
		"checker_cmd":         "/verif/check " + r.Property + " " + r.Tier,
		"trusted_base":        []string{"go/types type checker", "x/tools go/ssa builder", "third-party primitives named in assumptions", "the hand-confirmed anchor tables in /verif/lint/rules"},
	}
	for k, v := range r.Extra {
		cov[k] = v
	}
	if w != nil {
		cov["load_seconds"] = w.LoadSeconds
		cov["ssa_seconds"] = w.SSASeconds
	}
	ev := Evidence{PropertyID: r.Property, Tier: r.Tier, Seed: seed, Level: "other", Coverage: cov, Assumptions: assumptions, WallS: time.Since(r.start).Seconds(), Violations: len(bad)}
	evdir := filepath.Join(verifDir, "evidence")
	if !r.NoWrite {
		_ = os.MkdirAll(evdir, 0o755)
		writeJSON(filepath.Join(evdir, r.Property+".json"), ev)
	}

	for _, o := range r.Obs {
		if o.Known {
			fmt.Printf("KNOWN-FINDING: property=%s %s %s (%s) %s\n", r.Property, o.Rule, o.Key, o.Pos, oneLine(o.Detail))
		}
	}
	fmt.Printf("%s %s: %d obligations, %d discharged, %d known finding(s), %d violation(s)/undecided/unresolved; %d rules; %.1fs\n",
		r.Property, r.Tier, len(r.Obs), discharged, countKnown(r.Obs), len(bad), len(r.order), time.Since(r.start).Seconds())
	vfile := filepath.Join(evdir, r.Property+".violations.json")
	if len(bad) == 0 {
		if !r.NoWrite {
			_ = os.Remove(vfile)
		}
		return 0
	}
	if !r.NoWrite {
		writeJSON(vfile, bad)
	}
	for _, o := range bad {
		fmt.Printf("  %s %s [%s] %s: %s\n", strings.ToUpper(o.Status), o.Rule, o.Key, o.Pos, oneLine(o.Detail))
	}
	fmt.Printf("VIOLATION property=%s replay=%s\n", r.Property, vfile)
	return 1
}

func oneLine(s string) string { return strings.Join(strings.Fields(s), " ") }

func countKnown(obs []Ob) int {
	n := 0
	for _, o := range obs {
		if o.Known {
			n++
		}
	}
	return n
}

func ruleLess(a, b string) bool {
	na, nb := ruleNum(a), ruleNum(b)
	if na != nb {
		return na < nb
	}
	return a < b
}

func ruleNum(s string) int {
	i := strings.LastIndex(s, ".R")
	if i < 0 {
		return 0
	}
	n := 0
	for _, c := range s[i+2:] {
		if c < '0' || c > '9' {
			break
		}
		n = n*10 + int(c-'0')
	}
	return n
}

func loadKnown(path string) []KnownFinding {
	b, err := os.ReadFile(path)
	if err != nil {
		return nil
	}
	var f struct {
		Findings []KnownFinding `json:"findings"`
	}
	if err := json.Unmarshal(b, &f); err != nil {
		fmt.Fprintf(os.Stderr, "known-findings.json: %v\n", err)
		return nil
	}
	return f.Findings
}

func writeJSON(path string, v any) {
	b, err := json.MarshalIndent(v, "", " ")
	if err != nil {
		fmt.Fprintf(os.Stderr, "marshal %s: %v\n", path, err)
		return
	}
	if err := os.WriteFile(path, append(b, '\n'), 0o644); err != nil {
		fmt.Fprintf(os.Stderr, "write %s: %v\n", path, err)
	}
}

// stripVariant removes the "[windows] " / "[386] " prefix the thorough tier puts
// on obligations of a build variant: the same construct is the same finding.
func stripVariant(key string) string {
	if strings.HasPrefix(key, "[") {
		if i := strings.Index(key, "] "); i > 0 {
			return key[i+2:]
		}
	}
	return key
}
