package kit

import (
	"go/types"
	"sort"
	"strings"

	"golang.org/x/tools/go/packages"
	"golang.org/x/tools/go/ssa"
)

// Pkg returns the product package with module-relative path rel.
func (w *World) Pkg(rel string) *packages.Package {
	if rel == "." {
		return w.ByPath[Module]
	}
	return w.ByPath[Module+"/"+rel]
}

// LookupType resolves a package-level named type.
func (w *World) LookupType(rel, name string) *types.Named {
	p := w.Pkg(rel)
	if p == nil {
		return nil
	}
	o := p.Types.Scope().Lookup(name)
	tn, ok := o.(*types.TypeName)
	if !ok {
		return nil
	}
	n, _ := tn.Type().(*types.Named)
	return n
}

// LookupFunc resolves "F", "T.M" or "(*T).M" in package rel. T may be an
// interface (the interface method object is returned).
func (w *World) LookupFunc(rel, name string) *types.Func {
	p := w.Pkg(rel)
	if p == nil {
		return nil
	}
	name = strings.TrimPrefix(name, "(*")
	name = strings.TrimPrefix(name, "(")
	name = strings.Replace(name, ").", ".", 1)
	if i := strings.Index(name, "."); i >= 0 {
		tname, mname := name[:i], name[i+1:]
		o := p.Types.Scope().Lookup(tname)
		tn, ok := o.(*types.TypeName)
		if !ok {
			return nil
		}
		T := tn.Type()
		obj, _, _ := types.LookupFieldOrMethod(types.NewPointer(T), true, p.Types, mname)
		if obj == nil {
			obj, _, _ = types.LookupFieldOrMethod(T, true, p.Types, mname)
		}
		f, _ := obj.(*types.Func)
		return f
	}
	f, _ := p.Types.Scope().Lookup(name).(*types.Func)
	return f
}

// LookupField resolves field fname of struct type tname in package rel
// (embedded fields are followed).
func (w *World) LookupField(rel, tname, fname string) *types.Var {
	p := w.Pkg(rel)
	if p == nil {
		return nil
	}
	tn, ok := p.Types.Scope().Lookup(tname).(*types.TypeName)
	if !ok {
		return nil
	}
	obj, _, _ := types.LookupFieldOrMethod(tn.Type(), true, p.Types, fname)
	v, _ := obj.(*types.Var)
	if v == nil || !v.IsField() {
		return nil
	}
	return v
}

// LookupObj resolves any package-level object (const, var, func, type).
func (w *World) LookupObj(rel, name string) types.Object {
	p := w.Pkg(rel)
	if p == nil {
		return nil
	}
	return p.Types.Scope().Lookup(name)
}

// ExtObj resolves a package-level object of any package in the import graph
// (e.g. "bytes", "Equal").
func (w *World) ExtObj(path, name string) types.Object {
	var found types.Object
	seen := map[*packages.Package]bool{}
	var visit func(p *packages.Package) bool
	visit = func(p *packages.Package) bool {
		if seen[p] {
			return false
		}
		seen[p] = true
		if p.PkgPath == path && p.Types != nil {
			found = p.Types.Scope().Lookup(name)
			return true
		}
		for _, ip := range p.Imports {
			if visit(ip) {
				return true
			}
		}
		return false
	}
	for _, p := range w.Pkgs {
		if visit(p) {
			break
		}
	}
	return found
}

// ExtMethod resolves method mname of named type tname of package path.
func (w *World) ExtMethod(path, tname, mname string) *types.Func {
	o := w.ExtObj(path, tname)
	tn, ok := o.(*types.TypeName)
	if !ok {
		return nil
	}
	obj, _, _ := types.LookupFieldOrMethod(types.NewPointer(tn.Type()), true, tn.Pkg(), mname)
	if obj == nil {
		obj, _, _ = types.LookupFieldOrMethod(tn.Type(), true, tn.Pkg(), mname)
	}
	f, _ := obj.(*types.Func)
	return f
}

// FuncSet is a set of function objects (compared by origin).
type FuncSet map[*types.Func]bool

func (s FuncSet) Has(f *types.Func) bool {
	if f == nil {
		return false
	}
	return s[f] || s[f.Origin()]
}

func (s FuncSet) Names() []string {
	var out []string
	for f := range s {
		out = append(out, f.FullName())
	}
	sort.Strings(out)
	return out
}

// Family returns fn together with every method in the product packages that is
// dispatch-related to it: if fn is a concrete method, the methods of in-repo
// named interfaces that fn's receiver implements; if fn is an interface
// method, every in-repo concrete method implementing that interface; closed
// transitively once (concrete -> ifaces -> concretes is NOT followed, so the
// family of a concrete method never contains sibling implementations).
func (w *World) Family(fn *types.Func) FuncSet {
	out := FuncSet{}
	if fn == nil {
		return out
	}
	out[fn] = true
	sig, _ := fn.Type().(*types.Signature)
	if sig == nil || sig.Recv() == nil {
		return out
	}
	recv := sig.Recv().Type()
	if types.IsInterface(recv) {
		iface, _ := recv.Underlying().(*types.Interface)
		for _, m := range w.implementors(iface, fn.Name()) {
			out[m] = true
		}
		// the same method reached through other interfaces that embed/duplicate it
		for _, im := range w.ifaceMethodsNamed(fn.Name()) {
			if types.Identical(im.Type().(*types.Signature).Params(), sig.Params()) && sameIfaceMethod(im, fn) {
				out[im] = true
			}
		}
		return out
	}
	// concrete: all interface methods of that name whose interface recv implements
	for _, im := range w.ifaceMethodsNamed(fn.Name()) {
		isig := im.Type().(*types.Signature)
		it, _ := isig.Recv().Type().Underlying().(*types.Interface)
		if it == nil {
			continue
		}
		if types.Implements(recv, it) || types.Implements(types.NewPointer(derefType(recv)), it) {
			out[im] = true
		}
	}
	return out
}

func sameIfaceMethod(a, b *types.Func) bool { return a == b }

func derefType(t types.Type) types.Type {
	if p, ok := t.(*types.Pointer); ok {
		return p.Elem()
	}
	return t
}

// ifaceMethodsNamed lists explicit methods called name of every named
// interface type declared in product packages (including unexported ones).
func (w *World) ifaceMethodsNamed(name string) []*types.Func {
	var out []*types.Func
	for _, p := range w.Pkgs {
		sc := p.Types.Scope()
		for _, n := range sc.Names() {
			tn, ok := sc.Lookup(n).(*types.TypeName)
			if !ok {
				continue
			}
			it, ok := tn.Type().Underlying().(*types.Interface)
			if !ok {
				continue
			}
			for i := 0; i < it.NumMethods(); i++ {
				m := it.Method(i)
				if m.Name() == name {
					out = append(out, m)
				}
			}
		}
	}
	return out
}

// implementors lists the concrete methods called name of product named types
// that implement iface.
func (w *World) implementors(iface *types.Interface, name string) []*types.Func {
	var out []*types.Func
	for _, p := range w.Pkgs {
		sc := p.Types.Scope()
		for _, n := range sc.Names() {
			tn, ok := sc.Lookup(n).(*types.TypeName)
			if !ok || types.IsInterface(tn.Type()) {
				continue
			}
			T := tn.Type()
			if _, isNamed := T.(*types.Named); !isNamed {
				continue
			}
			if T.(*types.Named).TypeParams().Len() > 0 {
				continue
			}
			pt := types.NewPointer(T)
			if !types.Implements(pt, iface) && !types.Implements(T, iface) {
				continue
			}
			obj, _, _ := types.LookupFieldOrMethod(pt, true, p.Types, name)
			if f, ok := obj.(*types.Func); ok {
				out = append(out, f)
			}
		}
	}
	return out
}

// Implementors lists the product named types implementing the interface
// type iface (non-generic).
func (w *World) Implementors(iface *types.Interface, includeGenerated bool) []*types.Named {
	var out []*types.Named
	for _, p := range w.Pkgs {
		if !includeGenerated && Generated(p.PkgPath) {
			continue
		}
		sc := p.Types.Scope()
		for _, n := range sc.Names() {
			tn, ok := sc.Lookup(n).(*types.TypeName)
			if !ok || types.IsInterface(tn.Type()) || tn.IsAlias() {
				continue
			}
			nt, ok := tn.Type().(*types.Named)
			if !ok || nt.TypeParams().Len() > 0 {
				continue
			}
			if types.Implements(types.NewPointer(nt), iface) || types.Implements(nt, iface) {
				out = append(out, nt)
			}
		}
	}
	return out
}

// SSAFunc returns the SSA function of a declared function or method.
func (w *World) SSAFunc(fn *types.Func) *ssa.Function {
	if fn == nil || w.Prog == nil {
		return nil
	}
	return w.Prog.FuncValue(fn)
}

// WithAnon returns fn and, recursively, all function literals inside it.
func WithAnon(fn *ssa.Function) []*ssa.Function {
	if fn == nil {
		return nil
	}
	out := []*ssa.Function{fn}
	for _, a := range fn.AnonFuncs {
		out = append(out, WithAnon(a)...)
	}
	return out
}

// FuncKey renders an *ssa.Function as a stable key (closures get $N suffixes
// from the SSA builder; the parent is included).
func FuncKey(fn *ssa.Function) string {
	if fn == nil {
		return "<nil>"
	}
	s := fn.String()
	s = strings.ReplaceAll(s, Module+"/", "")
	s = strings.ReplaceAll(s, Module, ".")
	return s
}

// ExtField resolves field fname of struct type tname of any package in the
// import graph.
func (w *World) ExtField(path, tname, fname string) *types.Var {
	tn, ok := w.ExtObj(path, tname).(*types.TypeName)
	if !ok {
		return nil
	}
	obj, _, _ := types.LookupFieldOrMethod(tn.Type(), true, tn.Pkg(), fname)
	v, _ := obj.(*types.Var)
	if v == nil || !v.IsField() {
		return nil
	}
	return v
}
