package kit

import (
	"fmt"
	"go/token"
	"go/types"
	"sort"
	"strings"

	"golang.org/x/tools/go/ssa"
)

// PathOf renders the access path of an address/value in terms of parameters,
// free variables and field names, so that two syntactic occurrences of the
// same expression (`s.ackMu`, `m.mu`) get the same string inside one function
// and its literals. Values that are not rooted in a parameter/free variable
// get a per-value unique name.
func PathOf(v ssa.Value) string {
	switch x := v.(type) {
	case *ssa.Parameter:
		// canonical names, independent of what the source calls them: the
		// receiver is "recv", other parameters are "arg<i>"
		if fn := x.Parent(); fn != nil {
			for i, p := range fn.Params {
				if p == x {
					if fn.Signature.Recv() != nil {
						if i == 0 {
							return "recv"
						}
						return fmt.Sprintf("arg%d", i-1)
					}
					return fmt.Sprintf("arg%d", i)
				}
			}
		}
		return x.Name()
	case *ssa.FreeVar:
		if b := ResolveFreeVar(x); b != nil {
			return PathOf(b)
		}
		return x.Name()
	case *ssa.FieldAddr:
		f := FieldOf(x)
		name := "?"
		if f != nil {
			name = f.Name()
		}
		return PathOf(x.X) + "." + name
	case *ssa.Field:
		f := FieldOf(x)
		name := "?"
		if f != nil {
			name = f.Name()
		}
		return PathOf(x.X) + "." + name
	case *ssa.UnOp:
		if x.Op == token.MUL {
			// load: a pointer-typed field load `*(&s.Instance)` is written s.Instance
			return PathOf(x.X)
		}
	case *ssa.Alloc:
		// a parameter spilled because a closure captures it: name it after the parameter
		var src ssa.Value
		n := 0
		for _, use := range CellUses(x) {
			if st, ok := use.Instr.(*ssa.Store); ok {
				addr := st.Addr
				if fv, ok := addr.(*ssa.FreeVar); ok {
					addr = ResolveFreeVar(fv)
				}
				if addr == ssa.Value(x) {
					n++
					src = st.Val
				}
			}
		}
		if n == 1 {
			if prm, ok := src.(*ssa.Parameter); ok {
				return PathOf(prm)
			}
			// a local initialised once with a copy of a rooted value
			// (`meta := v.Payload.Index`) and never written through afterwards
			// names the same value as what it was copied from
			if !writtenThrough(x) {
				if p := PathOf(src); strings.Contains(p, ".") {
					return p
				}
			}
		}
		// a local: name by its declared name plus identity (two locals may share a name)
		if x.Comment != "" {
			return fmt.Sprintf("%s@%p", x.Comment, x)
		}
	case *ssa.ChangeType:
		return PathOf(x.X)
	case *ssa.MakeInterface:
		return PathOf(x.X)
	case *ssa.Global:
		return x.Name()
	}
	return fmt.Sprintf("<%s@%p>", v.Name(), v)
}

// LockSpec names the lock operations recognised by the lockset analysis.
type LockSpec struct {
	Acquire FuncSet // Lock, RLock (receiver = mutex address)
	Release FuncSet // Unlock, RUnlock
}

// StdLockSpec resolves sync.Mutex / sync.RWMutex operations.
func (w *World) StdLockSpec() LockSpec {
	ls := LockSpec{Acquire: FuncSet{}, Release: FuncSet{}}
	for _, t := range []string{"Mutex", "RWMutex"} {
		for _, m := range []string{"Lock", "RLock", "TryLock"} {
			if f := w.ExtMethod("sync", t, m); f != nil && m != "TryLock" {
				ls.Acquire[f] = true
			}
		}
		for _, m := range []string{"Unlock", "RUnlock"} {
			if f := w.ExtMethod("sync", t, m); f != nil {
				ls.Release[f] = true
			}
		}
	}
	return ls
}

type lockset map[string]bool

func (l lockset) clone() lockset {
	o := lockset{}
	for k := range l {
		o[k] = true
	}
	return o
}

func intersect(a, b lockset) lockset {
	o := lockset{}
	for k := range a {
		if b[k] {
			o[k] = true
		}
	}
	return o
}

func (l lockset) equal(o lockset) bool {
	if len(l) != len(o) {
		return false
	}
	for k := range l {
		if !o[k] {
			return false
		}
	}
	return true
}

func (l lockset) String() string {
	var ks []string
	for k := range l {
		ks = append(ks, k)
	}
	sort.Strings(ks)
	return "{" + strings.Join(ks, ",") + "}"
}

// LockPathOfCall returns the access path of the mutex a Lock/Unlock call
// operates on.
func LockPathOfCall(c *ssa.CallCommon) string {
	if len(c.Args) == 0 {
		return ""
	}
	return PathOf(c.Args[0])
}

// Locksets computes, for every instruction of fn, the set of mutex access
// paths that are held on every path reaching it (forward must-analysis, meet =
// intersection). entry is the lockset assumed at function entry (for
// requires-lock functions). A deferred Unlock does not release within the
// function body.
func Locksets(fn *ssa.Function, spec LockSpec, entry []string) map[ssa.Instruction]string {
	res, _ := locksetsRaw(fn, spec, entry)
	out := map[ssa.Instruction]string{}
	for k, v := range res {
		out[k] = v.String()
	}
	return out
}

func locksetsRaw(fn *ssa.Function, spec LockSpec, entry []string) (map[ssa.Instruction]lockset, map[*ssa.BasicBlock]lockset) {
	in := map[*ssa.BasicBlock]lockset{}
	if len(fn.Blocks) == 0 {
		return nil, nil
	}
	e := lockset{}
	for _, p := range entry {
		e[p] = true
	}
	in[fn.Blocks[0]] = e
	work := []*ssa.BasicBlock{fn.Blocks[0]}
	transfer := func(b *ssa.BasicBlock, s lockset, record map[ssa.Instruction]lockset) lockset {
		cur := s.clone()
		for _, ins := range b.Instrs {
			if record != nil {
				record[ins] = cur.clone()
			}
			call, ok := ins.(*ssa.Call)
			if !ok {
				continue
			}
			callee := CalleeOf(call.Common())
			switch {
			case spec.Acquire.Has(callee):
				cur[LockPathOfCall(call.Common())] = true
			case spec.Release.Has(callee):
				delete(cur, LockPathOfCall(call.Common()))
			}
		}
		return cur
	}
	for len(work) > 0 {
		b := work[0]
		work = work[1:]
		out := transfer(b, in[b], nil)
		for _, s := range b.Succs {
			old, seen := in[s]
			var nw lockset
			if !seen {
				nw = out.clone()
			} else {
				nw = intersect(old, out)
			}
			if !seen || !nw.equal(old) {
				in[s] = nw
				work = append(work, s)
			}
		}
	}
	rec := map[ssa.Instruction]lockset{}
	for _, b := range fn.Blocks {
		if s, ok := in[b]; ok {
			transfer(b, s, rec)
		}
	}
	return rec, in
}

// GuardedAccess is one access to a guarded field.
type GuardedAccess struct {
	Instr ssa.Instruction
	Field *types.Var
	Base  string // access path of the struct
	Held  string
	OK    bool
}

// CheckGuarded evaluates, for every FieldAddr of one of fields in fn, whether
// the mutex `<base>.<mutexField>` is in the must-lockset at that point.
func CheckGuarded(fn *ssa.Function, spec LockSpec, entry []string, mutexField string, fields []*types.Var) []GuardedAccess {
	rec, _ := locksetsRaw(fn, spec, entry)
	var out []GuardedAccess
	for _, b := range fn.Blocks {
		for _, ins := range b.Instrs {
			fa, ok := ins.(*ssa.FieldAddr)
			if !ok {
				continue
			}
			f := FieldOf(fa)
			match := false
			for _, g := range fields {
				if SameField(f, g) {
					match = true
				}
			}
			if !match {
				continue
			}
			base := PathOf(fa.X)
			held := rec[ins]
			want := base + "." + mutexField
			out = append(out, GuardedAccess{Instr: ins, Field: f, Base: base, Held: held.String(), OK: held[want]})
		}
	}
	return out
}

// writtenThrough reports whether a field or element of the local cell is
// assigned (directly or through a captured reference) after its creation.
func writtenThrough(a *ssa.Alloc) bool {
	var visit func(addr ssa.Value, depth int) bool
	visit = func(addr ssa.Value, depth int) bool {
		if depth > 4 {
			return true
		}
		refs := addr.Referrers()
		if refs == nil {
			return false
		}
		for _, r := range *refs {
			switch y := r.(type) {
			case *ssa.FieldAddr:
				if y.X == addr {
					if frefs := y.Referrers(); frefs != nil {
						for _, fr := range *frefs {
							if st, ok := fr.(*ssa.Store); ok && st.Addr == ssa.Value(y) {
								return true
							}
						}
					}
					if visit(y, depth+1) {
						return true
					}
				}
			case *ssa.IndexAddr:
				if y.X == addr {
					if frefs := y.Referrers(); frefs != nil {
						for _, fr := range *frefs {
							if st, ok := fr.(*ssa.Store); ok && st.Addr == ssa.Value(y) {
								return true
							}
						}
					}
				}
			case ssa.CallInstruction:
				// the address escapes to a call: assume it may be written
				for _, arg := range y.Common().Args {
					if arg == addr {
						return true
					}
				}
			case *ssa.MakeClosure:
				return true
			}
		}
		return false
	}
	return visit(a, 0)
}
