package demo

import (
	"testing"

	"github.com/conduitio/conduit/pkg/foundation/cerrors"
	"github.com/conduitio/conduit/pkg/foundation/cerrors/conduiterr"
	"github.com/conduitio/conduit/pkg/lifecycle-poc/funnel"
)

// F14: the exact wrapping expression of funnel.Worker.Nack (worker.go:1000).
func TestF14(t *testing.T) {
	posErr := conduiterr.New(funnel.CodeEmptySourcePosition, "refusing to ack an empty position")
	dlqErr := cerrors.FatalError(cerrors.New("DLQ nack threshold exceeded"))
	err := cerrors.FatalError(cerrors.Errorf("%w (while handling: %w)", posErr, dlqErr))
	ce, ok := conduiterr.Get(err)
	t.Logf("message: %q", err.Error())
	t.Logf("IsFatalError=%v  conduiterr.Get ok=%v code=%v  Is(posErr)=%v Is(dlqErr)=%v",
		cerrors.IsFatalError(err), ok, ce, cerrors.Is(err, posErr), cerrors.Is(err, dlqErr))
	if !ok {
		t.Log("F14 CONFIRMED: the coded error is no longer reachable through the wrapper (xerrors.Errorf supports a single %w)")
	}
}
