package demo

import (
	"context"
	"testing"
	"time"

	"github.com/conduitio/conduit-commons/opencdc"
	"github.com/conduitio/conduit/pkg/connector"
	"github.com/conduitio/conduit/pkg/foundation/log"
	"github.com/conduitio/conduit/pkg/lifecycle-poc/funnel"
	"github.com/conduitio/conduit/pkg/lifecycle/stream"
)

type countingDest struct{ writes int }

func (d *countingDest) ID() string                 { return "dlq" }
func (d *countingDest) Open(context.Context) error { return nil }
func (d *countingDest) Write(_ context.Context, r []opencdc.Record) error {
	d.writes += len(r)
	return nil
}
func (d *countingDest) Ack(context.Context) ([]connector.DestinationAck, error) { return nil, nil }
func (d *countingDest) Teardown(context.Context) error                           { return nil }
func (d *countingDest) Errors() <-chan error                                     { return nil }

// F17 (v2): a record nacked with a nil reason (sdk.ErrorRecord{} as produced by
// standalone/proto.go errorRecord for an ErrorRecord without an error) and the
// default DLQ window (size 1, threshold 0 = "tolerate none").
func TestF17v2(t *testing.T) {
	d := &countingDest{}
	dlq := funnel.NewDLQ("dlq", d, log.Nop(), &funnel.NoOpConnectorMetrics{}, 1, 0)
	b := funnel.NewBatch([]opencdc.Record{{Position: []byte("p1")}})
	b.Nack(0, nil) // what ProcessorTask.markBatchRecords does for sdk.ErrorRecord{Error: nil}
	n, err := dlq.Nack(context.Background(), b, "proc")
	t.Logf("F17 v2: DLQ.Nack -> stored=%d err=%v dlqWrites=%d", n, err, d.writes)
	if n == 0 && err == nil {
		t.Log("F17 v2 CONFIRMED: refused nack reported as success; Worker.Nack returns nil, record neither DLQ'd nor acked, later acks move the position past it")
	}
}

type dlqHandler struct{ writes int }

func (h *dlqHandler) Open(context.Context) error { return nil }
func (h *dlqHandler) Write(context.Context, opencdc.Record) error {
	h.writes++
	return nil
}
func (h *dlqHandler) Close(context.Context) error { return nil }

// F17 (v1): same reply shape through DLQHandlerNode with the default window.
func TestF17v1(t *testing.T) {
	h := &dlqHandler{}
	n := &stream.DLQHandlerNode{Name: "dlq", Handler: h, WindowSize: 1, WindowNackThreshold: 0}
	n.SetLogger(log.Nop())
	n.Add(1)
	ctx, cancel := context.WithCancel(context.Background())
	defer cancel()
	go func() { _ = n.Run(ctx) }()
	time.Sleep(100 * time.Millisecond)
	msg := &stream.Message{Ctx: ctx, Record: opencdc.Record{Position: []byte("p1")}}
	err := n.Nack(msg, stream.NackMetadata{Reason: nil, NodeID: "proc"})
	t.Logf("F17 v1: DLQHandlerNode.Nack -> err=%v dlqWrites=%d", err, h.writes)
	if err == nil && h.writes == 0 {
		t.Log("F17 v1 CONFIRMED: nack 'succeeds' without a DLQ write; SourceAckerNode's nack handler then acks the record to the source")
	}
	n.Done()
}
