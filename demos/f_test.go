package demo

import (
	"context"
	"errors"
	"testing"
	"time"

	"github.com/conduitio/conduit-commons/database"
	"github.com/conduitio/conduit-commons/database/inmemory"
	"github.com/conduitio/conduit-commons/opencdc"
	"github.com/conduitio/conduit/pkg/connector"
	"github.com/conduitio/conduit/pkg/foundation/log"
	"github.com/conduitio/conduit/pkg/lifecycle-poc/funnel"
)

// ---- F5: destination that answers every Ack() with an empty ack list ----
type emptyAckDest struct{ writes int }

func (d *emptyAckDest) ID() string                                  { return "d" }
func (d *emptyAckDest) Open(context.Context) error                  { return nil }
func (d *emptyAckDest) Write(context.Context, []opencdc.Record) error { d.writes++; return nil }
func (d *emptyAckDest) Ack(context.Context) ([]connector.DestinationAck, error) {
	return []connector.DestinationAck{}, nil
}
func (d *emptyAckDest) Teardown(context.Context) error { return nil }
func (d *emptyAckDest) Errors() <-chan error           { return nil }

func TestF5(t *testing.T) {
	d := &emptyAckDest{}
	task := funnel.NewDestinationTask("d", d, log.Nop(), &funnel.NoOpConnectorMetrics{})
	b := funnel.NewBatch([]opencdc.Record{{Position: []byte("p1")}, {Position: []byte("p2")}, {Position: []byte("p3")}})
	err := task.Do(context.Background(), b)
	t.Logf("F5: Do returned err=%v after %d write(s) with ZERO acks received", err, d.writes)
	if err == nil {
		t.Log("F5 CONFIRMED: batch reported successfully written although no record was confirmed")
	}
}

// ---- F1: store Set fails inside the persister transaction, Commit succeeds ----
type failSetDB struct {
	database.DB
	fail bool
}

func (f *failSetDB) Set(ctx context.Context, key string, v []byte) error {
	if f.fail {
		return errors.New("injected Set failure")
	}
	return f.DB.Set(ctx, key, v)
}

func TestF1(t *testing.T) {
	db := &failSetDB{DB: &inmemory.DB{}}
	p := connector.NewPersister(log.Nop(), db, time.Hour, 1000)
	inst := &connector.Instance{ID: "c1", Type: connector.TypeSource, State: connector.SourceState{Position: []byte("pos-7")}}
	inst.Init(log.Nop(), p)
	db.fail = true
	got := make(chan error, 1)
	if err := p.Persist(context.Background(), inst, func(err error) { got <- err }); err != nil {
		t.Fatal(err)
	}
	p.Flush(context.Background())
	p.WaitPendingWrites()
	cbErr := <-got
	_, getErr := db.DB.Get(context.Background(), "connector:instance:c1")
	t.Logf("F1: callback err=%v ; stored record lookup err=%v", cbErr, getErr)
	if cbErr == nil && getErr != nil {
		t.Log("F1 CONFIRMED: callback reports success although the position was never stored")
	}
}
