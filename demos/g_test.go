package demo

import (
	"context"
	"fmt"
	"testing"
	"time"

	"github.com/conduitio/conduit-commons/config"
	"github.com/conduitio/conduit-commons/database/inmemory"
	"github.com/conduitio/conduit-commons/opencdc"
	sdk "github.com/conduitio/conduit-processor-sdk"
	"github.com/conduitio/conduit/pkg/connector"
	"github.com/conduitio/conduit/pkg/foundation/log"
	"github.com/conduitio/conduit/pkg/lifecycle-poc/funnel"
	"github.com/conduitio/conduit/pkg/lifecycle/stream"
	"github.com/conduitio/conduit/pkg/plugin/processor/egress"
	"github.com/conduitio/conduit/pkg/processor"
)

type fakeProc struct {
	sdk.UnimplementedProcessor
	out func([]opencdc.Record) []sdk.ProcessedRecord
}

func (p *fakeProc) Specification() (sdk.Specification, error) { return sdk.Specification{Name: "fake"}, nil }
func (p *fakeProc) Configure(context.Context, config.Config) error { return nil }
func (p *fakeProc) Open(context.Context) error                         { return nil }
func (p *fakeProc) Teardown(context.Context) error                     { return nil }
func (p *fakeProc) Process(_ context.Context, in []opencdc.Record) []sdk.ProcessedRecord {
	return p.out(in)
}

func catch(name string, t *testing.T, f func()) {
	defer func() {
		if r := recover(); r != nil {
			t.Logf("%s CONFIRMED: engine code panicked: %v", name, r)
		}
	}()
	f()
	t.Logf("%s: no panic", name)
}

// F2: funnel ProcessorTask, processor returns MORE results than inputs.
func TestF2(t *testing.T) {
	fp := &fakeProc{out: func(in []opencdc.Record) []sdk.ProcessedRecord {
		return []sdk.ProcessedRecord{sdk.FilterRecord{}, sdk.FilterRecord{}}
	}}
	task := funnel.NewProcessorTask("p", fp, log.Nop(), &funnel.NoOpProcessorMetrics{})
	b := funnel.NewBatch([]opencdc.Record{{Position: []byte("p1")}})
	catch("F2", t, func() { _ = task.Do(context.Background(), b) })
}

type reg struct{ p sdk.Processor }

func (r reg) NewProcessor(context.Context, string, string, egress.Policy) (sdk.Processor, error) {
	return r.p, nil
}

// F3: conditional processor, plugin returns fewer results than kept records.
func TestF3(t *testing.T) {
	fp := &fakeProc{out: func(in []opencdc.Record) []sdk.ProcessedRecord {
		return []sdk.ProcessedRecord{sdk.SingleRecord(in[0])} // 1 result for 2 kept records
	}}
	svc := processor.NewService(log.Nop(), &inmemory.DB{}, reg{fp})
	inst, err := svc.Create(context.Background(), "proc1", "fake", processor.Parent{ID: "pl", Type: processor.ParentTypePipeline},
		processor.Config{Workers: 1}, processor.ProvisionTypeAPI, `{{ ne (printf "%s" .Position) "skip" }}`)
	if err != nil {
		t.Fatal(err)
	}
	rp, err := svc.MakeRunnableProcessor(context.Background(), inst)
	if err != nil {
		t.Fatal(err)
	}
	recs := []opencdc.Record{{Position: []byte("a")}, {Position: []byte("b")}, {Position: []byte("skip")}}
	catch("F3", t, func() {
		out := rp.Process(context.Background(), recs)
		t.Logf("F3: out len=%d", len(out))
	})
}

// F9: the loop of updateConnectorAction.update over live ProcessorIDs.
func TestF9(t *testing.T) {
	db := &inmemory.DB{}
	p := connector.NewPersister(log.Nop(), db, time.Hour, 1000)
	svc := connector.NewService(log.Nop(), db, p)
	ctx := context.Background()
	c, err := svc.Create(ctx, "c1", connector.TypeSource, "builtin:x", "pl", connector.Config{Name: "c1"}, connector.ProvisionTypeConfig)
	if err != nil {
		t.Fatal(err)
	}
	for _, id := range []string{"a", "b", "c"} {
		if _, err := svc.AddProcessor(ctx, "c1", id); err != nil {
			t.Fatal(err)
		}
	}
	// verbatim shape of provisioning.updateConnectorAction.update
	for _, procID := range c.ProcessorIDs {
		if _, err := svc.RemoveProcessor(ctx, "c1", procID); err != nil {
			t.Logf("F9 CONFIRMED: removing %q failed: %v (remaining %v)", procID, err, c.ProcessorIDs)
			return
		}
	}
	t.Log("F9: loop completed")
}

// F4: v1 DestinationAckerNode with a destination answering an empty ack list.
type emptyAckDestV1 struct{ emptyAckDest }

func (d *emptyAckDestV1) Stop(context.Context, opencdc.Position) error { return nil }

func TestF4(t *testing.T) {
	if testing.Short() {
		t.Skip()
	}
	n := &stream.DestinationAckerNode{Name: "acker", Destination: &emptyAckDestV1{}}
	n.SetLogger(log.Nop())
	in := make(chan *stream.Message)
	n.Sub(in)
	ctx, cancel := context.WithCancel(context.Background())
	defer cancel()
	go func() { _ = n.Run(ctx) }()
	msg := &stream.Message{Ctx: ctx, Record: opencdc.Record{Position: []byte("p1")}}
	msg.RegisterNackHandler(func(*stream.Message, stream.NackMetadata) error { return nil })
	in <- msg
	time.Sleep(300 * time.Millisecond)
	fmt.Println("F4: still alive (no panic)")
}
