package demo

import (
	"context"
	"errors"
	"testing"
	"time"

	"github.com/conduitio/conduit-commons/database"
	"github.com/conduitio/conduit-commons/database/inmemory"
	"github.com/conduitio/conduit/pkg/connector"
	"github.com/conduitio/conduit/pkg/foundation/log"
)

type failTxDB struct{ database.DB }

func (f *failTxDB) NewTransaction(ctx context.Context, update bool) (database.Transaction, context.Context, error) {
	return nil, ctx, errors.New("injected NewTransaction failure")
}

// F15: the final flush cannot open a transaction (store answers with an error).
func TestF15(t *testing.T) {
	db := &failTxDB{DB: &inmemory.DB{}}
	p := connector.NewPersister(log.Nop(), db, time.Hour, 1000)
	inst := &connector.Instance{ID: "c1", Type: connector.TypeSource, State: connector.SourceState{Position: []byte("pos-7")}}
	inst.Init(log.Nop(), p)
	if err := p.Persist(context.Background(), inst, func(error) {}); err != nil {
		t.Fatal(err)
	}
	p.Flush(context.Background())
	done := make(chan struct{})
	go func() { p.WaitPendingWrites(); close(done) }()
	select {
	case <-done:
		t.Log("F15: WaitPendingWrites returned")
	case <-time.After(2 * time.Second):
		t.Log("F15 CONFIRMED: WaitPendingWrites (what v1 StopAndWait and runtime shutdown call, unbounded) still blocked after 2s; callbacksDone of the failed generation is never closed and the callback was never invoked")
	}
}
